(* AsmProofs.v — lemmas for C16: on valid sources outside the finding classes the assembler
   model emits exactly the encoding of the instructions that were written; composition with the
   C14 round trip (CodecProofs.prog_roundtrip_lemma). *)
From Coq Require Import Lia ZArith.
From Coq Require Import ZifyN ZifyNat ZifyBool.
From Vise Require Import Bytes Errors Consts Codec BytesProofs CodecProofs AsmModel.
Local Open Scope N_scope.

(* ---- lexer ------------------------------------------------------------------------- *)

Lemma span_all p r : forallb p r = true -> span p r = (r, []).
Proof.
  induction r as [|c r IH]; cbn [forallb span]; [reflexivity|].
  intros H. apply andb_true_iff in H as [Hc Hr]. rewrite Hc, IH by exact Hr. reflexivity.
Qed.

Lemma lex_fuel_nil f : lex_fuel f [] = Some [].
Proof. destruct f; reflexivity. Qed.

Lemma forallb_impl {A} (p q : A -> bool) l :
  (forall x, p x = true -> q x = true) -> forallb p l = true -> forallb q l = true.
Proof.
  intros Hpq. induction l as [|x l IH]; cbn [forallb]; [reflexivity|].
  intros H. apply andb_true_iff in H as [Hx Hl]. rewrite (Hpq x Hx), IH by exact Hl. reflexivity.
Qed.

Lemma lex_upper c r : is_upper c = true -> lex (c :: r) = None.
Proof. intros H. unfold lex. cbn [List.length lex_fuel]. rewrite H. reflexivity. Qed.

Lemma lex_sym_word c r :
  is_upper c = false -> is_digit c = false -> is_sym_start c = true -> forallb is_word r = true ->
  lex (c :: r) = Some [TSym (c :: r)].
Proof.
  intros Hu Hd Hs Hr. unfold lex. cbn [List.length lex_fuel]. rewrite Hu, Hd, Hs.
  rewrite span_all by exact Hr. rewrite lex_fuel_nil. reflexivity.
Qed.

Lemma lex_digits c r :
  is_digit c = true -> forallb is_digit r = true -> lex (c :: r) = Some [TSize (c :: r)].
Proof.
  intros Hd Hr. unfold lex. cbn [List.length lex_fuel].
  assert (Hu : is_upper c = false) by (unfold is_upper, is_digit in *; lia).
  rewrite Hu, Hd. rewrite span_all by exact Hr. rewrite lex_fuel_nil. reflexivity.
Qed.

Lemma alnum_word x : is_alnum x = true -> is_word x = true.
Proof. unfold is_alnum, is_word. intros ->. reflexivity. Qed.

Lemma lex_sym_text a : is_sym_text a = true -> lex a = None \/ lex a = Some [TSym a].
Proof.
  destruct a as [|c r]; cbn [is_sym_text]; [discriminate|].
  intros H. apply andb_true_iff in H as [Hc Hr].
  destruct (is_upper c) eqn:Hu; [left; apply lex_upper; exact Hu|right].
  apply lex_sym_word; [exact Hu| | |exact Hr].
  - unfold is_alpha, is_upper, is_lower, is_digit in *. lia.
  - unfold is_sym_start. rewrite Hc. reflexivity.
Qed.

Lemma lex_special a : is_special_node a = true -> lex a = Some [TSym a].
Proof.
  destruct a as [|c [|d r]]; cbn [is_special_node]; try discriminate.
  intros H. apply lex_sym_word; [| | |reflexivity];
    unfold is_upper, is_digit, is_sym_start, is_alpha, is_lower in *; lia.
Qed.

Lemma lex_node a : is_node_text a = true -> lex a = None \/ lex a = Some [TSym a].
Proof.
  unfold is_node_text. intros H. apply orb_true_iff in H as [H|H].
  - apply lex_sym_text; exact H.
  - right; apply lex_special; exact H.
Qed.

Lemma num_text_cons s : is_num_text s = true -> exists c r, s = c :: r /\ is_digit c = true /\ forallb is_digit r = true.
Proof.
  destruct s as [|c r]; [discriminate|]. unfold is_num_text. intros H.
  apply andb_true_iff in H as [_ H]. cbn [forallb] in H. apply andb_true_iff in H as [Hc Hr].
  exists c, r. auto.
Qed.

Lemma lex_num s : is_num_text s = true -> lex s = Some [TSize s].
Proof.
  intros H. destruct (num_text_cons s H) as [c [r [-> [Hc Hr]]]]. apply lex_digits; assumption.
Qed.

(* a documented selector outside the two lossy classes is one token: the whole text *)
Lemma lex_sel s :
  is_selector_text s = true -> digitprefix_text s = false ->
  lex s = None \/ lex s = Some [TSym s] \/ (lex s = Some [TSize s] /\ is_num_text s = true).
Proof.
  unfold is_selector_text. intros H Hdp. apply orb_true_iff in H as [H|H].
  - apply bytes_eqb_eq in H. subst s. right; left. reflexivity.
  - apply andb_true_iff in H as [Hne Hal]. destruct s as [|c r]; [discriminate|].
    destruct (is_upper c) eqn:Hu; [left; apply lex_upper; exact Hu|right].
    cbn [forallb] in Hal. apply andb_true_iff in Hal as [Hc Hr].
    destruct (is_digit c) eqn:Hd.
    + right. unfold digitprefix_text in Hdp. cbn [starts_with] in Hdp. rewrite Hd in Hdp.
      cbn [andb] in Hdp. apply negb_false_iff in Hdp.
      pose proof Hdp as Hall. cbn [forallb] in Hdp. apply andb_true_iff in Hdp as [_ Hdr].
      split; [apply lex_digits; assumption|].
      unfold is_num_text. rewrite Hall. reflexivity.
    + left. apply lex_sym_word; [exact Hu|exact Hd| |].
      * unfold is_sym_start. unfold is_alnum in Hc. rewrite Hd in Hc. rewrite orb_false_r in Hc.
        rewrite Hc. reflexivity.
      * eapply forallb_impl; [exact alnum_word|exact Hr].
Qed.

(* ---- characters are bytes ------------------------------------------------------------ *)

Lemma forallb_bytes_ok (p : N -> bool) l :
  (forall x, p x = true -> x < 256) -> forallb p l = true -> bytes_ok l.
Proof.
  intros Hp H. unfold bytes_ok. apply Forall_forall. intros x Hin.
  rewrite forallb_forall in H. apply Hp, H, Hin.
Qed.

Lemma word_lt x : is_word x = true -> x < 256.
Proof. unfold is_word, is_alpha, is_upper, is_lower, is_digit. lia. Qed.
Lemma alnum_lt x : is_alnum x = true -> x < 256.
Proof. intros H. apply word_lt, alnum_word, H. Qed.

Lemma sym_text_wf s : is_sym_text s = true -> len s <= 255 -> wf_sym s.
Proof.
  destruct s as [|c r]; [discriminate|]. cbn [is_sym_text]. intros H Hl.
  apply andb_true_iff in H as [Hc Hr]. unfold wf_sym. split; [|split; [rewrite len_cons; lia|exact Hl]].
  unfold bytes_ok. constructor.
  - unfold is_alpha, is_upper, is_lower in Hc. lia.
  - apply (forallb_bytes_ok is_word); [exact word_lt|exact Hr].
Qed.

Lemma node_text_wf s : is_node_text s = true -> len s <= 255 -> wf_sym s.
Proof.
  unfold is_node_text. intros H Hl. apply orb_true_iff in H as [H|H]; [apply sym_text_wf; assumption|].
  destruct s as [|c [|d r]]; cbn [is_special_node] in H; try discriminate.
  unfold wf_sym. split; [|split; [rewrite len_cons; lia|exact Hl]].
  unfold bytes_ok. constructor; [lia|constructor].
Qed.

Lemma sel_text_wf s : is_selector_text s = true -> len s <= 255 -> wf_sym s.
Proof.
  unfold is_selector_text. intros H Hl. apply orb_true_iff in H as [H|H].
  - apply bytes_eqb_eq in H. subst s. unfold wf_sym, bytes_ok. split; [constructor; [lia|constructor]|].
    cbn. lia.
  - apply andb_true_iff in H as [Hne Hal]. unfold wf_sym. split; [|split; [|exact Hl]].
    + apply (forallb_bytes_ok is_alnum); [exact alnum_lt|exact Hal].
    + destruct s; [discriminate|]. rewrite len_cons. lia.
Qed.

Lemma node_not_star s : is_node_text s = true -> bytes_eqb s [42] = false.
Proof.
  intros H. destruct (bytes_eqb s [42]) eqn:E; [|reflexivity].
  apply bytes_eqb_eq in E. subst s. discriminate H.
Qed.

Lemma sym_is_node s : is_sym_text s = true -> is_node_text s = true.
Proof. unfold is_node_text. intros ->. reflexivity. Qed.

(* ---- number conversion ---------------------------------------------------------------- *)

Notation F10 := (fold_left (fun a c => a * 10 + (c - 48))).
Notation F8 := (fold_left (fun a c => a * 8 + (c - 48))).

Lemma F10_ge r : forall acc, acc <= F10 r acc.
Proof.
  induction r as [|c r IH]; intros acc; cbn [fold_left]; [lia|].
  specialize (IH (acc * 10 + (c - 48))). lia.
Qed.

Lemma F8_small r : forall acc, F10 r acc < 8 -> F8 r acc = F10 r acc.
Proof.
  induction r as [|c r IH]; intros acc H; cbn [fold_left] in *; [reflexivity|].
  pose proof (F10_ge r (acc * 10 + (c - 48))) as Hge.
  assert (acc = 0) by lia. subst acc. apply IH. exact H.
Qed.

(* a digit string that is not in the octal class converts to its decimal value *)
Lemma parse_uint0_value bits d n :
  is_num_text d = true -> octal_text d = false -> parse_uint0 bits d = Some n ->
  n = dec_value d /\ n < 2 ^ bits.
Proof.
  intros Hnum Hoct Hp. destruct (num_text_cons d Hnum) as [c [r [-> [Hc Hr]]]].
  unfold octal_text in Hoct. rewrite Hnum in Hoct. cbn [andb starts_with] in Hoct.
  unfold parse_uint0 in Hp.
  destruct ((c =? 48) && negb (len r =? 0)) eqn:Hlead.
  - apply andb_true_iff in Hlead as [Hc0 _]. apply N.eqb_eq in Hc0. subst c.
    cbn [N.eqb Pos.eqb andb] in Hoct. apply N.leb_gt in Hoct.
    destruct (forallb (fun x => x <? 56) r); [|discriminate].
    destruct (N.ltb_spec (digs_val 8 r) (2 ^ bits)) as [Hlt|]; [|discriminate].
    inversion Hp; subst n. clear Hp.
    assert (Hd : dec_value (48 :: r) = F10 r 0) by reflexivity.
    assert (He : digs_val 8 r = F10 r 0).
    { unfold digs_val. apply F8_small. rewrite <- Hd. exact Hoct. }
    rewrite He in *. rewrite Hd. split; [reflexivity|exact Hlt].
  - destruct (N.ltb_spec (digs_val 10 (c :: r)) (2 ^ bits)) as [Hlt|]; [|discriminate].
    inversion Hp; subst n. split; [reflexivity|exact Hlt].
Qed.

Lemma numnorm_free_not_octal d :
  is_num_text d = true -> numnorm_text d = false -> octal_text d = false.
Proof.
  intros Hnum Hnn. destruct (num_text_cons d Hnum) as [c [r [-> [Hc Hr]]]].
  unfold numnorm_text, octal_text in *. rewrite Hnum in *. cbn [andb starts_with] in *.
  destruct (N.eqb_spec 48 c) as [<-|]; [|reflexivity].
  rewrite andb_true_r in Hnn. apply N.ltb_ge in Hnn. rewrite len_cons in Hnn.
  assert (Hr0 : len r = 0) by lia. destruct r; [reflexivity|]. rewrite len_cons in Hr0. lia.
Qed.

Lemma dec_value_snoc d c : dec_value (d ++ [c]) = dec_value d * 10 + (c - 48).
Proof. unfold dec_value, digs_val. rewrite fold_left_app. reflexivity. Qed.

(* decimal printing inverts decimal reading on strings without a leading zero *)
Lemma dec_digits_canon d :
  d <> [] -> forallb is_digit d = true -> starts_with (N.eqb 48) d = false ->
  0 < dec_value d
  /\ 2 ^ (len d - 1) <= dec_value d
  /\ forall f acc, (List.length d <= f)%nat -> dec_digits f (dec_value d) acc = (d ++ acc)%list.
Proof.
  induction d as [|c d IH] using rev_ind; [congruence|]. intros _ Hdig Hst.
  rewrite forallb_app in Hdig. apply andb_true_iff in Hdig as [Hd Hc].
  cbn [forallb] in Hc. rewrite andb_true_r in Hc.
  rewrite dec_value_snoc.
  assert (Hk : c - 48 < 10 /\ 48 + (c - 48) = c) by (unfold is_digit in Hc; lia).
  destruct Hk as [Hk Hkc].
  destruct d as [|c0 d'].
  - (* one digit, not 0 *)
    cbn [app starts_with] in Hst. apply N.eqb_neq in Hst.
    change (dec_value []) with 0. cbn [app].
    assert (Hpos : 0 < c - 48) by (unfold is_digit in Hc; lia).
    split; [lia|]. split; [cbn; lia|].
    intros f acc Hf. destruct f as [|f]; [cbn in Hf; lia|].
    cbn [dec_digits]. replace (0 * 10 + (c - 48)) with (c - 48) by lia.
    rewrite N.mod_small by lia. rewrite N.div_small by lia. cbn [N.eqb]. rewrite Hkc. reflexivity.
  - assert (Hne : c0 :: d' <> []) by discriminate.
    assert (Hst' : starts_with (N.eqb 48) (c0 :: d') = false) by exact Hst.
    destruct (IH Hne Hd Hst') as [Hpos [Hpow Hfuel]].
    set (v := dec_value (c0 :: d')) in *.
    split; [lia|]. split.
    + rewrite len_app. change (len [c]) with 1.
      replace (len (c0 :: d') + 1 - 1) with (N.succ (len (c0 :: d') - 1)) by (rewrite len_cons; lia).
      rewrite N.pow_succ_r'. lia.
    + intros f acc Hf. rewrite app_length in Hf. change (List.length [c]) with 1%nat in Hf.
      destruct f as [|f]; [lia|]. cbn [dec_digits].
      assert (Hm : (v * 10 + (c - 48)) mod 10 = c - 48).
      { rewrite N.add_comm, N.mod_add by lia. apply N.mod_small; lia. }
      assert (Hq : (v * 10 + (c - 48)) / 10 = v).
      { rewrite N.add_comm, N.div_add by lia. rewrite N.div_small by lia. lia. }
      rewrite Hm, Hq, Hkc. destruct (N.eqb_spec v 0) as [Hz|_]; [lia|].
      rewrite Hfuel by lia. rewrite <- app_assoc. reflexivity.
Qed.

Lemma dec_roundtrip d : is_num_text d = true -> numnorm_text d = false -> dec (dec_value d) = d.
Proof.
  intros Hnum Hnn. destruct (num_text_cons d Hnum) as [c [r [-> [Hc Hr]]]].
  unfold numnorm_text in Hnn. rewrite Hnum in Hnn. cbn [andb starts_with] in Hnn.
  destruct (N.eqb_spec 48 c) as [<-|Hne].
  - rewrite andb_true_r in Hnn. apply N.ltb_ge in Hnn. rewrite len_cons in Hnn.
    destruct r; [reflexivity|]. rewrite len_cons in Hnn. lia.
  - assert (Hst : starts_with (N.eqb 48) (c :: r) = false) by (cbn [starts_with]; apply N.eqb_neq; exact Hne).
    assert (Hdig : forallb is_digit (c :: r) = true) by (cbn [forallb]; rewrite Hc, Hr; reflexivity).
    destruct (dec_digits_canon (c :: r) ltac:(discriminate) Hdig Hst) as [Hpos [Hpow Hfuel]].
    unfold dec. rewrite Hfuel; [apply app_nil_r|].
    set (v := dec_value (c :: r)) in *.
    assert (Hlog : len (c :: r) - 1 <= N.log2 v).
    { rewrite <- (N.log2_pow2 (len (c :: r) - 1)) by lia. apply N.log2_le_mono. exact Hpow. }
    unfold len in Hlog. lia.
Qed.

(* ---- front end on the documented line shapes ------------------------------------------ *)

Lemma front_line_inv op args x :
  front_line (L op args) = Some x ->
  exists t a, lex_args args = Some t /\ fill t = Some a /\ x = (op, a).
Proof.
  unfold front_line. cbn [l_op l_args]. destruct (opword_ok op); [|discriminate].
  destruct (lex_args args) as [t|]; [|discriminate]. destruct (fill t) as [a|] eqn:Ef; [|discriminate].
  intros H. inversion H. exists t, a. auto.
Qed.

Definition no_arg : arg := mkArg None None None None None.

Lemma front_none op x : front_line (L op []) = Some x -> x = (op, no_arg).
Proof.
  intros H. destruct (front_line_inv _ _ _ H) as [t [a [Hl [Hf ->]]]].
  cbn [lex_args] in Hl. inversion Hl; subst t. cbn in Hf. inversion Hf. reflexivity.
Qed.

Lemma front_sym op a x :
  is_node_text a = true -> front_line (L op [a]) = Some x ->
  x = (op, mkArg (Some a) None None None None).
Proof.
  intros Ha H. destruct (front_line_inv _ _ _ H) as [t [ar [Hl [Hf ->]]]].
  cbn [lex_args] in Hl. destruct (lex_node a Ha) as [E|E]; rewrite E in Hl; [discriminate|].
  inversion Hl; subst t. cbn in Hf. inversion Hf. reflexivity.
Qed.

(* the selector token: a Sym holding the text, or a Size whose decimal print is the text *)
Lemma sel_cases b :
  is_selector_text b = true -> numnorm_text b = false -> digitprefix_text b = false ->
  lex b = None \/ lex b = Some [TSym b]
  \/ (lex b = Some [TSize b] /\ forall bits n, parse_uint0 bits b = Some n -> dec n = b).
Proof.
  intros Hs Hnn Hdp. destruct (lex_sel b Hs Hdp) as [E|[E|[E Hnum]]]; auto.
  right; right. split; [exact E|]. intros bits n Hp.
  destruct (parse_uint0_value bits b n Hnum (numnorm_free_not_octal b Hnum Hnn) Hp) as [-> _].
  apply dec_roundtrip; assumption.
Qed.

Lemma front_sym_sel op a b x :
  is_node_text a = true -> is_selector_text b = true -> numnorm_text b = false -> digitprefix_text b = false ->
  front_line (L op [a; b]) = Some x ->
  x = (op, mkArg (Some a) None None (Some b) None)
  \/ exists n, x = (op, mkArg (Some a) (Some n) None None None) /\ dec n = b.
Proof.
  intros Ha Hb Hnn Hdp H. destruct (front_line_inv _ _ _ H) as [t [ar [Hl [Hf ->]]]].
  cbn [lex_args] in Hl. destruct (lex_node a Ha) as [E|E]; rewrite E in Hl; [discriminate|].
  destruct (sel_cases b Hb Hnn Hdp) as [Eb|[Eb|[Eb Hdec]]]; rewrite Eb in Hl; [discriminate| |].
  - inversion Hl; subst t. cbn in Hf. inversion Hf. left. reflexivity.
  - inversion Hl; subst t. cbn [app fill take_sym take_num] in Hf.
    destruct (parse_uint0 32 b) as [n|] eqn:Ep; [|discriminate]. cbn in Hf. inversion Hf.
    right. exists n. split; [reflexivity|]. eapply Hdec. exact Ep.
Qed.

Lemma front_sym_num op a b x :
  is_node_text a = true -> is_num_text b = true -> octal_text b = false ->
  front_line (L op [a; b]) = Some x ->
  exists n, x = (op, mkArg (Some a) (Some n) None None None) /\ n = dec_value b /\ n < 2 ^ 32.
Proof.
  intros Ha Hb Hoct H. destruct (front_line_inv _ _ _ H) as [t [ar [Hl [Hf ->]]]].
  cbn [lex_args] in Hl. destruct (lex_node a Ha) as [E|E]; rewrite E in Hl; [discriminate|].
  rewrite (lex_num b Hb) in Hl. inversion Hl; subst t. cbn [app fill take_sym take_num] in Hf.
  destruct (parse_uint0 32 b) as [n|] eqn:Ep; [|discriminate]. cbn in Hf. inversion Hf.
  exists n. split; [reflexivity|]. eapply parse_uint0_value; eassumption.
Qed.

Lemma mode_not_octal c : is_mode_text c = true -> is_num_text c = true /\ octal_text c = false /\ dec_value c <= 1.
Proof.
  unfold is_mode_text. intros H. apply andb_true_iff in H as [Hn Hv]. apply N.leb_le in Hv.
  split; [exact Hn|]. split; [|exact Hv]. unfold octal_text. rewrite Hn.
  destruct (N.leb_spec 8 (dec_value c)); [lia|]. apply andb_false_r.
Qed.

Lemma front_num_mode op b c x :
  is_num_text b = true -> octal_text b = false -> is_mode_text c = true ->
  front_line (L op [b; c]) = Some x ->
  exists n f, x = (op, mkArg None (Some n) (Some f) None None)
    /\ n = dec_value b /\ n < 2 ^ 32 /\ f = dec_value c /\ f <= 1.
Proof.
  intros Hb Hoct Hc H. destruct (mode_not_octal c Hc) as [Hcn [Hco Hcv]].
  destruct (front_line_inv _ _ _ H) as [t [ar [Hl [Hf ->]]]].
  cbn [lex_args] in Hl. rewrite (lex_num b Hb), (lex_num c Hcn) in Hl. inversion Hl; subst t.
  cbn [app fill take_sym take_num] in Hf.
  destruct (parse_uint0 32 b) as [n|] eqn:Ep; [|discriminate]. cbn [take_sym take_num] in Hf.
  destruct (parse_uint0 8 c) as [f|] eqn:Eq; [|discriminate]. cbn in Hf. inversion Hf.
  exists n, f. split; [reflexivity|].
  destruct (parse_uint0_value 32 b n Hb Hoct Ep) as [-> Hlt].
  destruct (parse_uint0_value 8 c f Hcn Hco Eq) as [-> _]. auto.
Qed.

Lemma front_sym_num_mode op a b c x :
  is_node_text a = true -> is_num_text b = true -> octal_text b = false -> is_mode_text c = true ->
  front_line (L op [a; b; c]) = Some x ->
  exists n f, x = (op, mkArg (Some a) (Some n) (Some f) None None)
    /\ n = dec_value b /\ n < 2 ^ 32 /\ f = dec_value c /\ f <= 1.
Proof.
  intros Ha Hb Hoct Hc H. destruct (mode_not_octal c Hc) as [Hcn [Hco Hcv]].
  destruct (front_line_inv _ _ _ H) as [t [ar [Hl [Hf ->]]]].
  cbn [lex_args] in Hl. destruct (lex_node a Ha) as [E|E]; rewrite E in Hl; [discriminate|].
  rewrite (lex_num b Hb), (lex_num c Hcn) in Hl. inversion Hl; subst t.
  cbn [app fill take_sym take_num] in Hf.
  destruct (parse_uint0 32 b) as [n|] eqn:Ep; [|discriminate]. cbn [take_sym take_num] in Hf.
  destruct (parse_uint0 8 c) as [f|] eqn:Eq; [|discriminate]. cbn in Hf. inversion Hf.
  exists n, f. split; [reflexivity|].
  destruct (parse_uint0_value 32 b n Hb Hoct Ep) as [-> Hlt].
  destruct (parse_uint0_value 8 c f Hcn Hco Eq) as [-> _]. auto.
Qed.

(* batch lines: selector first (UP NEXT PREVIOUS) *)
Lemma front_sel_sym op s lab x :
  is_selector_text s = true -> numnorm_text s = false -> digitprefix_text s = false -> is_sym_text lab = true ->
  front_line (L op [s; lab]) = Some x ->
  x = (op, mkArg (Some s) None None (Some lab) None)
  \/ exists n, x = (op, mkArg None (Some n) None (Some lab) None) /\ dec n = s.
Proof.
  intros Hs Hnn Hdp Hlab H. destruct (front_line_inv _ _ _ H) as [t [ar [Hl [Hf ->]]]].
  cbn [lex_args] in Hl.
  destruct (sel_cases s Hs Hnn Hdp) as [Eb|[Eb|[Eb Hdec]]]; rewrite Eb in Hl; [discriminate| |];
    cbn [lex_args] in Hl; (destruct (lex_sym_text lab Hlab) as [El|El]; rewrite El in Hl; [discriminate|]).
  - inversion Hl; subst t. cbn in Hf. inversion Hf. left. reflexivity.
  - inversion Hl; subst t. cbn [app fill take_sym take_num] in Hf.
    destruct (parse_uint0 32 s) as [n|] eqn:Ep; [|discriminate]. cbn in Hf. inversion Hf.
    right. exists n. split; [reflexivity|]. eapply Hdec. exact Ep.
Qed.

(* DOWN *)
Lemma front_sym_sel_sym op a s lab x :
  is_sym_text a = true -> is_selector_text s = true -> numnorm_text s = false -> digitprefix_text s = false ->
  is_sym_text lab = true ->
  front_line (L op [a; s; lab]) = Some x ->
  x = (op, mkArg (Some a) None None (Some s) (Some lab))
  \/ exists n, x = (op, mkArg (Some a) (Some n) None (Some lab) None) /\ dec n = s.
Proof.
  intros Ha Hs Hnn Hdp Hlab H. destruct (front_line_inv _ _ _ H) as [t [ar [Hl [Hf ->]]]].
  cbn [lex_args] in Hl.
  destruct (lex_sym_text a Ha) as [E|E]; rewrite E in Hl; [discriminate|].
  destruct (sel_cases s Hs Hnn Hdp) as [Eb|[Eb|[Eb Hdec]]]; rewrite Eb in Hl; [discriminate| |];
    cbn [lex_args] in Hl; (destruct (lex_sym_text lab Hlab) as [El|El]; rewrite El in Hl; [discriminate|]).
  - inversion Hl; subst t. cbn in Hf. inversion Hf. left. reflexivity.
  - inversion Hl; subst t. cbn [app fill take_sym take_num] in Hf.
    destruct (parse_uint0 32 s) as [n|] eqn:Ep; [|discriminate]. cbn in Hf. inversion Hf.
    right. exists n. split; [reflexivity|]. eapply Hdec. exact Ep.
Qed.

(* ---- parseOne on the argument records of documented lines ----------------------------- *)

Lemma asm_one_none op : asm_one op no_arg = Ok (opcode_bytes op).
Proof. reflexivity. Qed.

Lemma asm_one_sym op s :
  len s <= 255 -> asm_one op (mkArg (Some s) None None None None) = Ok (opcode_bytes op ++ len s :: s)%list.
Proof. intros H. unfold asm_one. cbn [a_sel a_size a_sym]. rewrite write_sym_ok by exact H. reflexivity. Qed.

Lemma asm_one_symsel op s t :
  bytes_eqb s [42] = false ->
  asm_one op (mkArg (Some s) None None (Some t) None)
  = obind (two_syms s t) (fun b => Ok (opcode_bytes op ++ b)%list).
Proof.
  intros Hs. unfold asm_one. cbn [a_sel].
  destruct (op =? op_MOUT); unfold asm_two_sym_rev, asm_two_sym; cbn [a_sel a_size a_sym deref]; [reflexivity|].
  rewrite Hs. reflexivity.
Qed.

Lemma asm_one_symsize op s n :
  (op =? op_LOAD) = false ->
  asm_one op (mkArg (Some s) (Some n) None None None)
  = obind (two_syms s (dec n)) (fun b => Ok (opcode_bytes op ++ b)%list).
Proof.
  intros Hop. unfold asm_one. cbn [a_sel a_size a_sym a_flag]. rewrite Hop.
  unfold asm_two_sym. cbn [a_size a_sym deref]. reflexivity.
Qed.

Lemma asm_one_load s n :
  asm_one op_LOAD (mkArg (Some s) (Some n) None None None) = encode_asm (ILoad s n).
Proof.
  unfold asm_one. cbn [a_sel a_size a_sym a_flag]. change (op_LOAD =? op_LOAD) with true. cbv iota.
  unfold asm_sized, encode_asm. cbn [a_sym a_size deref].
  destruct (write_sym s); cbn [obind]; [|reflexivity|reflexivity].
  destruct (write_size n); reflexivity.
Qed.

Lemma mode_byte_flag f : f <= 1 -> [w8 f] = mode_byte (f =? 1).
Proof. intros H. assert (Hf : f = 0 \/ f = 1) by lia. destruct Hf; subst f; reflexivity. Qed.

Lemma asm_one_catch s n f :
  f <= 1 -> asm_one op_CATCH (mkArg (Some s) (Some n) (Some f) None None) = encode_asm (ICatch s n (f =? 1)).
Proof.
  intros Hf. unfold asm_one. cbn [a_sel a_size a_sym a_flag].
  unfold asm_sig, encode_asm. cbn [a_sym a_size a_flag deref]. rewrite (mode_byte_flag f Hf).
  destruct (write_sym s); cbn [obind]; [|reflexivity|reflexivity].
  destruct (write_size n); reflexivity.
Qed.

Lemma asm_one_croak n f :
  f <= 1 -> asm_one op_CROAK (mkArg None (Some n) (Some f) None None) = encode_asm (ICroak n (f =? 1)).
Proof.
  intros Hf. unfold asm_one. cbn [a_sel a_size a_sym a_flag].
  unfold asm_flagged, encode_asm. cbn [a_size a_flag deref]. rewrite (mode_byte_flag f Hf).
  destruct (write_size n); reflexivity.
Qed.

Lemma wsyms_two s t : wsyms [s; t] = two_syms s t.
Proof.
  unfold wsyms, two_syms. cbn [fold_left obind]. destruct (write_sym s); cbn [obind]; [|reflexivity|reflexivity].
  destruct (write_sym t); reflexivity.
Qed.

Lemma write_sym_ok_inv s b : write_sym s = Ok b -> len s <= 255.
Proof. unfold write_sym. destruct (N.ltb_spec 255 (len s)); [discriminate|]. intros _. lia. Qed.

Lemma two_syms_ok_inv {B} s t (k : list N -> res B) r :
  obind (two_syms s t) k = Ok r -> len s <= 255 /\ len t <= 255.
Proof.
  unfold two_syms. destruct (write_sym s) eqn:Es; cbn [obind]; try discriminate.
  destruct (write_sym t) eqn:Et; cbn [obind]; try discriminate.
  intros _. split; eapply write_sym_ok_inv; eassumption.
Qed.

(* what a line must emit: whenever parseOne succeeds, exactly the encoding of i *)
Definition emits (opc : N) (a : arg) (i : instr) : Prop :=
  forall b, asm_one opc a = Ok b -> b = encode i /\ wf_instr i.

Lemma emits_via_asm opc a i :
  (forall b, asm_one opc a = Ok b -> wf_instr i) -> (wf_instr i -> asm_one opc a = encode_asm i) ->
  emits opc a i.
Proof.
  intros Hwf Heq b Hb. pose proof (Hwf b Hb) as W. split; [|exact W].
  rewrite (Heq W), (encoders_agree_lemma i W) in Hb. inversion Hb. reflexivity.
Qed.

Lemma emits_none opc i : opcode_bytes opc = encode i -> wf_instr i -> emits opc no_arg i.
Proof. intros He W b Hb. rewrite asm_one_none in Hb. inversion Hb. split; [exact He|exact W]. Qed.

Lemma emits_sym opc (mk : list N -> instr) a :
  (forall s, encode_asm (mk s) = obind (write_sym s) (fun x => Ok (opcode_bytes opc ++ x)%list)) ->
  (forall s, wf_sym s -> wf_instr (mk s)) ->
  is_node_text a = true -> len a <= 255 ->
  emits opc (mkArg (Some a) None None None None) (mk a).
Proof.
  intros Henc Hwf Ha Hl. apply emits_via_asm.
  - intros _ _. apply Hwf, node_text_wf; assumption.
  - intros _. rewrite asm_one_sym by exact Hl. rewrite Henc, write_sym_ok by exact Hl. reflexivity.
Qed.

Lemma emits_symsel opc (mk : list N -> list N -> instr) a b :
  (forall s t, encode_asm (mk s t) = obind (wsyms [s; t]) (fun r => Ok (opcode_bytes opc ++ r)%list)) ->
  (forall s t, wf_sym s -> wf_sym t -> wf_instr (mk s t)) ->
  is_node_text a = true -> is_selector_text b = true ->
  emits opc (mkArg (Some a) None None (Some b) None) (mk a b).
Proof.
  intros Henc Hwf Ha Hb. pose proof (asm_one_symsel opc a b (node_not_star a Ha)) as Hone.
  apply emits_via_asm.
  - intros r Hr. rewrite Hone in Hr. destruct (two_syms_ok_inv _ _ _ _ Hr) as [H1 H2].
    apply Hwf; [apply node_text_wf|apply sel_text_wf]; assumption.
  - intros _. rewrite Hone, Henc, wsyms_two. reflexivity.
Qed.

Lemma emits_symsize opc (mk : list N -> list N -> instr) a b n :
  (opc =? op_LOAD) = false ->
  (forall s t, encode_asm (mk s t) = obind (wsyms [s; t]) (fun r => Ok (opcode_bytes opc ++ r)%list)) ->
  (forall s t, wf_sym s -> wf_sym t -> wf_instr (mk s t)) ->
  is_node_text a = true -> is_selector_text b = true -> dec n = b ->
  emits opc (mkArg (Some a) (Some n) None None None) (mk a b).
Proof.
  intros Hop Henc Hwf Ha Hb Hdec. pose proof (asm_one_symsize opc a n Hop) as Hone. rewrite Hdec in Hone.
  apply emits_via_asm.
  - intros r Hr. rewrite Hone in Hr. destruct (two_syms_ok_inv _ _ _ _ Hr) as [H1 H2].
    apply Hwf; [apply node_text_wf|apply sel_text_wf]; assumption.
  - intros _. rewrite Hone, Henc, wsyms_two. reflexivity.
Qed.

Lemma wf_num_pow n : n < 2 ^ 32 -> wf_num n.
Proof. unfold wf_num. change (2 ^ 32) with 4294967296. auto. Qed.

Lemma encode_asm_sym_ok (i : instr) s (k : list N -> res (list N)) r :
  obind (write_sym s) k = Ok r -> len s <= 255.
Proof. destruct (write_sym s) eqn:E; cbn [obind]; try discriminate. intros _. eapply write_sym_ok_inv; exact E. Qed.

Lemma emits_load a n :
  is_sym_text a = true -> n < 2 ^ 32 -> emits op_LOAD (mkArg (Some a) (Some n) None None None) (ILoad a n).
Proof.
  intros Ha Hn. apply emits_via_asm; [|intros _; apply asm_one_load].
  intros r Hr. rewrite asm_one_load in Hr. unfold encode_asm in Hr.
  pose proof (encode_asm_sym_ok IHalt _ _ _ Hr) as Hl.
  split; [apply sym_text_wf; assumption|apply wf_num_pow; exact Hn].
Qed.

Lemma emits_catch a n f :
  is_node_text a = true -> n < 2 ^ 32 -> f <= 1 ->
  emits op_CATCH (mkArg (Some a) (Some n) (Some f) None None) (ICatch a n (f =? 1)).
Proof.
  intros Ha Hn Hf. apply emits_via_asm; [|intros _; apply asm_one_catch; exact Hf].
  intros r Hr. rewrite asm_one_catch in Hr by exact Hf. unfold encode_asm in Hr.
  pose proof (encode_asm_sym_ok IHalt _ _ _ Hr) as Hl.
  split; [apply node_text_wf; assumption|apply wf_num_pow; exact Hn].
Qed.

Lemma emits_croak n f :
  n < 2 ^ 32 -> f <= 1 -> emits op_CROAK (mkArg None (Some n) (Some f) None None) (ICroak n (f =? 1)).
Proof.
  intros Hn Hf. apply emits_via_asm; [|intros _; apply asm_one_croak; exact Hf].
  intros _ _. apply wf_num_pow; exact Hn.
Qed.

(* ---- one documented non-batch line ------------------------------------------------------ *)

Definition line_ok (l : line) : Prop :=
  line_sel_is numnorm_text l = false /\ line_sel_is digitprefix_text l = false
  /\ longsym_line l = false /\ octal_line l = false.

Ltac opname H := apply bytes_eqb_eq in H; subst.
Ltac sel_guards Hnn Hdp b :=
  unfold line_sel_is in Hnn, Hdp;
  match type of Hnn with context [line_selector ?l] => change (line_selector l) with (Some b) in Hnn, Hdp end.

Lemma existsb_one {A} (p : A -> bool) x : existsb p [x] = false -> p x = false.
Proof. cbn [existsb]. rewrite orb_false_r. auto. Qed.

Lemma plain_line_correct l i x :
  plain_instr l = Some i -> line_ok l -> front_line l = Some x ->
  exists opc a, x = (l_op l, a) /\ lookup_name (l_op l) opcode_index = Some opc /\ emits opc a i.
Proof.
  destruct l as [op args]. unfold plain_instr. cbn [l_op l_args].
  intros Hp [Hnn [Hdp [Hlong Hoct]]] Hf.
  destruct args as [|a [|b [|c [|d args]]]]; [| | | |discriminate].
  - (* no argument *)
    apply front_none in Hf. subst x.
    destruct (opis "HALT" op) eqn:E1.
    { opname E1. inversion Hp; subst i. exists op_HALT, no_arg. split; [reflexivity|split; [reflexivity|]]. apply emits_none; [reflexivity|exact I]. }
    destruct (opis "MSINK" op) eqn:E2; [|discriminate].
    opname E2. inversion Hp; subst i. exists op_MSINK, no_arg. split; [reflexivity|split; [reflexivity|]]. apply emits_none; [reflexivity|exact I].
  - (* one symbol *)
    destruct (opis "MOVE" op) eqn:E1.
    { opname E1. destruct (is_node_text a) eqn:Ha; [|discriminate]. inversion Hp; subst i.
      apply (front_sym _ _ _ Ha) in Hf. subst x.
      change (longsym_line (L (s2b "MOVE") [a])) with (existsb (fun a => 255 <? len a) [a]) in Hlong.
      apply existsb_one in Hlong. apply N.ltb_ge in Hlong.
      exists op_MOVE, (mkArg (Some a) None None None None). split; [reflexivity|split; [reflexivity|]].
      apply (emits_sym op_MOVE IMove); auto. }
    destruct (opis "MAP" op) eqn:E2.
    { opname E2. destruct (is_sym_text a) eqn:Ha; [|discriminate]. inversion Hp; subst i.
      apply sym_is_node in Ha. apply (front_sym _ _ _ Ha) in Hf. subst x.
      change (longsym_line (L (s2b "MAP") [a])) with (existsb (fun a => 255 <? len a) [a]) in Hlong.
      apply existsb_one in Hlong. apply N.ltb_ge in Hlong.
      exists op_MAP, (mkArg (Some a) None None None None). split; [reflexivity|split; [reflexivity|]].
      apply (emits_sym op_MAP IMap); auto. }
    destruct (opis "RELOAD" op) eqn:E3; [|discriminate].
    opname E3. destruct (is_sym_text a) eqn:Ha; [|discriminate]. inversion Hp; subst i.
    apply sym_is_node in Ha. apply (front_sym _ _ _ Ha) in Hf. subst x.
    change (longsym_line (L (s2b "RELOAD") [a])) with (existsb (fun a => 255 <? len a) [a]) in Hlong.
    apply existsb_one in Hlong. apply N.ltb_ge in Hlong.
    exists op_RELOAD, (mkArg (Some a) None None None None). split; [reflexivity|split; [reflexivity|]].
    apply (emits_sym op_RELOAD IReload); auto.
  - (* two arguments *)
    destruct (opis "CROAK" op) eqn:E1.
    { opname E1. destruct (is_num_text a) eqn:Ha; [|discriminate]. destruct (is_mode_text b) eqn:Hb; [|discriminate].
      cbn [andb] in Hp. inversion Hp; subst i.
      change (octal_line (L (s2b "CROAK") [a; b])) with (existsb octal_text [a]) in Hoct.
      apply existsb_one in Hoct.
      destruct (front_num_mode _ _ _ _ Ha Hoct Hb Hf) as [n [f [-> [Hn [Hlt [Hfv Hf1]]]]]].
      exists op_CROAK, (mkArg None (Some n) (Some f) None None). split; [reflexivity|split; [reflexivity|]].
      rewrite <- Hn, <- Hfv. apply emits_croak; assumption. }
    destruct (opis "LOAD" op) eqn:E2.
    { opname E2. destruct (is_sym_text a) eqn:Ha; [|discriminate]. destruct (is_num_text b) eqn:Hb; [|discriminate].
      cbn [andb] in Hp. inversion Hp; subst i.
      change (octal_line (L (s2b "LOAD") [a; b])) with (existsb octal_text [b]) in Hoct.
      apply existsb_one in Hoct.
      destruct (front_sym_num _ _ _ _ (sym_is_node a Ha) Hb Hoct Hf) as [n [-> [Hn Hlt]]].
      exists op_LOAD, (mkArg (Some a) (Some n) None None None). split; [reflexivity|split; [reflexivity|]].
      rewrite <- Hn. apply emits_load; assumption. }
    destruct (opis "INCMP" op) eqn:E3.
    { opname E3. destruct (is_node_text a) eqn:Ha; [|discriminate]. destruct (is_selector_text b) eqn:Hb; [|discriminate].
      cbn [andb] in Hp. inversion Hp; subst i. sel_guards Hnn Hdp b.
      destruct (front_sym_sel _ _ _ _ Ha Hb Hnn Hdp Hf) as [->|[n [-> Hdec]]].
      - exists op_INCMP, (mkArg (Some a) None None (Some b) None). split; [reflexivity|split; [reflexivity|]].
        apply (emits_symsel op_INCMP IInCmp); auto; intros; split; assumption.
      - exists op_INCMP, (mkArg (Some a) (Some n) None None None). split; [reflexivity|split; [reflexivity|]].
        apply (emits_symsize op_INCMP IInCmp); auto; intros; split; assumption. }
    destruct (opis "MOUT" op) eqn:E4.
    { opname E4. destruct (is_sym_text a) eqn:Ha; [|discriminate]. destruct (is_selector_text b) eqn:Hb; [|discriminate].
      cbn [andb] in Hp. inversion Hp; subst i. sel_guards Hnn Hdp b. apply sym_is_node in Ha.
      destruct (front_sym_sel _ _ _ _ Ha Hb Hnn Hdp Hf) as [->|[n [-> Hdec]]].
      - exists op_MOUT, (mkArg (Some a) None None (Some b) None). split; [reflexivity|split; [reflexivity|]].
        apply (emits_symsel op_MOUT IMOut); auto; intros; split; assumption.
      - exists op_MOUT, (mkArg (Some a) (Some n) None None None). split; [reflexivity|split; [reflexivity|]].
        apply (emits_symsize op_MOUT IMOut); auto; intros; split; assumption. }
    destruct (opis "MNEXT" op) eqn:E5.
    { opname E5. destruct (is_sym_text a) eqn:Ha; [|discriminate]. destruct (is_selector_text b) eqn:Hb; [|discriminate].
      cbn [andb] in Hp. inversion Hp; subst i. sel_guards Hnn Hdp b. apply sym_is_node in Ha.
      destruct (front_sym_sel _ _ _ _ Ha Hb Hnn Hdp Hf) as [->|[n [-> Hdec]]].
      - exists op_MNEXT, (mkArg (Some a) None None (Some b) None). split; [reflexivity|split; [reflexivity|]].
        apply (emits_symsel op_MNEXT IMNext); auto; intros; split; assumption.
      - exists op_MNEXT, (mkArg (Some a) (Some n) None None None). split; [reflexivity|split; [reflexivity|]].
        apply (emits_symsize op_MNEXT IMNext); auto; intros; split; assumption. }
    destruct (opis "MPREV" op) eqn:E6; [|discriminate].
    opname E6. destruct (is_sym_text a) eqn:Ha; [|discriminate]. destruct (is_selector_text b) eqn:Hb; [|discriminate].
    cbn [andb] in Hp. inversion Hp; subst i. sel_guards Hnn Hdp b. apply sym_is_node in Ha.
    destruct (front_sym_sel _ _ _ _ Ha Hb Hnn Hdp Hf) as [->|[n [-> Hdec]]].
    + exists op_MPREV, (mkArg (Some a) None None (Some b) None). split; [reflexivity|split; [reflexivity|]].
      apply (emits_symsel op_MPREV IMPrev); auto; intros; split; assumption.
    + exists op_MPREV, (mkArg (Some a) (Some n) None None None). split; [reflexivity|split; [reflexivity|]].
      apply (emits_symsize op_MPREV IMPrev); auto; intros; split; assumption.
  - (* three arguments: CATCH *)
    destruct (opis "CATCH" op) eqn:E1; [|discriminate].
    opname E1. destruct (is_node_text a) eqn:Ha; [|discriminate]. destruct (is_num_text b) eqn:Hb; [|discriminate].
    destruct (is_mode_text c) eqn:Hc; [|discriminate]. cbn [andb] in Hp. inversion Hp; subst i.
    change (octal_line (L (s2b "CATCH") [a; b; c])) with (existsb octal_text [b]) in Hoct.
    apply existsb_one in Hoct.
    destruct (front_sym_num_mode _ _ _ _ _ Ha Hb Hoct Hc Hf) as [n [f [-> [Hn [Hlt [Hfv Hf1]]]]]].
    exists op_CATCH, (mkArg (Some a) (Some n) (Some f) None None). split; [reflexivity|split; [reflexivity|]].
    rewrite <- Hn, <- Hfv. apply emits_catch; assumption.
Qed.

(* ---- one documented batch line ------------------------------------------------------------ *)

Lemma menu_proc_add_ok items code choice display target bc :
  lookup_name code batch_codes = Some bc -> (bc =? 0) = false ->
  ((0 <? len target) && negb (bc =? batch_DOWN)) = false ->
  menu_proc_add items code choice display target = Ok (items ++ [mkItem bc choice display target])%list.
Proof. intros H1 H2 H3. unfold menu_proc_add. rewrite H1, H2, H3. reflexivity. Qed.

Definition adds (code : list N) (a : arg) (p q : instr) : Prop :=
  forall bt bt', menu_add bt code a = Ok bt' ->
  exists it, bt' = mkB (b_items bt ++ [it]) true /\ item_pre it = encode p /\ item_post it = encode q.

Lemma adds_item code a bc choice display target p q :
  (forall bt, menu_add bt code a
     = obind (menu_proc_add (b_items bt) code choice display target) (fun its => Ok (mkB its true))) ->
  lookup_name code batch_codes = Some bc -> (bc =? 0) = false ->
  ((0 <? len target) && negb (bc =? batch_DOWN)) = false ->
  item_pre (mkItem bc choice display target) = encode p ->
  item_post (mkItem bc choice display target) = encode q ->
  adds code a p q.
Proof.
  intros Hma Hl Hz Ht Hpre Hpost bt bt' H. rewrite Hma in H.
  rewrite (menu_proc_add_ok _ _ _ _ _ bc Hl Hz Ht) in H. cbn [obind] in H. inversion H.
  eexists. split; [reflexivity|]. split; assumption.
Qed.

Lemma existsb_two {A} (p : A -> bool) x y : existsb p [x; y] = false -> p x = false /\ p y = false.
Proof. cbn [existsb]. rewrite orb_false_r. intros H. apply orb_false_iff in H. exact H. Qed.
Lemma existsb_three {A} (p : A -> bool) x y z :
  existsb p [x; y; z] = false -> p x = false /\ p y = false /\ p z = false.
Proof.
  cbn [existsb]. rewrite orb_false_r. intros H. apply orb_false_iff in H as [H1 H].
  apply orb_false_iff in H. tauto.
Qed.

(* UP NEXT PREVIOUS *)
Lemma sel_first_case op bc s lab x (p q : instr) :
  lookup_name op batch_codes = Some bc -> (bc =? 0) = false ->
  item_pre (mkItem bc s lab []) = encode p -> item_post (mkItem bc s lab []) = encode q ->
  is_selector_text s = true -> numnorm_text s = false -> digitprefix_text s = false -> is_sym_text lab = true ->
  front_line (L op [s; lab]) = Some x ->
  exists a, x = (op, a) /\ adds op a p q.
Proof.
  intros Hl Hz Hpre Hpost Hs Hnn Hdp Hlab Hf.
  destruct (front_sel_sym _ _ _ _ Hs Hnn Hdp Hlab Hf) as [->|[n [-> Hdec]]]; eexists; (split; [reflexivity|]).
  - eapply (adds_item _ _ bc s lab []); try eassumption; [|reflexivity]. intros bt. reflexivity.
  - eapply (adds_item _ _ bc s lab []); try eassumption; [|reflexivity]. intros bt.
    unfold menu_add. cbn [a_desc a_size a_sel a_sym deref obind]. rewrite Hdec. reflexivity.
Qed.

Lemma down_case s a lab x :
  is_sym_text a = true -> is_selector_text s = true -> numnorm_text s = false -> digitprefix_text s = false ->
  is_sym_text lab = true ->
  front_line (L (s2b "DOWN") [a; s; lab]) = Some x ->
  exists ar, x = (s2b "DOWN", ar) /\ adds (s2b "DOWN") ar (IMOut lab s) (IInCmp a s).
Proof.
  intros Ha Hs Hnn Hdp Hlab Hf.
  destruct (front_sym_sel_sym _ _ _ _ _ Ha Hs Hnn Hdp Hlab Hf) as [->|[n [-> Hdec]]]; eexists; (split; [reflexivity|]).
  - eapply (adds_item _ _ batch_DOWN s lab a); try reflexivity. apply andb_false_r.
  - eapply (adds_item _ _ batch_DOWN s lab a); try reflexivity; [|apply andb_false_r]. intros bt.
    unfold menu_add. cbn [a_desc a_size a_sel a_sym deref obind]. rewrite Hdec. reflexivity.
Qed.

Lemma batch_line_correct l p q x :
  batch_instrs l = Some (p, q) -> line_ok l -> front_line l = Some x ->
  exists a, x = (l_op l, a) /\ lookup_name (l_op l) opcode_index = None
    /\ wf_instr p /\ wf_instr q /\ adds (l_op l) a p q.
Proof.
  destruct l as [op args]. unfold batch_instrs. cbn [l_op l_args].
  intros Hp [Hnn [Hdp [Hlong _]]] Hf.
  destruct args as [|s [|lab [|c [|d args]]]]; try discriminate.
  - (* selector label *)
    destruct (is_selector_text s) eqn:Hs; [|discriminate]. destruct (is_sym_text lab) eqn:Hlab; [|discriminate].
    cbn [andb] in Hp.
    assert (Wspec : forall ch, ch < 256 -> wf_sym [ch]).
    { intros ch Hch. unfold wf_sym, bytes_ok. split; [constructor; [exact Hch|constructor]|cbn; lia]. }
    destruct (opis "UP" op) eqn:E1.
    { opname E1. inversion Hp; subst p q. sel_guards Hnn Hdp s.
      change (longsym_line (L (s2b "UP") [s; lab])) with (existsb (fun a => 255 <? len a) [s; lab]) in Hlong.
      apply existsb_two in Hlong as [H1 H2]. apply N.ltb_ge in H1, H2.
      pose proof (sel_text_wf s Hs H1) as Ws. pose proof (sym_text_wf lab Hlab H2) as Wl.
      destruct (sel_first_case (s2b "UP") batch_UP s lab x (IMOut lab s) (IInCmp [95] s)) as [a [-> Ha]]; auto.
      exists a. split; [reflexivity|]. split; [reflexivity|]. split; [split; assumption|].
      split; [split; [apply Wspec; lia|assumption]|exact Ha]. }
    destruct (opis "NEXT" op) eqn:E2.
    { opname E2. inversion Hp; subst p q. sel_guards Hnn Hdp s.
      change (longsym_line (L (s2b "NEXT") [s; lab])) with (existsb (fun a => 255 <? len a) [s; lab]) in Hlong.
      apply existsb_two in Hlong as [H1 H2]. apply N.ltb_ge in H1, H2.
      pose proof (sel_text_wf s Hs H1) as Ws. pose proof (sym_text_wf lab Hlab H2) as Wl.
      destruct (sel_first_case (s2b "NEXT") batch_NEXT s lab x (IMNext lab s) (IInCmp [62] s)) as [a [-> Ha]]; auto.
      exists a. split; [reflexivity|]. split; [reflexivity|]. split; [split; assumption|].
      split; [split; [apply Wspec; lia|assumption]|exact Ha]. }
    destruct (opis "PREVIOUS" op) eqn:E3; [|discriminate].
    opname E3. inversion Hp; subst p q. sel_guards Hnn Hdp s.
    change (longsym_line (L (s2b "PREVIOUS") [s; lab])) with (existsb (fun a => 255 <? len a) [s; lab]) in Hlong.
    apply existsb_two in Hlong as [H1 H2]. apply N.ltb_ge in H1, H2.
    pose proof (sel_text_wf s Hs H1) as Ws. pose proof (sym_text_wf lab Hlab H2) as Wl.
    destruct (sel_first_case (s2b "PREVIOUS") batch_PREVIOUS s lab x (IMPrev lab s) (IInCmp [60] s)) as [a [-> Ha]]; auto.
    exists a. split; [reflexivity|]. split; [reflexivity|]. split; [split; assumption|].
      split; [split; [apply Wspec; lia|assumption]|exact Ha].
  - (* DOWN symbol selector label *)
    rename s into a, lab into s, c into lab.
    destruct (opis "DOWN" op) eqn:E1; [|discriminate]. opname E1.
    destruct (is_sym_text a) eqn:Ha; [|discriminate]. destruct (is_selector_text s) eqn:Hs; [|discriminate].
    destruct (is_sym_text lab) eqn:Hlab; [|discriminate]. cbn [andb] in Hp. inversion Hp; subst p q.
    sel_guards Hnn Hdp s.
    change (longsym_line (L (s2b "DOWN") [a; s; lab])) with (existsb (fun a => 255 <? len a) [a; s; lab]) in Hlong.
    apply existsb_three in Hlong as [H1 [H2 H3]]. apply N.ltb_ge in H1, H2, H3.
    destruct (down_case s a lab x Ha Hs Hnn Hdp Hlab Hf) as [ar [-> Har]].
    pose proof (sym_text_wf a Ha H1) as Wa. pose proof (sel_text_wf s Hs H2) as Ws. pose proof (sym_text_wf lab Hlab H3) as Wl.
    exists ar. split; [reflexivity|]. split; [reflexivity|]. split; [split; assumption|].
    split; [split; assumption|exact Har].
Qed.

(* ---- the Parse loop ------------------------------------------------------------------------ *)

Lemma front_cons l r ls :
  front (l :: r) = Some ls -> exists x xs, front_line l = Some x /\ front r = Some xs /\ ls = x :: xs.
Proof.
  cbn [front]. destruct (front_line l) as [x|]; [|discriminate]. destruct (front r) as [xs|]; [|discriminate].
  intros H. inversion H. exists x, xs. auto.
Qed.

(* a block of batch lines at the end of the source: every line is added, the exit writes them *)
Lemma asm_loop_batch : forall src pre post ls bt bs,
  batch_all src = Some (pre, post) -> Forall line_ok src -> front src = Some ls ->
  asm_loop ls bt = (bs, Ok tt) -> (src <> [] \/ b_in bt = true) ->
  exists its, bs = to_lines (b_items bt ++ its)
    /\ map item_pre its = map encode pre /\ map item_post its = map encode post
    /\ Forall wf_instr pre /\ Forall wf_instr post.
Proof.
  induction src as [|l r IH]; intros pre post ls bt bs Hb Hok Hfr Hloop Hin.
  - cbn in Hb. inversion Hb; subst pre post. cbn in Hfr. inversion Hfr; subst ls.
    destruct Hin as [Hin|Hin]; [congruence|].
    cbn [asm_loop] in Hloop. unfold menu_exit in Hloop. rewrite Hin in Hloop. cbn [fst] in Hloop.
    inversion Hloop. exists []. rewrite app_nil_r. repeat split; constructor.
  - cbn [batch_all] in Hb. destruct (batch_instrs l) as [[p q]|] eqn:El; [|discriminate].
    destruct (batch_all r) as [[ps qs]|] eqn:Er; [|discriminate]. inversion Hb; subst pre post.
    destruct (front_cons _ _ _ Hfr) as [x [xs [Hx [Hxs ->]]]].
    inversion Hok as [|? ? Hl Hr]; subst.
    destruct (batch_line_correct l p q x El Hl Hx) as [a [-> [Hlook [Wp [Wq Hadd]]]]].
    cbn [asm_loop] in Hloop. rewrite Hlook in Hloop.
    destruct (menu_add bt (l_op l) a) as [bt'|e|s] eqn:Ea; [|inversion Hloop|inversion Hloop].
    destruct (Hadd bt bt' Ea) as [it [-> [Hpre Hpost]]].
    destruct (IH ps qs xs _ bs eq_refl Hr Hxs Hloop (or_intror eq_refl)) as [its [Hbs [Hp' [Hq' [Wps Wqs]]]]].
    exists (it :: its). cbn [b_items] in Hbs. rewrite <- app_assoc in Hbs. cbn [app] in Hbs.
    split; [exact Hbs|]. cbn [map]. rewrite Hpre, Hpost, Hp', Hq'.
    repeat split; try reflexivity; constructor; assumption.
Qed.

Lemma encode_prog_app p q : encode_prog (p ++ q) = (encode_prog p ++ encode_prog q)%list.
Proof. unfold encode_prog. rewrite map_app, concat_app. reflexivity. Qed.

Lemma asm_loop_plain : forall src p ls bs,
  expand_opt src = Some p -> Forall line_ok src -> front src = Some ls ->
  asm_loop ls (mkB [] false) = (bs, Ok tt) ->
  bs = encode_prog p /\ Forall wf_instr p.
Proof.
  induction src as [|l r IH]; intros p ls bs He Hok Hfr Hloop.
  - cbn in He, Hfr. inversion He; inversion Hfr; subst. cbn in Hloop. inversion Hloop.
    split; [reflexivity|constructor].
  - cbn [expand_opt] in He. destruct (plain_instr l) as [i|] eqn:Ep.
    + destruct (expand_opt r) as [p'|] eqn:Er; cbn [option_map] in He; [|discriminate].
      inversion He; subst p.
      destruct (front_cons _ _ _ Hfr) as [x [xs [Hx [Hxs ->]]]].
      inversion Hok as [|? ? Hl Hr]; subst.
      destruct (plain_line_correct l i x Ep Hl Hx) as [opc [a [-> [Hlook Hem]]]].
      cbn [asm_loop] in Hloop. rewrite Hlook in Hloop.
      change (menu_exit (mkB [] false)) with (@nil N, mkB [] false) in Hloop. cbv iota in Hloop.
      destruct (asm_one opc a) as [b|e|s] eqn:Eo; [|inversion Hloop|inversion Hloop].
      destruct (asm_loop xs (mkB [] false)) as [o st] eqn:Eloop. inversion Hloop; subst bs st.
      destruct (Hem b Eo) as [-> Wi].
      destruct (IH p' xs o eq_refl Hr Hxs Eloop) as [-> Wp].
      split; [reflexivity|constructor; assumption].
    + destruct (batch_all (l :: r)) as [[pre post]|] eqn:Eb; [|discriminate]. inversion He; subst p.
      destruct (asm_loop_batch (l :: r) pre post ls (mkB [] false) bs Eb Hok Hfr Hloop)
        as [its [Hbs [Hpre [Hpost [Wpre Wpost]]]]]; [left; discriminate|].
      cbn [b_items app] in Hbs. unfold to_lines in Hbs. rewrite Hpre, Hpost in Hbs.
      split.
      * rewrite Hbs. rewrite encode_prog_app. reflexivity.
      * apply Forall_app. split; [exact Wpre|constructor; [exact I|exact Wpost]].
Qed.

Lemma guards_Forall src :
  lossless_selectors src = true -> short_syms src = true -> decimal_sizes src = true -> Forall line_ok src.
Proof.
  unfold lossless_selectors, short_syms, decimal_sizes, in_K_numnorm, in_K_digitprefix, in_K_longsym, in_K_octal.
  intros H1 H2 H3. apply andb_true_iff in H1 as [H1 H1'].
  apply negb_true_iff in H1, H1', H2, H3.
  induction src as [|l r IH]; [constructor|].
  cbn [existsb] in *. apply orb_false_iff in H1 as [? ?], H1' as [? ?], H2 as [? ?], H3 as [? ?].
  constructor; [unfold line_ok; auto|apply IH; assumption].
Qed.

Lemma asm_ok_run src bs : asm src = Ok bs -> asm_run src = (bs, Ok tt).
Proof.
  unfold asm. destruct (asm_run src) as [b [u|e|s]]; try discriminate. destruct u. intros H. inversion H. reflexivity.
Qed.

Lemma expand_nonempty src p : src <> [] -> expand_opt src = Some p -> p <> [].
Proof.
  destruct src as [|l r]; [congruence|]. intros _. cbn [expand_opt].
  destruct (plain_instr l).
  - destruct (expand_opt r); cbn [option_map]; intros H; inversion H; discriminate.
  - destruct (batch_all (l :: r)) as [[pre post]|]; intros H; inversion H. destruct pre; discriminate.
Qed.

(* ---- C16 ------------------------------------------------------------------------------------ *)

Theorem asm_emits_expansion_lemma src bs :
  valid_src src -> lossless_selectors src = true -> short_syms src = true -> decimal_sizes src = true ->
  asm src = Ok bs ->
  bs = encode_prog (expand src) /\ Forall wf_instr (expand src) /\ expand src <> [].
Proof.
  unfold valid_src, valid_srcb, expand. intros Hv H1 H2 H3 Ha.
  assert (Hne : src <> []) by (destruct src; [discriminate|discriminate]).
  destruct (expand_opt src) as [p|] eqn:Ee; [|destruct src; discriminate].
  apply asm_ok_run in Ha. unfold asm_run in Ha.
  destruct (front src) as [ls|] eqn:Ef; [|inversion Ha].
  destruct (asm_loop_plain src p ls bs Ee (guards_Forall src H1 H2 H3) Ef Ha) as [Hbs Hwf].
  split; [exact Hbs|]. split; [exact Hwf|]. eapply expand_nonempty; eassumption.
Qed.

Theorem asm_fidelity_partial_lemma src bs :
  valid_src src -> lossless_selectors src = true -> short_syms src = true -> decimal_sizes src = true ->
  asm src = Ok bs -> parse_all bs = Ok (expand src).
Proof.
  intros Hv H1 H2 H3 Ha.
  destruct (asm_emits_expansion_lemma src bs Hv H1 H2 H3 Ha) as [-> [Hwf Hne]].
  apply prog_roundtrip_lemma; assumption.
Qed.

(* a block of documented batch lines (any combination, any number) assembles to its MOUT/MNEXT/
   MPREV lines in order, one HALT, its INCMP lines in order *)
Theorem batch_expansion_lemma ls pre post bs :
  ls <> [] -> batch_all ls = Some (pre, post) ->
  lossless_selectors ls = true -> short_syms ls = true ->
  asm ls = Ok bs ->
  bs = encode_prog (pre ++ IHalt :: post) /\ parse_all bs = Ok (pre ++ IHalt :: post)%list.
Proof.
  intros Hne Hb H1 H2 Ha.
  assert (H3 : decimal_sizes ls = true).
  { clear - Hb. unfold decimal_sizes, in_K_octal. apply negb_true_iff.
    revert pre post Hb. induction ls as [|l r IH]; intros pre post Hb; [reflexivity|].
    cbn [batch_all] in Hb. destruct (batch_instrs l) as [[p q]|] eqn:El; [|discriminate].
    destruct (batch_all r) as [[ps qs]|] eqn:Er; [|discriminate].
    cbn [existsb]. rewrite (IH ps qs eq_refl), orb_false_r.
    destruct l as [op args]. unfold batch_instrs in El. unfold octal_line, line_sizes. cbn [l_op l_args] in *.
    destruct args as [|a [|b [|c [|d args]]]]; try discriminate.
    - destruct (is_selector_text a && is_sym_text b); [|discriminate].
      destruct (opis "CROAK" op) eqn:E1.
      { apply bytes_eqb_eq in E1. subst op. discriminate El. }
      destruct (opis "LOAD" op) eqn:E2; [|reflexivity].
      apply bytes_eqb_eq in E2. subst op. discriminate El.
    - destruct (opis "CATCH" op) eqn:E1; [|reflexivity].
      apply bytes_eqb_eq in E1. subst op. discriminate El. }
  assert (Hexp : expand_opt ls = Some (pre ++ IHalt :: post)%list).
  { destruct ls as [|l r]; [congruence|]. cbn [expand_opt].
    assert (Hpl : plain_instr l = None).
    { cbn [batch_all] in Hb. destruct (batch_instrs l) as [[p q]|] eqn:El; [|discriminate].
      destruct l as [op args]. unfold batch_instrs in El. unfold plain_instr. cbn [l_op l_args] in *.
      destruct args as [|a [|b [|c [|d args]]]]; try discriminate.
      - destruct (is_selector_text a && is_sym_text b); [|discriminate].
        destruct (opis "UP" op) eqn:U; [apply bytes_eqb_eq in U; subst op; reflexivity|].
        destruct (opis "NEXT" op) eqn:N; [apply bytes_eqb_eq in N; subst op; reflexivity|].
        destruct (opis "PREVIOUS" op) eqn:P; [apply bytes_eqb_eq in P; subst op; reflexivity|discriminate].
      - destruct (opis "DOWN" op) eqn:D; [apply bytes_eqb_eq in D; subst op; reflexivity|discriminate]. }
    rewrite Hpl, Hb. reflexivity. }
  assert (Hv : valid_src ls).
  { unfold valid_src, valid_srcb. rewrite Hexp. destruct ls; [congruence|reflexivity]. }
  pose proof (asm_emits_expansion_lemma ls bs Hv H1 H2 H3 Ha) as [Hbs [Hwf Hn]].
  unfold expand in *. rewrite Hexp in *. split; [exact Hbs|].
  rewrite Hbs. apply prog_roundtrip_lemma; assumption.
Qed.

(* ---- the findings: witnesses inside each guard complement ------------------------------------ *)

Local Open Scope string_scope.
Definition LS (op : string) (args : list string) : line := L (s2b op) (map s2b args).

(* `INCMP foo 00` is assembled as `INCMP foo 0` *)
Lemma refuted_numnorm_lemma :
  exists src bs, valid_src src /\ in_K_numnorm src = true
    /\ in_K_digitprefix src = false /\ short_syms src = true /\ decimal_sizes src = true
    /\ asm src = Ok bs
    /\ parse_all bs = Ok [IInCmp (s2b "foo") (s2b "0")]
    /\ expand src = [IInCmp (s2b "foo") (s2b "00")].
Proof. exists [LS "INCMP" ["foo"; "00"]]. eexists. vm_compute. repeat split. Qed.

(* `INCMP foo 1a` is assembled as `INCMP foo 1`; `DOWN foo 1a to_foo` as `MOUT to_foo a / HALT / INCMP foo a` *)
Lemma refuted_digitprefix_lemma :
  (exists src bs, valid_src src /\ in_K_digitprefix src = true
    /\ in_K_numnorm src = false /\ short_syms src = true /\ decimal_sizes src = true
    /\ asm src = Ok bs
    /\ parse_all bs = Ok [IInCmp (s2b "foo") (s2b "1")]
    /\ expand src = [IInCmp (s2b "foo") (s2b "1a")])
  /\ (exists src bs, valid_src src /\ in_K_digitprefix src = true
    /\ in_K_numnorm src = false /\ short_syms src = true /\ decimal_sizes src = true
    /\ asm src = Ok bs
    /\ parse_all bs = Ok [IMOut (s2b "to_foo") (s2b "a"); IHalt; IInCmp (s2b "foo") (s2b "a")]
    /\ expand src = [IMOut (s2b "to_foo") (s2b "1a"); IHalt; IInCmp (s2b "foo") (s2b "1a")]).
Proof.
  split.
  - exists [LS "INCMP" ["foo"; "1a"]]. eexists. vm_compute. repeat split.
  - exists [LS "DOWN" ["foo"; "1a"; "to_foo"]]. eexists. vm_compute. repeat split.
Qed.

(* `MOVE <256 bytes>` is assembled as the bare opcode 00 06: the writeSym error is dropped *)
Lemma refuted_longsym_lemma :
  exists src, valid_src src /\ in_K_longsym src = true
    /\ lossless_selectors src = true /\ decimal_sizes src = true
    /\ asm src = Ok [0; 6; 0; 7]%N
    /\ parse_all [0; 6; 0; 7]%N = Err EGen
    /\ expand src = [IMove (rep 97 256); IHalt].
Proof. exists [L (s2b "MOVE") [rep 97 256]; LS "HALT" []]. vm_compute. repeat split. Qed.

(* `LOAD foo 010` is assembled as `LOAD foo 8` *)
Lemma refuted_octal_lemma :
  exists src bs, valid_src src /\ in_K_octal src = true
    /\ lossless_selectors src = true /\ short_syms src = true
    /\ asm src = Ok bs
    /\ parse_all bs = Ok [ILoad (s2b "foo") 8]
    /\ expand src = [ILoad (s2b "foo") 10].
Proof. exists [LS "LOAD" ["foo"; "010"]]. eexists. vm_compute. repeat split. Qed.

(* the batcher is never reset: a second block of batch lines repeats the first.  Such a source is
   not valid (batch lines must end the source), so this is recorded, not a C16 finding. *)
Lemma second_block_repeats_first :
  asm [LS "UP" ["1"; "a"]; LS "HALT" []; LS "UP" ["2"; "b"]]
  = Ok (encode_prog [IMOut (s2b "a") (s2b "1"); IHalt; IInCmp [95]%N (s2b "1"); IHalt;
                     IMOut (s2b "a") (s2b "1"); IMOut (s2b "b") (s2b "2"); IHalt;
                     IInCmp [95]%N (s2b "1"); IInCmp [95]%N (s2b "2")]).
Proof. vm_compute. reflexivity. Qed.

(* the five rows of the "Batch menu expansion" table of instructions.texi *)
Lemma texi_batch_table :
  asm [LS "DOWN" ["foo"; "0"; "to_foo"]]
    = Ok (encode_prog [IMOut (s2b "to_foo") (s2b "0"); IHalt; IInCmp (s2b "foo") (s2b "0")])
  /\ asm [LS "UP" ["1"; "back"]]
    = Ok (encode_prog [IMOut (s2b "back") (s2b "1"); IHalt; IInCmp (s2b "_") (s2b "1")])
  /\ asm [LS "NEXT" ["2"; "fwd"]]
    = Ok (encode_prog [IMNext (s2b "fwd") (s2b "2"); IHalt; IInCmp (s2b ">") (s2b "2")])
  /\ asm [LS "PREVIOUS" ["3"; "back"]]
    = Ok (encode_prog [IMPrev (s2b "back") (s2b "3"); IHalt; IInCmp (s2b "<") (s2b "3")])
  /\ asm [LS "DOWN" ["foo"; "0"; "to_foo"]; LS "UP" ["1"; "back"]]
    = Ok (encode_prog [IMOut (s2b "to_foo") (s2b "0"); IMOut (s2b "back") (s2b "1"); IHalt;
                       IInCmp (s2b "foo") (s2b "0"); IInCmp (s2b "_") (s2b "1")]).
Proof. vm_compute. repeat split. Qed.
