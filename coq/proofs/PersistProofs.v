(* PersistProofs.v — C11 at the level of persist.Persister: what a Load decodes into, what Save's flush leaves
   behind, isolation of sessions served through new persisters, and the leaks of a reused one (K-C11-6). *)
From Coq Require Import Lia ZifyN ZifyNat ZifyBool.
From Vise Require Import Bytes Errors Consts CacheModel StateModel DbKey PersistModel BytesProofs.
Local Open Scope N_scope.

(* ---- association lists ------------------------------------------------------------------------------------ *)
Lemma alookup_aset_eq {V} k (v : V) l : alookup k (aset k v l) = Some v.
Proof.
  induction l as [|[k' v'] l IH]; cbn [aset alookup].
  - rewrite bytes_eqb_refl. reflexivity.
  - destruct (bytes_eqb k k') eqn:E; cbn [alookup]; rewrite ?bytes_eqb_refl, ?E; auto.
Qed.
Lemma alookup_aset_neq {V} k k2 (v : V) l : k2 <> k -> alookup k2 (aset k v l) = alookup k2 l.
Proof.
  intros Hne. induction l as [|[k' v'] l IH]; cbn [aset alookup].
  - destruct (bytes_eqb k2 k) eqn:E; [apply bytes_eqb_eq in E; congruence|reflexivity].
  - destruct (bytes_eqb k k') eqn:E; cbn [alookup].
    + apply bytes_eqb_eq in E. subst k'.
      destruct (bytes_eqb k2 k) eqn:E2; [apply bytes_eqb_eq in E2; congruence|reflexivity].
    + destruct (bytes_eqb k2 k'); [reflexivity|exact IH].
Qed.

(* ---- clean leftovers ------------------------------------------------------------------------------------------ *)
(* objects that carry nothing of a session: no input, not invalidated, no size entries, every frame map — live or
   cut off in the backing array — empty.  Before repair a037abb this was what a Load could safely decode into;
   now a Load replaces everything, and the predicate only describes what a flushing Save leaves. *)
Definition frame_empty_b (f : frame) : bool := match f with [] => true | _ => false end.
Definition spare_empty_b (o : option frame) : bool := match o with None => true | Some f => frame_empty_b f end.
Definition clean_st_b (s : option pstate) : bool :=
  match s with
  | None => true
  | Some s => match s_input (ps_st s) with None => true | Some _ => false end && negb (ps_invalid s)
  end.
Definition clean_mem_b (m : option pmem) : bool :=
  match m with
  | None => true
  | Some m => negb (pm_invalid m) && match c_sizes (pm_ca m) with [] => true | _ => false end
              && forallb frame_empty_b (c_frames (pm_ca m)) && forallb spare_empty_b (pm_spare m)
  end.
Definition leftover_clean (p : persister) : bool := clean_st_b (p_state p) && clean_mem_b (p_mem p).

(* ---- Load and Save -------------------------------------------------------------------------------------------------- *)
Lemma p_load_found : forall p key r,
  alookup (rec_key (p_sess p) key) (p_store p) = Some r ->
  p_load p key = (mkPers (Some (mkPst (set_input_raw (fst r) None) false)) (Some (mkPmem (snd r) [] false))
                         (p_flush p) (p_sess p) (p_store p), POk).
Proof. intros p key [rs rc] H. unfold p_load. rewrite H. reflexivity. Qed.

(* whatever the persister pointed to before — another session, the leftovers of a flush, invalidated objects —
   a Load that finds a record gives exactly that record and nothing else *)
Lemma load_exact : forall p key r,
  alookup (rec_key (p_sess p) key) (p_store p) = Some r ->
  snd (p_load p key) = POk
  /\ p_state (fst (p_load p key)) = Some (mkPst (set_input_raw (fst r) None) false)
  /\ p_mem (fst (p_load p key)) = Some (mkPmem (snd r) [] false)
  /\ p_store (fst (p_load p key)) = p_store p.
Proof. intros p key r H. rewrite (p_load_found p key r H). cbn. auto. Qed.

Lemma load_not_found : forall p key,
  alookup (rec_key (p_sess p) key) (p_store p) = None -> p_load p key = (p, PNotFound).
Proof. intros p key H. unfold p_load. rewrite H. reflexivity. Qed.

Lemma save_stores : forall p key s m,
  p_state p = Some s -> p_mem p = Some m -> ps_invalid s = false -> pm_invalid m = false ->
  snd (p_save p key) = POk
  /\ alookup (rec_key (p_sess p) key) (p_store (fst (p_save p key))) = Some (ser (ps_st s, pm_ca m))
  /\ (forall sk, sk <> rec_key (p_sess p) key -> alookup sk (p_store (fst (p_save p key))) = alookup sk (p_store p)).
Proof.
  intros p key s m Hs Hm Hi1 Hi2. unfold p_save. rewrite Hs, Hm, Hi1, Hi2. cbn [orb].
  destruct (p_flush p); cbn [fst snd p_store]; (split; [reflexivity|]); (split; [apply alookup_aset_eq|]);
    intros sk Hne; apply alookup_aset_neq; exact Hne.
Qed.

(* after a flushing Save the persister is empty: a new state of the same flag count, a new cache of the same capacity *)
Lemma flush_leaves_empty : forall p key s m,
  p_state p = Some s -> p_mem p = Some m -> ps_invalid s = false -> pm_invalid m = false -> p_flush p = true ->
  p_state (fst (p_save p key)) = Some (mkPst (clone_empty (ps_st s)) false)
  /\ p_mem (fst (p_save p key)) = Some (mkPmem (new_cache (c_size (pm_ca m))) [] false)
  /\ leftover_clean (fst (p_save p key)) = true.
Proof.
  intros p key s m Hs Hm Hi1 Hi2 Hf. unfold p_save. rewrite Hs, Hm, Hi1, Hi2, Hf. cbn [orb fst p_state p_mem flush_mem].
  split; [reflexivity|]. split; [reflexivity|]. reflexivity.
Qed.

(* round trip: saved through any valid persister, loaded by ANY persister over any store that still holds the
   record — whatever else that store and that persister hold *)
Lemma roundtrip : forall p key s m q key',
  p_state p = Some s -> p_mem p = Some m -> ps_invalid s = false -> pm_invalid m = false ->
  alookup (rec_key (p_sess q) key') (p_store q) = alookup (rec_key (p_sess p) key) (p_store (fst (p_save p key))) ->
  snd (p_load q key') = POk
  /\ p_state (fst (p_load q key')) = Some (mkPst (set_input_raw (ps_st s) None) false)
  /\ p_mem (fst (p_load q key')) = Some (mkPmem (pm_ca m) [] false).
Proof.
  intros p key s m q key' Hs Hm Hi1 Hi2 Hq.
  destruct (save_stores p key s m Hs Hm Hi1 Hi2) as (_ & Hst & _). rewrite Hst in Hq.
  destruct (load_exact q key' _ Hq) as (L1 & L2 & L3 & _).
  split; [exact L1|]. rewrite L2, L3. cbn [ser fst snd]. split; [|reflexivity].
  destruct (ps_st s); reflexivity.
Qed.

(* ---- a NEW persister per request (what the engine harness runs and C07 assumes) ---------------------------------- *)
(* one request: new persister over the store, the engine hands it new objects (st0, ca0), Load; the engine computes
   the next session from what was loaded (None: no record); WithContent; Save (with or without flush) *)
Definition loaded_of (r : rec) : state * cache := (set_input_raw (fst r) None, snd r).
Definition loaded (r : pres) (q : persister) : option (state * cache) :=
  match r, p_state q, p_mem q with
  | POk, Some s, Some m => Some (ps_st s, pm_ca m)
  | _, _, _ => None
  end.

Definition fresh_request (st0 : state) (ca0 : cache) (f : option (state * cache) -> state * cache) (flush : bool)
  (key : bytes) (store : list (bytes * rec)) : list (bytes * rec) :=
  let q0 := with_content (new_persister store) (mkPst (set_input_raw st0 None) false) (mkPmem (mkCache (c_size ca0) 0 [[]] [] []) [] false) in
  let q0 := if flush then with_flush q0 else q0 in
  let '(q1, r) := p_load q0 key in
  let '(st', ca') := f (loaded r q1) in
  p_store (fst (p_save (with_content q1 (mkPst st' false) (mkPmem ca' [] false)) key)).

(* the same on ONE persister that is kept: Load; the caller computes the next session from what was loaded —
   and, when there is no record, from nothing the persister holds —; WithContent; Save *)
Definition reused_request (f : option (state * cache) -> state * cache) (key : bytes) (p : persister) : persister :=
  let '(q1, r) := p_load p key in
  let '(st', ca') := f (loaded r q1) in
  fst (p_save (with_content q1 (mkPst st' false) (mkPmem ca' [] false)) key).

Lemma reused_request_spec : forall f key p,
  p_store (reused_request f key p)
  = aset (rec_key (p_sess p) key) (ser (f (option_map loaded_of (alookup (rec_key (p_sess p) key) (p_store p))))) (p_store p)
  /\ p_sess (reused_request f key p) = p_sess p /\ p_flush (reused_request f key p) = p_flush p.
Proof.
  intros f key p. unfold reused_request.
  destruct (alookup (rec_key (p_sess p) key) (p_store p)) as [[rs rc]|] eqn:Er.
  - rewrite (p_load_found p key (rs, rc) Er). cbn [loaded p_state p_mem ps_st pm_ca fst snd option_map].
    change (loaded_of (rs, rc)) with (set_input_raw rs None, rc).
    destruct (f (Some (set_input_raw rs None, rc))) as [st' ca'].
    unfold p_save, with_content. cbn [p_state p_mem p_flush p_sess p_store ps_invalid pm_invalid orb ps_st pm_ca].
    destruct (p_flush p); cbn; auto.
  - rewrite (load_not_found p key Er). cbn [loaded option_map].
    destruct (f None) as [st' ca'].
    unfold p_save, with_content. cbn [p_state p_mem p_flush p_sess p_store ps_invalid pm_invalid orb ps_st pm_ca].
    destruct (p_flush p); cbn; auto.
Qed.

Lemma fresh_request_spec : forall st0 ca0 f flush key store,
  fresh_request st0 ca0 f flush key store =
  aset (rec_key [] key) (ser (f (option_map loaded_of (alookup (rec_key [] key) store)))) store.
Proof.
  intros st0 ca0 f flush key store. unfold fresh_request.
  set (q := if flush then with_flush _ else _).
  assert (Hq : p_sess q = [] /\ p_store q = store) by (unfold q; destruct flush; cbn; auto).
  destruct Hq as (Q3 & Q4).
  destruct (reused_request_spec f key q) as (R1 & _). unfold reused_request in R1. rewrite Q3, Q4 in R1.
  destruct (p_load q key) as [q1 r]. destruct (f (loaded r q1)) as [st' ca']. exact R1.
Qed.

(* ---- isolation ------------------------------------------------------------------------------------------------------------ *)
Record freq := mkFreq {
  fq_key : bytes;
  fq_st0 : state; fq_ca0 : cache;                       (* the new objects of this request's engine *)
  fq_f : option (state * cache) -> state * cache;      (* what the engine makes of the loaded session *)
  fq_flush : bool
}.
Definition serve_fresh (store : list (bytes * rec)) (reqs : list freq) : list (bytes * rec) :=
  fold_left (fun s q => fresh_request (fq_st0 q) (fq_ca0 q) (fq_f q) (fq_flush q) (fq_key q) s) reqs store.
Definition serve_reused (p : persister) (reqs : list freq) : persister :=
  fold_left (fun p q => reused_request (fq_f q) (fq_key q) p) reqs p.

Lemma rec_key_plain : forall k, rec_key [] k = DATATYPE_STATE :: k.
Proof.
  intros k. unfold rec_key, skey, to_db_key, lang_suffix, sid_enc. cbn [List.app].
  destruct (sessioned DATATYPE_STATE); rewrite app_nil_r; reflexivity.
Qed.
Lemma rec_key_inj : forall k1 k2, rec_key [] k1 = rec_key [] k2 -> k1 = k2.
Proof. intros k1 k2 H. rewrite !rec_key_plain in H. injection H as H. exact H. Qed.

Lemma serve_fresh_isolated_gen : forall reqs s1 s2 k,
  alookup (rec_key [] k) s1 = alookup (rec_key [] k) s2 ->
  alookup (rec_key [] k) (serve_fresh s1 reqs)
  = alookup (rec_key [] k) (serve_fresh s2 (filter (fun q => bytes_eqb (fq_key q) k) reqs)).
Proof.
  induction reqs as [|q reqs IH]; intros s1 s2 k H; [exact H|].
  unfold serve_fresh. cbn [fold_left filter].
  destruct (bytes_eqb (fq_key q) k) eqn:E.
  - apply bytes_eqb_eq in E. cbn [fold_left]. apply IH. rewrite !fresh_request_spec, E, H, !alookup_aset_eq. reflexivity.
  - apply IH. rewrite fresh_request_spec, alookup_aset_neq; [exact H|].
    intros Hk. apply rec_key_inj in Hk. subst k. rewrite bytes_eqb_refl in E. discriminate.
Qed.

(* what is stored for a session after any sequence of requests, each served through a NEW persister, is what is
   stored when only that session's requests are served *)
Lemma serve_fresh_isolated : forall reqs store k,
  alookup (rec_key [] k) (serve_fresh store reqs)
  = alookup (rec_key [] k) (serve_fresh store (filter (fun q => bytes_eqb (fq_key q) k) reqs)).
Proof. intros. apply serve_fresh_isolated_gen. reflexivity. Qed.

(* since the repair: ONE persister kept across all requests (any flush mode, whatever it holds at the start)
   leaves the same store as a new persister per request — provided every request saves what it computed from
   the LOADED session only (reused_request); what remains of K-C11-6 lies outside this proviso *)
Lemma serve_reused_as_fresh : forall reqs p,
  p_sess p = [] -> p_store (serve_reused p reqs) = serve_fresh (p_store p) reqs.
Proof.
  induction reqs as [|q reqs IH]; intros p Hs; [reflexivity|].
  unfold serve_reused, serve_fresh. cbn [fold_left].
  destruct (reused_request_spec (fq_f q) (fq_key q) p) as (R1 & R2 & _).
  fold (serve_reused (reused_request (fq_f q) (fq_key q) p) reqs).
  rewrite IH by (rewrite R2; exact Hs). unfold serve_fresh. rewrite R1, Hs, fresh_request_spec. reflexivity.
Qed.

Lemma serve_reused_isolated : forall reqs p k,
  p_sess p = [] ->
  alookup (rec_key [] k) (p_store (serve_reused p reqs))
  = alookup (rec_key [] k) (serve_fresh (p_store p) (filter (fun q => bytes_eqb (fq_key q) k) reqs)).
Proof. intros reqs p k Hs. rewrite serve_reused_as_fresh by exact Hs. apply serve_fresh_isolated. Qed.

(* ---- witnesses -------------------------------------------------------------------------------------------------------------- *)
Definition run_ops (ops : list pop) : persister := fold_left (fun p o => fst (p_step p o)) ops (new_persister []).

Definition w_secret : bytes := s2b "secret of A"%string.
Definition wA_st : pstate :=
  mkPst (mkState [0; 7] [s2b "root"%string; s2b "foo"%string] 11 0 (falses 16) (Some (s2b "nor"%string)) (Some [49])) false.
Definition wA_mem : pmem :=
  mkPmem (mkCache 0 11 [[]; [(s2b "aa"%string, w_secret)]] [(s2b "aa"%string, 0)] w_secret) [] false.
Definition wB_st : pstate :=
  mkPst (mkState [0; 7] [s2b "root"%string; s2b "bar"%string] 11 0 (falses 16) None None) false.
Definition wB_mem : pmem :=
  mkPmem (mkCache 0 1 [[]; [(s2b "bb"%string, [98])]] [(s2b "bb"%string, 0)] [98]) [] false.
Definition k1 : bytes := s2b "k1"%string.
Definition k2 : bytes := s2b "k2"%string.
Definition k3 : bytes := s2b "k3"%string.

(* the histories that leaked before repair a037abb *)
Definition w_ops1 : list pop := [PWithFlush; PWithContent wA_st wA_mem; PSave k1; PLoad k2; PSave k2].
Definition w_ops2 : list pop := [PWithContent wB_st wB_mem; PSave k2; PWithFlush; PWithContent wA_st wA_mem; PSave k1; PLoad k2].

(* regression, mechanism 1 (the flush left Sizes {aa:0} and LastValue "secret of A", which a session without a
   record was saved with): the persister is clean after the flush and k2's first record is an empty session *)
Lemma flush_leftovers_gone :
  leftover_clean (run_ops [PWithFlush; PWithContent wA_st wA_mem; PSave k1]) = true
  /\ snd (p_load (run_ops [PWithFlush; PWithContent wA_st wA_mem; PSave k1]) k2) = PNotFound
  /\ alookup (rec_key [] k2) (p_store (run_ops w_ops1)) = Some (new_state 3, new_cache 0).
Proof. vm_compute. auto. Qed.

(* regression, mechanism 2 (k2's record was decoded INTO the frame maps the flush had cut off: frame 1 held A's
   value, Pop wrapped the use counter to 4294967285): the persister holds exactly k2's record *)
Lemma decode_into_gone :
  let p := run_ops w_ops2 in
  option_map ps_st (p_state p) = Some (ps_st wB_st) /\ option_map pm_ca (p_mem p) = Some (pm_ca wB_mem)
  /\ option_map (fun m => alookup (s2b "aa"%string) (nth 1 (c_frames (pm_ca m)) [])) (p_mem p) = Some None
  /\ option_map (fun m => match cache_pop (pm_ca m) with Ok c => c_use c | _ => 1 end) (p_mem p) = Some 0.
Proof. vm_compute. auto. Qed.

(* regression: the unexported marks are replaced by a Load as well *)
Lemma marks_gone :
  option_map (fun s => s_input (ps_st s)) (p_state (run_ops [PWithContent wB_st wB_mem; PSave k2; PWithContent wA_st wA_mem; PLoad k2])) = Some None
  /\ snd (p_step (run_ops [PWithContent wA_st wA_mem; PSave k1; PInvalidateMemory; PLoad k1]) (PSave k1)) = POk.
Proof. vm_compute. auto. Qed.

(* what remains of K-C11-6: content that no Save took away.  Session k1 is loaded (a request that ends without a
   saving Finish), the next session k3 has no record: its Load fails and leaves k1's session in the persister; a
   caller that goes on with what the persister holds — as the engine does (preparePersist adopts GetState()) —
   saves k1's position, language and cache under k3.  With or without flush mode. *)
Definition w_ops_nosave (flush : bool) : list pop :=
  (if flush then [PWithFlush] else @nil pop) ++ [PWithContent wA_st wA_mem; PSave k1; PLoad k1; PLoad k3; PSave k3].
Lemma reuse_leak_nosave : forall flush : bool,
  snd (p_load (run_ops ((if flush then [PWithFlush] else @nil pop) ++ [PWithContent wA_st wA_mem; PSave k1; PLoad k1])) k3) = PNotFound
  /\ leftover_clean (run_ops ((if flush then [PWithFlush] else @nil pop) ++ [PWithContent wA_st wA_mem; PSave k1; PLoad k1; PLoad k3])) = false
  /\ alookup (rec_key [] k3) (p_store (run_ops (w_ops_nosave flush))) = Some (ser (ps_st wA_st, pm_ca wA_mem))
  /\ alookup (rec_key [] k3) (p_store (run_ops (w_ops_nosave flush))) = alookup (rec_key [] k1) (p_store (run_ops (w_ops_nosave flush))).
Proof. intros [|]; vm_compute; auto. Qed.

Definition w_new_st : pstate := mkPst (new_state 3) false.
Definition w_new_mem : pmem := mkPmem (new_cache 0) [] false.
