(* BisimProofs.v — C07: one long-lived engine and one engine per request over a store answer alike.
   Part A: pages up to fields nothing reads; Part B: the VM and the renderer respect that equivalence;
   Part C: the engine-level simulation. *)
From Coq Require Import Lia ZifyN ZifyNat ZifyBool.
From Vise Require Import Bytes Errors Consts EngConsts Codec CacheModel StateModel NavModel RenderModel VmModel EngineModel
  BytesProofs CodecProofs NavProofs VmProofs EngineProofs.
Local Open Scope N_scope.

(* ================================================================================================ *)
(* Part A: pages up to what nothing reads                                                            *)
(* ================================================================================================ *)
(* the sizer's member table and running total are written (Sizer.Set) and never read *)
Definition znorm (z : sizer) : sizer := mkSizer (z_out z) [] 0 (z_crsrs z) (z_sink z).
(* the menu's browse configuration and availability flags.  Since repair c373f7d Menu.Reset erases them, and the
   engine simulation below uses lk = false only; the coarser equivalence (lk = true) is kept because the run loop
   respects it as well (it never reads the browse configuration: only rendering does) *)
Definition scrub_menu (m : menu) : menu :=
  mkMenu (m_items m) browse_zero (m_page_count m) false false (m_sink m) (m_keep m) (m_sep m) (m_has_rs m).
Definition mnorm (lk : bool) (m : menu) : menu := if lk then scrub_menu m else m.
(* lk = false: equal up to the dead sizer fields; lk = true: also up to the browse configuration (not needed any more) *)
Definition pnorm (lk : bool) (pg : page) : page :=
  mkPage (p_map pg) (p_sink pg) (option_map (mnorm lk) (p_menu pg)) (option_map znorm (p_sizer pg)) (p_err pg) (p_extra pg).
Definition peq (lk : bool) (a b : page) : Prop := pnorm lk a = pnorm lk b.

(* what Run does to the page when execution resumes after a HALT *)
Definition wreset (pg : page) : page := upd_menu menu_reset (page_reset (page_with_error pg None)).

(* what survives every operation: presence of menu and sizer, separator, resource, output size *)
Definition pshape (pg : page) : option (bytes * bool) * option N :=
  (option_map (fun m => (m_sep m, m_has_rs m)) (p_menu pg), option_map z_out (p_sizer pg)).

Lemma peq_refl : forall lk a, peq lk a a. Proof. reflexivity. Qed.
Lemma peq_sym : forall lk a b, peq lk a b -> peq lk b a. Proof. unfold peq; intros; congruence. Qed.
Lemma peq_trans : forall lk a b c, peq lk a b -> peq lk b c -> peq lk a c. Proof. unfold peq; intros; congruence. Qed.

Lemma peq_inv : forall lk a b, peq lk a b ->
  p_map a = p_map b /\ p_sink a = p_sink b /\ option_map (mnorm lk) (p_menu a) = option_map (mnorm lk) (p_menu b)
  /\ option_map znorm (p_sizer a) = option_map znorm (p_sizer b) /\ p_err a = p_err b /\ p_extra a = p_extra b.
Proof. intros lk a b H. unfold peq, pnorm in H. injection H as H1 H2 H3 H4 H5 H6. auto 10. Qed.

Lemma peq_intro : forall lk a b,
  p_map a = p_map b -> p_sink a = p_sink b -> option_map (mnorm lk) (p_menu a) = option_map (mnorm lk) (p_menu b) ->
  option_map znorm (p_sizer a) = option_map znorm (p_sizer b) -> p_err a = p_err b -> p_extra a = p_extra b -> peq lk a b.
Proof. intros lk a b H1 H2 H3 H4 H5 H6. unfold peq, pnorm. congruence. Qed.

Lemma mnorm_inv_true : forall a b, scrub_menu a = scrub_menu b ->
  m_items a = m_items b /\ m_page_count a = m_page_count b /\ m_sink a = m_sink b /\ m_keep a = m_keep b
  /\ m_sep a = m_sep b /\ m_has_rs a = m_has_rs b.
Proof. intros a b H. unfold scrub_menu in H. injection H as H1 H2 H3 H4 H5 H6. auto 10. Qed.

Lemma mnorm_shape : forall lk a b, mnorm lk a = mnorm lk b -> m_sep a = m_sep b /\ m_has_rs a = m_has_rs b.
Proof.
  intros [|] a b H; cbn [mnorm] in H; [|subst; auto].
  destruct (mnorm_inv_true a b H) as [_ [_ [_ [_ [H5 H6]]]]]. auto.
Qed.

Lemma peq_pshape : forall lk a b, peq lk a b -> pshape a = pshape b.
Proof.
  intros lk a b H. destruct (peq_inv lk a b H) as [_ [_ [Hm [Hz _]]]]. unfold pshape. f_equal.
  - destruct (p_menu a) as [ma|], (p_menu b) as [mb|]; cbn [option_map] in *; try discriminate; [|reflexivity].
    injection Hm as Hm. destruct (mnorm_shape lk ma mb Hm) as [Hs Hr]. congruence.
  - destruct (p_sizer a) as [za|], (p_sizer b) as [zb|]; cbn [option_map] in *; try discriminate; [|reflexivity].
    assert (Hz' : znorm za = znorm zb) by congruence.
    apply (f_equal z_out) in Hz'. cbn [znorm z_out] in Hz'. congruence.
Qed.

(* menu operations that commute with scrubbing *)
Definition mresp (f : menu -> menu) : Prop := forall lk a b, mnorm lk a = mnorm lk b -> mnorm lk (f a) = mnorm lk (f b).

Lemma mresp_reset : mresp menu_reset.
Proof.
  intros [|] a b H; cbn [mnorm] in *; [|congruence].
  destruct (mnorm_inv_true a b H) as [H1 [H2 [H3 [H4 [H5 H6]]]]].
  unfold menu_reset, menu_reset_flags, set_can, scrub_menu. cbn [m_items m_browse m_page_count m_can_next m_can_prev m_sink m_keep m_sep m_has_rs].
  congruence.
Qed.
Lemma mresp_put : forall s t, mresp (fun m => menu_put m s t).
Proof.
  intros s t [|] a b H; cbn [mnorm] in *; [|congruence].
  destruct (mnorm_inv_true a b H) as [H1 [H2 [H3 [H4 [H5 H6]]]]].
  unfold menu_put, set_items, scrub_menu. cbn [m_items m_browse m_page_count m_can_next m_can_prev m_sink m_keep m_sep m_has_rs].
  congruence.
Qed.
Lemma mresp_sink : mresp (fun m => menu_with_pages (menu_with_sink m)).
Proof.
  intros [|] a b H; cbn [mnorm] in *; [|congruence].
  destruct (mnorm_inv_true a b H) as [H1 [H2 [H3 [H4 [H5 H6]]]]].
  unfold menu_with_pages, menu_with_sink, menu_with_page_count. cbn [m_items m_browse m_page_count m_can_next m_can_prev m_sink m_keep m_sep m_has_rs].
  rewrite H2. destruct (m_page_count b =? 0); unfold scrub_menu; cbn [m_items m_browse m_page_count m_can_next m_can_prev m_sink m_keep m_sep m_has_rs]; congruence.
Qed.
Lemma mresp_next : forall t s, mresp (with_browse_next t s).
Proof.
  intros t s [|] a b H; cbn [mnorm] in *; [|congruence].
  destruct (mnorm_inv_true a b H) as [H1 [H2 [H3 [H4 [H5 H6]]]]].
  unfold with_browse_next, menu_with_browse, scrub_menu. cbn [m_items m_browse m_page_count m_can_next m_can_prev m_sink m_keep m_sep m_has_rs].
  congruence.
Qed.
Lemma mresp_prev : forall t s, mresp (with_browse_prev t s).
Proof.
  intros t s [|] a b H; cbn [mnorm] in *; [|congruence].
  destruct (mnorm_inv_true a b H) as [H1 [H2 [H3 [H4 [H5 H6]]]]].
  unfold with_browse_prev, menu_with_browse, scrub_menu. cbn [m_items m_browse m_page_count m_can_next m_can_prev m_sink m_keep m_sep m_has_rs].
  congruence.
Qed.

Lemma peq_upd_menu : forall f lk a b, mresp f -> peq lk a b -> peq lk (upd_menu f a) (upd_menu f b).
Proof.
  intros f lk a b Hf H. destruct (peq_inv lk a b H) as [H1 [H2 [H3 [H4 [H5 H6]]]]].
  unfold upd_menu.
  destruct (p_menu a) as [ma|] eqn:Ea, (p_menu b) as [mb|] eqn:Eb; cbn [option_map] in H3; try discriminate.
  - injection H3 as H3. apply peq_intro; cbn [p_map p_sink p_menu p_sizer p_err p_extra option_map]; try assumption.
    f_equal. apply Hf. exact H3.
  - exact H.
Qed.

Lemma peq_with_error : forall lk a b e, peq lk a b -> peq lk (page_with_error a e) (page_with_error b e).
Proof.
  intros lk a b e H. destruct (peq_inv lk a b H) as [H1 [H2 [H3 [H4 [H5 H6]]]]].
  apply peq_intro; cbn [page_with_error p_map p_sink p_menu p_sizer p_err p_extra]; auto.
Qed.

Lemma znorm_reset : forall a b, option_map znorm a = option_map znorm b ->
  option_map znorm (option_map sizer_reset a) = option_map znorm (option_map sizer_reset b).
Proof.
  intros [a|] [b|] H; cbn [option_map] in *; try discriminate; [|reflexivity].
  assert (H' : znorm a = znorm b) by congruence.
  pose proof (f_equal z_out H') as Ho. cbn [znorm z_out] in Ho.
  unfold sizer_reset, znorm. cbn [z_out z_crsrs z_sink]. congruence.
Qed.

Lemma peq_page_reset : forall lk a b, peq lk a b -> peq lk (page_reset a) (page_reset b).
Proof.
  intros lk a b H. destruct (peq_inv lk a b H) as [H1 [H2 [H3 [H4 [H5 H6]]]]].
  apply peq_intro; cbn [page_reset p_map p_sink p_menu p_sizer p_err p_extra]; auto.
  - destruct (p_menu a) as [ma|], (p_menu b) as [mb|]; cbn [option_map] in *; try discriminate; [|reflexivity].
    injection H3 as H3. f_equal. apply mresp_reset. exact H3.
  - apply znorm_reset. exact H4.
Qed.

Lemma peq_wreset : forall lk a b, peq lk a b -> peq lk (wreset a) (wreset b).
Proof.
  intros lk a b H. unfold wreset. apply peq_upd_menu; [exact mresp_reset|].
  apply peq_page_reset. apply peq_with_error. exact H.
Qed.

Lemma peq_vm_reset : forall lk sep a b, peq lk a b -> peq lk (vm_reset sep a) (vm_reset sep b).
Proof.
  intros lk sep a b H. apply peq_page_reset in H. destruct (peq_inv lk _ _ H) as [H1 [H2 [H3 [H4 [H5 H6]]]]].
  unfold vm_reset. apply peq_intro; cbn [page_with_menu page_set_menu p_map p_sink p_menu p_sizer p_err p_extra]; auto.
Qed.

(* Map: the outcome class and the mapped page *)
Lemma peq_page_map : forall lk ca a b k, peq lk a b ->
  match page_map ca a k, page_map ca b k with
  | Ok a', Ok b' => peq lk a' b'
  | Err e, Err e' => e = e'
  | Panic n, Panic n' => n = n'
  | _, _ => False
  end.
Proof.
  intros lk ca a b k H. destruct (peq_inv lk a b H) as [H1 [H2 [H3 [H4 [H5 H6]]]]].
  unfold page_map. destruct (cache_get ca k) as [v|e|n]; cbn [obind]; try reflexivity.
  destruct (cache_reserved ca k) as [l|e|n]; cbn [obind]; try reflexivity.
  rewrite H2.
  destruct (if l =? 0 then match p_sink b with Some s => negb (bytes_eqb s k) | None => false end else false); [reflexivity|].
  apply peq_intro; cbn [p_map p_sink p_menu p_sizer p_err p_extra]; try congruence.
  destruct (p_sizer a) as [za|], (p_sizer b) as [zb|]; cbn [option_map] in *; try discriminate; [|reflexivity].
  assert (H4' : znorm za = znorm zb) by congruence.
  pose proof (f_equal z_out H4') as Ho. pose proof (f_equal z_crsrs H4') as Hc. pose proof (f_equal z_sink H4') as Hs.
  cbn [znorm z_out z_crsrs z_sink] in Ho, Hc, Hs.
  unfold sizer_set, znorm. cbn [z_out z_crsrs z_sink]. f_equal. f_equal; try assumption.
  destruct (l =? 0); congruence.
Qed.

(* ---- the shape of a page is never changed ------------------------------------------------------------ *)
Definition mshape (m : menu) : bytes * bool := (m_sep m, m_has_rs m).
Definition mkeeps (f : menu -> menu) : Prop := forall m, mshape (f m) = mshape m.

Lemma pshape_upd_menu : forall f pg, mkeeps f -> pshape (upd_menu f pg) = pshape pg.
Proof.
  intros f pg Hf. unfold upd_menu, pshape. destruct (p_menu pg) as [m|] eqn:E; cbn [p_menu p_sizer option_map]; [|rewrite E; reflexivity].
  f_equal. f_equal. apply (Hf m).
Qed.
Lemma mkeeps_reset : mkeeps menu_reset. Proof. intros m; reflexivity. Qed.
Lemma mkeeps_put : forall s t, mkeeps (fun m => menu_put m s t). Proof. intros s t m; reflexivity. Qed.
Lemma mkeeps_sink : mkeeps (fun m => menu_with_pages (menu_with_sink m)).
Proof. intros m. unfold menu_with_pages. cbn [menu_with_sink m_page_count]. destruct (m_page_count m =? 0); reflexivity. Qed.
Lemma mkeeps_next : forall t s, mkeeps (with_browse_next t s). Proof. intros t s m; reflexivity. Qed.
Lemma mkeeps_prev : forall t s, mkeeps (with_browse_prev t s). Proof. intros t s m; reflexivity. Qed.

Lemma pshape_with_error : forall pg e, pshape (page_with_error pg e) = pshape pg.
Proof. reflexivity. Qed.
Lemma pshape_page_reset : forall pg, pshape (page_reset pg) = pshape pg.
Proof. intros pg. unfold pshape, page_reset. cbn [p_menu p_sizer]. destruct (p_menu pg), (p_sizer pg); reflexivity. Qed.
Lemma pshape_wreset : forall pg, pshape (wreset pg) = pshape pg.
Proof. intros pg. unfold wreset. rewrite pshape_upd_menu by exact mkeeps_reset. rewrite pshape_page_reset. reflexivity. Qed.

Definition sep_eff (sep : bytes) : bytes := match sep with [] => vm_default_sep | _ => sep end.
Lemma pshape_vm_reset : forall sep pg, pshape (vm_reset sep pg) = (Some (sep_eff sep, true), snd (pshape pg)).
Proof.
  intros sep pg. unfold vm_reset, pshape. cbn [page_with_menu page_set_menu page_reset p_menu p_sizer option_map snd].
  f_equal. destruct (p_sizer pg); reflexivity.
Qed.
Lemma pshape_P0 : forall c, pshape (P0 c) = (Some (sep_eff (c_sep c), true), if 0 <? c_out c then Some (c_out c) else None).
Proof.
  intros c. unfold P0, new_vm_page. destruct (c_sep c) as [|x s]; destruct (0 <? c_out c); reflexivity.
Qed.

Lemma pshape_page_map : forall ca pg k pg', page_map ca pg k = Ok pg' -> pshape pg' = pshape pg.
Proof.
  intros ca pg k pg' H. unfold page_map in H.
  destruct (cache_get ca k) as [v|e|n]; cbn [obind] in H; try discriminate.
  destruct (cache_reserved ca k) as [l|e|n]; cbn [obind] in H; try discriminate.
  destruct (if l =? 0 then _ else false); [discriminate|]. injection H as <-.
  unfold pshape. cbn [p_menu p_sizer]. f_equal. destruct (p_sizer pg); reflexivity.
Qed.

(* rendering *)
Lemma mshape_apply_page : forall m idx m1, menu_apply_page m idx = Ok m1 -> mshape m1 = mshape m.
Proof.
  intros m idx m1 H. unfold menu_apply_page in H.
  destruct (m_page_count m =? 0); [destruct (0 <? idx); [discriminate|]; injection H as <-; reflexivity|].
  destruct (m_page_count m <=? idx); [discriminate|]. injection H as <-. reflexivity.
Qed.
Lemma mshape_render_st : forall gm m idx, mshape (snd (menu_render_st gm m idx)) = mshape m.
Proof.
  intros gm m idx. unfold menu_render_st.
  destruct (menu_apply_page m idx) as [m1|e|n] eqn:E; try reflexivity.
  pose proof (mshape_apply_page m idx m1 E) as H1.
  destruct (menu_loop _ (m_sep m1) (m_items m1) []) as [[r|e|n] rest]; cbn [snd]; exact H1.
Qed.

Lemma pshape_set_menu : forall pg m m', p_menu pg = Some m -> mshape m' = mshape m -> pshape (page_set_menu pg (Some m')) = pshape pg.
Proof. intros pg m m' Hm H. unfold pshape. cbn [page_set_menu p_menu p_sizer option_map]. rewrite Hm. cbn [option_map]. unfold mshape in H. rewrite H. reflexivity. Qed.

Lemma pshape_inner : forall gt gm pg sym vals idx, pshape (snd (page_render_inner gt gm pg sym vals idx)) = pshape pg.
Proof.
  intros gt gm pg sym vals idx. unfold page_render_inner.
  destruct (render_template gt pg sym vals idx) as [s|e|n]; try reflexivity.
  destruct (p_menu pg) as [m|] eqn:Em.
  - pose proof (mshape_render_st gm m idx) as Hs.
    destruct (menu_render_st gm m idx) as [[ms|e|n] m']; cbn [snd] in Hs;
      try (cbn [snd]; eapply pshape_set_menu; eassumption).
    change (p_sizer (page_set_menu pg (Some m'))) with (p_sizer pg).
    destruct (p_sizer pg) as [z|]; [destruct (snd (sizer_check z _))|]; cbn [snd]; eapply pshape_set_menu; eassumption.
  - destruct (p_sizer pg) as [z|]; [destruct (snd (sizer_check z s))|]; reflexivity.
Qed.

(* ---- Page.prepare in two named steps ------------------------------------------------------------------ *)
Definition prep_step1 (gm : bytes -> res bytes) (pg : page) (nsv0 : list (bytes * bytes)) (sink0 : bytes) (svs0 : list bytes)
  : res (list (bytes * bytes) * bytes * list bytes) * page :=
  let aliased := match sink0 with [] => true | _ => false end in
  match p_menu pg with
  | Some m =>
    if m_sink m then
      if negb aliased then (Err EGen, pg)
      else
        let m1 := menu_with_pages (menu_with_dispose m) in
        match menu_render_st gm m1 0 with
        | (Ok s, m2) =>
          let pg1 := page_set_extra (page_set_menu pg (Some m2)) menu_sink_extra in
          let pg2 := page_set_sizer pg1 (option_map (fun z => sizer_set_sink z menu_sink_key) (p_sizer pg1)) in
          let '(nsv1, pg3) := prep_write aliased pg2 nsv0 menu_sink_key [] in
          (Ok (nsv1, menu_sink_key, split_on nl s), pg3)
        | (Err e, m2) => (Err e, page_set_menu pg (Some m2))
        | (Panic p, m2) => (Panic p, page_set_menu pg (Some m2))
        end
    else (Ok (nsv0, sink0, svs0), pg)
  | None => (Ok (nsv0, sink0, svs0), pg)
  end.

Definition prep_step2 (gt gm : bytes -> res bytes) (pg1 : page) (sym : bytes) (aliased : bool)
  (nsv : list (bytes * bytes)) (sink : bytes) (svs : list bytes) : res (list (bytes * bytes)) * page :=
  let pg2 := page_set_sizer pg1 (option_map (fun z => sizer_add_cursor z 0) (p_sizer pg1)) in
  match page_render_inner gt gm pg2 sym nsv 0 with
  | (Err e, pg3) => (Err e, pg3)
  | (Panic s, pg3) => (Panic s, pg3)
  | (Ok s, pg3) =>
    match p_sizer pg3 with
    | None => (Panic 31, pg3)
    | Some z =>
      let '(remaining, ok) := sizer_check z s in
      if negb ok then (Err EGen, pg3) else
      match (match p_menu pg3 with Some m => menu_sizes m | None => Ok ms_zero end) with
      | Err e => (Err e, pg3)
      | Panic p => (Panic p, pg3)
      | Ok ms =>
        let '(jr, crs') := join_sink svs remaining ms (z_crsrs z) in
        let pg4 := page_set_sizer pg3 (Some (sizer_set_crsrs z crs')) in
        match jr with
        | Err e => (Err e, pg4)
        | Panic p => (Panic p, pg4)
        | Ok (sink_string, count) =>
          let '(nsv', pg5) := prep_write aliased pg4 nsv sink sink_string in
          let pg6 := page_set_menu pg5 (option_map (fun m => menu_with_page_count m count) (p_menu pg5)) in
          (Ok nsv', pg6)
        end
      end
    end
  end.

Lemma page_prepare_steps : forall c gt gm pg sym idx,
  page_prepare c gt gm pg sym idx =
  match p_sizer pg with
  | None => (Ok (p_map pg), pg)
  | Some _ =>
    match page_split c (p_map pg) with
    | Err e => (Err e, pg)
    | Panic s => (Panic s, pg)
    | Ok (nsv0, sink0, svs0) =>
      match prep_step1 gm pg nsv0 sink0 svs0 with
      | (Err e, pg') => (Err e, pg')
      | (Panic s, pg') => (Panic s, pg')
      | (Ok (nsv, sink, svs), pg1) =>
        prep_step2 gt gm pg1 sym (match sink0 with [] => true | _ => false end) nsv sink svs
      end
    end
  end.
Proof.
  intros c gt gm pg sym idx. unfold page_prepare, prep_step1, prep_step2.
  destruct (p_sizer pg); [|reflexivity].
  destruct (page_split c (p_map pg)) as [[[nsv0 sink0] svs0]|e|n]; reflexivity.
Qed.

(* ---- rendering never reads the dead sizer fields ------------------------------------------------------- *)
Definition zn (pg : page) : page := page_set_sizer pg (option_map znorm (p_sizer pg)).

Lemma pnorm_false : forall pg, pnorm false pg = zn pg.
Proof. intros pg. unfold pnorm, zn, page_set_sizer. destruct (p_menu pg); reflexivity. Qed.

Lemma zn_idem : forall pg, zn (zn pg) = zn pg.
Proof. intros pg. unfold zn. cbn [page_set_sizer p_sizer p_map p_sink p_menu p_err p_extra]. destruct (p_sizer pg); reflexivity. Qed.

Lemma sizer_get_at_zn : forall z vals idx, sizer_get_at (znorm z) vals idx = sizer_get_at z vals idx.
Proof. reflexivity. Qed.
Lemma sizer_check_zn : forall z s, sizer_check (znorm z) s = sizer_check z s.
Proof. reflexivity. Qed.

Lemma render_template_zn : forall gt pg sym vals idx,
  render_template gt (zn pg) sym vals idx = render_template gt pg sym vals idx.
Proof.
  intros gt pg sym vals idx. unfold render_template, zn.
  cbn [page_set_sizer p_sizer p_err p_extra]. destruct (p_sizer pg); reflexivity.
Qed.

Lemma inner_zn : forall gt gm pg sym vals idx,
  page_render_inner gt gm (zn pg) sym vals idx =
  (fst (page_render_inner gt gm pg sym vals idx), zn (snd (page_render_inner gt gm pg sym vals idx))).
Proof.
  intros gt gm pg sym vals idx. unfold page_render_inner. rewrite render_template_zn.
  destruct (render_template gt pg sym vals idx) as [s|e|n]; try reflexivity.
  change (p_menu (zn pg)) with (p_menu pg).
  destruct (p_menu pg) as [m|].
  - destruct (menu_render_st gm m idx) as [[ms|e|n] m']; try reflexivity.
    change (p_sizer (page_set_menu (zn pg) (Some m'))) with (option_map znorm (p_sizer pg)).
    change (p_sizer (page_set_menu pg (Some m'))) with (p_sizer pg).
    destruct (p_sizer pg) as [z|] eqn:Ez; cbn [option_map].
    + rewrite sizer_check_zn. destruct (snd (sizer_check z _)); cbn [fst snd]; unfold zn; cbn [page_set_menu page_set_sizer p_sizer p_map p_sink p_menu p_err p_extra]; rewrite Ez; reflexivity.
    + cbn [fst snd]; unfold zn; cbn [page_set_menu page_set_sizer p_sizer p_map p_sink p_menu p_err p_extra]; rewrite Ez; reflexivity.
  - change (p_sizer (zn pg)) with (option_map znorm (p_sizer pg)).
    destruct (p_sizer pg) as [z|] eqn:Ez; cbn [option_map].
    + rewrite sizer_check_zn. destruct (snd (sizer_check z s)); reflexivity.
    + reflexivity.
Qed.

Lemma zn_set_menu : forall pg m, zn (page_set_menu pg m) = page_set_menu (zn pg) m.
Proof. reflexivity. Qed.

Lemma step1_zn : forall gm pg nsv0 sink0 svs0,
  prep_step1 gm (zn pg) nsv0 sink0 svs0 =
  (fst (prep_step1 gm pg nsv0 sink0 svs0), zn (snd (prep_step1 gm pg nsv0 sink0 svs0))).
Proof.
  intros gm pg nsv0 sink0 svs0. unfold prep_step1.
  change (p_menu (zn pg)) with (p_menu pg).
  destruct (p_menu pg) as [m|]; [|reflexivity].
  destruct (m_sink m); [|reflexivity].
  destruct (negb match sink0 with [] => true | _ => false end) eqn:Ea; [reflexivity|].
  destruct (menu_render_st gm (menu_with_pages (menu_with_dispose m)) 0) as [[s|e|n] m2]; try reflexivity.
  unfold prep_write. destruct sink0; [|discriminate].
  cbn [fst snd]. unfold zn, page_set_extra, page_set_menu, page_set_sizer, page_set_map.
  cbn [p_sizer p_map p_sink p_menu p_err p_extra]. destruct (p_sizer pg); reflexivity.
Qed.

Lemma step2_zn : forall gt gm pg1 sym aliased nsv sink svs,
  prep_step2 gt gm (zn pg1) sym aliased nsv sink svs =
  (fst (prep_step2 gt gm pg1 sym aliased nsv sink svs), zn (snd (prep_step2 gt gm pg1 sym aliased nsv sink svs))).
Proof.
  intros gt gm pg1 sym aliased nsv sink svs. unfold prep_step2.
  assert (E : page_set_sizer (zn pg1) (option_map (fun z => sizer_add_cursor z 0) (p_sizer (zn pg1)))
            = zn (page_set_sizer pg1 (option_map (fun z => sizer_add_cursor z 0) (p_sizer pg1)))).
  { unfold zn, page_set_sizer. cbn [p_sizer p_map p_sink p_menu p_err p_extra]. destruct (p_sizer pg1); reflexivity. }
  rewrite E, inner_zn.
  destruct (page_render_inner gt gm _ sym nsv 0) as [[s|e|n] pg3]; cbn [fst snd]; try reflexivity.
  change (p_sizer (zn pg3)) with (option_map znorm (p_sizer pg3)).
  change (p_menu (zn pg3)) with (p_menu pg3).
  destruct (p_sizer pg3) as [z|] eqn:Ez; cbn [option_map]; [|cbn [fst snd]; unfold zn; rewrite Ez; reflexivity].
  rewrite sizer_check_zn. destruct (sizer_check z s) as [remaining ok].
  destruct (negb ok); [cbn [fst snd]; unfold zn; rewrite Ez; reflexivity|].
  destruct (match p_menu pg3 with Some m => menu_sizes m | None => Ok ms_zero end) as [ms|e|n];
    try (cbn [fst snd]; unfold zn; rewrite Ez; reflexivity).
  change (z_crsrs (znorm z)) with (z_crsrs z).
  destruct (join_sink svs remaining ms (z_crsrs z)) as [jr crs'].
  destruct jr as [[sink_string count]|e|n]; cbn [fst snd];
    try (unfold zn, page_set_sizer; cbn [p_sizer p_map p_sink p_menu p_err p_extra option_map]; reflexivity).
  unfold prep_write. destruct aliased; cbn [fst snd];
    unfold zn, page_set_sizer, page_set_menu, page_set_map; cbn [p_sizer p_map p_sink p_menu p_err p_extra option_map]; reflexivity.
Qed.

Lemma prepare_zn : forall c gt gm pg sym idx,
  page_prepare c gt gm (zn pg) sym idx =
  (fst (page_prepare c gt gm pg sym idx), zn (snd (page_prepare c gt gm pg sym idx))).
Proof.
  intros c gt gm pg sym idx. rewrite !page_prepare_steps.
  change (p_sizer (zn pg)) with (option_map znorm (p_sizer pg)).
  change (p_map (zn pg)) with (p_map pg).
  destruct (p_sizer pg) as [z|] eqn:Ez; cbn [option_map]; [|cbn [fst snd]; unfold zn; rewrite Ez; reflexivity].
  destruct (page_split c (p_map pg)) as [[[nsv0 sink0] svs0]|e|n]; try reflexivity.
  rewrite step1_zn.
  destruct (prep_step1 gm pg nsv0 sink0 svs0) as [[[[nsv sink] svs]|e|n] pg1]; cbn [fst snd]; try reflexivity.
  apply step2_zn.
Qed.

Lemma render_zn : forall c gt gm pg sym idx,
  page_render c gt gm (zn pg) sym idx =
  (fst (page_render c gt gm pg sym idx), zn (snd (page_render c gt gm pg sym idx))).
Proof.
  intros c gt gm pg sym idx. unfold page_render. rewrite prepare_zn.
  destruct (page_prepare c gt gm pg sym idx) as [[vals|e|n] pg']; cbn [fst snd]; try reflexivity.
  apply inner_zn.
Qed.

(* two pages equal up to the dead fields render alike *)
Lemma page_render_peq : forall c gt gm a b sym idx, peq false a b ->
  fst (page_render c gt gm a sym idx) = fst (page_render c gt gm b sym idx)
  /\ peq false (snd (page_render c gt gm a sym idx)) (snd (page_render c gt gm b sym idx)).
Proof.
  intros c gt gm a b sym idx H. unfold peq in *. rewrite !pnorm_false in *.
  pose proof (render_zn c gt gm a sym idx) as Ha. pose proof (render_zn c gt gm b sym idx) as Hb.
  rewrite H in Ha. rewrite Ha in Hb.
  split; [exact (f_equal fst Hb)|exact (f_equal snd Hb)].
Qed.

(* ---- rendering keeps the shape ------------------------------------------------------------------------- *)
Lemma mshape_pages_dispose : forall m, mshape (menu_with_pages (menu_with_dispose m)) = mshape m.
Proof. intros m. unfold menu_with_pages. cbn [menu_with_dispose m_page_count]. destruct (m_page_count m =? 0); reflexivity. Qed.

Lemma pshape_step1 : forall gm pg nsv0 sink0 svs0, pshape (snd (prep_step1 gm pg nsv0 sink0 svs0)) = pshape pg.
Proof.
  intros gm pg nsv0 sink0 svs0. unfold prep_step1.
  destruct (p_menu pg) as [m|] eqn:Em; [|reflexivity].
  destruct (m_sink m); [|reflexivity].
  destruct (negb match sink0 with [] => true | _ => false end) eqn:Ea; [reflexivity|].
  pose proof (mshape_render_st gm (menu_with_pages (menu_with_dispose m)) 0) as Hs. rewrite mshape_pages_dispose in Hs.
  destruct (menu_render_st gm (menu_with_pages (menu_with_dispose m)) 0) as [[s|e|n] m2]; cbn [snd] in *;
    try (eapply pshape_set_menu; eassumption).
  unfold prep_write. destruct sink0; [|discriminate]. cbn [snd].
  unfold pshape, page_set_map, page_set_sizer, page_set_extra, page_set_menu. cbn [p_menu p_sizer option_map].
  rewrite Em. cbn [option_map]. unfold mshape in Hs. rewrite Hs. f_equal. destruct (p_sizer pg); reflexivity.
Qed.

Lemma pshape_step2 : forall gt gm pg1 sym aliased nsv sink svs,
  pshape (snd (prep_step2 gt gm pg1 sym aliased nsv sink svs)) = pshape pg1.
Proof.
  intros gt gm pg1 sym aliased nsv sink svs. unfold prep_step2.
  set (pg2 := page_set_sizer pg1 (option_map (fun z => sizer_add_cursor z 0) (p_sizer pg1))).
  assert (H2 : pshape pg2 = pshape pg1).
  { unfold pg2, pshape, page_set_sizer. cbn [p_menu p_sizer]. f_equal. destruct (p_sizer pg1); reflexivity. }
  pose proof (pshape_inner gt gm pg2 sym nsv 0) as H3. rewrite H2 in H3.
  destruct (page_render_inner gt gm pg2 sym nsv 0) as [[s|e|n] pg3]; cbn [snd] in *; try exact H3.
  destruct (p_sizer pg3) as [z|] eqn:Ez; [|exact H3].
  destruct (sizer_check z s) as [remaining ok]. destruct (negb ok); [exact H3|].
  destruct (match p_menu pg3 with Some m => menu_sizes m | None => Ok ms_zero end) as [ms|e|n]; try exact H3.
  destruct (join_sink svs remaining ms (z_crsrs z)) as [jr crs'].
  assert (H4 : pshape (page_set_sizer pg3 (Some (sizer_set_crsrs z crs'))) = pshape pg1).
  { rewrite <- H3. unfold pshape, page_set_sizer. cbn [p_menu p_sizer option_map]. rewrite Ez. reflexivity. }
  destruct jr as [[sink_string count]|e|n]; cbn [snd]; try exact H4.
  rewrite <- H4. unfold prep_write. destruct aliased; cbn [snd];
    unfold pshape, page_set_map, page_set_sizer, page_set_menu; cbn [p_menu p_sizer option_map];
    destruct (p_menu pg3); reflexivity.
Qed.

Lemma pshape_prepare : forall c gt gm pg sym idx, pshape (snd (page_prepare c gt gm pg sym idx)) = pshape pg.
Proof.
  intros c gt gm pg sym idx. rewrite page_prepare_steps.
  destruct (p_sizer pg) as [z|]; [|reflexivity].
  destruct (page_split c (p_map pg)) as [[[nsv0 sink0] svs0]|e|n]; try reflexivity.
  pose proof (pshape_step1 gm pg nsv0 sink0 svs0) as H1.
  destruct (prep_step1 gm pg nsv0 sink0 svs0) as [[[[nsv sink] svs]|e|n] pg1]; cbn [snd] in *; try exact H1.
  rewrite pshape_step2. exact H1.
Qed.

Lemma pshape_render : forall c gt gm pg sym idx, pshape (snd (page_render c gt gm pg sym idx)) = pshape pg.
Proof.
  intros c gt gm pg sym idx. unfold page_render.
  pose proof (pshape_prepare c gt gm pg sym idx) as H1.
  destruct (page_prepare c gt gm pg sym idx) as [[vals|e|n] pg']; cbn [snd] in *; try exact H1.
  rewrite pshape_inner. exact H1.
Qed.

(* ================================================================================================ *)
(* Part B: the VM on two machines that differ only in their pages (and taint)                        *)
(* ================================================================================================ *)
Definition veq (lk : bool) (a b : vmst) : Prop :=
  v_st a = v_st b /\ v_ca a = v_ca b /\ v_w a = v_w b /\ v_log a = v_log b /\ peq lk (v_pg a) (v_pg b).
Definition heq (lk : bool) (x y : hres) : Prop :=
  veq lk (fst (fst x)) (fst (fst y)) /\ snd (fst x) = snd (fst y) /\ snd x = snd y.

Lemma veq_elim : forall lk a b, veq lk a b ->
  exists st ca pa pb w lg ta tb, a = mkVm st ca pa w lg ta /\ b = mkVm st ca pb w lg tb /\ peq lk pa pb.
Proof.
  intros lk [st ca pa w lg ta] [st' ca' pb w' lg' tb] [H1 [H2 [H3 [H4 H5]]]]. cbn in *. subst.
  exists st', ca', pa, pb, w', lg', ta, tb. auto.
Qed.
Lemma veq_mk : forall lk st ca pa pb w lg ta tb, peq lk pa pb -> veq lk (mkVm st ca pa w lg ta) (mkVm st ca pb w lg tb).
Proof. intros. unfold veq. cbn. auto. Qed.
Lemma heq_mk : forall lk st ca pa pb w lg ta tb b s, peq lk pa pb ->
  heq lk (mkVm st ca pa w lg ta, b, s) (mkVm st ca pb w lg tb, b, s).
Proof. intros. unfold heq. cbn [fst snd]. split; [apply veq_mk; assumption|auto]. Qed.
Lemma veq_refl : forall lk a, veq lk a a. Proof. intros. unfold veq. repeat split; reflexivity. Qed.
Lemma veq_sym : forall lk a b, veq lk a b -> veq lk b a.
Proof. unfold veq. intros lk a b [H1 [H2 [H3 [H4 H5]]]]. repeat split; try congruence; try (apply peq_sym; exact H5). Qed.
Lemma veq_trans : forall lk a b c, veq lk a b -> veq lk b c -> veq lk a c.
Proof. unfold veq. intros lk a b c [H1 [H2 [H3 [H4 H5]]]] [G1 [G2 [G3 [G4 G5]]]]. repeat split; try congruence; try (eapply peq_trans; eassumption). Qed.

Ltac vcbn := unfold vset_st, vset_ca, vset_pg, vset_w, vlog, vtaint; cbn [v_st v_ca v_pg v_w v_log v_taint fst snd].
Ltac dm := match goal with |- context [match ?x with _ => _ end] => destruct x eqn:? end.

(* refresh never looks at the page *)
Lemma refresh_indep : forall rs lang key st ca w lg, exists st' w' lg' content s,
  forall pg t, refresh rs lang key (mkVm st ca pg w lg t) = (mkVm st' ca pg w' lg' t, content, s).
Proof.
  intros rs lang key st ca w lg. unfold refresh. vcbn.
  destruct (rs_func rs key) as [script|]; [|do 5 eexists; intros; vcbn; reflexivity].
  destruct (nth_fres script _) as [fr|]; [|do 5 eexists; intros; vcbn; reflexivity].
  destruct (fr_fail fr); [do 5 eexists; intros; vcbn; reflexivity|].
  destruct (apply_flags false (fr_reset fr) st) as [st1|e|n]; [|do 5 eexists; intros; vcbn; reflexivity..].
  destruct (apply_flags true (fr_set fr) st1) as [st2|e|n]; do 5 eexists; intros; vcbn; reflexivity.
Qed.

Ltac velim H := destruct (veq_elim _ _ _ H) as (st & ca & pa & pb & w & lg & ta & tb & -> & -> & Hp).

Lemma fetch_code_mk : forall rs sym st ca pg w lg t,
  fetch_code rs sym (mkVm st ca pg w lg t) =
  (mkVm st ca pg w (if rs_observed rs then EvCode sym :: lg else lg) t, rs_code rs sym).
Proof. intros. unfold fetch_code. destruct (rs_observed rs); reflexivity. Qed.

Lemma run_catch_veq : forall lk rs sym sig mode bb a b, veq lk a b ->
  heq lk (run_catch rs sym sig mode bb a) (run_catch rs sym sig mode bb b).
Proof.
  intros lk rs sym sig mode bb a b H. velim H. unfold run_catch. vcbn.
  destruct (match_flag st sig mode) as [[|]|e|n]; try (apply heq_mk; exact Hp).
  destruct (apply_target sym st ca) as [[[st' ca'] nsym] s].
  destruct s; try (apply heq_mk; exact Hp).
  rewrite !fetch_code_mk. destruct (rs_code rs nsym); apply heq_mk; exact Hp.
Qed.

Lemma run_croak_veq : forall lk sep sig mode bb a b, veq lk a b ->
  heq lk (run_croak sep sig mode bb a) (run_croak sep sig mode bb b).
Proof.
  intros lk sep sig mode bb a b H. velim H. unfold run_croak. vcbn.
  destruct (match_flag st sig mode) as [[|]|e|n]; try (apply heq_mk; exact Hp).
  apply heq_mk. apply peq_vm_reset. exact Hp.
Qed.

Lemma run_load_veq : forall lk rs lang sym sz bb a b, veq lk a b ->
  heq lk (run_load rs lang sym sz bb a) (run_load rs lang sym sz bb b).
Proof.
  intros lk rs lang sym sz bb a b H. velim H. unfold run_load. vcbn.
  destruct (cache_get ca sym); try (apply heq_mk; exact Hp).
  destruct (refresh_indep rs lang sym st ca w lg) as (st' & w' & lg' & content & s & Hr). rewrite !Hr.
  destruct s; try (apply heq_mk; exact Hp). vcbn.
  destruct (cache_add ca sym content (w16 sz)) as [ca'|[]|n]; apply heq_mk; exact Hp.
Qed.

Lemma run_reload_veq : forall lk rs lang sym bb a b, veq lk a b ->
  heq lk (run_reload rs lang sym bb a) (run_reload rs lang sym bb b).
Proof.
  intros lk rs lang sym bb a b H. velim H. unfold run_reload.
  destruct (refresh_indep rs lang sym st ca w lg) as (st' & w' & lg' & content & s & Hr). rewrite !Hr.
  destruct s; try (apply heq_mk; exact Hp). vcbn.
  destruct (cache_update_raw ca sym content) as [ca' oe]. vcbn.
  pose proof (peq_page_map lk ca' pa pb sym Hp) as Hm.
  destruct (page_map ca' pa sym) as [pa'|e|n], (page_map ca' pb sym) as [pb'|e'|n']; try contradiction; subst;
    apply heq_mk; assumption.
Qed.

Lemma run_map_veq : forall lk sym bb a b, veq lk a b -> heq lk (run_map sym bb a) (run_map sym bb b).
Proof.
  intros lk sym bb a b H. velim H. unfold run_map. vcbn.
  pose proof (peq_page_map lk ca pa pb sym Hp) as Hm.
  destruct (page_map ca pa sym) as [pa'|e|n], (page_map ca pb sym) as [pb'|e'|n']; try contradiction; subst;
    apply heq_mk; assumption.
Qed.

Lemma run_move_veq : forall lk rs sep sym bb a b, veq lk a b ->
  heq lk (run_move rs sep sym bb a) (run_move rs sep sym bb b).
Proof.
  intros lk rs sep sym bb a b H. velim H. unfold run_move. vcbn.
  destruct (apply_target sym st ca) as [[[st' ca'] nsym] s].
  destruct s; try (apply heq_mk; exact Hp).
  rewrite !fetch_code_mk. destruct (rs_code rs nsym); vcbn; apply heq_mk; try exact Hp.
  apply peq_vm_reset. exact Hp.
Qed.

Lemma run_incmp_veq : forall lk rs sep dest sel bb a b, veq lk a b ->
  heq lk (run_incmp rs sep dest sel bb a) (run_incmp rs sep dest sel bb b).
Proof.
  intros lk rs sep dest sel bb a b H. velim H. unfold run_incmp. vcbn.
  destruct (getf st FLAG_INMATCH && getf st FLAG_READIN); [apply heq_mk; exact Hp|].
  set (st1 := if getf st FLAG_INMATCH then st else setf st FLAG_READIN).
  destruct (s_input st1) as [input|]; [|apply heq_mk; exact Hp].
  destruct ((negb (getf st FLAG_INMATCH) && bytes_eqb sel star) || bytes_eqb sel input); [|apply heq_mk; exact Hp].
  destruct (apply_target dest (resetf (setf st1 FLAG_INMATCH) FLAG_READIN) ca) as [[[st' ca'] nsym] s].
  destruct s as [|e m|n|]; try (apply heq_mk; exact Hp).
  - rewrite !fetch_code_mk. destruct (rs_code rs nsym); apply heq_mk; apply peq_vm_reset; exact Hp.
  - destruct e; apply heq_mk; exact Hp.
Qed.

Lemma exec_instr_veq : forall lk rs sep lang i bb a b, veq lk a b ->
  heq lk (exec_instr rs sep lang i bb a) (exec_instr rs sep lang i bb b).
Proof.
  intros lk rs sep lang i bb a b H. destruct i; cbn [exec_instr].
  - velim H. apply heq_mk; exact Hp.
  - apply run_catch_veq; exact H.
  - apply run_croak_veq; exact H.
  - apply run_load_veq; exact H.
  - apply run_reload_veq; exact H.
  - apply run_map_veq; exact H.
  - apply run_move_veq; exact H.
  - velim H. vcbn. apply heq_mk; exact Hp.
  - apply run_incmp_veq; exact H.
  - velim H. vcbn. apply heq_mk. apply peq_upd_menu; [exact mresp_sink|exact Hp].
  - velim H. vcbn. apply heq_mk. apply peq_upd_menu; [apply mresp_put|exact Hp].
  - velim H. vcbn. apply heq_mk. apply peq_upd_menu; [apply mresp_next|exact Hp].
  - velim H. vcbn. apply heq_mk. apply peq_upd_menu; [apply mresp_prev|exact Hp].
Qed.

(* ---- the run loop in named pieces -------------------------------------------------------------------- *)
Definition pre_step (v : vmst) (lang : option bytes) : vmst * option bytes :=
  let st := v_st v in
  let change := getf st FLAG_LANG in
  let st := resetf st FLAG_LANG in
  let lang := if change then match s_lang st with Some l => Some l | None => lang end else lang in
  let wait := getf st FLAG_WAIT in
  let st := resetf st FLAG_WAIT in
  let st := if wait then resetf st FLAG_INMATCH else st in
  let pg := if wait then wreset (v_pg v) else v_pg v in
  let st := setf st FLAG_DIRTY in
  (vset_pg (vset_st v st) pg, lang).

Definition step_instr (rs : rsrc) (sep : bytes) (lang : option bytes) (op : N) (b1 : bytes) (v : vmst) : hres :=
  match parse_args op b1 with
  | Ok (i, b2) => exec_instr rs sep lang i b2 (vlog v (EvInstr op))
  | _ => (v, b1, SErr EGen None)
  end.

Definition err_check (x : hres) : hres :=
  let '(v1, b2, s) := x in
  match s with
  | SErr e msg =>
    let v2 := set_page_err v1 msg in
    if getf (v_st v2) FLAG_LOADFAIL && negb (bytes_eqb (where_sym (v_st v2)) catch_sym)
    then (v2, move_catch_code, SOk) else (v2, b2, s)
  | _ => (v1, b2, s)
  end.

Definition after_check (k : bytes -> vmst -> hres) (x : hres) : hres :=
  let '(v2, b3, s2) := x in
  match s2 with
  | SOk =>
    match b3 with
    | [] =>
      let '(v3, b4, s3) := dead_check v2 in
      match s3 with
      | SOk => match b4 with [] => (v3, [], SOk) | _ => k b4 v3 end
      | _ => (v3, b4, s3)
      end
    | _ => k b3 v2
    end
  | _ => (v2, b3, s2)
  end.

Lemma run_S : forall f rs sep lang b v,
  run (S f) rs sep lang b v =
  if getf (v_st v) FLAG_TERMINATE then (v, [], SOk) else
  match op_split b with
  | Err e => (fst (pre_step v lang), b, SErr e None)
  | Panic n => (fst (pre_step v lang), b, SPanic n)
  | Ok (op, b1) =>
    match parse_args op b1 with
    | Panic n => (fst (pre_step v lang), b1, SPanic n)
    | _ =>
      let x := step_instr rs sep (snd (pre_step v lang)) op b1 (fst (pre_step v lang)) in
      if op =? op_HALT then x else after_check (run f rs sep (snd (pre_step v lang))) (err_check x)
    end
  end.
Proof.
  intros f rs sep lang b v. cbn [run]. unfold pre_step, step_instr, err_check, after_check, wreset. cbn [fst snd].
  destruct (getf (v_st v) FLAG_TERMINATE); [reflexivity|].
  destruct (op_split b) as [[op b1]|e|n]; try reflexivity.
  destruct (parse_args op b1) as [[i b2]|e|n]; try reflexivity.
  - destruct (exec_instr _ _ _ i b2 _) as [[v1 b2'] s]. reflexivity.
Qed.

Definition veq_pre (lk : bool) (a b : vmst) : Prop :=
  v_st a = v_st b /\ v_ca a = v_ca b /\ v_w a = v_w b /\ v_log a = v_log b /\
  (if getf (v_st a) FLAG_WAIT then peq lk (wreset (v_pg a)) (wreset (v_pg b)) else peq lk (v_pg a) (v_pg b)).

Lemma veq_to_pre : forall lk a b, veq lk a b -> veq_pre lk a b.
Proof.
  intros lk a b [H1 [H2 [H3 [H4 H5]]]]. unfold veq_pre. repeat (split; [assumption|]).
  destruct (getf (v_st a) FLAG_WAIT); [apply peq_wreset|]; exact H5.
Qed.

Lemma heq_elim : forall lk x y, heq lk x y ->
  exists st ca pa pb w lg ta tb bb s, x = (mkVm st ca pa w lg ta, bb, s) /\ y = (mkVm st ca pb w lg tb, bb, s) /\ peq lk pa pb.
Proof.
  intros lk [[a bb] s] [[b bb'] s'] [H1 [H2 H3]]. cbn [fst snd] in *. subst. velim H1.
  exists st, ca, pa, pb, w, lg, ta, tb, bb', s'. auto.
Qed.
Ltac helim H := destruct (heq_elim _ _ _ H) as (st & ca & pa & pb & w & lg & ta & tb & bb & s & -> & -> & Hp).
Ltac helim2 H := destruct (heq_elim _ _ _ H) as (st2 & ca2 & pa2 & pb2 & w2 & lg2 & ta2 & tb2 & bb2 & s2 & -> & -> & Hp2).

Lemma pre_step_veq : forall lk a b lang, veq_pre lk a b ->
  veq lk (fst (pre_step a lang)) (fst (pre_step b lang)) /\ snd (pre_step a lang) = snd (pre_step b lang).
Proof.
  intros lk [st ca pa w lg ta] [st' ca' pb w' lg' tb] lang [H1 [H2 [H3 [H4 H5]]]]. cbn [v_st v_ca v_pg v_w v_log] in *. subst.
  unfold pre_step. vcbn. split; [|reflexivity].
  rewrite (getf_resetf_other st' FLAG_WAIT FLAG_LANG) by (unfold FLAG_WAIT, FLAG_LANG; lia).
  apply veq_mk. destruct (getf st' FLAG_WAIT); exact H5.
Qed.

Lemma step_instr_veq : forall lk rs sep lang op b1 a b, veq lk a b ->
  heq lk (step_instr rs sep lang op b1 a) (step_instr rs sep lang op b1 b).
Proof.
  intros lk rs sep lang op b1 a b H. unfold step_instr.
  destruct (parse_args op b1) as [[i b2]|e|n].
  - apply exec_instr_veq. velim H. vcbn. apply veq_mk. exact Hp.
  - velim H. apply heq_mk. exact Hp.
  - velim H. apply heq_mk. exact Hp.
Qed.

Lemma err_check_heq : forall lk x y, heq lk x y -> heq lk (err_check x) (err_check y).
Proof.
  intros lk x y H. helim H. unfold err_check.
  destruct s as [|e msg|n|]; try (apply heq_mk; exact Hp).
  unfold set_page_err. destruct msg as [m|]; vcbn.
  - destruct (getf st FLAG_LOADFAIL && negb (bytes_eqb (where_sym st) catch_sym)); apply heq_mk; apply peq_with_error; exact Hp.
  - destruct (getf st FLAG_LOADFAIL && negb (bytes_eqb (where_sym st) catch_sym)); apply heq_mk; apply peq_with_error; exact Hp.
Qed.

Lemma dead_check_veq : forall lk a b, veq lk a b -> heq lk (dead_check a) (dead_check b).
Proof.
  intros lk a b H. velim H. unfold dead_check. vcbn.
  destruct (negb (getf st FLAG_READIN)); [apply heq_mk; exact Hp|].
  destruct (getf st FLAG_TERMINATE); [apply heq_mk; exact Hp|].
  destruct (where_sym st) as [|x r]; [apply heq_mk; exact Hp|].
  destruct (bytes_eqb (x :: r) catch_sym); apply heq_mk; try exact Hp.
  apply peq_with_error. exact Hp.
Qed.

Lemma after_check_heq : forall lk k x y,
  (forall bb a b, veq lk a b -> heq lk (k bb a) (k bb b)) ->
  heq lk x y -> heq lk (after_check k x) (after_check k y).
Proof.
  intros lk k x y Hk H. helim H. unfold after_check.
  destruct s; try (apply heq_mk; exact Hp).
  destruct bb as [|b0 br].
  - pose proof (dead_check_veq lk _ _ (veq_mk lk st ca pa pb w lg ta tb Hp)) as Hd.
    helim2 Hd. destruct s2; try (apply heq_mk; exact Hp2).
    destruct bb2; [apply heq_mk; exact Hp2|]. apply Hk. apply veq_mk. exact Hp2.
  - apply Hk. apply veq_mk. exact Hp.
Qed.

Lemma run_step_veq : forall lk f rs sep,
  (forall lang bb a b, veq lk a b -> heq lk (run f rs sep lang bb a) (run f rs sep lang bb b)) ->
  forall lang bb a b, veq_pre lk a b -> getf (v_st a) FLAG_TERMINATE = false ->
  heq lk (run (S f) rs sep lang bb a) (run (S f) rs sep lang bb b).
Proof.
  intros lk f rs sep IH lang bb a b H Et. rewrite !run_S.
  destruct (pre_step_veq lk a b lang H) as [Hv Hl]. rewrite <- Hl.
  destruct H as [Hst [Hca [Hw [Hlg Hpg]]]]. rewrite <- Hst, Et.
  pose proof (fun op b1 => step_instr_veq lk rs sep (snd (pre_step a lang)) op b1 _ _ Hv) as Hs.
  destruct (pre_step a lang) as [a0 la]. destruct (pre_step b lang) as [b0 lb]. cbn [fst snd] in *.
  destruct (op_split bb) as [[op b1]|e|n].
  - destruct (parse_args op b1) as [[i b2]|e|n] eqn:Ep; cbn zeta.
    + destruct (op =? op_HALT); [apply Hs|].
      apply after_check_heq; [intros; apply IH; assumption|]. apply err_check_heq. apply Hs.
    + destruct (op =? op_HALT); [apply Hs|].
      apply after_check_heq; [intros; apply IH; assumption|]. apply err_check_heq. apply Hs.
    + velim Hv. apply heq_mk. exact Hp.
  - velim Hv. apply heq_mk. exact Hp.
  - velim Hv. apply heq_mk. exact Hp.
Qed.

Lemma run_veq : forall lk f rs sep lang bb a b, veq lk a b ->
  heq lk (run f rs sep lang bb a) (run f rs sep lang bb b).
Proof.
  induction f as [|f IH]; intros rs sep lang bb a b H.
  - cbn [run]. velim H. apply heq_mk. exact Hp.
  - destruct (getf (v_st a) FLAG_TERMINATE) eqn:Et.
    + rewrite !run_S. destruct H as [Hst H']. rewrite <- Hst, Et.
      unfold heq. cbn [fst snd]. split; [split; assumption|auto].
    + apply run_step_veq; [intros; apply IH; assumption|apply veq_to_pre; exact H|exact Et].
Qed.

Lemma run_veq_pre : forall lk f rs sep lang bb a b, veq_pre lk a b -> getf (v_st a) FLAG_TERMINATE = false ->
  heq lk (run (S f) rs sep lang bb a) (run (S f) rs sep lang bb b).
Proof. intros lk f rs sep lang bb a b H Et. apply run_step_veq; [intros; apply run_veq; assumption|exact H|exact Et]. Qed.

(* ---- Vm.Render on two machines with equivalent pages --------------------------------------------------- *)
Lemma vm_render_veq : forall fuel rs sep lang a b, veq false a b ->
  snd (vm_render fuel rs sep lang a) = snd (vm_render fuel rs sep lang b)
  /\ veq false (fst (vm_render fuel rs sep lang a)) (fst (vm_render fuel rs sep lang b)).
Proof.
  intros fuel rs sep lang a b H. velim H. unfold vm_render. vcbn.
  destruct (negb (getf st FLAG_DIRTY)); [split; [reflexivity|apply veq_mk; exact Hp]|].
  change (where_sym (resetf st FLAG_DIRTY)) with (where_sym st).
  change (s_idx (resetf st FLAG_DIRTY)) with (s_idx st).
  destruct (where_sym st) as [|x r] eqn:Ew; [split; [reflexivity|apply veq_mk; exact Hp]|].
  destruct (page_render_peq ca (rs_tpl rs lang) (rs_menu rs lang) pa pb (x :: r) (s_idx st) Hp) as [Hr Hq].
  destruct (page_render ca (rs_tpl rs lang) (rs_menu rs lang) pa (x :: r) (s_idx st)) as [ra pa'].
  destruct (page_render ca (rs_tpl rs lang) (rs_menu rs lang) pb (x :: r) (s_idx st)) as [rb pb'].
  cbn [fst snd] in Hr, Hq. subst rb. vcbn.
  assert (Hplain : forall r0 : res bytes,
            snd (mkVm (resetf st FLAG_DIRTY) ca pa' w (EvRender (x :: r) (s_idx st) lang :: lg) ta, rres_of r0)
            = snd (mkVm (resetf st FLAG_DIRTY) ca pb' w (EvRender (x :: r) (s_idx st) lang :: lg) tb, rres_of r0)
            /\ veq false (fst (mkVm (resetf st FLAG_DIRTY) ca pa' w (EvRender (x :: r) (s_idx st) lang :: lg) ta, rres_of r0))
                         (fst (mkVm (resetf st FLAG_DIRTY) ca pb' w (EvRender (x :: r) (s_idx st) lang :: lg) tb, rres_of r0))).
  { intros r0. cbn [fst snd]. split; [reflexivity|apply veq_mk; exact Hq]. }
  destruct ra as [out|e|n]; try apply Hplain.
  destruct e; try apply Hplain.
  (* BrowseError: reset, MOVE _catch, render again *)
  pose proof (run_veq false fuel rs sep lang move_catch_code
                (mkVm (resetf st FLAG_DIRTY) ca (vm_reset sep pa') w (EvRender (x :: r) (s_idx st) lang :: lg) ta)
                (mkVm (resetf st FLAG_DIRTY) ca (vm_reset sep pb') w (EvRender (x :: r) (s_idx st) lang :: lg) tb)
                (veq_mk _ _ _ _ _ _ _ _ _ (peq_vm_reset false sep _ _ Hq))) as Hrun.
  helim2 Hrun.
  destruct s2; try (cbn [fst snd]; split; [reflexivity|apply veq_mk; exact Hp2]).
  - vcbn. destruct (page_render_peq ca2 (rs_tpl rs lang) (rs_menu rs lang) pa2 pb2 (where_sym st2) (s_idx st2) Hp2) as [Hr2 Hq2].
    destruct (page_render ca2 _ _ pa2 _ _) as [r1 p1]. destruct (page_render ca2 _ _ pb2 _ _) as [r1' p1'].
    cbn [fst snd] in *. subst. split; [reflexivity|apply veq_mk; exact Hq2].
  - vcbn. destruct (page_render_peq ca2 (rs_tpl rs lang) (rs_menu rs lang) pa2 pb2 (where_sym st2) (s_idx st2) Hp2) as [Hr2 Hq2].
    destruct (page_render ca2 _ _ pa2 _ _) as [r1 p1]. destruct (page_render ca2 _ _ pb2 _ _) as [r1' p1'].
    cbn [fst snd] in *. subst. split; [reflexivity|apply veq_mk; exact Hq2].
Qed.

(* ---- what one machine keeps: pending code, size of the flag field, shape of the page -------------------- *)
Definition st_keep (a b : state) : Prop :=
  s_code b = s_code a /\ List.length (s_flags b) = List.length (s_flags a).
Lemma st_keep_refl : forall a, st_keep a a. Proof. intros; split; reflexivity. Qed.
Lemma st_keep_trans : forall a b c, st_keep a b -> st_keep b c -> st_keep a c.
Proof. unfold st_keep. intros a b c [H1 H2] [H3 H4]. split; congruence. Qed.
Lemma st_keep_setf : forall s f, st_keep s (setf s f).
Proof. intros. split; [reflexivity|]. unfold setf. cbn [s_flags set_flags]. apply length_set_nth_bit. Qed.
Lemma st_keep_resetf : forall s f, st_keep s (resetf s f).
Proof. intros. split; [reflexivity|]. unfold resetf. cbn [s_flags set_flags]. apply length_set_nth_bit. Qed.
Lemma st_keep_path : forall s p i, st_keep s (set_path_idx s p i).
Proof. intros; split; reflexivity. Qed.
Lemma st_keep_input : forall s x, st_keep s (set_input_raw s x).
Proof. intros; split; reflexivity. Qed.

Lemma st_keep_set_flag : forall s f s' c, set_flag s f = Ok (s', c) -> st_keep s s'.
Proof.
  unfold set_flag. intros s f s' c H. destruct (flag_in_range s f); [|discriminate]. injection H as <- _.
  split; [reflexivity|]. cbn [s_flags set_flags]. apply length_set_nth_bit.
Qed.
Lemma st_keep_reset_flag : forall s f s' c, reset_flag s f = Ok (s', c) -> st_keep s s'.
Proof.
  unfold reset_flag. intros s f s' c H. destruct (flag_in_range s f); [|discriminate]. injection H as <- _.
  split; [reflexivity|]. cbn [s_flags set_flags]. apply length_set_nth_bit.
Qed.
Lemma st_keep_apply_flags : forall fl set st st', apply_flags set fl st = Ok st' -> st_keep st st'.
Proof.
  induction fl as [|f fl IH]; intros set st st' H; cbn [apply_flags] in H.
  - injection H as <-. apply st_keep_refl.
  - destruct (is_writeable_flag f); [|eapply IH; exact H].
    destruct set.
    + destruct (set_flag st f) as [[st1 c]|e|n] eqn:E; cbn [obind] in H; try discriminate.
      eapply st_keep_trans; [eapply st_keep_set_flag; exact E|eapply IH; exact H].
    + destruct (reset_flag st f) as [[st1 c]|e|n] eqn:E; cbn [obind] in H; try discriminate.
      eapply st_keep_trans; [eapply st_keep_reset_flag; exact E|eapply IH; exact H].
Qed.
Lemma st_keep_language : forall lk s c, st_keep s (st_set_language lk s c).
Proof. intros lk s c. unfold st_set_language. destruct c; destruct (lk _); split; reflexivity. Qed.

Lemma st_keep_rewind : forall fuel sym st ca, st_keep st (fst (fst (fst (rewind fuel sym st ca)))).
Proof.
  induction fuel as [|f IH]; intros sym st ca; [apply st_keep_refl|].
  cbn [rewind]. unfold st_top, st_up.
  destruct (s_path st) as [|a [|b r]]; try apply st_keep_refl.
  destruct (cache_pop ca) as [ca'|e|n]; cbn [fst]; try apply st_keep_path.
  eapply st_keep_trans; [|apply IH]. apply st_keep_path.
Qed.

Lemma st_keep_apply_target : forall t st ca, st_keep st (fst (fst (fst (apply_target t st ca)))).
Proof.
  intros t st ca. rewrite apply_target_ite.
  destruct (negb (valid_target_b t)); [apply st_keep_refl|].
  destruct (bytes_eqb t t_up).
  { unfold do_up, st_up. destruct (s_path st); [apply st_keep_refl|]. destruct (cache_pop ca); apply st_keep_path. }
  destruct (bytes_eqb t t_next).
  { unfold do_next, st_next. destruct (s_path st); [apply st_keep_refl|apply st_keep_path]. }
  destruct (bytes_eqb t t_prev).
  { unfold do_prev, st_previous. destruct (s_path st); [apply st_keep_refl|].
    destruct (s_idx st =? 0); [apply st_keep_refl|apply st_keep_path]. }
  destruct (bytes_eqb t t_top); [apply st_keep_rewind|].
  destruct (bytes_eqb t t_same); [apply st_keep_refl|].
  unfold do_named. destruct (MaxLevel + 1 <=? len (s_path st)); [apply st_keep_refl|].
  destruct (bytes_eqb (where_sym st) t); [apply st_keep_refl|].
  unfold st_down. destruct (MaxLevel <? len (s_path st)); [apply st_keep_refl|].
  destruct (s_path st); [apply st_keep_path|]. destruct (bytes_eqb _ _); [apply st_keep_refl|apply st_keep_path].
Qed.

Lemma st_keep_refresh : forall rs lang key v, st_keep (v_st v) (v_st (fst (fst (refresh rs lang key v)))).
Proof.
  intros rs lang key v. unfold refresh.
  destruct (rs_func rs key) as [script|]; [|apply st_keep_refl].
  destruct (nth_fres script _) as [fr|]; [|apply st_keep_refl].
  destruct (fr_fail fr); [vcbn; apply st_keep_setf|]. vcbn.
  destruct (apply_flags false (fr_reset fr) (v_st v)) as [st1|e|n] eqn:E1; try (vcbn; apply st_keep_refl).
  destruct (apply_flags true (fr_set fr) st1) as [st2|e|n] eqn:E2; try (vcbn; apply st_keep_refl).
  vcbn. eapply st_keep_trans; [eapply st_keep_apply_flags; exact E1|].
  eapply st_keep_trans; [eapply st_keep_apply_flags; exact E2|].
  destruct (getf st2 FLAG_LANG); [apply st_keep_language|apply st_keep_refl].
Qed.

Definition pg_ok (c : config) (pg : page) : Prop := pshape pg = pshape (P0 c).
Definition vkeep (c : config) (a b : vmst) : Prop :=
  st_keep (v_st a) (v_st b) /\ (pg_ok c (v_pg a) -> pg_ok c (v_pg b)).
Lemma vkeep_refl : forall c a, vkeep c a a. Proof. intros; split; [apply st_keep_refl|auto]. Qed.
Lemma vkeep_trans : forall c a b d, vkeep c a b -> vkeep c b d -> vkeep c a d.
Proof. intros c a b d [H1 H2] [H3 H4]. split; [eapply st_keep_trans; eassumption|auto]. Qed.

Lemma pg_ok_vm_reset : forall c pg, pg_ok c pg -> pg_ok c (vm_reset (c_sep c) pg).
Proof.
  intros c pg H. unfold pg_ok in *. rewrite pshape_vm_reset, H, pshape_P0. reflexivity.
Qed.
Lemma pg_ok_upd_menu : forall c f pg, mkeeps f -> pg_ok c pg -> pg_ok c (upd_menu f pg).
Proof. intros c f pg Hf H. unfold pg_ok in *. rewrite pshape_upd_menu by exact Hf. exact H. Qed.
Lemma pg_ok_wreset : forall c pg, pg_ok c pg -> pg_ok c (wreset pg).
Proof. intros c pg H. unfold pg_ok in *. rewrite pshape_wreset. exact H. Qed.

Lemma vkeep_mk : forall c st ca pg w lg t st' ca' pg' w' lg' t',
  st_keep st st' -> (pg_ok c pg -> pg_ok c pg') ->
  vkeep c (mkVm st ca pg w lg t) (mkVm st' ca' pg' w' lg' t').
Proof. intros. split; assumption. Qed.

Lemma refresh_pg : forall rs lang key v, v_pg (fst (fst (refresh rs lang key v))) = v_pg v.
Proof.
  intros rs lang key [st ca pg w lg t].
  destruct (refresh_indep rs lang key st ca w lg) as (st' & w' & lg' & content & s & Hr). rewrite Hr. reflexivity.
Qed.

Lemma exec_instr_keep : forall c rs lang i bb v,
  vkeep c v (fst (fst (exec_instr rs (c_sep c) lang i bb v))).
Proof.
  intros c rs lang i bb v. destruct v as [st ca pg w lg t]. destruct i; cbn [exec_instr].
  - apply vkeep_refl.
  - (* CATCH *) unfold run_catch. vcbn. destruct (match_flag st sig mode) as [[|]|e|n]; try apply vkeep_refl.
    pose proof (st_keep_apply_target sym st ca) as Hk.
    destruct (apply_target sym st ca) as [[[st' ca'] nsym] s]. cbn [fst] in Hk.
    destruct s; vcbn; [|apply vkeep_mk; auto..].
    rewrite fetch_code_mk. destruct (rs_code rs nsym); apply vkeep_mk; auto.
  - (* CROAK *) unfold run_croak. vcbn. destruct (match_flag st sig mode) as [[|]|e|n]; try apply vkeep_refl.
    apply vkeep_mk; [apply st_keep_refl|apply pg_ok_vm_reset].
  - (* LOAD *) unfold run_load. vcbn. destruct (cache_get ca sym); try apply vkeep_refl.
    pose proof (st_keep_refresh rs lang sym (mkVm st ca pg w lg t)) as Hk.
    pose proof (refresh_pg rs lang sym (mkVm st ca pg w lg t)) as Hpg.
    destruct (refresh rs lang sym (mkVm st ca pg w lg t)) as [[v1 content] s]. cbn [fst v_st v_pg] in Hk, Hpg.
    assert (Hv : vkeep c (mkVm st ca pg w lg t) v1) by (split; [exact Hk|cbn [v_pg]; rewrite Hpg; auto]).
    destruct s; cbn [fst]; try exact Hv.
    destruct (cache_add (v_ca v1) sym content (w16 sz)) as [ca'|[]|n]; cbn [fst]; exact Hv.
  - (* RELOAD *) unfold run_reload.
    pose proof (st_keep_refresh rs lang sym (mkVm st ca pg w lg t)) as Hk.
    pose proof (refresh_pg rs lang sym (mkVm st ca pg w lg t)) as Hpg.
    destruct (refresh rs lang sym (mkVm st ca pg w lg t)) as [[v1 content] s]. cbn [fst v_st v_pg] in Hk, Hpg.
    assert (Hv : vkeep c (mkVm st ca pg w lg t) v1) by (split; [exact Hk|cbn [v_pg]; rewrite Hpg; auto]).
    destruct s; cbn [fst]; try exact Hv.
    destruct (cache_update_raw (v_ca v1) sym content) as [ca' oe]. destruct v1 as [st1 ca1 pg1 w1 lg1 t1]. vcbn.
    cbn [v_pg] in Hpg. subst pg1.
    destruct (page_map ca' pg sym) as [pg'|e|n] eqn:Em; cbn [fst]; [|apply vkeep_mk; [exact Hk|auto]..].
    apply vkeep_mk; [exact Hk|]. unfold pg_ok. rewrite (pshape_page_map _ _ _ _ Em). auto.
  - (* MAP *) unfold run_map. vcbn.
    destruct (page_map ca pg sym) as [pg'|e|n] eqn:Em; cbn [fst]; [|apply vkeep_refl..].
    apply vkeep_mk; [apply st_keep_refl|]. unfold pg_ok. rewrite (pshape_page_map _ _ _ _ Em). auto.
  - (* MOVE *) unfold run_move. vcbn.
    pose proof (st_keep_apply_target sym st ca) as Hk.
    destruct (apply_target sym st ca) as [[[st' ca'] nsym] s]. cbn [fst] in Hk.
    destruct s; vcbn; [|apply vkeep_mk; auto..].
    rewrite fetch_code_mk. destruct (rs_code rs nsym); vcbn; apply vkeep_mk; auto. apply pg_ok_vm_reset.
  - (* HALT *) vcbn. apply vkeep_mk; [apply st_keep_setf|auto].
  - (* INCMP *) unfold run_incmp. vcbn.
    destruct (getf st FLAG_INMATCH && getf st FLAG_READIN); [vcbn; apply vkeep_mk; [apply st_keep_refl|auto]|].
    set (st1 := if getf st FLAG_INMATCH then st else setf st FLAG_READIN).
    assert (H1 : st_keep st st1) by (unfold st1; destruct (getf st FLAG_INMATCH); [apply st_keep_refl|apply st_keep_setf]).
    destruct (s_input st1) as [input|]; [|vcbn; apply vkeep_mk; [exact H1|auto]].
    destruct ((negb (getf st FLAG_INMATCH) && bytes_eqb sel star) || bytes_eqb sel input) eqn:Em.
    2:{ vcbn. apply vkeep_mk; [exact H1|auto]. }
    pose proof (st_keep_apply_target target (resetf (setf st1 FLAG_INMATCH) FLAG_READIN) ca) as Hk.
    destruct (apply_target target (resetf (setf st1 FLAG_INMATCH) FLAG_READIN) ca) as [[[st' ca'] nsym] s]. cbn [fst] in Hk.
    assert (H2 : st_keep st st').
    { eapply st_keep_trans; [exact H1|]. eapply st_keep_trans; [apply st_keep_setf|].
      eapply st_keep_trans; [apply st_keep_resetf|exact Hk]. }
    destruct s as [|e m|n|]; vcbn.
    + rewrite fetch_code_mk. destruct (rs_code rs nsym); vcbn; apply vkeep_mk; auto; apply pg_ok_vm_reset.
    + destruct e; vcbn; apply vkeep_mk; auto.
      eapply st_keep_trans; [exact H2|apply st_keep_setf].
    + vcbn. apply vkeep_mk; auto.
    + vcbn. apply vkeep_mk; auto.
  - vcbn. apply vkeep_mk; [apply st_keep_refl|apply pg_ok_upd_menu; exact mkeeps_sink].
  - vcbn. apply vkeep_mk; [apply st_keep_refl|apply pg_ok_upd_menu; apply mkeeps_put].
  - vcbn. apply vkeep_mk; [apply st_keep_refl|apply pg_ok_upd_menu; apply mkeeps_next].
  - vcbn. apply vkeep_mk; [apply st_keep_refl|apply pg_ok_upd_menu; apply mkeeps_prev].
Qed.

Lemma pre_step_keep : forall c v lang, vkeep c v (fst (pre_step v lang)).
Proof.
  intros c [st ca pg w lg t] lang. unfold pre_step. vcbn. apply vkeep_mk.
  - eapply st_keep_trans; [|apply st_keep_setf].
    assert (H : st_keep st (resetf (resetf st FLAG_LANG) FLAG_WAIT)).
    { eapply st_keep_trans; apply st_keep_resetf. }
    destruct (getf (resetf st FLAG_LANG) FLAG_WAIT); [eapply st_keep_trans; [exact H|apply st_keep_resetf]|exact H].
  - destruct (getf (resetf st FLAG_LANG) FLAG_WAIT); [apply pg_ok_wreset|auto].
Qed.

Lemma step_instr_keep : forall c rs lang op b1 v, vkeep c v (fst (fst (step_instr rs (c_sep c) lang op b1 v))).
Proof.
  intros c rs lang op b1 v. unfold step_instr.
  destruct (parse_args op b1) as [[i b2]|e|n]; try apply vkeep_refl.
  eapply vkeep_trans; [|apply exec_instr_keep]. destruct v as [st ca pg w lg t]; vcbn. apply vkeep_mk; [apply st_keep_refl|auto].
Qed.

Lemma err_check_keep : forall c x, vkeep c (fst (fst x)) (fst (fst (err_check x))).
Proof.
  intros c [[v b2] s]. unfold err_check. cbn [fst].
  destruct s as [|e msg|n|]; try apply vkeep_refl.
  assert (H : vkeep c v (set_page_err v msg)).
  { destruct v as [st ca pg w lg t]. unfold set_page_err. destruct msg; vcbn; apply vkeep_mk; try apply st_keep_refl; auto. }
  destruct (getf (v_st (set_page_err v msg)) FLAG_LOADFAIL && negb (bytes_eqb (where_sym (v_st (set_page_err v msg))) catch_sym));
    exact H.
Qed.

Lemma dead_check_keep : forall c v, vkeep c v (fst (fst (dead_check v))).
Proof.
  intros c [st ca pg w lg t]. unfold dead_check. vcbn.
  destruct (negb (getf st FLAG_READIN)); [vcbn; apply vkeep_mk; [apply st_keep_setf|auto]|].
  destruct (getf st FLAG_TERMINATE); [apply vkeep_refl|].
  destruct (where_sym st) as [|x r]; [apply vkeep_refl|].
  destruct (bytes_eqb (x :: r) catch_sym); [apply vkeep_refl|].
  vcbn. apply vkeep_mk; [apply st_keep_refl|auto].
Qed.

Lemma after_check_keep : forall c k x,
  (forall bb v, vkeep c v (fst (fst (k bb v)))) ->
  vkeep c (fst (fst x)) (fst (fst (after_check k x))).
Proof.
  intros c k [[v2 b3] s2] Hk. unfold after_check. cbn [fst].
  destruct s2; try apply vkeep_refl.
  destruct b3 as [|b0 br]; [|apply Hk].
  pose proof (dead_check_keep c v2) as Hd.
  destruct (dead_check v2) as [[v3 b4] s3]. cbn [fst] in Hd.
  destruct s3; try exact Hd.
  destruct b4; [exact Hd|]. eapply vkeep_trans; [exact Hd|apply Hk].
Qed.

Lemma run_keep : forall c f rs lang bb v, vkeep c v (fst (fst (run f rs (c_sep c) lang bb v))).
Proof.
  induction f as [|f IH]; intros rs lang bb v; [apply vkeep_refl|].
  rewrite run_S.
  destruct (getf (v_st v) FLAG_TERMINATE); [apply vkeep_refl|].
  pose proof (pre_step_keep c v lang) as Hp.
  destruct (pre_step v lang) as [v0 lang']. cbn [fst snd] in *.
  destruct (op_split bb) as [[op b1]|e|n]; cbn [fst]; try exact Hp.
  pose proof (step_instr_keep c rs lang' op b1 v0) as Hs.
  assert (Hgo : vkeep c v (fst (fst (let x := step_instr rs (c_sep c) lang' op b1 v0 in
             if op =? op_HALT then x else after_check (run f rs (c_sep c) lang') (err_check x))))).
  { cbn zeta. destruct (op =? op_HALT); [eapply vkeep_trans; eassumption|].
    eapply vkeep_trans; [exact Hp|]. eapply vkeep_trans; [exact Hs|].
    eapply vkeep_trans; [apply err_check_keep|]. apply after_check_keep. intros; apply IH. }
  destruct (parse_args op b1) as [[i b2]|e|n]; cbn [fst]; try exact Hgo. exact Hp.
Qed.

(* a run that returns pending code without error stopped at a HALT: WAIT is set *)
Definition flags_ok (st : state) : Prop := (8 <= List.length (s_flags st))%nat.

Lemma getf_setf_same : forall st i, (N.to_nat i < List.length (s_flags st))%nat -> getf (setf st i) i = true.
Proof. intros st i H. unfold getf, setf. cbn [s_flags set_flags]. apply nth_set_nth_bit_same. exact H. Qed.
Lemma getf_resetf_same : forall st i, (N.to_nat i < List.length (s_flags st))%nat -> getf (resetf st i) i = false.
Proof. intros st i H. unfold getf, resetf. cbn [s_flags set_flags]. apply nth_set_nth_bit_same. exact H. Qed.

Lemma parse_args_halt : forall b1, parse_args op_HALT b1 = Ok (IHalt, b1).
Proof. reflexivity. Qed.

Lemma flags_ok_keep : forall c a b, vkeep c a b -> flags_ok (v_st a) -> flags_ok (v_st b).
Proof. intros c a b [[_ H] _] Hf. unfold flags_ok in *. lia. Qed.

Lemma after_check_inv : forall c k x v' b',
  after_check k x = (v', b', SOk) -> b' <> [] ->
  exists bb2 v2, k bb2 v2 = (v', b', SOk) /\ vkeep c (fst (fst x)) v2.
Proof.
  intros c k [[v2 b3] s2] v' b' H Hb. unfold after_check in H. cbn [fst].
  destruct s2; try discriminate.
  destruct b3 as [|b0 br].
  - pose proof (dead_check_keep c v2) as Hd.
    destruct (dead_check v2) as [[v3 b4] s3]. cbn [fst] in Hd.
    destruct s3; try discriminate.
    destruct b4 as [|b40 b4r]; [injection H as _ <-; congruence|].
    exists (b40 :: b4r), v3. auto.
  - exists (b0 :: br), v2. split; [exact H|apply vkeep_refl].
Qed.

Lemma run_stops_at_halt : forall c f rs lang bb v v' b',
  flags_ok (v_st v) ->
  run f rs (c_sep c) lang bb v = (v', b', SOk) -> b' <> [] -> getf (v_st v') FLAG_WAIT = true.
Proof.
  induction f as [|f IH]; intros rs lang bb v v' b' Hf Hr Hb; [cbn [run] in Hr; discriminate|].
  rewrite run_S in Hr.
  destruct (getf (v_st v) FLAG_TERMINATE); [injection Hr as _ <- ; congruence|].
  pose proof (pre_step_keep c v lang) as Hk0.
  destruct (pre_step v lang) as [v0 lang']. cbn [fst snd] in *.
  assert (Hf0 : flags_ok (v_st v0)) by (apply (flags_ok_keep c _ _ Hk0); exact Hf).
  destruct (op_split bb) as [[op b1]|e|n]; try discriminate.
  assert (Hgo : (let x := step_instr rs (c_sep c) lang' op b1 v0 in
                 if op =? op_HALT then x else after_check (run f rs (c_sep c) lang') (err_check x)) = (v', b', SOk)
                -> getf (v_st v') FLAG_WAIT = true).
  { cbn zeta. clear Hr. intros Hr. destruct (op =? op_HALT) eqn:Eh.
    - apply N.eqb_eq in Eh. subst op.
      unfold step_instr in Hr. rewrite parse_args_halt in Hr. cbn [exec_instr] in Hr. injection Hr as <- _.
      destruct v0 as [st ca pg w lg t]. vcbn. apply getf_setf_same.
      unfold flags_ok in Hf0. cbn [v_st] in Hf0. unfold FLAG_WAIT. lia.
    - destruct (after_check_inv c _ _ _ _ Hr Hb) as (bb2 & v2 & Hk & Hv).
      eapply IH; [|exact Hk|exact Hb].
      apply (flags_ok_keep c _ _ Hv). apply (flags_ok_keep c _ _ (err_check_keep c _)).
      apply (flags_ok_keep c _ _ (step_instr_keep c rs lang' op b1 v0)). exact Hf0. }
  destruct (parse_args op b1) as [[i b2]|e|n] eqn:Ep; try discriminate; apply Hgo; exact Hr.
Qed.

(* ================================================================================================ *)
(* Part C: the engine                                                                                *)
(* ================================================================================================ *)
(* ---- Reset(force) computed ---------------------------------------------------------------------------- *)
Lemma unwind_all : forall fuel st ca, s_path st <> [] -> (List.length (s_path st) <= fuel)%nat ->
  exists ca', unwind fuel st ca = (set_path_idx st [] 0, ca', SOk).
Proof.
  induction fuel as [|f IH]; intros st ca Hp Hl.
  - destruct (s_path st); [congruence|cbn [List.length] in Hl; lia].
  - cbn [unwind]. unfold st_top, st_up.
    destruct (s_path st) as [|a [|b r]] eqn:Ep; [congruence| |].
    + cbn [removelast]. eexists. reflexivity.
    + set (st1 := set_path_idx st (removelast (a :: b :: r)) 0).
      set (ca1 := match cache_pop ca with Ok c0 => c0 | _ => ca end).
      destruct (IH st1 ca1) as [ca' H].
      * unfold st1. cbn [s_path set_path_idx removelast]. destruct r; discriminate.
      * unfold st1. cbn [s_path set_path_idx].
        pose proof (length_removelast (a :: b :: r) ltac:(discriminate)) as Hlr. cbn [List.length] in *. lia.
      * exists ca'. rewrite H. reflexivity.
Qed.

Definition reset_state (st : state) : state :=
  resetf (resetf (set_path_idx st [] 0) FLAG_TERMINATE) FLAG_DIRTY.

Lemma reset_sc_all : forall s ca, s_path s <> [] -> exists ca', reset_sc s ca = (reset_state s, ca', SOk).
Proof.
  intros s ca Hp. unfold reset_sc.
  destruct (unwind_all (S (List.length (s_path s))) s ca Hp) as [ca' H]; [lia|].
  rewrite H. exists ca'. reflexivity.
Qed.

Lemma reset_force_spec : forall c e,
  exists ca', eng_reset_force c e =
    match s_path (v_st (e_v e)) with
    | [] => (e, SOk)
    | _ => (eset_v e (vset_ca (vset_st (e_v e) (reset_state (set_code (v_st (e_v e)) (encode (IMove (cfg_root c)))))) ca'), SOk)
    end.
Proof.
  intros c e. unfold eng_reset_force.
  destruct (s_path (v_st (e_v e))) as [|p0 pr] eqn:Ep; [exists (v_ca (e_v e)); reflexivity|].
  rewrite eng_reset_inner_sc. vcbn.
  destruct (reset_sc_all (set_code (v_st (e_v e)) (encode (IMove (cfg_root c)))) (v_ca (e_v e))) as [ca' H].
  { cbn [s_path set_code]. rewrite Ep. discriminate. }
  rewrite H. exists ca'. destruct e as [[st ca pg w lg t] i x q d]; reflexivity.
Qed.

(* ---- two idle initialised engines that differ in page, taint and the unexported input ------------------ *)
Definition eeq (lk : bool) (A B : engine) : Prop :=
  e_initd A = e_initd B /\ e_exit A = e_exit B /\ e_exiting A = e_exiting B /\ e_execd A = e_execd B
  /\ veq lk (e_v A) (e_v B).

Definition pre_pg (lk : bool) (st : state) (pa pb : page) : Prop :=
  if getf st FLAG_WAIT then peq lk (wreset pa) (wreset pb) else peq lk pa pb.

Definition erel (lk : bool) (A B : engine) : Prop :=
  exists st y ca pa pb w lg ta tb,
    A = mkEng (mkVm st ca pa w lg ta) true [] false false /\
    B = mkEng (mkVm (set_input_raw st y) ca pb w lg tb) true [] false false /\
    pre_pg lk st pa pb.

Definition reset_opt (c : config) (input : bytes) (e : engine) : engine * stat :=
  if c_reset_empty c && (len input =? 0) then eng_reset_force c e else (e, SOk).

Lemma getf_reset_state : forall st i, i <> FLAG_TERMINATE -> i <> FLAG_DIRTY -> getf (reset_state st) i = getf st i.
Proof.
  intros st i H1 H2. unfold reset_state. rewrite getf_resetf_other by exact H2. rewrite getf_resetf_other by exact H1. reflexivity.
Qed.
Lemma nth_set_false : forall l n, nth n (set_nth_bit n false l) false = false.
Proof. induction l as [|x l IH]; intros [|n]; cbn [set_nth_bit nth]; auto. Qed.
Lemma getf_resetf_self : forall st i, getf (resetf st i) i = false.
Proof. intros. unfold getf, resetf. cbn [s_flags set_flags]. apply nth_set_false. Qed.

Lemma reset_opt_rel : forall lk c input A B, erel lk A B ->
  snd (reset_opt c input A) = SOk /\ snd (reset_opt c input B) = SOk
  /\ erel lk (fst (reset_opt c input A)) (fst (reset_opt c input B)).
Proof.
  intros lk c input A B (st & y & ca & pa & pb & w & lg & ta & tb & -> & -> & Hp). unfold reset_opt.
  destruct (c_reset_empty c && (len input =? 0)).
  2:{ cbn [fst snd]. split; [reflexivity|]. split; [reflexivity|]. exists st, y, ca, pa, pb, w, lg, ta, tb. auto. }
  unfold eng_reset_force. vcbn. cbn [e_v v_st s_path set_input_raw].
  destruct (s_path st) as [|p0 pr] eqn:Ep.
  { cbn [fst snd]. split; [reflexivity|]. split; [reflexivity|]. exists st, y, ca, pa, pb, w, lg, ta, tb. auto. }
  rewrite !eng_reset_inner_sc. vcbn.
  change (set_code (set_input_raw st y) (encode (IMove (cfg_root c))))
    with (set_input_raw (set_code st (encode (IMove (cfg_root c)))) y).
  destruct (reset_sc_input (set_code st (encode (IMove (cfg_root c)))) ca y) as [y' Hy]. rewrite Hy.
  destruct (reset_sc_all (set_code st (encode (IMove (cfg_root c)))) ca) as [ca' H].
  { cbn [s_path set_code]. rewrite Ep. discriminate. }
  rewrite H. cbn [fst snd]. split; [reflexivity|]. split; [reflexivity|].
  eexists _, y', ca', pa, pb, w, lg, ta, tb. split; [reflexivity|]. split; [reflexivity|].
  unfold pre_pg in *. rewrite getf_reset_state by (unfold FLAG_WAIT, FLAG_TERMINATE, FLAG_DIRTY; lia). exact Hp.
Qed.

Lemma eeq_mk : forall lk st ca pa pb w lg ta tb i x q d, peq lk pa pb ->
  eeq lk (mkEng (mkVm st ca pa w lg ta) i x q d) (mkEng (mkVm st ca pb w lg tb) i x q d).
Proof. intros. unfold eeq. cbn [e_initd e_exit e_exiting e_execd e_v]. repeat (split; [reflexivity|]). apply veq_mk. assumption. Qed.

Definition outcome_rel (lk : bool) (x y : engine * bool * stat) : Prop :=
  snd (fst x) = snd (fst y) /\ snd x = snd y /\
  ((e_execd (fst (fst x)) = true /\ snd x = SOk /\ eeq lk (fst (fst x)) (fst (fst y)))
   \/ (snd (fst x) = false /\ e_execd (fst (fst x)) = false /\ e_execd (fst (fst y)) = false)).

Ltac orel_right := unfold outcome_rel; cbn [fst snd e_execd eset_v]; split; [reflexivity|]; split; [reflexivity|]; right; repeat split.

Lemma exec_inner_sim : forall lk fuel rs c st ca pa pb w lg ta tb,
  pre_pg lk st pa pb -> getf st FLAG_TERMINATE = false ->
  outcome_rel lk (eng_exec_inner fuel rs c (mkEng (mkVm st ca pa w lg ta) true [] false false))
                 (eng_exec_inner fuel rs c (mkEng (mkVm st ca pb w lg tb) true [] false false)).
Proof.
  intros lk fuel rs c st ca pa pb w lg ta tb Hp Ht. unfold eng_exec_inner. vcbn. cbn [e_v v_st eset_v].
  destruct (s_code st) as [|c0 cr] eqn:Ec.
  { orel_right. }
  change (s_lang (set_code st [])) with (s_lang st). cbn [e_initd e_exit e_exiting e_execd]. vcbn.
  destruct fuel as [|f].
  { cbn [run]. orel_right. }
  pose proof (run_veq_pre lk f rs (c_sep c) (s_lang st) (c0 :: cr)
               (mkVm (set_code st []) ca pa w lg ta) (mkVm (set_code st []) ca pb w lg tb)) as Hr.
  assert (Hpre : veq_pre lk (mkVm (set_code st []) ca pa w lg ta) (mkVm (set_code st []) ca pb w lg tb)).
  { unfold veq_pre. cbn [v_st v_ca v_pg v_w v_log]. repeat (split; [reflexivity|]). exact Hp. }
  specialize (Hr Hpre Ht). helim2 Hr.
  destruct s2 as [|e m|n|]; try solve [orel_right].
  cbn [v_st].
  destruct (getf st2 FLAG_TERMINATE).
  { unfold outcome_rel. cbn [fst snd e_execd]. split; [reflexivity|]. split; [reflexivity|]. left.
    split; [reflexivity|]. split; [reflexivity|]. apply eeq_mk. exact Hp2. }
  unfold set_code_eng. cbn [e_v v_st v_ca e_initd e_exit e_exiting e_execd].
  destruct bb2 as [|b0 br].
  - change (getf (set_code st2 []) FLAG_DIRTY) with (getf st2 FLAG_DIRTY).
    destruct (getf st2 FLAG_DIRTY).
    + destruct (cache_last ca2) as [last ca'] eqn:El. vcbn.
      unfold outcome_rel. cbn [fst snd e_execd]. split; [reflexivity|]. split; [reflexivity|]. left.
      split; [reflexivity|]. split; [reflexivity|]. apply eeq_mk. exact Hp2.
    + unfold outcome_rel. cbn [fst snd e_execd eset_v]. vcbn. split; [reflexivity|]. split; [reflexivity|]. left.
      split; [reflexivity|]. split; [reflexivity|]. apply eeq_mk. exact Hp2.
  - unfold outcome_rel. cbn [fst snd e_execd eset_v]. vcbn. split; [reflexivity|]. split; [reflexivity|]. left.
    split; [reflexivity|]. split; [reflexivity|]. apply eeq_mk. exact Hp2.
Qed.

Definition term_clear (e : engine) : Prop := getf (v_st (e_v e)) FLAG_TERMINATE = false.

Lemma getf_reset_state_term : forall st, getf (reset_state st) FLAG_TERMINATE = false.
Proof.
  intros st. unfold reset_state. rewrite getf_resetf_other by (unfold FLAG_TERMINATE, FLAG_DIRTY; lia).
  apply getf_resetf_self.
Qed.

Lemma reset_opt_term : forall c input e, term_clear e -> term_clear (fst (reset_opt c input e)).
Proof.
  intros c input e H. unfold reset_opt. destruct (c_reset_empty c && (len input =? 0)); [|exact H].
  destruct (reset_force_spec c e) as [ca' Hs]. rewrite Hs.
  destruct (s_path (v_st (e_v e))); [exact H|]. unfold term_clear. cbn [fst]. destruct e as [v i x q d]. cbn [eset_v e_v]. vcbn.
  apply getf_reset_state_term.
Qed.

Definition bad_pattern (input : bytes) : bool := (0 <? len input) && negb (valid_input_b input).

Lemma exec_tail_sim : forall lk fuel rs c input A B,
  erel lk A B -> term_clear A ->
  let x := exec_tail fuel rs c A input in
  let y := exec_tail fuel rs c B input in
  (bad_pattern input = true /\ x = (fst (reset_opt c input A), true, SErr EGen None)
                            /\ y = (fst (reset_opt c input B), true, SErr EGen None))
  \/ (bad_pattern input = false /\ outcome_rel lk x y).
Proof.
  intros lk fuel rs c input A B Hrel Ht x y. subst x y. unfold exec_tail. fold (reset_opt c input A). fold (reset_opt c input B).
  destruct (reset_opt_rel lk c input A B Hrel) as [Ha [Hb Hr2]].
  pose proof (reset_opt_term c input A Ht) as Ht2.
  destruct (reset_opt c input A) as [A2 sa]. destruct (reset_opt c input B) as [B2 sb]. cbn [fst snd] in *. subst sa sb.
  fold (bad_pattern input). destruct (bad_pattern input) eqn:Ebad; [left; auto|]. right. split; [reflexivity|].
  destruct Hr2 as (st & y & ca & pa & pb & w & lg & ta & tb & -> & -> & Hp).
  unfold term_clear in Ht2. cbn [e_v v_st] in *. unfold set_input. cbn [e_v v_st].
  destruct (INPUT_LIMIT <? len input).
  { orel_right. }
  cbn [eset_v e_v e_initd e_exit e_exiting e_execd]. vcbn.
  change (set_input_raw (set_input_raw st y) (Some input)) with (set_input_raw st (Some input)).
  apply exec_inner_sim; [exact Hp|exact Ht2].
Qed.

Lemma eeq_elim : forall lk A B, eeq lk A B ->
  exists va vb i x q d, A = mkEng va i x q d /\ B = mkEng vb i x q d /\ veq lk va vb.
Proof.
  intros lk [va i x q d] [vb i' x' q' d'] [H1 [H2 [H3 [H4 H5]]]]. cbn in *. subst.
  exists va, vb, i', x', q', d'. auto.
Qed.

Lemma reset_inner_veq : forall lk a b, veq lk a b ->
  snd (eng_reset_inner a) = snd (eng_reset_inner b) /\ veq lk (fst (eng_reset_inner a)) (fst (eng_reset_inner b)).
Proof.
  intros lk a b H. velim H. rewrite !eng_reset_inner_sc. vcbn.
  destruct (reset_sc st ca) as [[st' ca'] s]. cbn [fst snd]. split; [reflexivity|]. apply veq_mk. exact Hp.
Qed.

Lemma flush_sim : forall fuel rs c A B, eeq false A B ->
  snd (fst (eng_flush fuel rs c A)) = snd (fst (eng_flush fuel rs c B))
  /\ snd (eng_flush fuel rs c A) = snd (eng_flush fuel rs c B)
  /\ eeq false (fst (fst (eng_flush fuel rs c A))) (fst (fst (eng_flush fuel rs c B))).
Proof.
  intros fuel rs c A B H. destruct (eeq_elim _ _ _ H) as (va & vb & i & x & q & d & -> & -> & Hv).
  unfold eng_flush. cbn [e_execd e_v].
  destruct d; cbn [negb].
  2:{ cbn [fst snd]. split; [reflexivity|]. split; [reflexivity|]. exact H. }
  assert (Hst : v_st va = v_st vb) by (destruct Hv as [Hs _]; exact Hs). rewrite <- Hst.
  destruct (vm_render_veq fuel rs (c_sep c) (s_lang (v_st va)) va vb Hv) as [Hr Hv'].
  destruct (vm_render fuel rs (c_sep c) (s_lang (v_st va)) va) as [va' r].
  destruct (vm_render fuel rs (c_sep c) (s_lang (v_st va)) vb) as [vb' r']. cbn [fst snd] in Hr, Hv'. subst r'.
  cbn [eset_v e_exit e_exiting e_initd e_execd e_v].
  assert (Hbase : eeq false (mkEng va' i x q true) (mkEng vb' i x q true)).
  { unfold eeq. cbn [e_initd e_exit e_exiting e_execd e_v]. auto. }
  destruct (reset_inner_veq false va' vb' Hv') as [Hrs Hrv].
  assert (Hreset : eeq false (mkEng (fst (eng_reset_inner va')) i x false true) (mkEng (fst (eng_reset_inner vb')) i x false true)).
  { unfold eeq. cbn [e_initd e_exit e_exiting e_execd e_v]. auto. }
  destruct (eng_reset_inner va') as [ra sa]. destruct (eng_reset_inner vb') as [rb sb]. cbn [fst snd] in *. subst sb.
  destruct r as [out|er|n|]; try (cbn [fst snd]; auto).
  - destruct ((0 <? c_out c) && (0 <? len x) && (c_out c <? w32 (len x + len out))).
    + destruct q; cbn [fst snd]; auto.
    + destruct x as [|x0 xr]; (destruct q; [destruct sa|]; cbn [fst snd]; auto).
  - destruct ((0 <? c_out c) && (0 <? len x) && (c_out c <? w32 (len x + 0))).
    + destruct q; cbn [fst snd]; auto.
    + destruct x as [|x0 xr]; [cbn [fst snd]; auto|]. destruct q; [destruct sa|]; cbn [fst snd]; auto.
Qed.

(* ---- the long-lived side: what holds between two requests --------------------------------------------- *)
Definition Linv (c : config) (e : engine) : Prop :=
  e_initd e = true /\ e_exit e = [] /\ e_exiting e = false
  /\ s_code (v_st (e_v e)) <> [] /\ getf (v_st (e_v e)) FLAG_DIRTY = false
  /\ getf (v_st (e_v e)) FLAG_TERMINATE = false /\ flags_ok (v_st (e_v e))
  /\ pg_ok c (v_pg (e_v e))
  /\ (getf (v_st (e_v e)) FLAG_WAIT = false -> peq false (v_pg (e_v e)) (P0 c)).

Lemma Linv_cleared : forall c e, Linv c e -> Linv c (cleared e).
Proof. intros c e (H1 & H2 & H3 & H4). unfold Linv, cleared. cbn [e_initd e_exit e_exiting e_v]. auto. Qed.

Lemma Linv_delivered : forall c e, Linv c e -> delivered e.
Proof. intros c e (H1 & H2 & H3 & H4 & H5 & _). right. auto. Qed.

Lemma flags_ok_reset_state : forall st, flags_ok st -> flags_ok (reset_state st).
Proof.
  intros st H. unfold flags_ok, reset_state in *.
  destruct (st_keep_resetf (resetf (set_path_idx st [] 0) FLAG_TERMINATE) FLAG_DIRTY) as [_ H1].
  destruct (st_keep_resetf (set_path_idx st [] 0) FLAG_TERMINATE) as [_ H2].
  rewrite H1, H2. exact H.
Qed.

Lemma reset_opt_Linv : forall c input e, Linv c e -> Linv c (fst (reset_opt c input e)).
Proof.
  intros c input e H. unfold reset_opt. destruct (c_reset_empty c && (len input =? 0)); [|exact H].
  destruct (reset_force_spec c e) as [ca' Hs]. rewrite Hs.
  destruct (s_path (v_st (e_v e))); [exact H|]. cbn [fst].
  destruct H as (H1 & H2 & H3 & H4 & H5 & H6 & H7 & H8 & H9).
  destruct e as [[st ca pg w lg t] i x q d]. cbn [e_initd e_exit e_exiting e_v v_st v_pg] in *.
  unfold Linv. cbn [eset_v e_initd e_exit e_exiting e_v]. vcbn.
  repeat (split; [assumption|]).
  split; [cbn [reset_state]; unfold reset_state; cbn [s_code resetf set_flags set_path_idx set_code]; apply encode_nonempty|].
  split; [apply getf_resetf_self|].
  split; [apply getf_reset_state_term|].
  split; [apply flags_ok_reset_state; exact H7|].
  split; [exact H8|].
  rewrite getf_reset_state by (unfold FLAG_WAIT, FLAG_TERMINATE, FLAG_DIRTY; lia). exact H9.
Qed.

(* Exec returned "continue" without error: the run stopped at a HALT with code pending *)
Lemma exec_inner_cont : forall fuel rs c v A' s,
  eng_exec_inner fuel rs c (mkEng v true [] false false) = (A', true, s) ->
  flags_ok (v_st v) -> pg_ok c (v_pg v) ->
  s = SOk /\ e_initd A' = true /\ e_exit A' = [] /\ e_exiting A' = false /\ e_execd A' = true
  /\ s_code (v_st (e_v A')) <> [] /\ getf (v_st (e_v A')) FLAG_TERMINATE = false
  /\ flags_ok (v_st (e_v A')) /\ pg_ok c (v_pg (e_v A')) /\ getf (v_st (e_v A')) FLAG_WAIT = true.
Proof.
  intros fuel rs c v A' s H Hf Hpg. unfold eng_exec_inner in H. cbn [e_v eset_v e_initd e_exit e_exiting e_execd] in H.
  destruct (s_code (v_st v)) as [|c0 cr] eqn:Ec; [discriminate|].
  set (v0 := vset_st v (set_code (v_st v) [])) in H.
  assert (Hf0 : flags_ok (v_st v0)) by (destruct v; exact Hf).
  assert (Hpg0 : pg_ok c (v_pg v0)) by (destruct v; exact Hpg).
  pose proof (run_keep c fuel rs (s_lang (v_st v0)) (c0 :: cr) v0) as Hk.
  pose proof (run_stops_at_halt c fuel rs (s_lang (v_st v0)) (c0 :: cr) v0) as Hw.
  destruct (run fuel rs (c_sep c) (s_lang (v_st v0)) (c0 :: cr) v0) as [[v1 b] s1]. cbn [fst] in Hk.
  destruct s1; try discriminate.
  destruct (getf (v_st v1) FLAG_TERMINATE) eqn:Et; [discriminate|].
  unfold set_code_eng in H. cbn [e_v e_initd e_exit e_exiting e_execd] in H.
  destruct b as [|b0 br].
  { destruct (getf (set_code (v_st v1) []) FLAG_DIRTY); [destruct (cache_last (v_ca v1))|]; discriminate. }
  injection H as <- <-. cbn [eset_v e_initd e_exit e_exiting e_execd e_v]. destruct v1 as [st1 ca1 pg1 w1 lg1 t1]. vcbn.
  cbn [v_st v_pg] in *.
  split; [reflexivity|]. repeat (split; [reflexivity|]).
  split; [cbn [s_code set_code]; discriminate|].
  split; [exact Et|].
  split; [exact (flags_ok_keep c _ _ Hk Hf0)|].
  split; [destruct Hk as [_ Hk2]; exact (Hk2 Hpg0)|].
  exact (Hw _ _ Hf0 eq_refl ltac:(discriminate)).
Qed.

(* ---- the render of a Flush raised a BrowseError (the page index is past the last page) ------------------ *)
Definition browse_err (rs : rsrc) (e : engine) : bool :=
  let v := e_v e in
  let st := v_st v in
  e_execd e && getf st FLAG_DIRTY &&
  match where_sym st with
  | [] => false
  | sym =>
    match fst (page_render (v_ca v) (rs_tpl rs (s_lang st)) (rs_menu rs (s_lang st)) (v_pg v) sym (s_idx st)) with
    | Err EBrowse => true
    | _ => false
    end
  end.

(* without a BrowseError Vm.Render only clears DIRTY, renders the page and logs the render *)
Lemma vm_render_plain : forall c fuel rs v,
  browse_err rs (mkEng v true [] false true) = false ->
  let v' := fst (vm_render fuel rs (c_sep c) (s_lang (v_st v)) v) in
  st_keep (v_st v) (v_st v')
  /\ (forall i, i <> FLAG_DIRTY -> getf (v_st v') i = getf (v_st v) i)
  /\ getf (v_st v') FLAG_DIRTY = false
  /\ (pg_ok c (v_pg v) -> pg_ok c (v_pg v')).
Proof.
  intros c fuel rs [st ca pg w lg t] Hb. unfold browse_err in Hb. cbn [e_execd e_v v_st v_ca v_pg andb] in Hb.
  unfold vm_render. vcbn.
  destruct (getf st FLAG_DIRTY) eqn:Ed; cbn [negb].
  2:{ cbn [fst v_st v_pg]. split; [apply st_keep_refl|]. auto. }
  change (where_sym (resetf st FLAG_DIRTY)) with (where_sym st).
  change (s_idx (resetf st FLAG_DIRTY)) with (s_idx st).
  assert (Hst : st_keep st (resetf st FLAG_DIRTY) /\ (forall i, i <> FLAG_DIRTY -> getf (resetf st FLAG_DIRTY) i = getf st i)
                /\ getf (resetf st FLAG_DIRTY) FLAG_DIRTY = false).
  { split; [apply st_keep_resetf|]. split; [intros; apply getf_resetf_other; assumption|apply getf_resetf_self]. }
  destruct Hst as (K1 & K2 & K3).
  destruct (where_sym st) as [|x r] eqn:Ew.
  { cbn [fst v_st v_pg]. auto. }
  pose proof (pshape_render ca (rs_tpl rs (s_lang st)) (rs_menu rs (s_lang st)) pg (x :: r) (s_idx st)) as Hsh.
  destruct (page_render ca (rs_tpl rs (s_lang st)) (rs_menu rs (s_lang st)) pg (x :: r) (s_idx st)) as [rr pg'].
  cbn [fst snd] in *.
  assert (Hgo : forall r0 : rres,
     st_keep st (v_st (fst (mkVm (resetf st FLAG_DIRTY) ca pg' w (EvRender (x :: r) (s_idx st) (s_lang st) :: lg) t, r0)))
     /\ (forall i, i <> FLAG_DIRTY -> getf (v_st (fst (mkVm (resetf st FLAG_DIRTY) ca pg' w (EvRender (x :: r) (s_idx st) (s_lang st) :: lg) t, r0))) i = getf st i)
     /\ getf (v_st (fst (mkVm (resetf st FLAG_DIRTY) ca pg' w (EvRender (x :: r) (s_idx st) (s_lang st) :: lg) t, r0))) FLAG_DIRTY = false
     /\ (pg_ok c pg -> pg_ok c (v_pg (fst (mkVm (resetf st FLAG_DIRTY) ca pg' w (EvRender (x :: r) (s_idx st) (s_lang st) :: lg) t, r0))))).
  { intros r0. cbn [fst v_st v_pg]. repeat (split; [assumption|]). unfold pg_ok. rewrite Hsh. auto. }
  destruct rr as [out|e|n]; try apply Hgo.
  destruct e; try apply Hgo. discriminate.
Qed.

(* Flush of an engine that has executed, has no exit value and is not exiting *)
Lemma flush_running : forall fuel rs c v,
  eng_flush fuel rs c (mkEng v true [] false true) =
  let '(v', r) := vm_render fuel rs (c_sep c) (s_lang (v_st v)) v in
  (mkEng v' true [] false true,
   match r with RROk out => out ++ [] | _ => [] end,
   match r with RROk _ => FOk | RRErr er => FErr er | RRPanic n => FPanic n | RRFuel => FFuel end).
Proof.
  intros fuel rs c v. unfold eng_flush. cbn [e_execd negb e_v].
  destruct (vm_render fuel rs (c_sep c) (s_lang (v_st v)) v) as [v' r].
  cbn [eset_v e_exit e_exiting e_initd e_execd e_v].
  change (len (@nil N)) with 0. rewrite N.ltb_irrefl, andb_false_r. cbn [andb].
  destruct r; reflexivity.
Qed.

Lemma reset_opt_execd : forall c input e, e_execd (fst (reset_opt c input e)) = e_execd e.
Proof.
  intros c input e. unfold reset_opt. destruct (c_reset_empty c && (len input =? 0)); [|reflexivity].
  destruct (reset_force_spec c e) as [ca' Hs]. rewrite Hs. destruct (s_path (v_st (e_v e))); destruct e; reflexivity.
Qed.
Lemma reset_opt_ok : forall c input e, snd (reset_opt c input e) = SOk.
Proof.
  intros c input e. unfold reset_opt. destruct (c_reset_empty c && (len input =? 0)); [|reflexivity].
  destruct (reset_force_spec c e) as [ca' Hs]. rewrite Hs. destruct (s_path (v_st (e_v e))); reflexivity.
Qed.

Definition ran_ok (c : config) (A' : engine) : Prop :=
  e_initd A' = true /\ e_exit A' = [] /\ e_exiting A' = false /\ e_execd A' = true
  /\ s_code (v_st (e_v A')) <> [] /\ getf (v_st (e_v A')) FLAG_TERMINATE = false
  /\ flags_ok (v_st (e_v A')) /\ pg_ok c (v_pg (e_v A')) /\ getf (v_st (e_v A')) FLAG_WAIT = true.

Lemma exec_tail_cont : forall fuel rs c A input A',
  Linv c A -> e_execd A = false ->
  exec_tail fuel rs c A input = (A', true, SOk) -> ran_ok c A'.
Proof.
  intros fuel rs c A input A' HL Hx H. unfold exec_tail in H. fold (reset_opt c input A) in H.
  pose proof (reset_opt_Linv c input A HL) as HL2. pose proof (reset_opt_execd c input A) as Hx2.
  pose proof (reset_opt_ok c input A) as Hs2. rewrite Hx in Hx2.
  destruct (reset_opt c input A) as [A2 s2]. cbn [fst snd] in *. subst s2.
  destruct ((0 <? len input) && negb (valid_input_b input)); [discriminate|].
  unfold set_input in H. destruct (INPUT_LIMIT <? len input); [discriminate|].
  destruct HL2 as (H1 & H2 & H3 & H4 & H5 & H6 & H7 & H8 & H9).
  destruct A2 as [[st ca pg w lg t] i x q d]. cbn [e_initd e_exit e_exiting e_execd e_v v_st v_pg] in *. subst.
  cbn [eset_v e_initd e_exit e_exiting e_execd e_v] in H. vcbn.
  unfold vset_st in H. cbn [v_st v_ca v_pg v_w v_log v_taint] in H.
  destruct (exec_inner_cont fuel rs c _ _ _ H) as (_ & K); [exact H7|exact H8|exact K].
Qed.

(* after the Flush that follows, if the render raised no BrowseError *)
Lemma flush_ran_Linv : forall fuel rs c A',
  ran_ok c A' -> browse_err rs A' = false ->
  Linv c (fst (fst (eng_flush fuel rs c A'))).
Proof.
  intros fuel rs c A' (H1 & H2 & H3 & H4 & H5 & H6 & H7 & H8 & H9) Hb.
  destruct A' as [v i x q d]. cbn [e_initd e_exit e_exiting e_execd e_v] in *. subst.
  rewrite flush_running.
  pose proof (vm_render_plain c fuel rs v Hb) as Hp.
  destruct (vm_render fuel rs (c_sep c) (s_lang (v_st v)) v) as [v' r]. cbn [fst] in *.
  destruct Hp as ([K1 K2] & K3 & K4 & K5).
  unfold Linv. cbn [e_initd e_exit e_exiting e_v].
  repeat (split; [reflexivity|]).
  split; [rewrite K1; exact H5|].
  split; [exact K4|].
  split; [rewrite K3 by (unfold FLAG_TERMINATE, FLAG_DIRTY; lia); exact H6|].
  split; [unfold flags_ok in *; lia|].
  split; [exact (K5 H8)|].
  rewrite K3 by (unfold FLAG_WAIT, FLAG_DIRTY; lia). congruence.
Qed.

(* ---- relating the leftover page of the long-lived engine to the page of a new engine --------------------- *)
(* Menu.Reset erases everything but separator and resource, Sizer.Reset everything but the output size (and
   the dead fields): after the reset that resumes execution after a HALT, two pages of the same shape are
   equivalent *)
Lemma wreset_shape : forall lk a b, pshape a = pshape b -> peq lk (wreset a) (wreset b).
Proof.
  intros lk a b H. unfold pshape in H. injection H as Hm Hz.
  unfold wreset, upd_menu, page_reset, page_with_error. cbn [p_map p_sink p_menu p_sizer p_err p_extra].
  apply peq_intro.
  - destruct (p_menu a), (p_menu b); reflexivity.
  - destruct (p_menu a), (p_menu b); reflexivity.
  - destruct (p_menu a) as [ma|], (p_menu b) as [mb|]; cbn [option_map] in *; try discriminate; [|reflexivity].
    cbn [p_menu option_map]. f_equal. injection Hm as Hs Hr.
    unfold menu_reset. cbn [m_sep m_has_rs]. rewrite Hs, Hr. reflexivity.
  - destruct (p_menu a) as [ma|], (p_menu b) as [mb|]; cbn [option_map] in *; try discriminate;
      cbn [p_sizer];
      (destruct (p_sizer a) as [za|], (p_sizer b) as [zb|]; cbn [option_map] in *; try discriminate; [|reflexivity];
       injection Hz as Hz; unfold znorm, sizer_reset; cbn [z_out z_crsrs z_sink]; congruence).
  - destruct (p_menu a), (p_menu b); reflexivity.
  - destruct (p_menu a), (p_menu b); reflexivity.
Qed.

(* ---- guards (decidable) --------------------------------------------------------------------------------- *)
(* an over-long input that also fails the input pattern (K-C07-longbad) *)
Definition input_ok_b (i : bytes) : bool := negb ((INPUT_LIMIT <? len i) && negb (valid_input_b i)).
(* the render of the request's Flush raised no BrowseError *)
Definition no_browse_err_b (fuel : nat) (rs : rsrc) (c : config) (e : engine) (i : bytes) : bool :=
  negb (browse_err rs (fst (fst (eng_exec fuel rs c e i)))).

(* ---- the simulation relation ----------------------------------------------------------------------------- *)
Definition R (c : config) (e : engine) (p : pworld) : Prop :=
  Linv c e /\ pw_store p = Some (snap_of (v_st (e_v e)) (v_ca (e_v e)))
  /\ pw_w p = v_w (e_v e) /\ pw_log p = v_log (e_v e).

Lemma eng_exec_Linv : forall fuel rs c e i, Linv c e ->
  eng_exec fuel rs c e i = exec_tail fuel rs c (cleared e) i.
Proof.
  intros fuel rs c e i H. pose proof (Linv_delivered c e H) as Hd.
  rewrite eng_exec_initd; [|destruct H as [H _]; exact H|apply delivered_settled; exact Hd].
  rewrite delivered_not_stuck by exact Hd. reflexivity.
Qed.

Lemma request_persisted_R : forall fuel rs c p i st ca,
  c_first c = None -> pw_store p = Some (snap_of st ca) -> s_code st <> [] ->
  request_persisted fuel rs c p i =
  pers_finish fuel rs c p (pw_store p)
    (if INPUT_LIMIT <? len i
     then (mkEng (mkVm (set_input_raw st None) ca (P0 c) (pw_w p) (pw_log p) false) false [] false false, false, SErr EGen None)
     else exec_tail fuel rs c (mkEng (mkVm (set_input_raw st None) ca (P0 c) (pw_w p) (pw_log p) false) true [] false false) i).
Proof.
  intros fuel rs c p i st ca Hf Hs Hc.
  rewrite request_persisted_finish, new_engine_sess, eng_exec_fresh by exact Hf.
  rewrite Hs. cbn [store0_of sess fst snd snap_of].
  rewrite init_sc_nonempty by (cbn [s_code set_input_raw]; exact Hc). reflexivity.
Qed.

Definition long_finish (fuel : nat) (rs : rsrc) (c : config) (x : engine * bool * stat) : engine * response :=
  let '(e1, cont, s) := x in
  match s with
  | SPanic n => (e1, mkResp cont s [] (FPanic n))
  | SFuel => (e1, mkResp cont s [] FFuel)
  | _ => let '(e2, out, f) := eng_flush fuel rs c e1 in (e2, mkResp cont s out f)
  end.
Lemma request_long_finish : forall fuel rs c e i,
  request_long fuel rs c e i = long_finish fuel rs c (eng_exec fuel rs c e i).
Proof. reflexivity. Qed.

Definition flush_alive (f : fstat) : Prop := match f with FPanic _ | FFuel => False | _ => True end.

Lemma finish_sim : forall fuel rs c p o x y,
  outcome_rel false x y ->
  let '(eL, rl) := long_finish fuel rs c x in
  let '(p', rp) := pers_finish fuel rs c p o y in
  rl = rp /\
  (r_cont rl = true -> flush_alive (r_flush rl) -> e_initd eL = true ->
   pw_store p' = Some (snap_of (v_st (e_v eL)) (v_ca (e_v eL))) /\ pw_w p' = v_w (e_v eL) /\ pw_log p' = v_log (e_v eL)
   /\ eL = fst (fst (eng_flush fuel rs c (fst (fst x)))) /\ e_execd (fst (fst x)) = true /\ snd x = SOk).
Proof.
  intros fuel rs c p o [[A' ca] sa] [[B' cb] sb] (C1 & C2 & Hc). cbn [fst snd] in *. subst cb sb.
  unfold long_finish, pers_finish.
  destruct Hc as [(X1 & X2 & X3)|(X1 & X2 & X3)].
  - subst sa.
    destruct (flush_sim fuel rs c A' B' X3) as (F1 & F2 & F3).
    destruct (eng_flush fuel rs c A') as [[A2 oa] fa]. destruct (eng_flush fuel rs c B') as [[B2 ob] fb].
    cbn [fst snd] in *. subst ob fb.
    destruct F3 as (G1 & G2 & G3 & G4 & (K1 & K2 & K3 & K4 & K5)).
    destruct fa; (split; [reflexivity|]); cbn [r_cont r_flush flush_alive]; intros Hc Ha Hi; try contradiction;
      unfold eng_finish; rewrite <- G1, Hi; cbn [pw_store pw_w pw_log]; rewrite K1, K2, K3, K4; auto 10.
  - subst ca.
    destruct sa; try (split; [reflexivity|]; cbn [r_cont]; intros; discriminate).
    + rewrite !flush_before_exec by assumption. cbn [eng_finish]. split; [reflexivity|]. cbn [r_cont]. intros; discriminate.
    + rewrite !flush_before_exec by assumption. cbn [eng_finish]. split; [reflexivity|]. cbn [r_cont]. intros; discriminate.
Qed.

(* ---- one request --------------------------------------------------------------------------------------- *)
Lemma erel_of_R : forall c e st ca pg w lg t,
  Linv c e -> e_v e = mkVm st ca pg w lg t ->
  erel false (cleared e) (mkEng (mkVm (set_input_raw st None) ca (P0 c) w lg false) true [] false false).
Proof.
  intros c e st ca pg w lg t (H1 & H2 & H3 & H4 & H5 & H6 & H7 & H8 & H9) Hv.
  destruct e as [v i x q d]. cbn [e_v e_initd e_exit e_exiting] in *. subst. cbn [v_st v_pg] in *.
  exists st, None, ca, pg, (P0 c), w, lg, t, false. split; [reflexivity|]. split; [reflexivity|].
  unfold pre_pg. destruct (getf st FLAG_WAIT); [apply wreset_shape; exact H8|auto].
Qed.

Lemma step_simulation : forall fuel rs c e p i,
  c_first c = None -> R c e p -> input_ok_b i = true ->
  let '(e', rl) := request_long fuel rs c e i in
  let '(p', rp) := request_persisted fuel rs c p i in
  rl = rp /\
  (r_cont rl = true -> flush_alive (r_flush rl) -> no_browse_err_b fuel rs c e i = true -> R c e' p').
Proof.
  intros fuel rs c e p i Hf (HL & Hst & Hw & Hlg) Hin.
  unfold no_browse_err_b.
  rewrite request_long_finish. rewrite (eng_exec_Linv fuel rs c e i HL) in *.
  destruct (e_v e) as [st ca pg w lg t] eqn:Ev.
  assert (Hcode : s_code st <> []).
  { destruct HL as (_ & _ & _ & H4 & _). rewrite Ev in H4. exact H4. }
  cbn [v_st v_ca v_w v_log] in Hst, Hw, Hlg.
  rewrite (request_persisted_R fuel rs c p i st ca Hf Hst Hcode). rewrite Hw, Hlg.
  destruct (INPUT_LIMIT <? len i) eqn:Elim.
  { (* over-long: refused on both sides *)
    assert (Hv : valid_input_b i = true).
    { unfold input_ok_b in Hin. rewrite Elim in Hin. cbn [andb] in Hin. destruct (valid_input_b i); [reflexivity|discriminate]. }
    rewrite exec_tail_refused by (left; apply N.ltb_lt; exact Elim). rewrite Hv. cbn [negb].
    unfold long_finish, pers_finish. rewrite !flush_before_exec by reflexivity.
    split; [reflexivity|]. cbn [r_cont]. intros; discriminate. }
  pose proof (erel_of_R c e st ca pg w lg t HL Ev) as Hab.
  set (B := mkEng (mkVm (set_input_raw st None) ca (P0 c) w lg false) true [] false false) in *.
  assert (Hta : term_clear (cleared e)).
  { destruct HL as (_ & _ & _ & _ & _ & H6 & _). exact H6. }
  destruct (exec_tail_sim false fuel rs c i (cleared e) B Hab Hta) as [(Hbad & Hx & Hy)|(Hnb & Hrel)].
  - (* refused by the pattern: nothing ran *)
    rewrite Hx, Hy.
    destruct (reset_opt_rel false c i (cleared e) B Hab) as (_ & _ & Hr2).
    pose proof (reset_opt_Linv c i (cleared e) (Linv_cleared c e HL)) as HL2.
    destruct Hr2 as (st2 & y2 & ca2 & pa2 & pb2 & w2 & lg2 & ta2 & tb2 & Ea & Eb & Hp2).
    rewrite Ea in *. rewrite Eb.
    unfold long_finish, pers_finish. rewrite !flush_before_exec by reflexivity.
    split; [reflexivity|]. intros _ _ _.
    unfold R. split; [exact HL2|]. cbn [eng_finish e_initd e_v v_st v_ca v_w v_log pw_store pw_w pw_log].
    split; [|auto]. unfold snap_of. reflexivity.
  - pose proof (finish_sim fuel rs c p (pw_store p) _ _ Hrel) as Hfin.
    destruct (long_finish fuel rs c (exec_tail fuel rs c (cleared e) i)) as [eL rl] eqn:EL.
    destruct (pers_finish fuel rs c p (pw_store p) (exec_tail fuel rs c B i)) as [p' rp] eqn:EP.
    destruct Hfin as [Hresp Hstore]. split; [exact Hresp|].
    intros Hc Ha Hb.
    (* the long-lived engine after the request *)
    destruct (exec_tail fuel rs c (cleared e) i) as [[A' ca'] sa] eqn:EA. cbn [fst snd] in *.
    assert (Hcont : ca' = r_cont rl).
    { unfold long_finish in EL. destruct sa; [destruct (eng_flush fuel rs c A') as [[? ?] ?]|destruct (eng_flush fuel rs c A') as [[? ?] ?]| |];
        injection EL as _ <-; reflexivity. }
    assert (Hinit : e_initd eL = true -> R c eL p').
    { intros Hi. destruct (Hstore Hc Ha Hi) as (S1 & S2 & S3 & S4 & S5 & S6). subst sa. rewrite Hc in Hcont. subst ca'.
      pose proof (exec_tail_cont fuel rs c (cleared e) i A' (Linv_cleared c e HL) eq_refl EA) as Hran.
      unfold R. split; [|auto]. rewrite S4. apply flush_ran_Linv; [exact Hran|].
      apply negb_true_iff in Hb. exact Hb. }
    apply Hinit.
    (* initd: from the shape of the outcome *)
    destruct Hrel as (_ & _ & [(X1 & X2 & X3)|(X1 & _)]).
    + cbn [fst snd] in *. subst sa. rewrite Hc in Hcont. subst ca'.
      pose proof (exec_tail_cont fuel rs c (cleared e) i A' (Linv_cleared c e HL) eq_refl EA) as Hran.
      unfold long_finish in EL.
      pose proof (flush_ran_Linv fuel rs c A' Hran ltac:(apply negb_true_iff in Hb; exact Hb)) as HLf.
      destruct (eng_flush fuel rs c A') as [[A2 oa] fa]. cbn [fst] in HLf. injection EL as <- _.
      destruct HLf as [HLf _]. exact HLf.
    + cbn [fst snd] in X1. congruence.
Qed.

(* ---- the first request: both drivers start from the same new engine --------------------------------------- *)
Lemma exec_inner_true_ok : forall fuel rs c e A' s, eng_exec_inner fuel rs c e = (A', true, s) -> s = SOk.
Proof.
  intros fuel rs c e A' s H. unfold eng_exec_inner in H.
  destruct (s_code (v_st (e_v e))); [discriminate|].
  destruct (run fuel rs (c_sep c) _ _ _) as [[v1 b] s1]. destruct s1; try discriminate.
  destruct (getf (v_st v1) FLAG_TERMINATE); [discriminate|].
  destruct (set_code_eng _ b) as [e2 cont]. injection H as _ _ <-. reflexivity.
Qed.

Lemma exec_tail_cont_err : forall fuel rs c A input A' s,
  exec_tail fuel rs c A input = (A', true, s) -> s <> SOk -> A' = fst (reset_opt c input A).
Proof.
  intros fuel rs c A input A' s H Hs. unfold exec_tail in H. fold (reset_opt c input A) in H.
  pose proof (reset_opt_ok c input A) as Hok.
  destruct (reset_opt c input A) as [A2 s2]. cbn [fst snd] in *. subst s2.
  destruct ((0 <? len input) && negb (valid_input_b input)); [injection H as <- _; reflexivity|].
  destruct (set_input (v_st (e_v A2)) (Some input)) as [st'|e|n]; try discriminate.
  apply exec_inner_true_ok in H. congruence.
Qed.

Definition stat_alive (s : stat) : Prop := match s with SPanic _ | SFuel => False | _ => True end.

Lemma finish_same : forall fuel rs c p o x,
  let '(eL, rl) := long_finish fuel rs c x in
  let '(p', rp) := pers_finish fuel rs c p o x in
  rl = rp /\ r_cont rl = snd (fst x) /\ r_exec rl = snd x /\
  (flush_alive (r_flush rl) ->
   eL = fst (fst (eng_flush fuel rs c (fst (fst x)))) /\
   (e_initd eL = true ->
    pw_store p' = Some (snap_of (v_st (e_v eL)) (v_ca (e_v eL))) /\ pw_w p' = v_w (e_v eL) /\ pw_log p' = v_log (e_v eL))).
Proof.
  intros fuel rs c p o [[e1 cont] s]. unfold long_finish, pers_finish. cbn [fst snd].
  destruct s as [|er m|n|].
  - destruct (eng_flush fuel rs c e1) as [[e2 out] f]. cbn [fst].
    destruct f; cbv beta iota; (split; [reflexivity|]); (split; [reflexivity|]); (split; [reflexivity|]);
      cbn [r_flush flush_alive]; intros Ha; try contradiction; (split; [reflexivity|]); intros Hi;
      unfold eng_finish; rewrite Hi; cbn [pw_store pw_w pw_log]; auto.
  - destruct (eng_flush fuel rs c e1) as [[e2 out] f]. cbn [fst].
    destruct f; cbv beta iota; (split; [reflexivity|]); (split; [reflexivity|]); (split; [reflexivity|]);
      cbn [r_flush flush_alive]; intros Ha; try contradiction; (split; [reflexivity|]); intros Hi;
      unfold eng_finish; rewrite Hi; cbn [pw_store pw_w pw_log]; auto.
  - cbv beta iota. split; [reflexivity|]. split; [reflexivity|]. split; [reflexivity|]. cbn [r_flush flush_alive]. contradiction.
  - cbv beta iota. split; [reflexivity|]. split; [reflexivity|]. split; [reflexivity|]. cbn [r_flush flush_alive]. contradiction.
Qed.

(* the configured flag count leaves room for the eight built-in flags in the flag field *)
Definition cfg_flags_ok (c : config) : Prop := flags_ok (fresh_state c).

Lemma nth_falses : forall n i, nth i (falses n) false = false.
Proof. induction n as [|n IH]; intros [|i]; cbn [falses nth]; auto. Qed.

Lemma getf_fresh : forall c i, i <> FLAG_LANG -> getf (fresh_state c) i = false.
Proof.
  intros c i Hi. unfold fresh_state.
  set (s := st_set_language lang_lookup (new_state (c_flagcount c)) (c_lang c)).
  assert (H : getf s i = false).
  { unfold s. rewrite getf_set_language. unfold getf, new_state. cbn [s_flags]. apply nth_falses. }
  destruct (s_lang s); [rewrite getf_setf_other by exact Hi|]; exact H.
Qed.

Lemma fresh_state_shape : forall c, s_code (fresh_state c) = [] /\ s_path (fresh_state c) = [].
Proof.
  intros c. unfold fresh_state, st_set_language.
  destruct (c_lang c); destruct (lang_lookup _); cbn; auto.
Qed.

Definition e_init (c : config) (w : list (bytes * N)) (lg : list ev) : engine :=
  mkEng (mkVm (set_input_raw (set_code (fresh_state c) (encode (IMove (cfg_root c)))) None) (fresh_cache c) (P0 c) w lg false)
        true [] false false.

Lemma init_sc_fresh : forall c,
  init_sc c (fresh_state c) (fresh_cache c)
  = (set_input_raw (set_code (fresh_state c) (encode (IMove (cfg_root c)))) None, fresh_cache c).
Proof.
  intros c. unfold init_sc, stale. destruct (fresh_state_shape c) as [Hc Hp]. rewrite Hc, Hp.
  rewrite fresh_state_input. reflexivity.
Qed.

Lemma Linv_e_init : forall c w lg, cfg_flags_ok c -> Linv c (e_init c w lg).
Proof.
  intros c w lg Hf. unfold Linv, e_init. cbn [e_initd e_exit e_exiting e_v v_st v_pg].
  repeat (split; [reflexivity|]).
  split; [cbn [s_code set_input_raw set_code]; apply encode_nonempty|].
  split; [apply (getf_fresh c FLAG_DIRTY); unfold FLAG_DIRTY, FLAG_LANG; lia|].
  split; [apply (getf_fresh c FLAG_TERMINATE); unfold FLAG_TERMINATE, FLAG_LANG; lia|].
  split; [exact Hf|]. split; [reflexivity|]. intros _. apply peq_refl.
Qed.

Lemma first_exec : forall fuel rs c w lg i, c_first c = None ->
  eng_exec fuel rs c (new_engine c None w lg) i =
  if INPUT_LIMIT <? len i then (new_engine c None w lg, false, SErr EGen None)
  else exec_tail fuel rs c (e_init c w lg) i.
Proof.
  intros fuel rs c w lg i Hf. unfold new_engine. rewrite eng_exec_fresh by exact Hf.
  rewrite init_sc_fresh. reflexivity.
Qed.

Lemma first_step : forall fuel rs c w lg t i,
  c_first c = None -> cfg_flags_ok c ->
  let '(e', rl) := request_long fuel rs c (new_engine c None w lg) i in
  let '(p', rp) := request_persisted fuel rs c (mkPw None w lg t) i in
  rl = rp /\
  (r_cont rl = true -> flush_alive (r_flush rl) -> no_browse_err_b fuel rs c (new_engine c None w lg) i = true -> R c e' p').
Proof.
  intros fuel rs c w lg t i Hf Hfl. unfold no_browse_err_b.
  rewrite request_long_finish, request_persisted_finish. cbn [pw_store pw_w pw_log].
  rewrite (first_exec fuel rs c w lg i Hf).
  pose proof (finish_same fuel rs c (mkPw None w lg t) (store0_of c None)
               (if INPUT_LIMIT <? len i then (new_engine c None w lg, false, SErr EGen None)
                else exec_tail fuel rs c (e_init c w lg) i)) as Hs.
  destruct (long_finish fuel rs c _) as [eL rl]. destruct (pers_finish fuel rs c _ _ _) as [p' rp].
  destruct Hs as (Hr & Hc & Hx & Hrest). split; [exact Hr|]. intros Hcont Ha Hb.
  destruct (INPUT_LIMIT <? len i); [cbn [fst snd] in Hc; congruence|].
  destruct (Hrest Ha) as [HeL Hstore].
  pose proof (Linv_e_init c w lg Hfl) as HLi.
  destruct (exec_tail fuel rs c (e_init c w lg) i) as [[A' ca'] sa] eqn:EA. cbn [fst snd] in *.
  rewrite Hcont in Hc. subst ca'.
  assert (HL : Linv c eL).
  { destruct sa as [|er m|n|].
    - pose proof (exec_tail_cont fuel rs c (e_init c w lg) i A' HLi eq_refl EA) as Hran.
      rewrite HeL. apply flush_ran_Linv; [exact Hran|]. apply negb_true_iff in Hb. exact Hb.
    - pose proof (exec_tail_cont_err fuel rs c _ _ _ _ EA ltac:(discriminate)) as HA. subst A'.
      rewrite HeL. rewrite flush_before_exec by (rewrite reset_opt_execd; reflexivity). cbn [fst].
      apply reset_opt_Linv. exact HLi.
    - pose proof (exec_tail_cont_err fuel rs c _ _ _ _ EA ltac:(discriminate)) as HA. subst A'.
      rewrite HeL. rewrite flush_before_exec by (rewrite reset_opt_execd; reflexivity). cbn [fst].
      apply reset_opt_Linv. exact HLi.
    - pose proof (exec_tail_cont_err fuel rs c _ _ _ _ EA ltac:(discriminate)) as HA. subst A'.
      rewrite HeL. rewrite flush_before_exec by (rewrite reset_opt_execd; reflexivity). cbn [fst].
      apply reset_opt_Linv. exact HLi. }
  unfold R. split; [exact HL|]. apply Hstore. destruct HL as [HL _]. exact HL.
Qed.

(* ---- whole histories, up to and including the first response that ends the session ------------------------- *)
Definition alive_b (r : response) : bool :=
  r_cont r && match r_flush r with FPanic _ | FFuel => false | _ => true end.
Fixpoint upto_stop (l : list response) : list response :=
  match l with
  | [] => []
  | r :: rest => if alive_b r then r :: upto_stop rest else [r]
  end.

(* the guards, along the long-lived run, as long as the session goes on *)
Fixpoint c07_guard (fuel : nat) (rs : rsrc) (c : config) (e : engine) (h : list bytes) : Prop :=
  match h with
  | [] => True
  | i :: h' =>
    input_ok_b i = true /\
    (alive_b (snd (request_long fuel rs c e i)) = true ->
     no_browse_err_b fuel rs c e i = true /\ c07_guard fuel rs c (fst (request_long fuel rs c e i)) h')
  end.

Lemma alive_b_spec : forall r, alive_b r = true -> r_cont r = true /\ flush_alive (r_flush r).
Proof. intros r H. unfold alive_b in H. apply andb_true_iff in H as [H1 H2]. split; [exact H1|]. destruct (r_flush r); try discriminate; exact I. Qed.

Lemma history_from_R : forall fuel rs c h e p,
  c_first c = None -> R c e p -> c07_guard fuel rs c e h ->
  upto_stop (snd (serve_long fuel rs c e h)) = upto_stop (snd (serve_pers fuel rs c p h)).
Proof.
  induction h as [|i h IH]; intros e p Hf HR Hg; [reflexivity|].
  cbn [c07_guard] in Hg. destruct Hg as (G1 & G3).
  pose proof (step_simulation fuel rs c e p i Hf HR G1) as Hs.
  cbn [serve_long serve_pers].
  destruct (request_long fuel rs c e i) as [e1 rl]. destruct (request_persisted fuel rs c p i) as [p1 rp].
  destruct Hs as [Hr HR1]. subst rp. cbn [fst snd] in G3.
  destruct (serve_long fuel rs c e1 h) as [e2 rr] eqn:E1. destruct (serve_pers fuel rs c p1 h) as [p2 rr'] eqn:E2.
  cbn [snd upto_stop].
  destruct (alive_b rl) eqn:Ea; [|reflexivity].
  destruct (G3 eq_refl) as [G4 G5]. destruct (alive_b_spec rl Ea) as [Hc Hfa].
  specialize (IH e1 p1 Hf (HR1 Hc Hfa G4) G5). rewrite E1, E2 in IH. cbn [snd] in IH. rewrite IH. reflexivity.
Qed.

Lemma history_simulation : forall fuel rs c h w lg t,
  c_first c = None -> cfg_flags_ok c -> c07_guard fuel rs c (new_engine c None w lg) h ->
  upto_stop (snd (serve_long fuel rs c (new_engine c None w lg) h))
  = upto_stop (snd (serve_pers fuel rs c (mkPw None w lg t) h)).
Proof.
  intros fuel rs c [|i h] w lg t Hf Hfl Hg; [reflexivity|].
  cbn [c07_guard] in Hg. destruct Hg as (G1 & G3).
  pose proof (first_step fuel rs c w lg t i Hf Hfl) as Hs.
  cbn [serve_long serve_pers].
  destruct (request_long fuel rs c (new_engine c None w lg) i) as [e1 rl].
  destruct (request_persisted fuel rs c (mkPw None w lg t) i) as [p1 rp].
  destruct Hs as [Hr HR1]. subst rp. cbn [fst snd] in G3.
  pose proof (history_from_R fuel rs c h e1 p1 Hf) as IH.
  destruct (serve_long fuel rs c e1 h) as [e2 rr]. destruct (serve_pers fuel rs c p1 h) as [p2 rr'].
  cbn [snd upto_stop] in *.
  destruct (alive_b rl) eqn:Ea; [|reflexivity].
  destruct (G3 eq_refl) as [G4 G5]. destruct (alive_b_spec rl Ea) as [Hc Hfa].
  rewrite (IH (HR1 Hc Hfa G4) G5). reflexivity.
Qed.

(* the guard as a boolean function of application, configuration and history *)
Fixpoint c07_guard_b (fuel : nat) (rs : rsrc) (c : config) (e : engine) (h : list bytes) : bool :=
  match h with
  | [] => true
  | i :: h' =>
    input_ok_b i &&
    (if alive_b (snd (request_long fuel rs c e i))
     then no_browse_err_b fuel rs c e i && c07_guard_b fuel rs c (fst (request_long fuel rs c e i)) h'
     else true)
  end.

Lemma c07_guard_b_spec : forall fuel rs c h e, c07_guard_b fuel rs c e h = true -> c07_guard fuel rs c e h.
Proof.
  induction h as [|i h IH]; intros e H; [exact I|].
  cbn [c07_guard_b] in H. apply andb_true_iff in H as [H1 H3].
  cbn [c07_guard]. split; [exact H1|].
  intros Ha. rewrite Ha in H3. apply andb_true_iff in H3 as [H4 H5]. split; [exact H4|apply IH; exact H5].
Qed.

Definition cfg_flags_ok_b (c : config) : bool := Nat.leb 8 (List.length (s_flags (fresh_state c))).
Lemma cfg_flags_ok_b_spec : forall c, cfg_flags_ok_b c = true -> cfg_flags_ok c.
Proof. intros c H. unfold cfg_flags_ok_b in H. apply PeanoNat.Nat.leb_le in H. exact H. Qed.

Theorem history_simulation_b : forall fuel rs c h,
  c_first c = None -> cfg_flags_ok_b c = true ->
  c07_guard_b fuel rs c (new_engine c None [] []) h = true ->
  upto_stop (snd (serve_long fuel rs c (new_engine c None [] []) h))
  = upto_stop (snd (serve_pers fuel rs c (mkPw None [] [] false) h)).
Proof.
  intros fuel rs c h Hf Hfl Hg. apply history_simulation; [exact Hf|apply cfg_flags_ok_b_spec; exact Hfl|].
  apply c07_guard_b_spec. exact Hg.
Qed.

(* ---- C17, long-lived engine: the refused input is the very first request of the session --------------------- *)
Lemma first_refused_long : forall fuel rs c w lg bad,
  c_first c = None -> refused bad ->
  request_long fuel rs c (new_engine c None w lg) bad =
  (if INPUT_LIMIT <? len bad then new_engine c None w lg else e_init c w lg,
   mkResp (if INPUT_LIMIT <? len bad then false else true) (SErr EGen None) [] (FErr EFlushNoExec)).
Proof.
  intros fuel rs c w lg bad Hf Hr. rewrite request_long_finish, first_exec by exact Hf.
  destruct (INPUT_LIMIT <? len bad) eqn:El.
  - unfold long_finish. rewrite flush_before_exec by reflexivity. reflexivity.
  - rewrite exec_tail_refused by exact Hr.
    assert (Hv : valid_input_b bad = false).
    { destruct Hr as [H|[_ H]]; [apply N.ltb_ge in El; lia|exact H]. }
    rewrite Hv. unfold long_finish. rewrite flush_before_exec by reflexivity. reflexivity.
Qed.

Lemma e_init_next : forall fuel rs c w lg j,
  c_first c = None -> input_ok_b j = true ->
  snd (request_long fuel rs c (e_init c w lg) j) = snd (request_long fuel rs c (new_engine c None w lg) j)
  /\ (if INPUT_LIMIT <? len j
      then fst (request_long fuel rs c (e_init c w lg) j) = e_init c w lg
           /\ fst (request_long fuel rs c (new_engine c None w lg) j) = new_engine c None w lg
      else fst (request_long fuel rs c (e_init c w lg) j) = fst (request_long fuel rs c (new_engine c None w lg) j)).
Proof.
  intros fuel rs c w lg j Hf Hin. rewrite !request_long_finish, first_exec by exact Hf.
  rewrite eng_exec_initd by (try reflexivity; intros H; discriminate).
  change (stuck c (e_init c w lg)) with false. cbv iota. change (cleared (e_init c w lg)) with (e_init c w lg).
  destruct (INPUT_LIMIT <? len j) eqn:El; [|split; reflexivity].
  assert (Hv : valid_input_b j = true).
  { unfold input_ok_b in Hin. rewrite El in Hin. cbn [andb] in Hin. destruct (valid_input_b j); [reflexivity|discriminate]. }
  rewrite exec_tail_refused by (left; apply N.ltb_lt; exact El). rewrite Hv. cbn [negb].
  unfold long_finish. rewrite !flush_before_exec by reflexivity. cbn [fst snd]. auto.
Qed.

Lemma serve_long_e_init : forall fuel rs c w lg h,
  c_first c = None -> forallb input_ok_b h = true ->
  snd (serve_long fuel rs c (e_init c w lg) h) = snd (serve_long fuel rs c (new_engine c None w lg) h).
Proof.
  intros fuel rs c w lg h Hf. induction h as [|j h IH]; intros Hall; [reflexivity|].
  cbn [forallb] in Hall. apply andb_true_iff in Hall as [Hj Hall].
  destruct (e_init_next fuel rs c w lg j Hf Hj) as [Hr He].
  cbn [serve_long].
  destruct (request_long fuel rs c (e_init c w lg) j) as [e1 r1].
  destruct (request_long fuel rs c (new_engine c None w lg) j) as [e2 r2]. cbn [fst snd] in *. subst r2.
  destruct (INPUT_LIMIT <? len j).
  - destruct He as [-> ->]. specialize (IH Hall).
    destruct (serve_long fuel rs c (e_init c w lg) h) as [? rr]. destruct (serve_long fuel rs c (new_engine c None w lg) h) as [? rr'].
    cbn [snd] in *. congruence.
  - subst e2. destruct (serve_long fuel rs c e1 h) as [? rr]. reflexivity.
Qed.

(* a refused first request: the remaining history is answered as without it, provided it contains no
   input that is both over-long and malformed (K-C07-longbad shows up here as well) *)
Lemma as_if_never_sent_long_first : forall fuel rs c w lg bad h2,
  c_first c = None -> refused bad -> forallb input_ok_b h2 = true ->
  snd (serve_long fuel rs c (fst (request_long fuel rs c (new_engine c None w lg) bad)) h2)
  = snd (serve_long fuel rs c (new_engine c None w lg) h2).
Proof.
  intros fuel rs c w lg bad h2 Hf Hr Hall. rewrite first_refused_long by assumption. cbn [fst].
  destruct (INPUT_LIMIT <? len bad); [reflexivity|]. apply serve_long_e_init; assumption.
Qed.

(* ================================================================================================ *)
(* Witnesses                                                                                         *)
(* ================================================================================================ *)
Definition w_lines (l : list string) : bytes := join_with [10] (map s2b l).

(* a paginated node (sink symbol of 8 rows, next/previous entries), a plain node, _catch *)
Definition w_root_code : bytes :=
  encode_prog [ILoad (s2b "aa"%string) 0; IMap (s2b "aa"%string); IMNext (s2b "nxt"%string) (s2b "11"%string);
               IMPrev (s2b "prv"%string) (s2b "22"%string); IHalt;
               IInCmp (s2b ">"%string) (s2b "11"%string); IInCmp (s2b "<"%string) (s2b "22"%string);
               IInCmp (s2b "foo"%string) (s2b "1"%string)].
Definition w_app_pages : app :=
  mkApp [(s2b "root"%string, w_root_code);
         (s2b "foo"%string, encode_prog [IMOut (s2b "back"%string) (s2b "0"%string); IHalt; IInCmp (s2b "_"%string) (s2b "0"%string)]);
         (s2b "_catch"%string, encode_prog [IMOut (s2b "back"%string) (s2b "0"%string); IHalt; IInCmp (s2b "_"%string) (s2b "0"%string)])]
        [(s2b "root"%string, s2b "r {{.aa}}"%string); (s2b "foo"%string, s2b "foo"%string); (s2b "_catch"%string, s2b "catch"%string)] []
        [(s2b "aa"%string, [mkFres (w_lines ["one"; "two"; "three"; "four"; "five"; "six"; "seven"; "eight"]%string) false 0 [] [] false])].
Definition w_cfg28 : config := mkCfg 28 [] 1 0 [] [] false None.
(* forward, forward, back, a malformed input, an unknown selector, up, down, up, an over-long input *)
Definition w_hist_pages : list bytes :=
  [[]; s2b "11"%string; s2b "11"%string; s2b "22"%string; s2b "!x"%string; s2b "zz"%string; s2b "0"%string;
   s2b "1"%string; s2b "0"%string; w_long].

(* K-C07-first: the entry function runs once per ENGINE (corpus case first-terminate) *)
Definition w_cfg_term : config :=
  mkCfg 0 [] 1 0 [] [] false
    (Some [mkFres (s2b "hello"%string) false 0 [] [] false; mkFres (s2b "blocked"%string) false 0 [6] [] false;
           mkFres (s2b "again"%string) false 0 [] [] false]).
Lemma refuted_first :
  exists (a : app) (c : config) (h : list bytes),
    c_first c <> None /\ cfg_flags_ok_b c = true /\ forallb input_ok_b h = true
    /\ upto_stop (snd (serve_long 1000 (app_rsrc a) c (new_engine c None [] []) h))
       <> upto_stop (snd (serve_pers 1000 (app_rsrc a) c (mkPw None [] [] false) h)).
Proof.
  exists w_app, w_cfg_term, [[]; s2b "1"%string; s2b "0"%string].
  split; [discriminate|]. split; [vm_compute; reflexivity|]. split; [vm_compute; reflexivity|].
  intros H. vm_compute in H. discriminate.
Qed.

(* K-C07-longbad: an input that is over-long AND malformed: the long-lived engine reports "continue"
   (pattern check first), a new engine reports "stop" (its init refuses the length first) *)
Lemma refuted_longbad :
  exists (a : app) (c : config) (h : list bytes),
    c_first c = None /\ cfg_flags_ok_b c = true /\ forallb input_ok_b h = false
    /\ map r_cont (snd (serve_long 1000 (app_rsrc a) c (new_engine c None [] []) h)) = [true; true]
    /\ map r_cont (snd (serve_pers 1000 (app_rsrc a) c (mkPw None [] [] false) h)) = [true; false]
    /\ upto_stop (snd (serve_long 1000 (app_rsrc a) c (new_engine c None [] []) h))
       <> upto_stop (snd (serve_pers 1000 (app_rsrc a) c (mkPw None [] [] false) h)).
Proof.
  exists w_app, w_cfg, [[]; w_longbad].
  split; [reflexivity|]. split; [vm_compute; reflexivity|]. split; [vm_compute; reflexivity|].
  split; [vm_compute; reflexivity|]. split; [vm_compute; reflexivity|].
  intros H. vm_compute in H. discriminate.
Qed.

(* regression for K-C07-browse (repaired by c373f7d: Menu.Reset now erases the browse configuration).  A node that
   sets a "next" entry, halts, and then builds a paginated page WITHOUT moving: before the repair the entry
   showed up in the long-lived engine only ("root\n11:nx" against "root"); now both drivers answer alike *)
Definition w_app_leak : app :=
  mkApp [(s2b "root"%string,
          encode_prog [IMNext (s2b "nx"%string) (s2b "11"%string); IHalt; ILoad (s2b "sk"%string) 0; IMap (s2b "sk"%string); IHalt;
                       IInCmp (s2b "_"%string) (s2b "0"%string)]);
         (s2b "_catch"%string, encode_prog [IHalt; IInCmp (s2b "_"%string) (s2b "*"%string)])]
        [(s2b "root"%string, s2b "root"%string); (s2b "_catch"%string, s2b "catch"%string)] []
        [(s2b "sk"%string, [mkFres (w_lines ["one"; "two"; "three"; "four"; "five"; "six"]%string) false 0 [] [] false])].
Definition w_cfg20 : config := mkCfg 20 [] 1 0 [] [] false None.
Lemma browse_regression :
  c_first w_cfg20 = None /\ cfg_flags_ok_b w_cfg20 = true
  /\ c07_guard_b 1000 (app_rsrc w_app_leak) w_cfg20 (new_engine w_cfg20 None [] []) [[]; s2b "x"%string] = true
  /\ map r_out (snd (serve_long 1000 (app_rsrc w_app_leak) w_cfg20 (new_engine w_cfg20 None [] []) [[]; s2b "x"%string]))
     = [s2b "root"%string; s2b "root"%string]
  /\ map r_out (snd (serve_pers 1000 (app_rsrc w_app_leak) w_cfg20 (mkPw None [] [] false) [[]; s2b "x"%string]))
     = [s2b "root"%string; s2b "root"%string]
  /\ snd (serve_long 1000 (app_rsrc w_app_leak) w_cfg20 (new_engine w_cfg20 None [] []) [[]; s2b "x"%string])
     = snd (serve_pers 1000 (app_rsrc w_app_leak) w_cfg20 (mkPw None [] [] false) [[]; s2b "x"%string]).
Proof.
  split; [reflexivity|]. split; [vm_compute; reflexivity|]. split; [vm_compute; reflexivity|].
  split; [vm_compute; reflexivity|]. split; vm_compute; reflexivity.
Qed.

(* C17, long-lived engine, refused FIRST request: a later over-long malformed input then gets "continue" *)
Lemma refuted_long_first_cont :
  exists (a : app) (c : config) (bad j : bytes),
    c_first c = None /\ refused bad /\ input_ok_b j = false
    /\ map r_cont (snd (serve_long 1000 (app_rsrc a) c (new_engine c None [] []) [bad; j])) = [true; true]
    /\ map r_cont (snd (serve_long 1000 (app_rsrc a) c (new_engine c None [] []) [j])) = [false].
Proof.
  exists w_app, w_cfg, (s2b "!x"%string), w_longbad.
  split; [reflexivity|]. split; [apply refused_bool_spec; vm_compute; reflexivity|].
  split; [vm_compute; reflexivity|]. split; vm_compute; reflexivity.
Qed.
