(* PoProofs.v — lemmas about the PoResource model (C18, gettext resource).  Written by agent `symbols`. *)
From Coq Require Import Lia ZifyN ZifyNat ZifyBool.
From Vise Require Import Bytes Errors Consts EngConsts Codec CacheModel StateModel NavModel NavSpec
  RenderModel VmModel EngineModel PoModel BytesProofs CacheProofs VmProofs SymbolProofs.
Local Open Scope N_scope.

(* ---- GetD ---------------------------------------------------------------------------------------- *)
Lemma po_getd_present tbl key v : alookup key tbl = Some v -> v <> [] -> po_getd tbl key = v.
Proof. unfold po_getd. intros -> Hne. destruct v; [congruence|reflexivity]. Qed.
Lemma po_getd_absent tbl key : alookup key tbl = None -> po_getd tbl key = key.
Proof. unfold po_getd. intros ->. reflexivity. Qed.
Lemma po_getd_empty tbl key : alookup key tbl = Some [] -> po_getd tbl key = key.
Proof. unfold po_getd. intros ->. reflexivity. Qed.

(* the three cases are exhaustive: a translation is an entry with a non-empty msgstr *)
Definition po_translation (tbl : list (bytes * bytes)) (key : bytes) : option bytes :=
  match alookup key tbl with Some (x :: v) => Some (x :: v) | _ => None end.
Lemma po_getd_translation tbl key :
  po_getd tbl key = match po_translation tbl key with Some tr => tr | None => key end.
Proof. unfold po_getd, po_translation. destruct (alookup key tbl) as [[|x v]|]; reflexivity. Qed.
Lemma po_translation_some tbl key tr :
  po_translation tbl key = Some tr <-> (alookup key tbl = Some tr /\ tr <> []).
Proof.
  unfold po_translation. destruct (alookup key tbl) as [[|x v]|]; split; intros H; try discriminate.
  - destruct H as [H Hne]. injection H as <-. congruence.
  - injection H as <-. split; [reflexivity|discriminate].
  - destruct H as [H _]. injection H as <-. reflexivity.
  - destruct H as [H _]. discriminate.
Qed.
Lemma po_translation_none tbl key :
  po_translation tbl key = None <-> (alookup key tbl = None \/ alookup key tbl = Some []).
Proof.
  unfold po_translation. destruct (alookup key tbl) as [[|x v]|]; split; intros H; auto; try discriminate.
  destruct H as [H|H]; discriminate.
Qed.

(* ---- PoResource.get --------------------------------------------------------------------------------- *)
Definition po_req_lang (dflt : bytes) (ctx : option bytes) : bytes := match ctx with Some l => l | None => dflt end.

Lemma po_get_unfold t dflt regs ctx sym menu :
  po_get t dflt regs ctx sym menu =
  let ln := po_req_lang dflt ctx in
  let src := po_source t dflt sym menu in
  if po_registered dflt regs ln
  then match po_translation (po_table t ln DDefault) src with Some tr => tr | None => src end
  else src.
Proof. unfold po_get, po_req_lang. cbv zeta. rewrite po_getd_translation. reflexivity. Qed.

Lemma po_source_unfold t dflt sym menu :
  po_source t dflt sym menu =
  match po_translation (po_table t dflt (po_keydom menu)) sym with Some s => s | None => sym end.
Proof. unfold po_source. apply po_getd_translation. Qed.

Lemma po_registered_default dflt regs : po_registered dflt regs dflt = true.
Proof. unfold po_registered. rewrite bytes_eqb_refl. reflexivity. Qed.

(* the statement of the property for this resource *)
Lemma po_translation_then_default_lemma t dflt regs ctx sym menu :
  let ln := po_req_lang dflt ctx in
  let src := po_source t dflt sym menu in
  (* the source string: the symbol's non-empty entry in the default language's key domain, else the symbol *)
  (forall s, alookup sym (po_table t dflt (po_keydom menu)) = Some s -> s <> [] -> src = s)
  /\ (alookup sym (po_table t dflt (po_keydom menu)) = None \/ alookup sym (po_table t dflt (po_keydom menu)) = Some [] -> src = sym)
  (* a registered request language with a non-empty translation of the source string: the translation *)
  /\ (forall tr, po_registered dflt regs ln = true -> alookup src (po_table t ln DDefault) = Some tr -> tr <> [] ->
        po_get t dflt regs ctx sym menu = tr)
  (* registered, no entry or an entry with empty msgstr: the source string *)
  /\ (po_registered dflt regs ln = true ->
        alookup src (po_table t ln DDefault) = None \/ alookup src (po_table t ln DDefault) = Some [] ->
        po_get t dflt regs ctx sym menu = src)
  (* no locale registered for the request language: the source string *)
  /\ (po_registered dflt regs ln = false -> po_get t dflt regs ctx sym menu = src)
  (* no language in the context = the default language *)
  /\ po_get t dflt regs None sym menu = po_get t dflt regs (Some dflt) sym menu.
Proof.
  cbv zeta. split; [|split; [|split; [|split; [|split]]]].
  - intros s H Hne. unfold po_source. apply po_getd_present; assumption.
  - intros [H|H]; unfold po_source; [apply po_getd_absent|apply po_getd_empty]; exact H.
  - intros tr Hr H Hne. unfold po_get. fold (po_req_lang dflt ctx). rewrite Hr. apply po_getd_present; assumption.
  - intros Hr [H|H]; unfold po_get; fold (po_req_lang dflt ctx); rewrite Hr; [apply po_getd_absent|apply po_getd_empty]; exact H.
  - intros Hr. unfold po_get. fold (po_req_lang dflt ctx). rewrite Hr. reflexivity.
  - reflexivity.
Qed.

(* the result is always one of: a translation held by the request language, the source string *)
Lemma po_get_cases t dflt regs ctx sym menu :
  let ln := po_req_lang dflt ctx in
  let src := po_source t dflt sym menu in
  (po_registered dflt regs ln = true /\ po_translation (po_table t ln DDefault) src = Some (po_get t dflt regs ctx sym menu))
  \/ po_get t dflt regs ctx sym menu = src.
Proof.
  cbv zeta. rewrite po_get_unfold. cbv zeta. destruct (po_registered dflt regs (po_req_lang dflt ctx)); [|right; reflexivity].
  destruct (po_translation _ _) as [tr|] eqn:E; [left; auto|right; reflexivity].
Qed.

(* ---- non-interference ---------------------------------------------------------------------------------- *)
(* the result depends only on the default language's key domain and the request language's "default"
   domain (and on whether the request language is registered) *)
Lemma po_noninterference_lemma t t' dflt regs regs' ctx sym menu :
  let ln := po_req_lang dflt ctx in
  po_table t dflt (po_keydom menu) = po_table t' dflt (po_keydom menu) ->
  po_table t ln DDefault = po_table t' ln DDefault ->
  po_registered dflt regs ln = po_registered dflt regs' ln ->
  po_get t dflt regs ctx sym menu = po_get t' dflt regs' ctx sym menu.
Proof.
  cbv zeta. intros Hk Hd Hr. unfold po_get, po_source. fold (po_req_lang dflt ctx). rewrite Hk, Hd, Hr. reflexivity.
Qed.

(* tables that agree on everything the default language and language l hold *)
Definition po_agree_on (dflt : bytes) (l : bytes) (t t' : potables) : Prop :=
  (forall d, po_table t dflt d = po_table t' dflt d) /\ (forall d, po_table t l d = po_table t' l d).

(* the resource built around the po lookups: code and functions from `base` *)
Definition po_rsrc (base : rsrc) (t : potables) (dflt : bytes) (regs : list bytes) : rsrc :=
  mkRsrc (rs_code base) (po_tpl t dflt regs) (po_menu t dflt regs) (rs_func base) (rs_nofunc base) (rs_observed base).

Lemma po_rsrc_agree base t t' dflt regs lang :
  po_agree_on dflt (po_req_lang dflt lang) t t' -> rs_agree_on lang (po_rsrc base t dflt regs) (po_rsrc base t' dflt regs).
Proof.
  intros [Hd Hl]. unfold rs_agree_on, rs_same_code, po_rsrc. cbn [rs_code rs_func rs_nofunc rs_observed rs_tpl rs_menu].
  split; [repeat split|]. split; intros s; unfold po_tpl, po_menu; f_equal;
    apply po_noninterference_lemma; auto.
Qed.

(* Flush of an engine served by a PoResource does not depend on the .po files of other languages *)
Lemma po_flush_noninterference fuel base t t' dflt regs c e :
  po_agree_on dflt (po_req_lang dflt (s_lang (v_st (e_v e)))) t t' ->
  eng_flush fuel (po_rsrc base t dflt regs) c e = eng_flush fuel (po_rsrc base t' dflt regs) c e.
Proof. intros H. apply eng_flush_noninterference. apply po_rsrc_agree. exact H. Qed.

(* ---- the stricter reading: "no translation => what the default-language session gets" ------------------ *)
(* guard: the default language's own "default" domain leaves the source string alone *)
Definition po_default_domain_neutral (t : potables) (dflt : bytes) (sym : bytes) (menu : bool) : bool :=
  let src := po_source t dflt sym menu in bytes_eqb (po_getd (po_table t dflt DDefault) src) src.

Lemma po_fallback_default_session_partial t dflt regs l sym menu :
  po_default_domain_neutral t dflt sym menu = true ->
  (po_registered dflt regs l = false \/ po_translation (po_table t l DDefault) (po_source t dflt sym menu) = None) ->
  po_get t dflt regs (Some l) sym menu = po_get t dflt regs (Some dflt) sym menu.
Proof.
  unfold po_default_domain_neutral. cbv zeta. intros Hn H. apply bytes_eqb_eq in Hn.
  assert (Hd : po_get t dflt regs (Some dflt) sym menu = po_source t dflt sym menu).
  { unfold po_get. rewrite po_registered_default. exact Hn. }
  rewrite Hd. rewrite po_get_unfold. cbv zeta. cbn [po_req_lang].
  destruct H as [H|H]; [rewrite H; reflexivity|]. rewrite H. destruct (po_registered dflt regs l); reflexivity.
Qed.

(* witness tables: eng is the default, its x-vise maps foo to "Foo source", its own default.po
   rewrites "Foo source" to "Foo ENG"; nor is registered and has no translation of "Foo source" *)
Definition ex_po_tables : potables :=
  [ (s2b "eng", DKeyTpl, [(s2b "foo", s2b "Foo source"); (s2b "emp", [])]);
    (s2b "eng", DDefault, [(s2b "Foo source", s2b "Foo ENG"); (s2b "bar", s2b "bar eng")]);
    (s2b "nor", DDefault, [(s2b "emp", s2b "tom"); (s2b "Foo source", [])]);
    (s2b "swa", DDefault, [(s2b "Foo source", s2b "Fu swa")]) ].

(* a table with translations: eng default, nor and fra registered *)
Definition ex_po_tables2 : potables :=
  [ (s2b "eng", DKeyTpl, [(s2b "root", s2b "Welcome"); (s2b "help", [])]);
    (s2b "eng", DKeyMenu, [(s2b "back", s2b "Go back")]);
    (s2b "nor", DDefault, [(s2b "Welcome", s2b "Velkommen"); (s2b "Go back", s2b "Tilbake"); (s2b "help", s2b "hjelp")]);
    (s2b "nor", DKeyTpl, [(s2b "root", s2b "IGNORED")]);
    (s2b "swa", DDefault, [(s2b "Welcome", s2b "Karibu")]) ].
