(* EngineProofs.v — lemmas about the engine model: how Exec decomposes (prepare / init / the
   part after init), Flush on an engine whose output was delivered, refused input (C17) in
   long-lived and in persisted operation. *)
From Coq Require Import Lia ZifyN ZifyNat ZifyBool.
From Vise Require Import Bytes Errors Consts EngConsts Codec CacheModel StateModel NavModel RenderModel VmModel EngineModel
  BytesProofs CodecProofs VmProofs.
Local Open Scope N_scope.

(* ---- small facts ------------------------------------------------------------------------------ *)
Lemma eset_v_same : forall e, eset_v e (e_v e) = e.
Proof. destruct e; reflexivity. Qed.

Lemma encode_nonempty : forall i, encode i <> [].
Proof. intros i. destruct (encode_shape i) as [a [b [t H]]]. rewrite H. discriminate. Qed.

Lemma state_eta_input : forall s, set_input_raw s (s_input s) = s.
Proof. destruct s; reflexivity. Qed.

(* ---- Flush on an engine whose output was already delivered -------------------------------- *)
Lemma vm_render_clean : forall fuel rs sep lang v,
  getf (v_st v) FLAG_DIRTY = false -> vm_render fuel rs sep lang v = (v, RROk []).
Proof. intros fuel rs sep lang v H. unfold vm_render. rewrite H. reflexivity. Qed.

(* the exit value alone is larger than the output size *)
Definition exit_over (c : config) (x : bytes) : bool :=
  (0 <? c_out c) && (0 <? len x) && (c_out c <? w32 (len x + 0)).

Lemma exit_over_nil : forall c, exit_over c [] = false.
Proof. intros c. unfold exit_over. change (len (@nil N)) with 0. rewrite N.ltb_irrefl, andb_false_r. reflexivity. Qed.

(* nothing to render, not exiting: Flush writes the exit value (if any) and changes nothing *)
Lemma eng_flush_settled : forall fuel rs c e,
  e_execd e = true -> getf (v_st (e_v e)) FLAG_DIRTY = false -> e_exiting e = false ->
  eng_flush fuel rs c e = if exit_over c (e_exit e) then (e, [], FErr EGen) else (e, e_exit e, FOk).
Proof.
  intros fuel rs c e Hx Hd Hq. destruct e as [v i x q d]. cbn [e_execd e_v e_exiting e_exit] in *. subst.
  unfold eng_flush. cbn [e_execd negb e_v]. rewrite vm_render_clean by exact Hd.
  cbn [eset_v e_exit e_exiting e_v e_initd e_execd]. unfold exit_over. change (len (@nil N)) with 0.
  destruct ((0 <? c_out c) && (0 <? len x) && (c_out c <? w32 (len x + 0))); [reflexivity|].
  destruct x; reflexivity.
Qed.

Lemma eng_flush_idle : forall fuel rs c e,
  e_execd e = true -> getf (v_st (e_v e)) FLAG_DIRTY = false -> e_exiting e = false -> e_exit e = [] ->
  eng_flush fuel rs c e = (e, [], FOk).
Proof.
  intros fuel rs c e Hx Hd Hq He. rewrite eng_flush_settled by assumption.
  rewrite He, exit_over_nil. reflexivity.
Qed.

(* C17: asking for output before anything was executed *)
Lemma flush_before_exec : forall fuel rs c e,
  e_execd e = false -> eng_flush fuel rs c e = (e, [], FErr EFlushNoExec).
Proof. intros fuel rs c e H. unfold eng_flush. rewrite H. reflexivity. Qed.

(* ---- Exec = init, then the part after init ---------------------------------------------------- *)
Definition exec_tail (fuel : nat) (rs : rsrc) (c : config) (e1 : engine) (input : bytes) : engine * bool * stat :=
  let '(e2, s2) := if c_reset_empty c && (len input =? 0) then eng_reset_force c e1 else (e1, SOk) in
  match s2 with
  | SOk =>
    if (0 <? len input) && negb (valid_input_b input) then (e2, true, SErr EGen None) else
    match set_input (v_st (e_v e2)) (Some input) with
    | Err er => (e2, false, SErr er None)
    | Panic n => (e2, false, SPanic n)
    | Ok st' => eng_exec_inner fuel rs c (eset_v e2 (vset_st (e_v e2) st'))
    end
  | _ => (e2, false, s2)
  end.

Lemma eng_exec_unfold : forall fuel rs c e input,
  eng_exec fuel rs c e input =
  let '(e1, cont, s) := eng_init fuel rs c e input in
  match s with
  | SOk => if negb cont then (e1, false, SOk) else exec_tail fuel rs c e1 input
  | _ => (e1, false, s)
  end.
Proof. reflexivity. Qed.

(* the engine as prepare leaves it *)
Definition cleared (e : engine) : engine := mkEng (e_v e) (e_initd e) [] false false.
(* the last Flush rendered what there was to render and completed a pending session end *)
Definition settled (e : engine) : Prop :=
  e_execd e = true -> getf (v_st (e_v e)) FLAG_DIRTY = false /\ e_exiting e = false.
(* a settled engine whose exit value alone exceeds the output size: every further request fails in prepare *)
Definition stuck (c : config) (e : engine) : bool := e_execd e && exit_over c (e_exit e).

Lemma cleared_settled : forall e, settled (cleared e).
Proof. intros e H. discriminate. Qed.
Lemma cleared_not_stuck : forall c e, stuck c (cleared e) = false.
Proof. reflexivity. Qed.
Lemma cleared_cleared : forall e, cleared (cleared e) = cleared e.
Proof. reflexivity. Qed.

Lemma eng_init_initd : forall fuel rs c e input,
  e_initd e = true -> settled e ->
  eng_init fuel rs c e input = if stuck c e then (e, false, SErr EGen None) else (cleared e, true, SOk).
Proof.
  intros fuel rs c e input Hi Hs. unfold eng_init, stuck.
  destruct (e_execd e) eqn:Hx.
  - destruct (Hs Hx) as [Hd Hq]. rewrite eng_flush_settled by assumption. cbn [andb].
    destruct (exit_over c (e_exit e)); cbn [stat_of_f]; [reflexivity|].
    cbn [e_initd e_v]. unfold cleared. rewrite Hi. reflexivity.
  - cbn [andb e_initd e_v]. unfold cleared. rewrite Hi. reflexivity.
Qed.

Lemma eng_exec_initd : forall fuel rs c e input,
  e_initd e = true -> settled e ->
  eng_exec fuel rs c e input =
  if stuck c e then (e, false, SErr EGen None) else exec_tail fuel rs c (cleared e) input.
Proof.
  intros fuel rs c e input Hi Hs. rewrite eng_exec_unfold, eng_init_initd by assumption.
  destruct (stuck c e); reflexivity.
Qed.

(* ---- C17: refused input ----------------------------------------------------------------------- *)
Definition refused (i : bytes) : Prop :=
  INPUT_LIMIT < len i \/ (0 < len i /\ valid_input_b i = false).

Lemma refused_nonempty : forall i, refused i -> 0 < len i.
Proof. intros i [H|[H _]]; unfold INPUT_LIMIT in *; lia. Qed.

(* the part after init refuses the input before touching anything; Exec's continue result is
   true for a pattern failure and false for an over-long input that matches the pattern *)
Lemma exec_tail_refused : forall fuel rs c e1 input,
  refused input -> exec_tail fuel rs c e1 input = (e1, negb (valid_input_b input), SErr EGen None).
Proof.
  intros fuel rs c e1 input Hr. unfold exec_tail.
  assert (Hlen : 0 < len input) by (apply refused_nonempty; exact Hr).
  assert (Hne : (c_reset_empty c && (len input =? 0)) = false).
  { apply andb_false_intro2. apply N.eqb_neq. lia. }
  rewrite Hne.
  assert (Hpos : (0 <? len input) = true) by (apply N.ltb_lt; exact Hlen).
  rewrite Hpos. cbn [andb].
  destruct (valid_input_b input) eqn:Hv; cbn [negb]; [|reflexivity].
  destruct Hr as [Hl|[_ Hf]]; [|congruence].
  unfold set_input.
  assert (Hlim : INPUT_LIMIT <? len input = true) by (apply N.ltb_lt; exact Hl).
  rewrite Hlim. reflexivity.
Qed.

(* long-lived engine, initialised, last output delivered: the request fails and the engine's
   machine (state incl. pending code, cache, page, world, ghost log) is exactly what it was *)
Lemma refused_exec_settled : forall fuel rs c e input,
  refused input -> e_initd e = true -> settled e ->
  eng_exec fuel rs c e input =
  if stuck c e then (e, false, SErr EGen None)
  else (cleared e, negb (valid_input_b input), SErr EGen None).
Proof.
  intros fuel rs c e input Hr Hi Hs. rewrite eng_exec_initd by assumption.
  destruct (stuck c e); [reflexivity|]. apply exec_tail_refused. exact Hr.
Qed.

Definition delivered (e : engine) : Prop :=
  e_execd e = false \/ (getf (v_st (e_v e)) FLAG_DIRTY = false /\ e_exiting e = false /\ e_exit e = []).

Lemma delivered_settled : forall e, delivered e -> settled e.
Proof. intros e [H|[H1 [H2 _]]] Hx; [congruence|auto]. Qed.
Lemma delivered_not_stuck : forall c e, delivered e -> stuck c e = false.
Proof.
  intros c e [H|[_ [_ H]]]; unfold stuck; [rewrite H; reflexivity|].
  rewrite H, exit_over_nil. apply andb_false_r.
Qed.

Lemma refused_long : forall fuel rs c e input,
  refused input -> e_initd e = true -> delivered e ->
  eng_exec fuel rs c e input = (mkEng (e_v e) true [] false false, negb (valid_input_b input), SErr EGen None)
  /\ eng_flush fuel rs c (mkEng (e_v e) true [] false false) = (mkEng (e_v e) true [] false false, [], FErr EFlushNoExec)
  /\ request_long fuel rs c e input
     = (mkEng (e_v e) true [] false false, mkResp (negb (valid_input_b input)) (SErr EGen None) [] (FErr EFlushNoExec)).
Proof.
  intros fuel rs c e input Hr Hi Hd.
  assert (He : eng_exec fuel rs c e input = (mkEng (e_v e) true [] false false, negb (valid_input_b input), SErr EGen None)).
  { rewrite refused_exec_settled by (try assumption; apply delivered_settled; exact Hd).
    rewrite delivered_not_stuck by exact Hd. unfold cleared. rewrite Hi. reflexivity. }
  split; [exact He|]. split; [reflexivity|].
  unfold request_long. rewrite He. reflexivity.
Qed.

(* general form: any settled initialised engine.  A request with a refused input either leaves the
   engine as prepare leaves it (exit value handed out and cleared) or, when the engine is stuck,
   exactly as it is; either way the NEXT request is served exactly as if the refused one had not
   been sent *)
Lemma request_long_settled : forall fuel rs c e input,
  e_initd e = true -> settled e ->
  request_long fuel rs c e input =
  if stuck c e then (e, mkResp false (SErr EGen None) [] (FErr EGen))
  else let '(e1, cont, s) := exec_tail fuel rs c (cleared e) input in
       match s with
       | SPanic n => (e1, mkResp cont s [] (FPanic n))
       | SFuel => (e1, mkResp cont s [] FFuel)
       | _ => let '(e2, out, f) := eng_flush fuel rs c e1 in (e2, mkResp cont s out f)
       end.
Proof.
  intros fuel rs c e input Hi Hs. unfold request_long. rewrite eng_exec_initd by assumption.
  destruct (stuck c e) eqn:Hk; [|reflexivity].
  unfold stuck in Hk. apply andb_true_iff in Hk as [Hx Ho].
  destruct (Hs Hx) as [Hd Hq]. rewrite eng_flush_settled by assumption. rewrite Ho. reflexivity.
Qed.

Lemma refused_request_settled : forall fuel rs c e input,
  refused input -> e_initd e = true -> settled e ->
  request_long fuel rs c e input =
  if stuck c e then (e, mkResp false (SErr EGen None) [] (FErr EGen))
  else (cleared e, mkResp (negb (valid_input_b input)) (SErr EGen None) [] (FErr EFlushNoExec)).
Proof.
  intros fuel rs c e input Hr Hi Hs. rewrite request_long_settled by assumption.
  destruct (stuck c e); [reflexivity|]. rewrite exec_tail_refused by exact Hr. reflexivity.
Qed.

Lemma request_long_cleared : forall fuel rs c e input,
  e_initd e = true -> settled e -> stuck c e = false ->
  request_long fuel rs c (cleared e) input = request_long fuel rs c e input.
Proof.
  intros fuel rs c e input Hi Hs Hk.
  rewrite (request_long_settled fuel rs c e) by assumption.
  rewrite (request_long_settled fuel rs c (cleared e)) by (try exact Hi; apply cleared_settled).
  rewrite cleared_not_stuck, cleared_cleared, Hk. reflexivity.
Qed.

(* the next request after a refused one *)
Lemma refused_then_next : forall fuel rs c e bad input,
  refused bad -> e_initd e = true -> settled e ->
  request_long fuel rs c (fst (request_long fuel rs c e bad)) input = request_long fuel rs c e input.
Proof.
  intros fuel rs c e bad input Hr Hi Hs. rewrite (refused_request_settled fuel rs c e bad) by assumption.
  destruct (stuck c e) eqn:Hk; cbn [fst]; [reflexivity|].
  apply request_long_cleared; assumption.
Qed.

(* ---- reset as a function of state and cache -------------------------------------------------- *)
Definition reset_sc (st0 : state) (ca0 : cache) : state * cache * stat :=
  let '(st, ca, s) := unwind (S (List.length (s_path st0))) st0 ca0 in
  match s with
  | SOk => let st := match st_restart st with Ok st' => st' | _ => st end in
           (resetf (resetf st FLAG_TERMINATE) FLAG_DIRTY, ca, SOk)
  | _ => (st, ca, s)
  end.

Lemma eng_reset_inner_sc : forall v,
  eng_reset_inner v = let '(st, ca, s) := reset_sc (v_st v) (v_ca v) in (vset_ca (vset_st v st) ca, s).
Proof.
  intros v. unfold eng_reset_inner, reset_sc.
  destruct (unwind _ (v_st v) (v_ca v)) as [[st ca] s]. destruct s; reflexivity.
Qed.

Lemma unwind_ok : forall fuel st ca, s_path st <> [] -> snd (unwind fuel st ca) = SOk.
Proof.
  induction fuel as [|f IH]; intros st ca Hp; [reflexivity|].
  cbn [unwind]. unfold st_top, st_up.
  destruct (s_path st) as [|a [|b r]] eqn:Ep; [congruence| |].
  - reflexivity.
  - apply IH. cbn [s_path set_path_idx]. cbn [removelast]. destruct r; discriminate.
Qed.

(* unwind never looks at the input *)
Lemma unwind_input : forall fuel st ca x,
  unwind fuel (set_input_raw st x) ca =
  let '(st', ca', s) := unwind fuel st ca in (set_input_raw st' x, ca', s).
Proof.
  induction fuel as [|f IH]; intros st ca x; [reflexivity|].
  cbn [unwind]. unfold st_top, st_up. cbn [s_path set_input_raw].
  destruct (s_path st) as [|a [|b r]] eqn:Ep.
  - reflexivity.
  - reflexivity.
  - change (set_path_idx (set_input_raw st x) (removelast (a :: b :: r)) 0)
      with (set_input_raw (set_path_idx st (removelast (a :: b :: r)) 0) x).
    rewrite IH. reflexivity.
Qed.

Lemma resetf_input : forall s x f, resetf (set_input_raw s x) f = set_input_raw (resetf s f) x.
Proof. reflexivity. Qed.

Lemma reset_sc_input : forall s ca x, exists y,
  reset_sc (set_input_raw s x) ca = let '(st, ca', r) := reset_sc s ca in (set_input_raw st y, ca', r).
Proof.
  intros s ca x. unfold reset_sc. cbn [s_path set_input_raw]. rewrite unwind_input.
  destruct (unwind (S (List.length (s_path s))) s ca) as [[st ca'] r].
  destruct r; try (exists x; reflexivity).
  unfold st_restart. cbn [s_path set_input_raw].
  destruct (s_path st) as [|a p] eqn:Ep.
  - exists x. reflexivity.
  - exists (Some []). reflexivity.
Qed.

Lemma unwind_code : forall fuel st ca, s_code (fst (fst (unwind fuel st ca))) = s_code st.
Proof.
  induction fuel as [|f IH]; intros st ca; [reflexivity|].
  cbn [unwind]. unfold st_top, st_up.
  destruct (s_path st) as [|a [|b r]] eqn:Ep; [reflexivity|reflexivity|].
  rewrite IH. reflexivity.
Qed.
Lemma reset_sc_code : forall s ca, s_code (fst (fst (reset_sc s ca))) = s_code s.
Proof.
  intros s ca. unfold reset_sc.
  pose proof (unwind_code (S (List.length (s_path s))) s ca) as H.
  destruct (unwind _ s ca) as [[st ca'] r]. cbn [fst] in H.
  destruct r; cbn [fst]; try exact H.
  unfold st_restart. destruct (s_path st); cbn [s_code resetf set_flags]; exact H.
Qed.

Definition stale (s : state) : bool :=
  match s_code s, s_path s with [], _ :: _ => negb (getf s FLAG_TERMINATE) | _, _ => false end.

(* what init does to the state and the cache of a newly built engine (no entry function) *)
Definition init_sc (c : config) (s : state) (ca : cache) : state * cache :=
  match s_code s with
  | [] =>
    let '(s1, ca1) := if stale s then (let '(st, ca', _) := reset_sc s ca in (st, ca')) else (s, ca) in
    (set_input_raw (set_code s1 (encode (IMove (cfg_root c)))) (s_input s), ca1)
  | _ => (s, ca)
  end.

Lemma reset_sc_ok : forall s ca, s_path s <> [] -> snd (reset_sc s ca) = SOk.
Proof.
  intros s ca Hp. unfold reset_sc.
  pose proof (unwind_ok (S (List.length (s_path s))) s ca Hp) as H.
  destruct (unwind _ s ca) as [[st ca'] r]. cbn [snd] in H. subst r. reflexivity.
Qed.

Lemma eng_init_fresh : forall fuel rs c s ca pg w lg t input,
  c_first c = None -> len input <= INPUT_LIMIT ->
  eng_init fuel rs c (mkEng (mkVm s ca pg w lg t) false [] false false) input =
  (let '(s', ca') := init_sc c s ca in mkEng (mkVm s' ca' pg w lg t) true [] false false, true, SOk).
Proof.
  intros fuel rs c s ca pg w lg t input Hf Hl. unfold eng_init.
  cbn [e_execd e_v e_initd v_st]. unfold set_input.
  assert (Hlim : INPUT_LIMIT <? len input = false) by (apply N.ltb_ge; exact Hl).
  rewrite Hlim. unfold run_first. rewrite Hf. cbn [negb eset_v e_v vset_st v_st v_ca v_pg v_w v_log v_taint
    e_initd e_exit e_exiting e_execd s_code s_path set_input_raw].
  unfold init_sc, stale.
  destruct (s_code s) as [|c0 cr] eqn:Ec.
  - destruct (s_path s) as [|p0 pr] eqn:Ep.
    + unfold set_code_eng. cbn [e_v vset_st v_st set_code]. 
      destruct (encode (IMove (cfg_root c))) as [|x y] eqn:Ee; [exfalso; eapply encode_nonempty; exact Ee|].
      cbn [e_v eset_v vset_st v_st s_code set_input_raw]. rewrite ?Ec.
      cbn [eset_v e_v vset_st v_st v_ca v_pg v_w v_log v_taint e_initd e_exit e_exiting e_execd set_code set_input_raw
           s_code s_path s_bitsize s_idx s_flags s_lang s_input].
      reflexivity.
    + change (getf (set_input_raw s (Some input)) FLAG_TERMINATE) with (getf s FLAG_TERMINATE).
      destruct (getf s FLAG_TERMINATE) eqn:Et; cbn [negb].
      * unfold set_code_eng. cbn [e_v vset_st v_st set_code].
        destruct (encode (IMove (cfg_root c))) as [|x y] eqn:Ee; [exfalso; eapply encode_nonempty; exact Ee|].
        cbn [e_v eset_v vset_st v_st s_code set_input_raw]. rewrite ?Ec.
        cbn [eset_v e_v vset_st v_st v_ca v_pg v_w v_log v_taint e_initd e_exit e_exiting e_execd set_code set_input_raw
             s_code s_path s_bitsize s_idx s_flags s_lang s_input].
        reflexivity.
      * rewrite eng_reset_inner_sc. cbn [v_st v_ca e_v eset_v vset_st].
        destruct (reset_sc_input s ca (Some input)) as [y Hy]. rewrite Hy.
        assert (Hok : snd (reset_sc s ca) = SOk) by (apply reset_sc_ok; rewrite Ep; discriminate).
        pose proof (reset_sc_code s ca) as Hcode.
        destruct (reset_sc s ca) as [[st ca'] r]. cbn [snd] in Hok. cbn [fst] in Hcode. subst r.
        cbn [eset_v e_v vset_st vset_ca v_st v_ca v_pg v_w v_log v_taint e_initd e_exit e_exiting e_execd s_code].
        unfold set_code_eng. cbn [e_v vset_st v_st set_code].
        destruct (encode (IMove (cfg_root c))) as [|x z] eqn:Ee; [exfalso; eapply encode_nonempty; exact Ee|].
        cbn [e_v eset_v vset_st vset_ca v_st s_code set_input_raw]. rewrite ?Hcode, ?Ec.
        cbn [eset_v e_v vset_st v_st v_ca v_pg v_w v_log v_taint e_initd e_exit e_exiting e_execd set_code set_input_raw
             s_code s_path s_bitsize s_idx s_flags s_lang s_input].
        reflexivity.
  - cbn [eset_v e_v vset_st v_st v_ca v_pg v_w v_log v_taint e_initd e_exit e_exiting e_execd set_code set_input_raw
             s_code s_path s_bitsize s_idx s_flags s_lang s_input].
    rewrite Ec. destruct s; cbn in *; reflexivity.
Qed.

(* ---- persisted operation ------------------------------------------------------------------------ *)
Definition sess (c : config) (o : option snapshot) : snapshot :=
  match o with Some sc => sc | None => (fresh_state c, fresh_cache c) end.

Lemma new_engine_sess : forall c o w lg,
  new_engine c o w lg =
  mkEng (mkVm (fst (sess c o)) (snd (sess c o)) (new_vm_page (c_out c) (c_sep c)) w lg false) false [] false false.
Proof. intros c [[s ca]|] w lg; reflexivity. Qed.

(* everything request_persisted does after Exec *)
Definition pers_finish (fuel : nat) (rs : rsrc) (c : config) (p : pworld) (store0 : option snapshot)
  (x : engine * bool * stat) : pworld * response :=
  let '(e1, cont, s) := x in
  match s with
  | SPanic n => (mkPw store0 (v_w (e_v e1)) (v_log (e_v e1)) (pw_taint p || v_taint (e_v e1)), mkResp cont s [] (FPanic n))
  | SFuel => (mkPw store0 (v_w (e_v e1)) (v_log (e_v e1)) (pw_taint p || v_taint (e_v e1)), mkResp cont s [] FFuel)
  | _ =>
    let '(e2, out, f) := eng_flush fuel rs c e1 in
    match f with
    | FPanic _ | FFuel =>
      (mkPw store0 (v_w (e_v e2)) (v_log (e_v e2)) (pw_taint p || v_taint (e_v e2)), mkResp cont s out f)
    | _ =>
      let store1 := match eng_finish e2 with Some sn => Some sn | None => store0 end in
      (mkPw store1 (v_w (e_v e2)) (v_log (e_v e2)) (pw_taint p || v_taint (e_v e2)), mkResp cont s out f)
    end
  end.

Definition store0_of (c : config) (o : option snapshot) : option snapshot :=
  match o with Some s => Some s | None => Some (snap_of (fst (sess c None)) (snd (sess c None))) end.

Lemma request_persisted_finish : forall fuel rs c p input,
  request_persisted fuel rs c p input =
  pers_finish fuel rs c p (store0_of c (pw_store p))
    (eng_exec fuel rs c (new_engine c (pw_store p) (pw_w p) (pw_log p)) input).
Proof. intros fuel rs c p input. unfold request_persisted, pers_finish, store0_of. destruct (pw_store p) as [[s ca]|]; reflexivity. Qed.

(* the stored session as the next engine's init would leave it: an empty pending code is
   replaced by "MOVE <root>", after unwinding a stale position *)
Definition norm_snap (c : config) (sn : snapshot) : snapshot :=
  let '(s', ca') := init_sc c (fst sn) (snd sn) in snap_of s' ca'.

Lemma eng_exec_fresh : forall fuel rs c s ca pg w lg t input,
  c_first c = None ->
  eng_exec fuel rs c (mkEng (mkVm s ca pg w lg t) false [] false false) input =
  if INPUT_LIMIT <? len input then (mkEng (mkVm s ca pg w lg t) false [] false false, false, SErr EGen None)
  else exec_tail fuel rs c (let '(s', ca') := init_sc c s ca in mkEng (mkVm s' ca' pg w lg t) true [] false false) input.
Proof.
  intros fuel rs c s ca pg w lg t input Hf. rewrite eng_exec_unfold.
  destruct (INPUT_LIMIT <? len input) eqn:Hl.
  - unfold eng_init. cbn [e_execd e_v e_initd v_st]. unfold set_input. rewrite Hl. reflexivity.
  - rewrite eng_init_fresh by (try assumption; apply N.ltb_ge; exact Hl). reflexivity.
Qed.

Definition P0 (c : config) : page := new_vm_page (c_out c) (c_sep c).

(* persisted operation, no entry function: a refused request leaves the stored session as it
   was up to norm_snap, runs nothing, produces no output *)
Lemma refused_persisted : forall fuel rs c p input,
  refused input -> c_first c = None ->
  request_persisted fuel rs c p input =
  (mkPw (if INPUT_LIMIT <? len input then store0_of c (pw_store p) else Some (norm_snap c (sess c (pw_store p))))
        (pw_w p) (pw_log p) (pw_taint p),
   mkResp (if INPUT_LIMIT <? len input then false else true) (SErr EGen None) [] (FErr EFlushNoExec)).
Proof.
  intros fuel rs c p input Hr Hf. rewrite request_persisted_finish, new_engine_sess, eng_exec_fresh by exact Hf.
  destruct (INPUT_LIMIT <? len input) eqn:Hl.
  - unfold pers_finish. rewrite flush_before_exec by reflexivity.
    cbn [eng_finish e_initd e_v v_w v_log v_taint]. rewrite orb_false_r. reflexivity.
  - rewrite exec_tail_refused by exact Hr.
    assert (Hv : valid_input_b input = false).
    { destruct Hr as [H|[_ H]]; [apply N.ltb_ge in Hl; lia|exact H]. }
    rewrite Hv. cbn [negb]. unfold norm_snap.
    destruct (init_sc c (fst (sess c (pw_store p))) (snd (sess c (pw_store p)))) as [s' ca'].
    unfold pers_finish. rewrite flush_before_exec by reflexivity.
    cbn [eng_finish e_initd e_v v_w v_log v_taint v_st v_ca]. rewrite orb_false_r. reflexivity.
Qed.

(* ---- the stored session and its normal form are served alike ------------------------------------- *)
Definition pw_ok (c : config) (p : pworld) : Prop := s_input (fst (sess c (pw_store p))) = None.
Definition pw_eqv (c : config) (p q : pworld) : Prop :=
  norm_snap c (sess c (pw_store p)) = norm_snap c (sess c (pw_store q))
  /\ pw_w p = pw_w q /\ pw_log p = pw_log q /\ pw_taint p = pw_taint q.

Lemma fresh_state_input : forall c, s_input (fresh_state c) = None.
Proof.
  intros c. unfold fresh_state, st_set_language.
  destruct (c_lang c); destruct (lang_lookup _); reflexivity.
Qed.

Lemma init_sc_input : forall c s ca, s_input (fst (init_sc c s ca)) = s_input s.
Proof.
  intros c s ca. unfold init_sc. destruct (s_code s); [|reflexivity].
  destruct (stale s); [destruct (reset_sc s ca) as [[st ca'] r]|]; reflexivity.
Qed.
Lemma init_sc_code : forall c s ca, s_code (fst (init_sc c s ca)) <> [].
Proof.
  intros c s ca. unfold init_sc. destruct (s_code s) eqn:Ec; [|cbn [fst]; rewrite Ec; discriminate].
  destruct (stale s); [destruct (reset_sc s ca) as [[st ca'] r]|]; cbn [fst s_code set_input_raw set_code]; apply encode_nonempty.
Qed.
Lemma init_sc_nonempty : forall c s ca, s_code s <> [] -> init_sc c s ca = (s, ca).
Proof. intros c s ca H. unfold init_sc. destruct (s_code s); [congruence|reflexivity]. Qed.

Lemma snap_of_none : forall s ca, s_input s = None -> snap_of s ca = (s, ca).
Proof. intros s ca H. unfold snap_of. destruct s; cbn in *; subst; reflexivity. Qed.

Lemma norm_snap_init : forall c sn, s_input (fst sn) = None -> norm_snap c sn = init_sc c (fst sn) (snd sn).
Proof.
  intros c [s ca] H. unfold norm_snap. cbn [fst snd] in *.
  pose proof (init_sc_input c s ca) as Hi. destruct (init_sc c s ca) as [s' ca']. cbn [fst] in Hi.
  apply snap_of_none. congruence.
Qed.

Lemma norm_snap_idem : forall c sn, s_input (fst sn) = None -> norm_snap c (norm_snap c sn) = norm_snap c sn.
Proof.
  intros c sn H. rewrite (norm_snap_init c sn H).
  pose proof (init_sc_input c (fst sn) (snd sn)) as Hi. pose proof (init_sc_code c (fst sn) (snd sn)) as Hc.
  destruct (init_sc c (fst sn) (snd sn)) as [s' ca']. cbn [fst] in *.
  rewrite norm_snap_init by (cbn [fst]; congruence). cbn [fst snd]. apply init_sc_nonempty. exact Hc.
Qed.

Lemma sess_store0 : forall c o, sess c (store0_of c o) = sess c o.
Proof.
  intros c [sn|]; [reflexivity|]. unfold store0_of, sess. cbn [fst snd].
  apply snap_of_none. apply fresh_state_input.
Qed.

(* what follows Exec treats equivalent fallback stores alike *)
Lemma pers_finish_eqv : forall fuel rs c p q o1 o2 x,
  pw_taint p = pw_taint q ->
  norm_snap c (sess c o1) = norm_snap c (sess c o2) ->
  pw_ok c (mkPw o1 [] [] false) -> pw_ok c (mkPw o2 [] [] false) ->
  let '(p', r) := pers_finish fuel rs c p o1 x in
  let '(q', r') := pers_finish fuel rs c q o2 x in
  r = r' /\ pw_eqv c p' q' /\ pw_ok c p' /\ pw_ok c q'.
Proof.
  intros fuel rs c p q o1 o2 [[e1 cont] s] Ht Hn Hk1 Hk2. unfold pers_finish. rewrite Ht.
  assert (Hbase : forall w lg t, pw_eqv c (mkPw o1 w lg t) (mkPw o2 w lg t)).
  { intros. unfold pw_eqv. cbn [pw_store pw_w pw_log pw_taint]. auto. }
  assert (Hsame : forall o w lg t, pw_eqv c (mkPw o w lg t) (mkPw o w lg t)).
  { intros. unfold pw_eqv. auto. }
  destruct s as [|er m|n|]; try (split; [reflexivity|split; [apply Hbase|split; assumption]]).
  - destruct (eng_flush fuel rs c e1) as [[e2 out] f].
    destruct f as [|er|n|]; try (split; [reflexivity|split; [apply Hbase|split; assumption]]);
    unfold eng_finish; destruct (e_initd e2);
      try (split; [reflexivity|split; [apply Hbase|split; assumption]]);
      (split; [reflexivity|split; [apply Hsame|split; reflexivity]]).
  - destruct (eng_flush fuel rs c e1) as [[e2 out] f].
    destruct f as [|er'|n|]; try (split; [reflexivity|split; [apply Hbase|split; assumption]]);
    unfold eng_finish; destruct (e_initd e2);
      try (split; [reflexivity|split; [apply Hbase|split; assumption]]);
      (split; [reflexivity|split; [apply Hsame|split; reflexivity]]).
Qed.

Lemma request_persisted_eqv : forall fuel rs c p q input,
  c_first c = None -> pw_ok c p -> pw_ok c q -> pw_eqv c p q ->
  let '(p', r) := request_persisted fuel rs c p input in
  let '(q', r') := request_persisted fuel rs c q input in
  r = r' /\ pw_eqv c p' q' /\ pw_ok c p' /\ pw_ok c q'.
Proof.
  intros fuel rs c p q input Hf Hp Hq [Hn [Hw [Hl Ht]]].
  rewrite !request_persisted_finish, !new_engine_sess, !eng_exec_fresh by exact Hf.
  rewrite <- Hw, <- Hl.
  assert (Hi : init_sc c (fst (sess c (pw_store p))) (snd (sess c (pw_store p)))
             = init_sc c (fst (sess c (pw_store q))) (snd (sess c (pw_store q)))).
  { rewrite <- !norm_snap_init by assumption. exact Hn. }
  assert (Hn0 : norm_snap c (sess c (store0_of c (pw_store p))) = norm_snap c (sess c (store0_of c (pw_store q)))).
  { rewrite !sess_store0. exact Hn. }
  assert (Hk1 : pw_ok c (mkPw (store0_of c (pw_store p)) [] [] false)).
  { unfold pw_ok. cbn [pw_store]. rewrite sess_store0. exact Hp. }
  assert (Hk2 : pw_ok c (mkPw (store0_of c (pw_store q)) [] [] false)).
  { unfold pw_ok. cbn [pw_store]. rewrite sess_store0. exact Hq. }
  destruct (INPUT_LIMIT <? len input).
  - unfold pers_finish. rewrite !flush_before_exec by reflexivity.
    cbn [eng_finish e_initd e_v v_w v_log v_taint]. rewrite Ht.
    split; [reflexivity|]. split; [|split; assumption].
    unfold pw_eqv. cbn [pw_store pw_w pw_log pw_taint]. auto.
  - rewrite Hi.
    exact (pers_finish_eqv fuel rs c p q _ _ _ Ht Hn0 Hk1 Hk2).
Qed.

Lemma request_persisted_ok : forall fuel rs c p input,
  pw_ok c p -> pw_ok c (fst (request_persisted fuel rs c p input)).
Proof.
  intros fuel rs c p input Hp. rewrite request_persisted_finish.
  assert (Hk : pw_ok c (mkPw (store0_of c (pw_store p)) [] [] false)).
  { unfold pw_ok. cbn [pw_store]. rewrite sess_store0. exact Hp. }
  destruct (eng_exec fuel rs c _ input) as [[e1 cont] s]. unfold pers_finish.
  destruct s as [|er m|n|]; try exact Hk.
  - destruct (eng_flush fuel rs c e1) as [[e2 out] f].
    destruct f; try exact Hk; unfold eng_finish; destruct (e_initd e2); try exact Hk; reflexivity.
  - destruct (eng_flush fuel rs c e1) as [[e2 out] f].
    destruct f; try exact Hk; unfold eng_finish; destruct (e_initd e2); try exact Hk; reflexivity.
Qed.

Lemma pw_eqv_refl : forall c p, pw_eqv c p p.
Proof. intros. unfold pw_eqv. auto. Qed.
Lemma pw_eqv_sym : forall c p q, pw_eqv c p q -> pw_eqv c q p.
Proof. unfold pw_eqv. intros c p q [A [B [C D]]]. auto. Qed.
Lemma pw_eqv_trans : forall c p q r, pw_eqv c p q -> pw_eqv c q r -> pw_eqv c p r.
Proof. unfold pw_eqv. intros c p q r [A [B [C D]]] [A' [B' [C' D']]]. repeat split; congruence. Qed.

(* a refused request leaves an equivalent world *)
Lemma refused_persisted_eqv : forall fuel rs c p input,
  refused input -> c_first c = None -> pw_ok c p ->
  pw_eqv c (fst (request_persisted fuel rs c p input)) p.
Proof.
  intros fuel rs c p input Hr Hf Hp. rewrite refused_persisted by assumption. cbn [fst].
  unfold pw_eqv. cbn [pw_store pw_w pw_log pw_taint]. repeat split.
  destruct (INPUT_LIMIT <? len input).
  - rewrite sess_store0. reflexivity.
  - cbn [sess]. apply norm_snap_idem. exact Hp.
Qed.

(* ---- serving a whole history ---------------------------------------------------------------------- *)
Fixpoint serve_long (fuel : nat) (rs : rsrc) (c : config) (e : engine) (h : list bytes) : engine * list response :=
  match h with
  | [] => (e, [])
  | i :: h' =>
    let '(e1, r) := request_long fuel rs c e i in
    let '(e2, rr) := serve_long fuel rs c e1 h' in (e2, r :: rr)
  end.
Fixpoint serve_pers (fuel : nat) (rs : rsrc) (c : config) (p : pworld) (h : list bytes) : pworld * list response :=
  match h with
  | [] => (p, [])
  | i :: h' =>
    let '(p1, r) := request_persisted fuel rs c p i in
    let '(p2, rr) := serve_pers fuel rs c p1 h' in (p2, r :: rr)
  end.

Lemma serve_long_app : forall fuel rs c h1 h2 e,
  serve_long fuel rs c e (h1 ++ h2) =
  let '(e1, r1) := serve_long fuel rs c e h1 in
  let '(e2, r2) := serve_long fuel rs c e1 h2 in (e2, r1 ++ r2).
Proof.
  induction h1 as [|i h1 IH]; intros h2 e.
  - cbn [List.app serve_long]. destruct (serve_long fuel rs c e h2); reflexivity.
  - cbn [List.app serve_long]. destruct (request_long fuel rs c e i) as [e1 r]. rewrite IH.
    destruct (serve_long fuel rs c e1 h1) as [e2 r1]. destruct (serve_long fuel rs c e2 h2) as [e3 r2]. reflexivity.
Qed.
Lemma serve_pers_app : forall fuel rs c h1 h2 p,
  serve_pers fuel rs c p (h1 ++ h2) =
  let '(p1, r1) := serve_pers fuel rs c p h1 in
  let '(p2, r2) := serve_pers fuel rs c p1 h2 in (p2, r1 ++ r2).
Proof.
  induction h1 as [|i h1 IH]; intros h2 p.
  - cbn [List.app serve_pers]. destruct (serve_pers fuel rs c p h2); reflexivity.
  - cbn [List.app serve_pers]. destruct (request_persisted fuel rs c p i) as [p1 r]. rewrite IH.
    destruct (serve_pers fuel rs c p1 h1) as [p2 r1]. destruct (serve_pers fuel rs c p2 h2) as [p3 r2]. reflexivity.
Qed.

Lemma serve_pers_ok : forall fuel rs c h p, pw_ok c p -> pw_ok c (fst (serve_pers fuel rs c p h)).
Proof.
  induction h as [|i h IH]; intros p Hp; [exact Hp|].
  cbn [serve_pers]. pose proof (request_persisted_ok fuel rs c p i Hp) as H1.
  destruct (request_persisted fuel rs c p i) as [p1 r]. cbn [fst] in H1.
  specialize (IH p1 H1). destruct (serve_pers fuel rs c p1 h) as [p2 rr]. exact IH.
Qed.

Lemma serve_pers_eqv : forall fuel rs c h p q,
  c_first c = None -> pw_ok c p -> pw_ok c q -> pw_eqv c p q ->
  snd (serve_pers fuel rs c p h) = snd (serve_pers fuel rs c q h)
  /\ pw_eqv c (fst (serve_pers fuel rs c p h)) (fst (serve_pers fuel rs c q h)).
Proof.
  induction h as [|i h IH]; intros p q Hf Hp Hq He; [split; [reflexivity|exact He]|].
  cbn [serve_pers]. pose proof (request_persisted_eqv fuel rs c p q i Hf Hp Hq He) as H1.
  destruct (request_persisted fuel rs c p i) as [p1 r]. destruct (request_persisted fuel rs c q i) as [q1 r'].
  destruct H1 as [Hr [He1 [Hp1 Hq1]]]. subst r'.
  destruct (IH p1 q1 Hf Hp1 Hq1 He1) as [IH1 IH2].
  destruct (serve_pers fuel rs c p1 h) as [p2 rr]. destruct (serve_pers fuel rs c q1 h) as [q2 rr'].
  cbn [fst snd] in *. subst. split; [reflexivity|exact IH2].
Qed.

(* C17, persisted operation: a refused input inserted anywhere in a history *)
Lemma as_if_never_sent_pers : forall fuel rs c p h1 bad h2,
  c_first c = None -> pw_ok c p -> refused bad ->
  let '(p1, r1) := serve_pers fuel rs c p h1 in
  let '(pb, rb) := request_persisted fuel rs c p1 bad in
  serve_pers fuel rs c p (h1 ++ [bad] ++ h2)
    = (fst (serve_pers fuel rs c pb h2), r1 ++ [rb] ++ snd (serve_pers fuel rs c pb h2))
  /\ serve_pers fuel rs c p (h1 ++ h2)
    = (fst (serve_pers fuel rs c p1 h2), r1 ++ snd (serve_pers fuel rs c p1 h2))
  /\ snd (serve_pers fuel rs c pb h2) = snd (serve_pers fuel rs c p1 h2)
  /\ pw_eqv c (fst (serve_pers fuel rs c pb h2)) (fst (serve_pers fuel rs c p1 h2))
  /\ pw_eqv c pb p1
  /\ r_out rb = [] /\ r_exec rb = SErr EGen None /\ r_flush rb = FErr EFlushNoExec.
Proof.
  intros fuel rs c p h1 bad h2 Hf Hp Hr.
  pose proof (serve_pers_ok fuel rs c h1 p Hp) as Hp1.
  rewrite !serve_pers_app.
  destruct (serve_pers fuel rs c p h1) as [p1 r1]. cbn [fst] in Hp1.
  pose proof (refused_persisted_eqv fuel rs c p1 bad Hr Hf Hp1) as He.
  pose proof (request_persisted_ok fuel rs c p1 bad Hp1) as Hpb.
  pose proof (refused_persisted fuel rs c p1 bad Hr Hf) as Hrb.
  cbn [List.app serve_pers].
  destruct (request_persisted fuel rs c p1 bad) as [pb rb]. cbn [fst] in He, Hpb.
  destruct (serve_pers_eqv fuel rs c h2 pb p1 Hf Hpb Hp1 He) as [E1 E2].
  destruct (serve_pers fuel rs c pb h2) as [pb2 rr]. destruct (serve_pers fuel rs c p1 h2) as [p12 rr'].
  cbn [fst snd] in *. injection Hrb as _ Hrb. subst rb.
  split; [reflexivity|]. split; [reflexivity|]. split; [exact E1|]. split; [exact E2|]. split; [exact He|].
  destruct (INPUT_LIMIT <? len bad); auto.
Qed.

(* C17, long-lived engine: a refused input sent to an initialised engine whose last Flush completed *)
Lemma as_if_never_sent_long : forall fuel rs c e h1 bad h2,
  refused bad ->
  let '(e1, r1) := serve_long fuel rs c e h1 in
  e_initd e1 = true -> settled e1 ->
  let '(eb, rb) := request_long fuel rs c e1 bad in
  serve_long fuel rs c e (h1 ++ [bad] ++ h2)
    = (fst (serve_long fuel rs c eb h2), r1 ++ [rb] ++ snd (serve_long fuel rs c eb h2))
  /\ serve_long fuel rs c e (h1 ++ h2)
    = (fst (serve_long fuel rs c e1 h2), r1 ++ snd (serve_long fuel rs c e1 h2))
  /\ snd (serve_long fuel rs c eb h2) = snd (serve_long fuel rs c e1 h2)
  /\ (h2 <> [] -> fst (serve_long fuel rs c eb h2) = fst (serve_long fuel rs c e1 h2))
  /\ (eb = e1 \/ eb = cleared e1)
  /\ r_out rb = [] /\ r_exec rb = SErr EGen None.
Proof.
  intros fuel rs c e h1 bad h2 Hr. rewrite !serve_long_app.
  destruct (serve_long fuel rs c e h1) as [e1 r1]. intros Hi Hs.
  pose proof (refused_request_settled fuel rs c e1 bad Hr Hi Hs) as Hb.
  pose proof (fun j => refused_then_next fuel rs c e1 bad j Hr Hi Hs) as Hn.
  cbn [List.app serve_long].
  destruct (request_long fuel rs c e1 bad) as [eb rb]. cbn [fst] in Hn.
  assert (Hsame : h2 <> [] -> serve_long fuel rs c eb h2 = serve_long fuel rs c e1 h2).
  { destruct h2 as [|j h2]; [congruence|]. intros _. cbn [serve_long]. rewrite Hn. reflexivity. }
  assert (Hsnd : snd (serve_long fuel rs c eb h2) = snd (serve_long fuel rs c e1 h2)).
  { destruct h2 as [|j h2]; [reflexivity|]. rewrite Hsame by discriminate. reflexivity. }
  destruct (serve_long fuel rs c eb h2) as [eb2 rr] eqn:E1. destruct (serve_long fuel rs c e1 h2) as [e12 rr'] eqn:E2.
  cbn [fst snd] in *.
  split; [reflexivity|]. split; [reflexivity|]. split; [exact Hsnd|].
  split; [intros H; specialize (Hsame H); congruence|].
  destruct (stuck c e1); injection Hb as -> ->; cbn [r_out r_exec]; auto.
Qed.

(* the entry function does receive refused bytes: see props/C17.v (witness) *)

(* ---- boolean forms of the hypotheses (for witnesses) ------------------------------------------------------ *)
Definition refused_bool (i : bytes) : bool :=
  (INPUT_LIMIT <? len i) || ((0 <? len i) && negb (valid_input_b i)).
Lemma refused_bool_spec : forall i, refused_bool i = true -> refused i.
Proof.
  intros i H. unfold refused_bool in H. apply orb_true_iff in H as [H|H].
  - left. apply N.ltb_lt. exact H.
  - apply andb_true_iff in H as [H1 H2]. right. split; [apply N.ltb_lt; exact H1|].
    destruct (valid_input_b i); [discriminate|reflexivity].
Qed.
Lemma refused_bool_complete : forall i, refused i -> refused_bool i = true.
Proof.
  intros i [H|[H1 H2]]; unfold refused_bool.
  - apply orb_true_iff. left. apply N.ltb_lt. exact H.
  - apply orb_true_iff. right. rewrite H2. apply andb_true_iff. split; [apply N.ltb_lt; exact H1|reflexivity].
Qed.

Definition settled_b (e : engine) : bool :=
  negb (e_execd e) || (negb (getf (v_st (e_v e)) FLAG_DIRTY) && negb (e_exiting e)).
Lemma settled_b_spec : forall e, settled_b e = true -> settled e.
Proof.
  intros e H Hx. unfold settled_b in H. rewrite Hx in H. cbn [negb orb] in H.
  apply andb_true_iff in H as [H1 H2]. split; [destruct (getf _ _)|destruct (e_exiting e)]; try discriminate; reflexivity.
Qed.
Definition delivered_b (e : engine) : bool :=
  negb (e_execd e) || (negb (getf (v_st (e_v e)) FLAG_DIRTY) && negb (e_exiting e) && match e_exit e with [] => true | _ => false end).
Lemma delivered_b_spec : forall e, delivered_b e = true -> delivered e.
Proof.
  intros e H. unfold delivered_b in H. destruct (e_execd e) eqn:Hx; [|left; exact Hx]. cbn [negb orb] in H.
  apply andb_true_iff in H as [H H3]. apply andb_true_iff in H as [H1 H2]. right.
  split; [destruct (getf _ _); [discriminate|reflexivity]|]. split; [destruct (e_exiting e); [discriminate|reflexivity]|].
  destruct (e_exit e); [reflexivity|discriminate].
Qed.

(* C17, whole histories, with the decidable hypotheses *)
Lemma as_if_never_sent_long_b : forall fuel rs c e h1 bad h2,
  refused_bool bad = true ->
  e_initd (fst (serve_long fuel rs c e h1)) = true -> settled_b (fst (serve_long fuel rs c e h1)) = true ->
  exists r1 rb r2,
    snd (serve_long fuel rs c e (h1 ++ [bad] ++ h2)) = r1 ++ [rb] ++ r2
    /\ snd (serve_long fuel rs c e (h1 ++ h2)) = r1 ++ r2
    /\ List.length r1 = List.length h1
    /\ r_out rb = [] /\ r_exec rb = SErr EGen None
    /\ (h2 <> [] -> fst (serve_long fuel rs c e (h1 ++ [bad] ++ h2)) = fst (serve_long fuel rs c e (h1 ++ h2))).
Proof.
  intros fuel rs c e h1 bad h2 Hr Hi Hs.
  pose proof (as_if_never_sent_long fuel rs c e h1 bad h2 (refused_bool_spec _ Hr)) as H.
  assert (Hlen : forall h e0, List.length (snd (serve_long fuel rs c e0 h)) = List.length h).
  { induction h as [|i h IH]; intros e0; [reflexivity|]. cbn [serve_long].
    destruct (request_long fuel rs c e0 i) as [e1 r]. specialize (IH e1).
    destruct (serve_long fuel rs c e1 h) as [e2 rr]. cbn [snd List.length] in *. congruence. }
  pose proof (Hlen h1 e) as Hl1.
  destruct (serve_long fuel rs c e h1) as [e1 r1]. cbn [fst snd] in *.
  specialize (H Hi (settled_b_spec _ Hs)).
  destruct (request_long fuel rs c e1 bad) as [eb rb].
  destruct H as (A1 & A2 & A3 & A4 & A5 & A6 & A7).
  exists r1, rb, (snd (serve_long fuel rs c e1 h2)).
  rewrite A1, A2. cbn [fst snd]. rewrite A3.
  split; [reflexivity|]. split; [reflexivity|]. split; [exact Hl1|]. split; [exact A6|]. split; [exact A7|exact A4].
Qed.

Lemma serve_pers_length : forall fuel rs c h p, List.length (snd (serve_pers fuel rs c p h)) = List.length h.
Proof.
  induction h as [|i h IH]; intros p; [reflexivity|]. cbn [serve_pers].
  destruct (request_persisted fuel rs c p i) as [p1 r]. specialize (IH p1).
  destruct (serve_pers fuel rs c p1 h) as [p2 rr]. cbn [snd List.length] in *. congruence.
Qed.

Lemma pw_ok_initial : forall c w lg t, pw_ok c (mkPw None w lg t).
Proof. intros. unfold pw_ok. cbn [pw_store sess fst]. apply fresh_state_input. Qed.

Lemma as_if_never_sent_pers_b : forall fuel rs c h1 bad h2,
  c_first c = None -> refused_bool bad = true ->
  exists r1 rb r2,
    snd (serve_pers fuel rs c (mkPw None [] [] false) (h1 ++ [bad] ++ h2)) = r1 ++ [rb] ++ r2
    /\ snd (serve_pers fuel rs c (mkPw None [] [] false) (h1 ++ h2)) = r1 ++ r2
    /\ List.length r1 = List.length h1
    /\ r_out rb = [] /\ r_exec rb = SErr EGen None /\ r_flush rb = FErr EFlushNoExec
    /\ pw_eqv c (fst (serve_pers fuel rs c (mkPw None [] [] false) (h1 ++ [bad] ++ h2)))
                (fst (serve_pers fuel rs c (mkPw None [] [] false) (h1 ++ h2))).
Proof.
  intros fuel rs c h1 bad h2 Hf Hr.
  pose proof (as_if_never_sent_pers fuel rs c (mkPw None [] [] false) h1 bad h2 Hf (pw_ok_initial c [] [] false)
                (refused_bool_spec _ Hr)) as H.
  pose proof (serve_pers_length fuel rs c h1 (mkPw None [] [] false)) as Hl1.
  destruct (serve_pers fuel rs c (mkPw None [] [] false) h1) as [p1 r1]. cbn [snd] in Hl1.
  destruct (request_persisted fuel rs c p1 bad) as [pb rb].
  destruct H as (A1 & A2 & A3 & A4 & A5 & A6 & A7 & A8).
  exists r1, rb, (snd (serve_pers fuel rs c p1 h2)).
  rewrite A1, A2. cbn [fst snd]. rewrite A3.
  split; [reflexivity|]. split; [reflexivity|]. split; [exact Hl1|]. split; [exact A6|]. split; [exact A7|]. split; [exact A8|exact A4].
Qed.

(* ---- witnesses ---------------------------------------------------------------------------------------------- *)
(* three nodes: root -(1)-> foo -(0)-> back; _catch *)
Definition w_nodes : list (bytes * bytes) :=
  [(s2b "root"%string, encode_prog [IHalt; IInCmp (s2b "foo"%string) (s2b "1"%string)]);
   (s2b "foo"%string, encode_prog [IHalt; IInCmp (s2b "_"%string) (s2b "0"%string)]);
   (s2b "_catch"%string, encode_prog [IHalt; IInCmp (s2b "_"%string) (s2b "*"%string)])].
Definition w_app : app :=
  mkApp w_nodes [(s2b "root"%string, s2b "root"%string); (s2b "foo"%string, s2b "foo"%string); (s2b "_catch"%string, s2b "catch"%string)] [] [].
Definition w_cfg : config := mkCfg 0 [] 1 0 [] [] false None.
(* the same with an entry function that echoes the input (corpus case first-refused) *)
Definition w_cfg_first : config := mkCfg 0 [] 1 0 [] [] false (Some [mkFres (s2b "f"%string) true 0 [] [] false]).
Definition w_bad : bytes := s2b "!bad"%string.
Definition w_long : bytes := rep 57 300.        (* "999…", 300 bytes: over-long, matches the pattern *)
Definition w_longbad : bytes := rep 33 300.     (* "!!!…", 300 bytes: over-long and malformed *)

Definition got_input (lg : list ev) (i : bytes) : bool :=
  existsb (fun e => match e with
                    | EvFunc s _ (Some x) => bytes_eqb s first_sym && bytes_eqb x i
                    | _ => false
                    end) lg.

(* K-C17-first: the entry function runs inside init, before validation, and receives the refused bytes *)
Lemma first_receives_refused :
  exists (a : app) (c : config) (h : list bytes) (bad : bytes),
    c_first c <> None /\ refused bad
    /\ got_input (pw_log (fst (serve_pers 1000 (app_rsrc a) c (mkPw None [] [] false) (h ++ [bad])))) bad = true
    /\ got_input (v_log (e_v (fst (request_long 1000 (app_rsrc a) c (new_engine c None [] []) bad)))) bad = true.
Proof.
  exists w_app, w_cfg_first, [[]], w_bad.
  split; [discriminate|]. split; [apply refused_bool_spec; vm_compute; reflexivity|].
  split; vm_compute; reflexivity.
Qed.
