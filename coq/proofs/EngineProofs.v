(* EngineProofs.v — lemmas about the engine model: refused input (C17), termination and
   session end (C06, C20), language (C18). *)
From Coq Require Import Lia ZifyN ZifyNat ZifyBool.
From Vise Require Import Bytes Errors Consts EngConsts Codec CacheModel StateModel NavModel RenderModel VmModel EngineModel VmProofs.
Local Open Scope N_scope.

(* ---- Flush on an engine whose output was already delivered -------------------------------- *)
Lemma vm_render_clean : forall fuel rs sep lang v,
  getf (v_st v) FLAG_DIRTY = false -> vm_render fuel rs sep lang v = (v, RROk []).
Proof. intros. unfold vm_render. rewrite H. reflexivity. Qed.

Lemma eng_flush_idle : forall fuel rs c e,
  e_execd e = true -> getf (v_st (e_v e)) FLAG_DIRTY = false -> e_exiting e = false -> e_exit e = [] ->
  eng_flush fuel rs c e = (e, [], FOk).
Proof.
  intros fuel rs c e Hx Hd Hq He. unfold eng_flush. rewrite Hx. cbn [negb].
  rewrite vm_render_clean by exact Hd. rewrite He, Hq.
  destruct e as [v i x q d]. cbn in *. subst.
  rewrite andb_false_r. cbn. reflexivity.
Qed.

(* ---- C17: refused input ----------------------------------------------------------------------- *)
Definition refused (i : bytes) : Prop :=
  INPUT_LIMIT < len i \/ (0 < len i /\ valid_input_b i = false).

(* long-lived engine, initialised, last output delivered: the request fails and the engine's
   state, cache, page, world and log are exactly what they were *)
Lemma refused_long : forall fuel rs c e input,
  refused input -> e_initd e = true ->
  (e_execd e = false \/ (getf (v_st (e_v e)) FLAG_DIRTY = false /\ e_exiting e = false /\ e_exit e = [])) ->
  exists cont er,
    eng_exec fuel rs c e input = (mkEng (e_v e) true [] false false, cont, SErr er None).
Proof.
  intros fuel rs c e input Hr Hi Hx. unfold eng_exec, eng_init.
  assert (Hpre : (if e_execd e then let '(e', _, f) := eng_flush fuel rs c e in (e', stat_of_f f) else (e, SOk)) = (e, SOk)).
  { destruct (e_execd e) eqn:Hd; [|reflexivity].
    destruct Hx as [Hx|[H1 [H2 H3]]]; [discriminate|].
    rewrite eng_flush_idle by assumption. reflexivity. }
  rewrite Hpre. cbn [e_initd e_v]. rewrite Hi.
  assert (Hlen : 0 < len input) by (destruct Hr as [H|[H _]]; unfold INPUT_LIMIT in *; lia).
  assert (Hne : (c_reset_empty c && (len input =? 0)) = false).
  { apply andb_false_intro2. apply N.eqb_neq. lia. }
  rewrite Hne.
  destruct (valid_input_b input) eqn:Hv.
  - destruct Hr as [Hl|[_ Hf]]; [|congruence].
    assert (H0 : (0 <? len input) && negb true = false) by apply andb_false_r.
    rewrite H0. unfold set_input. cbn [e_v].
    assert (Hlim : INPUT_LIMIT <? len input = true) by (apply N.ltb_lt; exact Hl).
    rewrite Hlim. eauto.
  - assert (H0 : (0 <? len input) && negb false = true).
    { apply andb_true_intro. split; [apply N.ltb_lt; exact Hlen|reflexivity]. }
    rewrite H0. eauto.
Qed.

(* persisted operation, no entry function: a refused request leaves the stored session as it
   was, up to the injected "MOVE <root>" for an empty pending code, runs no application symbol
   and produces no output *)
Definition norm_snap (c : config) (sn : snapshot) : snapshot :=
  let '(s, ca) := sn in
  (match s_code s with [] => set_code s (encode (IMove (cfg_root c))) | _ => s end, ca).

Lemma refused_persisted : forall fuel rs c p input s ca,
  refused input -> c_first c = None -> pw_store p = Some (s, ca) -> s_input s = None ->
  exists cont er,
    request_persisted fuel rs c p input
    = (mkPw (Some (if INPUT_LIMIT <? len input then (s, ca) else norm_snap c (s, ca))) (pw_w p) (pw_log p) (pw_taint p),
       mkResp cont (SErr er None) [] (FErr EFlushNoExec)).
Proof.
  intros fuel rs c p input s ca Hr Hf Hs Hin. unfold request_persisted, new_engine. rewrite Hs.
  unfold eng_exec, eng_init. cbn [e_execd e_initd e_v v_st].
  assert (Hlen : 0 < len input) by (destruct Hr as [H|[H _]]; unfold INPUT_LIMIT in *; lia).
  unfold set_input at 1.
  destruct (INPUT_LIMIT <? len input) eqn:Hlim.
  - (* too long: refused before anything is initialised; Finish does not save *)
    cbn [eng_flush e_execd negb eng_finish e_initd e_v v_w v_log v_taint orb].
    unfold eng_flush. cbn [e_execd negb]. cbn [eng_finish e_initd e_v v_w v_log v_taint].
    rewrite orb_false_r. eauto.
  - cbn [vset_st v_st eset_v e_v]. unfold run_first. rewrite Hf.
    cbn [negb e_v v_st vset_st s_code set_input_raw].
    assert (Hv : valid_input_b input = false).
    { destruct Hr as [H|[_ H]]; [apply N.ltb_ge in Hlim; lia|exact H]. }
    assert (Hne : (c_reset_empty c && (len input =? 0)) = false).
    { apply andb_false_intro2. apply N.eqb_neq. lia. }
    assert (H0 : (0 <? len input) && negb (valid_input_b input) = true).
    { rewrite Hv. apply andb_true_intro. split; [apply N.ltb_lt; exact Hlen|reflexivity]. }
    destruct (s_code s) eqn:Hc.
    + unfold set_code_eng. cbn [e_v v_st vset_st eset_v set_code encode].
      cbn [e_v vset_st v_st set_input_raw s_code s_path s_bitsize s_idx s_flags s_lang].
      rewrite Hne, H0.
      unfold eng_flush. cbn [e_execd negb eng_finish e_initd e_v v_w v_log v_taint v_st v_ca].
      rewrite orb_false_r. do 2 eexists. f_equal. f_equal.
      unfold norm_snap, snap_of. rewrite Hc. f_equal. f_equal.
      destruct s; cbn in *; subst; reflexivity.
    + cbn [e_v vset_st v_st].
      rewrite Hne, H0.
      unfold eng_flush. cbn [e_execd negb eng_finish e_initd e_v v_w v_log v_taint v_st v_ca].
      rewrite orb_false_r. do 2 eexists. f_equal. f_equal.
      unfold norm_snap, snap_of. rewrite Hc. f_equal. f_equal.
      destruct s; cbn in *; subst; reflexivity.
Qed.
