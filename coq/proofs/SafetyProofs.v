(* SafetyProofs.v — C08: no sequence of client inputs can crash the engine or corrupt a session.
   The composed safety theorem over the VM / engine model (agent safety).

   Layout
     Part A  codec: decoding is stable under appending (decode_one_app), the predicate
             `code_ok P b` (b decodes completely into instructions satisfying P)
     Part B  state / flag lemmas, the invariant SC (state + cache) and VInv
     Part C  every handler of the VM preserves the invariant and never panics
     Part D  run, vm_render
     Part E  engine: eng_reset_inner, eng_flush, run_first, eng_init, eng_exec, requests, histories
     Part F  wf_app_b (corr/EngineMon.v) implies the resource well-formedness used here
     Part G  refutation witnesses (CROAK; entry function) *)
From Coq Require Import Lia ZifyN ZifyNat ZifyBool.
From Vise Require Import Bytes Errors Consts EngConsts Codec CacheModel StateModel NavModel NavSpec RenderModel
  VmModel EngineModel BytesProofs CodecProofs CacheProofs NavProofs RenderProofs VmProofs.
Local Open Scope N_scope.

(* ================================================================================== *)
(* Part A — codec                                                                      *)
(* ================================================================================== *)

Lemma take_app_le {A} (a c : list A) n : n <= len a -> take n (a ++ c) = take n a.
Proof.
  intros H. unfold take, len in *. rewrite firstn_app.
  replace (N.to_nat n - List.length a)%nat with O by lia. cbn [firstn]. apply app_nil_r.
Qed.
Lemma drop_app_le {A} (a c : list A) n : n <= len a -> drop n (a ++ c) = drop n a ++ c.
Proof.
  intros H. unfold drop, len in *. rewrite skipn_app.
  replace (N.to_nat n - List.length a)%nat with O by lia. reflexivity.
Qed.

Lemma sym_split_app b c s r : sym_split b = Ok (s, r) -> sym_split (b ++ c) = Ok (s, r ++ c).
Proof.
  unfold sym_split. destruct b as [|sz r0]; [cbn; discriminate|].
  change ((sz :: r0) ++ c) with (sz :: r0 ++ c).
  pose proof (len_cons sz r0) as H1. pose proof (len_cons sz (r0 ++ c)) as H2. pose proof (len_app r0 c) as H3.
  destruct (N.eqb_spec (len (sz :: r0)) 0); [lia|]. destruct (N.eqb_spec (len (sz :: r0 ++ c)) 0); [lia|].
  rewrite !go_index_0. cbn [obind].
  destruct (N.eqb_spec sz 0); [discriminate|].
  destruct (N.ltb_spec (len (sz :: r0)) (sz + 1)); [discriminate|].
  destruct (N.ltb_spec (len (sz :: r0 ++ c)) (sz + 1)); [lia|].
  rewrite !go_slice_ok by lia. rewrite !go_slice_from_ok by lia. cbn [obind].
  replace (1 + sz - 1) with sz by lia. rewrite !drop_S.
  change (drop 1 (sz :: r0 ++ c)) with (r0 ++ c). change (drop 1 (sz :: r0)) with r0.
  rewrite take_app_le by lia. rewrite drop_app_le by lia.
  intros Heq; injection Heq as <- <-. reflexivity.
Qed.

Lemma int_split_app b c n r : int_split b = Ok (n, r) -> int_split (b ++ c) = Ok (n, r ++ c).
Proof.
  unfold int_split. destruct b as [|l r0]; [cbn; discriminate|].
  change ((l :: r0) ++ c) with (l :: r0 ++ c).
  pose proof (len_cons l r0) as H1. pose proof (len_cons l (r0 ++ c)) as H2. pose proof (len_app r0 c) as H3.
  destruct (N.eqb_spec (len (l :: r0)) 0); [lia|]. destruct (N.eqb_spec (len (l :: r0 ++ c)) 0); [lia|].
  rewrite !go_index_0. cbn [obind]. rewrite !go_slice_from_cons1. cbn [obind].
  destruct (4 <? l); [discriminate|].
  destruct (N.ltb_spec (len r0) l); [discriminate|].
  destruct (N.ltb_spec (len (r0 ++ c)) l); [lia|].
  rewrite !go_slice_ok by lia. rewrite !go_slice_from_ok by lia. cbn [obind].
  rewrite !N.sub_0_r, !drop_0. rewrite take_app_le by lia. rewrite drop_app_le by lia.
  intros Heq; injection Heq as <- <-. reflexivity.
Qed.

Lemma parse_mode_app b c m r : parse_mode b = Ok (m, r) -> parse_mode (b ++ c) = Ok (m, r ++ c).
Proof.
  destruct b as [|x r0]; [cbn; discriminate|]. change ((x :: r0) ++ c) with (x :: r0 ++ c).
  rewrite !parse_mode_cons. intros H; inversion H; subst. reflexivity.
Qed.

Lemma op_split_app b c op r : op_split b = Ok (op, r) -> op_split (b ++ c) = Ok (op, r ++ c).
Proof.
  intros H. apply op_split_shape in H. destruct H as (h & l & -> & -> & Hmax).
  change ((h :: l :: r) ++ c) with (h :: l :: r ++ c). unfold op_split.
  pose proof (len_cons h (l :: r ++ c)). pose proof (len_cons l (r ++ c)).
  destruct (N.ltb_spec (len (h :: l :: r ++ c)) 2); [lia|].
  rewrite go_index_0. cbn [obind]. rewrite go_index_1. cbn [obind]. rewrite Hmax.
  rewrite go_slice_from_ok by lia. reflexivity.
Qed.

Ltac use_app c :=
  repeat match goal with
  | H : sym_split _ = Ok _ |- _ => apply (sym_split_app _ c) in H; rewrite H; clear H; cbn [obind]
  | H : int_split _ = Ok _ |- _ => apply (int_split_app _ c) in H; rewrite H; clear H; cbn [obind]
  | H : parse_mode _ = Ok _ |- _ => apply (parse_mode_app _ c) in H; rewrite H; clear H; cbn [obind]
  end.

Lemma parse_args_app op b c i r : parse_args op b = Ok (i, r) -> parse_args op (b ++ c) = Ok (i, r ++ c).
Proof.
  unfold parse_args, parse_sym_sig, parse_sig, parse_sym_len, parse_sym, parse_two_sym.
  repeat match goal with
  | |- (if ?t then _ else _) = _ -> _ =>
    destruct t; [intros Hargs; inv_ok; use_app c; reflexivity|]
  end.
  intros Hargs. inv_ok. reflexivity.
Qed.

(* decoding one instruction does not look past the instruction *)
Lemma decode_one_app b c i r : decode_one b = Ok (i, r) -> decode_one (b ++ c) = Ok (i, r ++ c).
Proof.
  unfold decode_one. intros H. apply obind_ok in H. destruct H as [[op r0] [Hop Hargs]].
  rewrite (op_split_app _ c _ _ Hop). cbn [obind]. apply parse_args_app. exact Hargs.
Qed.

Lemma decode_one_split b i r :
  decode_one b = Ok (i, r) -> exists op b1, op_split b = Ok (op, b1) /\ parse_args op b1 = Ok (i, r).
Proof.
  unfold decode_one. intros H. apply obind_ok in H. destruct H as [[op r0] [Hop Hargs]]. eauto.
Qed.

(* the opcode decides the constructor: what `run` tests with op =? op_HALT *)
Lemma parse_args_halt op b i r : parse_args op b = Ok (i, r) -> (op =? op_HALT) = true -> i = IHalt /\ r = b.
Proof.
  intros H E. apply N.eqb_eq in E. subst op.
  change (parse_args op_HALT b) with (@Ok err (instr * bytes) (IHalt, b)) in H. inversion H. auto.
Qed.

(* b is a sequence of complete instructions, each satisfying P *)
Inductive code_ok (P : instr -> Prop) : bytes -> Prop :=
| co_nil : code_ok P []
| co_cons : forall b i r, decode_one b = Ok (i, r) -> P i -> code_ok P r -> code_ok P b.

Lemma code_ok_app P a : code_ok P a -> forall c, code_ok P c -> code_ok P (a ++ c).
Proof.
  induction 1 as [|b i r Hd Hp Hr IH]; intros c Hc; [exact Hc|].
  eapply co_cons; [apply decode_one_app; exact Hd|exact Hp|apply IH; exact Hc].
Qed.

Lemma code_ok_inv P b i r : code_ok P b -> decode_one b = Ok (i, r) -> P i /\ code_ok P r.
Proof.
  intros H Hd. inversion H as [Hb|b0 i0 r0 Hd0 Hp Hr]; subst.
  - change (decode_one []) with (@Err err (instr * bytes) EGen) in Hd. discriminate.
  - rewrite Hd in Hd0. inversion Hd0; subst. auto.
Qed.

Lemma code_ok_decodes P b : code_ok P b -> b <> [] -> exists i r, decode_one b = Ok (i, r) /\ P i /\ code_ok P r.
Proof. intros H Hne. inversion H; subst; [contradiction|eauto]. Qed.

Lemma code_ok_weaken (P Q : instr -> Prop) b : (forall i, P i -> Q i) -> code_ok P b -> code_ok Q b.
Proof. intros HPQ. induction 1; [constructor|econstructor; eauto]. Qed.

(* encoded programs of well-formed instructions *)
Lemma code_ok_encode_prog (P : instr -> Prop) p : Forall wf_instr p -> Forall P p -> code_ok P (encode_prog p).
Proof.
  induction p as [|i p IH]; intros Hw Hp; [constructor|].
  inversion Hw; subst. inversion Hp; subst.
  unfold encode_prog. cbn [map List.concat]. fold (encode_prog p).
  eapply co_cons; [apply instr_roundtrip_lemma; assumption|assumption|apply IH; assumption].
Qed.
Lemma code_ok_encode (P : instr -> Prop) i : wf_instr i -> P i -> code_ok P (encode i).
Proof.
  intros Hw Hp. rewrite <- (app_nil_r (encode i)).
  eapply co_cons; [apply instr_roundtrip_lemma; exact Hw|exact Hp|constructor].
Qed.

(* ParseAll accepts exactly the non-empty complete sequences *)
Lemma code_ok_of_parse_fuel (P : instr -> Prop) f : forall b acc p,
  parse_all_fuel f b acc = Ok p -> exists q, p = rev acc ++ q /\ (Forall P q -> code_ok P b).
Proof.
  induction f as [|f IH]; intros b acc p H; cbn [parse_all_fuel] in H; [discriminate|].
  destruct (decode_one b) as [[i r]|e|s] eqn:D; try discriminate.
  destruct r as [|x r'].
  - inversion H; subst. exists [i]. split; [reflexivity|].
    intros Hq. inversion Hq; subst. eapply co_cons; [exact D|assumption|constructor].
  - apply IH in H. destruct H as [q [-> Hq]]. exists (i :: q). split.
    + cbn [rev]. rewrite <- app_assoc. reflexivity.
    + intros HF. inversion HF; subst. eapply co_cons; [exact D|assumption|auto].
Qed.
Lemma code_ok_of_parse (P : instr -> Prop) b p : parse_all b = Ok p -> Forall P p -> code_ok P b.
Proof.
  unfold parse_all. intros H HF. destruct (code_ok_of_parse_fuel P _ _ _ _ H) as [q [-> Hq]]. auto.
Qed.

(* ================================================================================== *)
(* Part B — the invariant                                                              *)
(* ================================================================================== *)

(* flags an instruction may name; level k = true (session consistency) also excludes CROAK,
   whose firing resets the cache to one scope and keeps the stack (finding K-C08-croak) *)
Definition iok (bits : N) (k : bool) (i : instr) : Prop :=
  match i with
  | ICatch _ f _ => f < bits
  | ICroak f _ => f < bits /\ k = false
  | _ => True
  end.
Definition cok (bits : N) (k : bool) : bytes -> Prop := code_ok (iok bits k).

(* scripted results of entry functions: flags in range; at level k = true the content is far
   from the 4 GiB wrap of the cache's uint32 usage counter *)
Definition fr_ok (bits cap : N) (k : bool) (fr : fres) : Prop :=
  Forall (fun f => f < bits) (fr_set fr) /\ Forall (fun f => f < bits) (fr_reset fr)
  /\ (k = true -> len (fr_content fr) + INPUT_LIMIT + cap < 4294967296).

Record rs_wf (bits cap : N) (k : bool) (rs : rsrc) : Prop := {
  rw_code : forall sym, match rs_code rs sym with Ok c => cok bits k c | Err _ => True | Panic _ => False end;
  rw_tpl : forall l sym, is_panic (rs_tpl rs l sym) = false;
  rw_menu : forall l t, is_panic (rs_menu rs l t) = false;
  rw_func : forall sym script, rs_func rs sym = Some script -> Forall (fr_ok bits cap k) script
}.

Definition input_small (st : state) : Prop :=
  match s_input st with Some i => len i <= INPUT_LIMIT | None => True end.

(* state + cache.  Level false: what excludes panics.  Level true: session consistency. *)
Definition SC (bits cap : N) (k : bool) (st : state) (ca : cache) : Prop :=
  s_bitsize st = bits /\ bits <= len (s_flags st) /\ cok bits k (s_code st) /\ c_frames ca <> [] /\
  (k = true -> nav_inv st ca /\ CInv ca /\ c_size ca = cap /\ input_small st).
Definition VInv (bits cap : N) (k : bool) (v : vmst) : Prop := SC bits cap k (v_st v) (v_ca v).

Ltac vsimp := cbn [v_st v_ca v_pg v_w v_log v_taint vset_st vset_ca vset_pg vset_w vlog vtaint set_page_err] in *.

(* changes that leave position and input alone *)
Definition flagish (st st' : state) : Prop :=
  s_path st' = s_path st /\ s_bitsize st' = s_bitsize st /\ len (s_flags st) <= len (s_flags st')
  /\ s_input st' = s_input st /\ s_code st' = s_code st.
Lemma flagish_refl st : flagish st st. Proof. unfold flagish. repeat split; lia. Qed.
Lemma flagish_trans a b c : flagish a b -> flagish b c -> flagish a c.
Proof. unfold flagish. intros (A1 & A2 & A3 & A4 & A5) (B1 & B2 & B3 & B4 & B5). repeat split; try congruence; lia. Qed.

Lemma len_set_nth_bit l n v : len (set_nth_bit n v l) = len l.
Proof. unfold len. rewrite VmProofs.length_set_nth_bit. reflexivity. Qed.
Lemma flagish_setf st i : flagish st (setf st i).
Proof. unfold flagish, setf. cbn [set_flags s_path s_bitsize s_flags s_input s_code]. rewrite len_set_nth_bit. repeat split; lia. Qed.
Lemma flagish_resetf st i : flagish st (resetf st i).
Proof. unfold flagish, resetf. cbn [set_flags s_path s_bitsize s_flags s_input s_code]. rewrite len_set_nth_bit. repeat split; lia. Qed.
Lemma flagish_set_language lk st c : flagish st (st_set_language lk st c).
Proof.
  unfold st_set_language. destruct c; destruct (lk _); unfold flagish; cbn [set_lang s_path s_bitsize s_flags s_input s_code]; repeat split; lia.
Qed.

Lemma SC_flagish bits cap k st st' ca : SC bits cap k st ca -> flagish st st' -> SC bits cap k st' ca.
Proof.
  intros (Hb & Hl & Hco & Hne & Hk) (F1 & F2 & F3 & F4 & F5).
  split; [congruence|]. split; [lia|]. split; [rewrite F5; exact Hco|]. split; [exact Hne|].
  intros Hkt. destruct (Hk Hkt) as (Hn & Hc & Hs & Hi).
  split; [unfold nav_inv in *; rewrite F1; exact Hn|]. split; [exact Hc|]. split; [exact Hs|].
  unfold input_small in *. rewrite F4. exact Hi.
Qed.

Lemma SC_cache bits cap k st ca ca' :
  SC bits cap k st ca -> c_frames ca' <> [] ->
  (k = true -> CInv ca -> c_size ca = cap -> cache_levels ca' = cache_levels ca /\ CInv ca' /\ c_size ca' = cap) ->
  SC bits cap k st ca'.
Proof.
  intros (Hb & Hl & Hco & Hne & Hk) Hne' H.
  split; [exact Hb|]. split; [exact Hl|]. split; [exact Hco|]. split; [exact Hne'|].
  intros Hkt. destruct (Hk Hkt) as (Hn & Hc & Hs & Hi). destruct (H Hkt Hc Hs) as (E & Hc' & Hs').
  split; [unfold nav_inv in *; rewrite E; exact Hn|]. split; [exact Hc'|]. split; [exact Hs'|exact Hi].
Qed.

(* ---- flags in range ------------------------------------------------------------------- *)
Lemma flag_in_range_ok st i : i < s_bitsize st -> s_bitsize st <= len (s_flags st) -> flag_in_range st i = true.
Proof.
  intros H1 H2. unfold flag_in_range, w32. apply andb_true_intro. split; [apply N.leb_le|apply N.ltb_lt; lia].
  pose proof (N.mod_le (i + 1) 4294967296 ltac:(lia)). lia.
Qed.

Lemma match_flag_ok bits cap k st ca i m : SC bits cap k st ca -> i < bits -> exists r, match_flag st i m = Ok r.
Proof.
  intros (Hb & Hl & _) Hi. unfold match_flag, get_flag. rewrite flag_in_range_ok by lia. cbn [obind]. eauto.
Qed.

Lemma apply_flags_ok bits set fl : forall st,
  Forall (fun f => f < bits) fl -> s_bitsize st = bits -> bits <= len (s_flags st) ->
  exists st', apply_flags set fl st = Ok st' /\ flagish st st'.
Proof.
  induction fl as [|f fl IH]; intros st HF Hb Hl; cbn [apply_flags].
  - exists st. split; [reflexivity|apply flagish_refl].
  - inversion HF as [|? ? Hf HF']; subst.
    destruct (is_writeable_flag f); [|apply IH; auto].
    assert (Hr : flag_in_range st f = true) by (apply flag_in_range_ok; lia).
    destruct set; unfold set_flag, reset_flag; rewrite Hr; cbn [obind].
    + fold (setf st f). pose proof (flagish_setf st f) as Hs. destruct Hs as (S1 & S2 & S3 & S4 & S5).
      destruct (IH (setf st f) HF' ltac:(congruence) ltac:(lia)) as (st' & E & Hfl).
      exists st'. split; [exact E|]. eapply flagish_trans; [apply flagish_setf|exact Hfl].
    + fold (resetf st f). pose proof (flagish_resetf st f) as Hs. destruct Hs as (S1 & S2 & S3 & S4 & S5).
      destruct (IH (resetf st f) HF' ltac:(congruence) ltac:(lia)) as (st' & E & Hfl).
      exists st'. split; [exact E|]. eapply flagish_trans; [apply flagish_resetf|exact Hfl].
Qed.

(* ---- cache pieces ------------------------------------------------------------------------ *)
Lemma update_nth_length {A} (g : A -> A) : forall l n, List.length (update_nth n g l) = List.length l.
Proof. induction l as [|x l IH]; intros [|n]; cbn [update_nth List.length]; auto. Qed.
Lemma levels_update ca n g : len (update_nth n g (c_frames ca)) = cache_levels ca.
Proof. unfold cache_levels, len. rewrite update_nth_length. reflexivity. Qed.

Lemma cache_get_no_panic ca k : is_panic (cache_get ca k) = false.
Proof. unfold cache_get. destruct (frame_of ca k); reflexivity. Qed.

Lemma cache_add_safe ca k v l :
  c_frames ca <> [] ->
  match cache_add ca k v l with
  | Ok ca' => cache_levels ca' = cache_levels ca
  | Err _ => True
  | Panic _ => False
  end.
Proof.
  intros Hne. unfold cache_add.
  destruct ((0 <? l) && (l <? len v)); [exact I|].
  destruct (frame_of ca k) as [i|]; [destruct (i =? top_index ca); exact I|].
  destruct ((0 <? len v) && ((if 0 <? len v then check_capacity (c_size ca) (c_use ca) v else 0) =? 0)); [exact I|].
  destruct (c_frames ca) as [|f fs] eqn:E; [contradiction|].
  unfold cache_levels at 1. cbn [c_frames]. rewrite <- E. apply levels_update.
Qed.

Lemma cache_update_levels ca k v : cache_levels (fst (cache_update_raw ca k v)) = cache_levels ca.
Proof.
  unfold cache_update_raw.
  destruct ((0 <? match alookup k (c_sizes ca) with Some l => l | None => 0 end) && _); [reflexivity|].
  destruct (frame_of ca k) as [i|]; [|reflexivity].
  match goal with |- context [if ?c then _ else _] => destruct c end; cbn [fst]; unfold cache_levels; cbn [c_frames];
    unfold len; rewrite ?update_nth_length; reflexivity.
Qed.

Lemma levels_ne_of ca ca' : c_frames ca <> [] -> cache_levels ca' = cache_levels ca -> c_frames ca' <> [].
Proof. intros H E. apply levels_ne. rewrite E. apply levels_ne. exact H. Qed.

Lemma pops_CInv n : forall ca, CInv ca -> CInv (pops n ca) /\ c_size (pops n ca) = c_size ca.
Proof.
  induction n as [|n IH]; intros ca Hc; cbn [pops]; [auto|].
  destruct (cache_pop ca) as [ca'|e|s] eqn:E; [|auto|auto].
  destruct (cache_pop_spec ca ca' Hc E) as (Hc' & Hs & _).
  destruct (IH ca' Hc') as (H1 & H2). split; [exact H1|congruence].
Qed.

Lemma page_map_no_panic c pg key : is_panic (page_map c pg key) = false.
Proof.
  unfold page_map. pose proof (cache_get_no_panic c key) as Hg.
  destruct (cache_get c key); cbn [obind]; try reflexivity; [|discriminate].
  pose proof (cache_reserved_no_panic c key) as Hr.
  destruct (cache_reserved c key); cbn [obind]; try reflexivity; [|discriminate].
  match goal with |- context [if ?c then _ else _] => destruct c end; reflexivity.
Qed.

(* ---- navigation ----------------------------------------------------------------------------- *)
Lemma apply_SC bits cap k t st ca st' ca' sym s :
  SC bits cap k st ca -> apply_target t st ca = (st', ca', sym, s) ->
  is_spanic s = false /\ SC bits cap k st' ca'.
Proof.
  intros HSC H. pose proof HSC as (Hb & Hl & Hco & Hne & Hk).
  split; [pose proof (apply_never_panics t st ca) as Hp; rewrite H in Hp; exact Hp|].
  assert (Hcase : s = SOk \/ s <> SOk) by (destruct s; [left; reflexivity|right; discriminate ..]).
  destruct Hcase as [->|Hs].
  - destruct (apply_ok_exact _ _ _ _ _ _ Hne H) as (_ & _ & Hst & Hca).
    assert (E1 : s_bitsize st' = s_bitsize st) by (rewrite Hst; reflexivity).
    assert (E2 : s_flags st' = s_flags st) by (rewrite Hst; reflexivity).
    assert (E3 : s_input st' = s_input st) by (rewrite Hst; reflexivity).
    assert (E4 : s_code st' = s_code st) by (rewrite Hst; reflexivity).
    assert (Hne' : c_frames ca' <> []).
    { subst ca'. destruct (valid_sym_b t); [|apply pops_ne; exact Hne].
      unfold cache_push. cbn [c_frames]. destruct (c_frames ca); discriminate. }
    split; [congruence|]. split; [rewrite E2; exact Hl|]. split; [rewrite E4; exact Hco|]. split; [exact Hne'|].
    intros Hkt. destruct (Hk Hkt) as (Hn & Hc & Hsz & Hi).
    split; [apply (apply_levels _ _ _ _ _ _ _ Hn H)|].
    assert (Hcc : CInv ca' /\ c_size ca' = c_size ca).
    { subst ca'. destruct (valid_sym_b t); [apply cache_push_inv; exact Hc|apply pops_CInv; exact Hc]. }
    destruct Hcc as [Hc' Hsz']. split; [exact Hc'|]. split; [congruence|].
    unfold input_small in *. rewrite E3. exact Hi.
  - destruct (apply_fail_unchanged _ _ _ _ _ _ _ Hne H Hs) as [-> ->]. exact HSC.
Qed.

(* ================================================================================== *)
(* Part C — handlers                                                                   *)
(* ================================================================================== *)

Definition hsafe (bits cap : N) (k : bool) (r : hres) : Prop :=
  is_spanic (snd r) = false /\ VInv bits cap k (fst (fst r)) /\ cok bits k (snd (fst r)).
Lemma hsafe_mk bits cap k v b s : is_spanic s = false -> VInv bits cap k v -> cok bits k b -> hsafe bits cap k (v, b, s).
Proof. intros. unfold hsafe. cbn [fst snd]. auto. Qed.

Lemma nth_fres_In script n fr : nth_fres script n = Some fr -> In fr script.
Proof. unfold nth_fres. destruct script; [discriminate|]. apply nth_error_In. Qed.

Lemma refresh_safe bits cap k rs lang key v :
  rs_wf bits cap k rs -> VInv bits cap k v ->
  is_spanic (snd (refresh rs lang key v)) = false
  /\ VInv bits cap k (fst (fst (refresh rs lang key v)))
  /\ (k = true -> snd (refresh rs lang key v) = SOk -> len (snd (fst (refresh rs lang key v))) + cap < 4294967296).
Proof.
  intros Hrs HV. unfold refresh.
  destruct (rs_func rs key) as [script|] eqn:Ef; [|cbn [fst snd]; split; [reflexivity|]; split; [exact HV|intros _ Hx; discriminate]].
  destruct (nth_fres script _) as [fr|] eqn:En; [|cbn [fst snd]; split; [reflexivity|]; split; [exact HV|intros _ Hx; discriminate]].
  assert (Hfr : fr_ok bits cap k fr).
  { pose proof (rw_func _ _ _ _ Hrs key script Ef) as HF. rewrite Forall_forall in HF. apply HF. eapply nth_fres_In; exact En. }
  cbv zeta. vsimp.
  destruct (fr_fail fr).
  - cbn [fst snd]. split; [reflexivity|]. split; [|intros _ Hx; discriminate].
    unfold VInv; vsimp. eapply SC_flagish; [exact HV|apply flagish_setf].
  - destruct Hfr as (Hset & Hreset & Hsmall). pose proof HV as (Hb & Hl & Hco & Hne & Hk).
    destruct (apply_flags_ok bits false (fr_reset fr) (v_st v) Hreset Hb Hl) as (st1 & E1 & F1).
    rewrite E1. pose proof F1 as (A1 & A2 & A3 & A4 & A5).
    destruct (apply_flags_ok bits true (fr_set fr) st1 Hset ltac:(congruence) ltac:(lia)) as (st2 & E2 & F2).
    rewrite E2. cbn [fst snd]. split; [reflexivity|]. split.
    + unfold VInv; vsimp. eapply SC_flagish; [exact HV|].
      eapply flagish_trans; [exact F1|]. eapply flagish_trans; [exact F2|].
      destruct (getf st2 FLAG_LANG); [apply flagish_set_language|apply flagish_refl].
    + intros Hkt _. destruct (Hk Hkt) as (_ & _ & _ & Hi). specialize (Hsmall Hkt). unfold input_small in Hi.
      rewrite len_app. destruct (fr_echo fr); [|rewrite len_nil; lia].
      destruct (s_input (v_st v)); [lia|rewrite len_nil; lia].
Qed.

Lemma fetch_safe bits cap k rs sym v :
  rs_wf bits cap k rs -> VInv bits cap k v ->
  VInv bits cap k (fst (fetch_code rs sym v))
  /\ match snd (fetch_code rs sym v) with Ok c => cok bits k c | Err _ => True | Panic _ => False end.
Proof.
  intros Hrs HV. unfold fetch_code. cbn [fst snd]. split; [destruct (rs_observed rs); exact HV|].
  apply (rw_code _ _ _ _ Hrs).
Qed.

Lemma run_catch_safe bits cap k rs sym sig mode b v :
  rs_wf bits cap k rs -> VInv bits cap k v -> sig < bits -> cok bits k b ->
  hsafe bits cap k (run_catch rs sym sig mode b v).
Proof.
  intros Hrs HV Hsig Hb. unfold run_catch.
  destruct (match_flag_ok _ _ _ _ _ sig mode HV Hsig) as [r ->].
  destruct r; [|apply hsafe_mk; auto].
  destruct (apply_target sym (v_st v) (v_ca v)) as [[[st' ca'] nsym] s] eqn:Ea.
  destruct (apply_SC _ _ _ _ _ _ _ _ _ _ HV Ea) as [Hp HSC].
  assert (HV1 : VInv bits cap k (vset_ca (vset_st v st') ca')) by exact HSC.
  destruct s; try discriminate Hp; try (apply hsafe_mk; auto; fail).
  pose proof (fetch_safe bits cap k rs nsym (vlog (vset_ca (vset_st v st') ca') (EvMove 2 sym nsym)) Hrs HV1) as [F1 F2].
  destruct (fetch_code rs nsym _) as [v2 c]. cbn [fst snd] in F1, F2.
  destruct c; [apply hsafe_mk; auto|apply hsafe_mk; auto|contradiction].
Qed.

Lemma cache_reset_ne ca : c_frames ca <> [] -> c_frames (cache_reset ca) <> [].
Proof. intros H. unfold cache_reset. destruct (c_frames ca) eqn:E; [contradiction|]. cbn [c_frames]. discriminate. Qed.

Lemma run_croak_safe bits cap k sep sig mode b v :
  VInv bits cap k v -> sig < bits -> k = false -> cok bits k b ->
  hsafe bits cap k (run_croak sep sig mode b v).
Proof.
  intros HV Hsig Hk Hb. unfold run_croak.
  destruct (match_flag_ok _ _ _ _ _ sig mode HV Hsig) as [r ->].
  destruct r; [|apply hsafe_mk; auto].
  apply hsafe_mk; [reflexivity| |constructor].
  unfold VInv; vsimp. destruct HV as (H1 & H2 & H2' & H3 & H4).
  split; [exact H1|]. split; [exact H2|]. split; [exact H2'|]. split; [apply cache_reset_ne; exact H3|]. intros Hx. congruence.
Qed.

Lemma run_load_safe bits cap k rs lang sym sz b v :
  rs_wf bits cap k rs -> VInv bits cap k v -> cok bits k b ->
  hsafe bits cap k (run_load rs lang sym sz b v).
Proof.
  intros Hrs HV Hb. unfold run_load.
  pose proof (cache_get_no_panic (v_ca v) sym) as Hg.
  destruct (cache_get (v_ca v) sym); [apply hsafe_mk; auto| |discriminate].
  pose proof (refresh_safe bits cap k rs lang sym v Hrs HV) as (R1 & R2 & R3).
  destruct (refresh rs lang sym v) as [[v1 content] s]. cbn [fst snd] in R1, R2, R3.
  destruct s; try discriminate R1; try (apply hsafe_mk; auto; fail).
  pose proof R2 as (Hb1 & Hl1 & Hco1 & Hne1 & Hk1).
  pose proof (cache_add_safe (v_ca v1) sym content (w16 sz) Hne1) as Ha.
  destruct (cache_add (v_ca v1) sym content (w16 sz)) as [ca'|e'|n] eqn:Eadd; [|destruct e'; apply hsafe_mk; auto|contradiction].
  apply hsafe_mk; [reflexivity| |exact Hb].
  unfold VInv; vsimp. eapply SC_cache; [exact R2|eapply levels_ne_of; eauto|].
  intros Hkt Hc Hsz. split; [exact Ha|].
  specialize (R3 Hkt eq_refl).
  assert (Hlt : len content + c_size (v_ca v1) < 4294967296) by lia.
  destruct (cache_add_inv _ _ _ _ _ Hc Hlt Eadd) as [Hc' Hs']. split; [exact Hc'|congruence].
Qed.

Lemma run_reload_safe bits cap k rs lang sym b v :
  rs_wf bits cap k rs -> VInv bits cap k v -> cok bits k b ->
  hsafe bits cap k (run_reload rs lang sym b v).
Proof.
  intros Hrs HV Hb. unfold run_reload.
  pose proof (refresh_safe bits cap k rs lang sym v Hrs HV) as (R1 & R2 & R3).
  destruct (refresh rs lang sym v) as [[v1 content] s]. cbn [fst snd] in R1, R2, R3.
  destruct s; try discriminate R1; try (apply hsafe_mk; auto; fail).
  pose proof R2 as (Hb1 & Hl1 & Hco1 & Hne1 & Hk1).
  pose proof (cache_update_levels (v_ca v1) sym content) as Hlv.
  assert (HV2 : VInv bits cap k (vset_ca v1 (fst (cache_update_raw (v_ca v1) sym content)))).
  { unfold VInv; vsimp. eapply SC_cache; [exact R2|eapply levels_ne_of; eauto|].
    intros Hkt Hc Hsz. split; [exact Hlv|].
    specialize (R3 Hkt eq_refl).
    assert (Hlt : len content + c_size (v_ca v1) < 4294967296) by lia.
    pose proof (cache_update_raw_spec (v_ca v1) sym content Hc Hlt) as Hsp.
    cbv zeta in Hsp. destruct Hsp as (S1 & S2 & _). split; [exact S1|congruence]. }
  destruct (cache_update_raw (v_ca v1) sym content) as [ca' oe]. cbn [fst] in HV2.
  pose proof (page_map_no_panic (v_ca (vset_ca v1 ca')) (v_pg (vset_ca v1 ca')) sym) as Hpm.
  destruct (page_map (v_ca (vset_ca v1 ca')) (v_pg (vset_ca v1 ca')) sym); [|apply hsafe_mk; auto|discriminate].
  apply hsafe_mk; auto.
Qed.

Lemma run_map_safe bits cap k sym b v :
  VInv bits cap k v -> cok bits k b -> hsafe bits cap k (run_map sym b v).
Proof.
  intros HV Hb. unfold run_map. pose proof (page_map_no_panic (v_ca v) (v_pg v) sym) as Hpm.
  destruct (page_map (v_ca v) (v_pg v) sym); [apply hsafe_mk; auto|apply hsafe_mk; auto|discriminate].
Qed.

Lemma run_move_safe bits cap k rs sep sym b v :
  rs_wf bits cap k rs -> VInv bits cap k v -> cok bits k b ->
  hsafe bits cap k (run_move rs sep sym b v).
Proof.
  intros Hrs HV Hb. unfold run_move.
  destruct (apply_target sym (v_st v) (v_ca v)) as [[[st' ca'] nsym] s] eqn:Ea.
  destruct (apply_SC _ _ _ _ _ _ _ _ _ _ HV Ea) as [Hp HSC].
  assert (HV1 : VInv bits cap k (vset_ca (vset_st v st') ca')) by exact HSC.
  destruct s; try discriminate Hp; try (apply hsafe_mk; auto; fail).
  pose proof (fetch_safe bits cap k rs nsym (vlog (vset_ca (vset_st v st') ca') (EvMove 0 sym nsym)) Hrs HV1) as [F1 F2].
  destruct (fetch_code rs nsym _) as [v2 c]. cbn [fst snd] in F1, F2.
  destruct c; [apply hsafe_mk; auto|apply hsafe_mk; auto|contradiction].
  apply code_ok_app; assumption.
Qed.

Lemma run_incmp_safe bits cap k rs sep dest sel b v :
  rs_wf bits cap k rs -> VInv bits cap k v -> cok bits k b ->
  hsafe bits cap k (run_incmp rs sep dest sel b v).
Proof.
  intros Hrs HV Hb. unfold run_incmp. cbv zeta.
  destruct (getf (v_st v) FLAG_INMATCH && getf (v_st v) FLAG_READIN); [apply hsafe_mk; auto|].
  set (st0 := if getf (v_st v) FLAG_INMATCH then v_st v else setf (v_st v) FLAG_READIN).
  assert (F0 : flagish (v_st v) st0) by (unfold st0; destruct (getf (v_st v) FLAG_INMATCH); [apply flagish_refl|apply flagish_setf]).
  assert (HV0 : VInv bits cap k (vset_st v st0)) by (unfold VInv; vsimp; eapply SC_flagish; eauto).
  destruct (s_input st0) as [input|]; [|apply hsafe_mk; auto].
  destruct ((negb (getf (v_st v) FLAG_INMATCH) && bytes_eqb sel star) || bytes_eqb sel input); [|apply hsafe_mk; auto].
  assert (HS1 : SC bits cap k (resetf (setf st0 FLAG_INMATCH) FLAG_READIN) (v_ca (vset_st v st0))).
  { eapply SC_flagish; [exact HV0|]. vsimp. eapply flagish_trans; [apply flagish_setf|apply flagish_resetf]. }
  destruct (apply_target dest (resetf (setf st0 FLAG_INMATCH) FLAG_READIN) (v_ca (vset_st v st0))) as [[[st' ca'] nsym] s] eqn:Ea.
  destruct (apply_SC _ _ _ _ _ _ _ _ _ _ HS1 Ea) as [Hp HSC].
  assert (HV1 : VInv bits cap k (vset_ca (vset_st (vset_st v st0) st') ca')) by exact HSC.
  assert (HV1' : VInv bits cap k (vset_st (vset_ca (vset_st (vset_st v st0) st') ca') (setf st' FLAG_READIN))).
  { unfold VInv; vsimp. eapply SC_flagish; [exact HSC|apply flagish_setf]. }
  destruct s as [|e m| |]; try discriminate Hp; try (apply hsafe_mk; auto; fail).
  - match goal with |- context [fetch_code rs nsym ?vv] =>
      assert (HVV : VInv bits cap k vv) by exact HSC;
      pose proof (fetch_safe bits cap k rs nsym vv Hrs HVV) as [F1 F2];
      destruct (fetch_code rs nsym vv) as [v3 c] end.
    cbn [fst snd] in F1, F2.
    destruct c; [apply hsafe_mk; auto|apply hsafe_mk; auto|contradiction].
    apply code_ok_app; assumption.
  - destruct e; apply hsafe_mk; auto.
Qed.

Lemma dead_check_safe bits cap k v :
  VInv bits cap k v -> hsafe bits cap k (dead_check v).
Proof.
  intros HV. unfold dead_check. cbv zeta.
  assert (Hmc : cok bits k move_catch_code).
  { unfold move_catch_code. apply code_ok_encode; [|exact I]. vm_compute. repeat constructor; discriminate. }
  destruct (negb (getf (v_st v) FLAG_READIN)).
  - apply hsafe_mk; [reflexivity| |constructor]. unfold VInv; vsimp. eapply SC_flagish; [exact HV|apply flagish_setf].
  - destruct (getf (v_st v) FLAG_TERMINATE); [apply hsafe_mk; auto; constructor|].
    destruct (where_sym (v_st v)); [apply hsafe_mk; auto; constructor|].
    destruct (bytes_eqb _ catch_sym); apply hsafe_mk; auto; constructor.
Qed.

Lemma wf_catch_sym : wf_sym catch_sym.
Proof. vm_compute. repeat constructor; discriminate. Qed.
Lemma cok_move_catch bits k : cok bits k move_catch_code.
Proof. unfold move_catch_code. apply code_ok_encode; [exact wf_catch_sym|exact I]. Qed.

Lemma exec_instr_safe bits cap k rs sep lang i b v :
  rs_wf bits cap k rs -> VInv bits cap k v -> iok bits k i -> cok bits k b ->
  hsafe bits cap k (exec_instr rs sep lang i b v).
Proof.
  intros Hrs HV Hi Hb. destruct i; cbn [exec_instr iok] in *; try (apply hsafe_mk; auto; fail).
  - apply run_catch_safe; assumption.
  - destruct Hi. apply run_croak_safe; assumption.
  - apply run_load_safe; assumption.
  - apply run_reload_safe; assumption.
  - apply run_map_safe; assumption.
  - apply run_move_safe; assumption.
  - apply hsafe_mk; auto. unfold VInv; vsimp. eapply SC_flagish; [exact HV|apply flagish_setf].
  - apply run_incmp_safe; assumption.
Qed.

(* ================================================================================== *)
(* Part D — run, vm_render                                                             *)
(* ================================================================================== *)

Lemma run_safe bits cap k rs sep : rs_wf bits cap k rs ->
  forall fuel lang b v, VInv bits cap k v -> cok bits k b -> hsafe bits cap k (run fuel rs sep lang b v).
Proof.
  intros Hrs. induction fuel as [|fuel IH]; intros lang b v HV Hb; [apply hsafe_mk; auto|].
  cbn [run].
  destruct (getf (v_st v) FLAG_TERMINATE); [apply hsafe_mk; auto; constructor|].
  set (st1 := resetf (v_st v) FLAG_LANG).
  set (lang1 := if getf (v_st v) FLAG_LANG then match s_lang st1 with Some l => Some l | None => lang end else lang).
  set (st2 := resetf st1 FLAG_WAIT).
  set (st3 := if getf st1 FLAG_WAIT then resetf st2 FLAG_INMATCH else st2).
  set (pg1 := if getf st1 FLAG_WAIT then upd_menu menu_reset (page_reset (page_with_error (v_pg v) None)) else v_pg v).
  set (v0 := vset_pg (vset_st v (setf st3 FLAG_DIRTY)) pg1).
  assert (HV0 : VInv bits cap k v0).
  { unfold VInv, v0; vsimp. eapply SC_flagish; [exact HV|].
    eapply flagish_trans; [apply (flagish_resetf _ FLAG_LANG)|]. fold st1.
    eapply flagish_trans; [apply (flagish_resetf _ FLAG_WAIT)|]. fold st2.
    eapply flagish_trans; [|apply flagish_setf].
    unfold st3. destruct (getf st1 FLAG_WAIT); [apply flagish_resetf|apply flagish_refl]. }
  clearbody v0. clear HV.
  destruct b as [|x b'] eqn:Eb.
  { (* empty code: op_split fails *)
    change (op_split []) with (@Err err (N * bytes) EGen). cbv iota. apply hsafe_mk; auto. }
  rewrite <- Eb in *. assert (Hne : b <> []) by (rewrite Eb; discriminate). clear Eb.
  destruct (code_ok_decodes _ _ Hb Hne) as (i & r & Hd & Hi & Hr).
  destruct (decode_one_split _ _ _ Hd) as (op & b1 & Hop & Hpa).
  rewrite Hop. rewrite Hpa.
  pose proof (exec_instr_safe bits cap k rs sep lang1 i r (vlog v0 (EvInstr op)) Hrs HV0 Hi Hr) as (X1 & X2 & X3).
  destruct (exec_instr rs sep lang1 i r (vlog v0 (EvInstr op))) as [[v1 b2] s]. cbn [fst snd] in X1, X2, X3.
  destruct (op =? op_HALT); [apply hsafe_mk; auto|].
  (* runErrCheck *)
  set (chk := match s with
              | SErr e msg =>
                if getf (v_st (set_page_err v1 msg)) FLAG_LOADFAIL && negb (bytes_eqb (where_sym (v_st (set_page_err v1 msg))) catch_sym)
                then (set_page_err v1 msg, move_catch_code, SOk) else (set_page_err v1 msg, b2, s)
              | _ => (v1, b2, s)
              end).
  assert (Hchk : hsafe bits cap k chk).
  { unfold chk. destruct s as [|e msg|n|]; try (apply hsafe_mk; auto; fail).
    assert (HVe : VInv bits cap k (set_page_err v1 msg)) by (destruct msg; exact X2).
    destruct (_ && _); apply hsafe_mk; auto. apply cok_move_catch. }
  destruct chk as [[v2 b3] s2]. destruct Hchk as (Y1 & Y2 & Y3). cbn [fst snd] in Y1, Y2, Y3.
  destruct s2; try (apply hsafe_mk; auto; fail).
  destruct b3 as [|y b3'].
  - pose proof (dead_check_safe bits cap k v2 Y2) as (Z1 & Z2 & Z3).
    destruct (dead_check v2) as [[v3 b4] s3]. cbn [fst snd] in Z1, Z2, Z3.
    destruct s3; try (apply hsafe_mk; auto; fail).
    destruct b4; [apply hsafe_mk; auto|apply IH; assumption].
  - apply IH; assumption.
Qed.

Definition rr_np (r : rres) : Prop := match r with RRPanic _ => False | _ => True end.

Lemma rres_of_np (o : res bytes) : is_panic o = false -> rr_np (rres_of o).
Proof. destruct o; cbn; [auto|auto|discriminate]. Qed.

Lemma vm_render_safe bits cap k rs sep fuel lang v :
  rs_wf bits cap k rs -> VInv bits cap k v ->
  rr_np (snd (vm_render fuel rs sep lang v)) /\ VInv bits cap k (fst (vm_render fuel rs sep lang v)).
Proof.
  intros Hrs HV. unfold vm_render. cbv zeta.
  destruct (negb (getf (v_st v) FLAG_DIRTY)); [cbn [fst snd]; split; [exact I|exact HV]|].
  assert (HV0 : VInv bits cap k (vset_st v (resetf (v_st v) FLAG_DIRTY))).
  { unfold VInv; vsimp. eapply SC_flagish; [exact HV|apply flagish_resetf]. }
  set (v0 := vset_st v (resetf (v_st v) FLAG_DIRTY)) in *. clearbody v0. clear HV.
  destruct (where_sym (v_st v0)) as [|c0 sym0]; [cbn [fst snd]; split; [exact I|exact HV0]|].
  match goal with |- context [page_render ?c ?gt ?gm ?pg ?sym ?idx] =>
    pose proof (page_render_no_panic c gt gm pg sym idx (fun q => rw_tpl _ _ _ _ Hrs lang q) (fun q => rw_menu _ _ _ _ Hrs lang q)) as Hpr;
    destruct (page_render c gt gm pg sym idx) as [r pg'] end.
  cbn [fst] in Hpr.
  assert (Hdefault : rr_np (rres_of r) /\ VInv bits cap k (vlog (vset_pg v0 pg') (EvRender (c0 :: sym0) (s_idx (v_st v0)) lang))).
  { split; [apply rres_of_np; exact Hpr|exact HV0]. }
  destruct r as [out|e|n]; [exact Hdefault| |exact Hdefault].
  destruct e; try exact Hdefault.
  match goal with |- context [run fuel rs sep lang move_catch_code ?vv] =>
    assert (HVV : VInv bits cap k vv) by exact HV0;
    pose proof (run_safe bits cap k rs sep Hrs fuel lang move_catch_code vv HVV (cok_move_catch bits k)) as (R1 & R2 & R3);
    destruct (run fuel rs sep lang move_catch_code vv) as [[v1 b1] s] end.
  cbn [fst snd] in R1, R2, R3.
  destruct s; try discriminate R1; try (cbn [fst snd]; split; [exact I|exact R2]).
  - match goal with |- context [page_render ?c ?gt ?gm ?pg ?sym ?idx] =>
      pose proof (page_render_no_panic c gt gm pg sym idx (fun q => rw_tpl _ _ _ _ Hrs lang q) (fun q => rw_menu _ _ _ _ Hrs lang q)) as Hpr1;
      destruct (page_render c gt gm pg sym idx) as [r1 pg1] end.
    cbn [fst snd] in *. split; [apply rres_of_np; exact Hpr1|exact R2].
  - match goal with |- context [page_render ?c ?gt ?gm ?pg ?sym ?idx] =>
      pose proof (page_render_no_panic c gt gm pg sym idx (fun q => rw_tpl _ _ _ _ Hrs lang q) (fun q => rw_menu _ _ _ _ Hrs lang q)) as Hpr1;
      destruct (page_render c gt gm pg sym idx) as [r1 pg1] end.
    cbn [fst snd] in *. split; [apply rres_of_np; exact Hpr1|exact R2].
Qed.

(* ================================================================================== *)
(* Part E — engine                                                                     *)
(* ================================================================================== *)

Lemma SC_set_code bits cap k st ca b : SC bits cap k st ca -> cok bits k b -> SC bits cap k (set_code st b) ca.
Proof.
  intros (Hb & Hl & Hco & Hne & Hk) Hc.
  split; [exact Hb|]. split; [exact Hl|]. split; [exact Hc|]. split; [exact Hne|exact Hk].
Qed.

Lemma SC_set_input_raw bits cap k st ca i :
  SC bits cap k st ca -> (k = true -> match i with Some x => len x <= INPUT_LIMIT | None => True end) ->
  SC bits cap k (set_input_raw st i) ca.
Proof.
  intros (Hb & Hl & Hco & Hne & Hk) Hi.
  split; [exact Hb|]. split; [exact Hl|]. split; [exact Hco|]. split; [exact Hne|].
  intros Hkt. destruct (Hk Hkt) as (K1 & K2 & K3 & K4).
  split; [exact K1|]. split; [exact K2|]. split; [exact K3|]. exact (Hi Hkt).
Qed.

Lemma set_input_SC bits cap k st ca i :
  SC bits cap k st ca ->
  match set_input st i with Ok st' => SC bits cap k st' ca | Err _ => True | Panic _ => False end.
Proof.
  intros H. unfold set_input. destruct i as [x|].
  - destruct (N.ltb_spec INPUT_LIMIT (len x)); [exact I|]. apply SC_set_input_raw; [exact H|intros _; assumption].
  - apply SC_set_input_raw; [exact H|intros _; exact I].
Qed.

(* State.Up followed by Cache.Pop (engine reset, runFirst's deferred calls) *)
Lemma up_pop_SC bits cap k st ca sym st' :
  SC bits cap k st ca -> st_up st = Ok (sym, st') ->
  SC bits cap k st' (match cache_pop ca with Ok c => c | _ => ca end)
  /\ s_path st' = removelast (s_path st) /\ s_path st <> [].
Proof.
  intros (Hb & Hl & Hco & Hne & Hk) H. unfold st_up in H.
  destruct (s_path st) as [|a l] eqn:Ep; [discriminate|]. injection H as _ <-.
  destruct (pop_levels ca Hne) as (ca' & Hp & Hne' & Hlv). rewrite Hp.
  split; [|split; [reflexivity|discriminate]].
  split; [exact Hb|]. split; [exact Hl|]. split; [exact Hco|]. split; [exact Hne'|].
  intros Hkt. destruct (Hk Hkt) as (K1 & K2 & K3 & K4).
  destruct (cache_pop_spec ca ca' K2 Hp) as (C1 & C2 & _).
  split; [|split; [exact C1|split; [congruence|exact K4]]].
  unfold nav_inv in *. cbn [set_path_idx s_path]. rewrite Ep in K1.
  pose proof (length_removelast (a :: l) ltac:(discriminate)) as Hrl. cbn [removelast] in Hrl.
  unfold len in *. destruct (cache_levels ca =? 1) eqn:E1; cbv iota in Hlv; lia.
Qed.

Lemma st_top_no_panic st : is_panic (st_top st) = false.
Proof. unfold st_top. destruct (s_path st) as [|a [|b l]]; reflexivity. Qed.
Lemma st_up_no_panic st : is_panic (st_up st) = false.
Proof. unfold st_up. destruct (s_path st); reflexivity. Qed.

Lemma unwind_SC bits cap k fuel : forall st ca,
  SC bits cap k st ca -> (List.length (s_path st) <= fuel)%nat ->
  is_spanic (snd (unwind fuel st ca)) = false
  /\ SC bits cap k (fst (fst (unwind fuel st ca))) (snd (fst (unwind fuel st ca)))
  /\ (snd (unwind fuel st ca) = SOk -> s_path (fst (fst (unwind fuel st ca))) = []).
Proof.
  induction fuel as [|fuel IH]; intros st ca HSC Hlen; cbn [unwind].
  - cbn [fst snd]. split; [reflexivity|]. split; [exact HSC|]. intros _. destruct (s_path st); [reflexivity|cbn in Hlen; lia].
  - pose proof (st_top_no_panic st) as Ht.
    destruct (st_top st) as [is_top|e|n] eqn:Etop; [|cbn [fst snd]; split; [reflexivity|split; [exact HSC|discriminate]]|discriminate].
    pose proof (st_up_no_panic st) as Hu.
    destruct (st_up st) as [[sym st']|e|n] eqn:Eup; [|cbn [fst snd]; split; [reflexivity|split; [exact HSC|discriminate]]|discriminate].
    destruct (up_pop_SC _ _ _ _ _ _ _ HSC Eup) as (HSC' & Hpath & Hpne).
    destruct is_top.
    + cbn [fst snd]. split; [reflexivity|]. split; [exact HSC'|]. intros _.
      rewrite Hpath. unfold st_top in Etop. destruct (s_path st) as [|a [|b l]]; try discriminate. reflexivity.
    + apply IH; [exact HSC'|]. rewrite Hpath.
      pose proof (length_removelast (s_path st) Hpne). lia.
Qed.

Lemma eng_reset_inner_safe bits cap k v :
  VInv bits cap k v ->
  is_spanic (snd (eng_reset_inner v)) = false /\ VInv bits cap k (fst (eng_reset_inner v)).
Proof.
  intros HV. unfold eng_reset_inner.
  pose proof (unwind_SC bits cap k (S (List.length (s_path (v_st v)))) (v_st v) (v_ca v) HV ltac:(lia)) as (U1 & U2 & U3).
  destruct (unwind (S (List.length (s_path (v_st v)))) (v_st v) (v_ca v)) as [[st ca] s]. cbn [fst snd] in U1, U2, U3.
  destruct s; try discriminate U1; cbn [fst snd]; try (split; [reflexivity|exact U2]).
  split; [reflexivity|]. unfold VInv; vsimp.
  assert (Er : st_restart st = Err EGen) by (unfold st_restart; rewrite (U3 eq_refl); reflexivity).
  rewrite Er. eapply SC_flagish; [exact U2|].
  eapply flagish_trans; [apply flagish_resetf|apply flagish_resetf].
Qed.

Definition EInv (bits cap : N) (k : bool) (e : engine) : Prop := VInv bits cap k (e_v e).
Definition f_np (f : fstat) : Prop := match f with FPanic _ => False | _ => True end.

Lemma eng_flush_safe bits cap k fuel rs c e :
  rs_wf bits cap k rs -> EInv bits cap k e ->
  f_np (snd (eng_flush fuel rs c e)) /\ EInv bits cap k (fst (fst (eng_flush fuel rs c e)))
  /\ e_initd (fst (fst (eng_flush fuel rs c e))) = e_initd e.
Proof.
  intros Hrs HE. unfold eng_flush.
  destruct (negb (e_execd e)); [cbn [fst snd f_np]; auto|].
  pose proof (vm_render_safe bits cap k rs (c_sep c) fuel (s_lang (v_st (e_v e))) (e_v e) Hrs HE) as [R1 R2].
  destruct (vm_render fuel rs (c_sep c) (s_lang (v_st (e_v e))) (e_v e)) as [v r]. cbn [fst snd] in R1, R2.
  cbv zeta.
  assert (HE1 : EInv bits cap k (eset_v e v)) by exact R2.
  pose proof (eng_reset_inner_safe bits cap k (e_v (eset_v e v)) HE1) as [Q1 Q2].
  destruct (eng_reset_inner (e_v (eset_v e v))) as [v' s']. cbn [fst snd] in Q1, Q2.
  assert (HE2 : forall a b c' d, EInv bits cap k (mkEng v' a b c' d)) by (intros; exact Q2).
  destruct r as [out|er|n|]; cbn [rr_np] in R1; try contradiction; try (cbn [fst snd f_np]; auto; fail).
  all: repeat match goal with
    | |- context [if ?cc then _ else _] => destruct cc
    | |- context [match e_exit ?x with _ => _ end] => destruct (e_exit x)
    | |- context [match ?x with SOk => _ | SErr _ _ => _ | SPanic _ => _ | SFuel => _ end] => destruct x
    end; try discriminate Q1; cbn [fst snd f_np]; (split; [exact I|split; [first [apply HE2|exact HE1]|reflexivity]]).
Qed.

(* ---- runFirst ----------------------------------------------------------------------------- *)
Lemma first_rsrc_wf bits cap k script : Forall (fr_ok bits cap k) script -> rs_wf bits cap k (first_rsrc script).
Proof.
  intros HF. constructor; cbn [first_rsrc rs_code rs_tpl rs_menu rs_func]; try reflexivity.
  - intros _. constructor.
  - intros sym sc. destruct (bytes_eqb sym first_sym); [intros Hx; injection Hx as <-; exact HF|discriminate].
Qed.

Lemma wf_first_sym : wf_sym first_sym.
Proof. vm_compute. repeat constructor; discriminate. Qed.
Lemma cok_first_code bits k : cok bits k first_code.
Proof.
  unfold first_code.
  apply code_ok_app; apply code_ok_encode; try exact I; cbn [wf_instr]; try (split; [exact wf_first_sym|]); unfold wf_num; lia.
Qed.

(* a pop on a session without position (State.Up failed) *)
Lemma pop_only_SC bits cap k st ca :
  SC bits cap k st ca -> s_path st = [] -> SC bits cap k st (match cache_pop ca with Ok c => c | _ => ca end).
Proof.
  intros (Hb & Hl & Hco & Hne & Hk) Hp.
  destruct (pop_levels ca Hne) as (ca' & Hpop & Hne' & Hlv). rewrite Hpop.
  split; [exact Hb|]. split; [exact Hl|]. split; [exact Hco|]. split; [exact Hne'|].
  intros Hkt. destruct (Hk Hkt) as (K1 & K2 & K3 & K4).
  destruct (cache_pop_spec ca ca' K2 Hpop) as (C1 & C2 & _).
  split; [|split; [exact C1|split; [congruence|exact K4]]].
  unfold nav_inv in *. rewrite Hp in *. rewrite len_nil in *. rewrite K1 in Hlv. change (0 + 1 =? 1) with true in Hlv. cbv iota in Hlv. lia.
Qed.

(* the entry function's frame can be opened: depth within the limit, not already inside "_first" *)
Definition first_pre (st : state) : Prop :=
  len (s_path st) <= MaxLevel /\ last (s_path st) [] <> first_sym.

Lemma st_down_first bits cap k st ca :
  SC bits cap k st ca -> first_pre st ->
  exists st1, st_down st first_sym = Ok st1 /\ SC bits cap k st1 (cache_push ca).
Proof.
  intros (Hb & Hl & Hco & Hne & Hk) [Hd Hlast]. unfold st_down.
  destruct (N.ltb_spec MaxLevel (len (s_path st))); [lia|].
  assert (Hpush : c_frames (cache_push ca) <> []) by (unfold cache_push; cbn [c_frames]; destruct (c_frames ca); discriminate).
  assert (Hgen : forall p, len p = len (s_path st) + 1 -> SC bits cap k (set_path_idx st p 0) (cache_push ca)).
  { intros p Hp. split; [exact Hb|]. split; [exact Hl|]. split; [exact Hco|]. split; [exact Hpush|].
    intros Hkt. destruct (Hk Hkt) as (K1 & K2 & K3 & K4). destruct (cache_push_inv ca K2) as [P1 P2].
    split; [|split; [exact P1|split; [congruence|exact K4]]].
    unfold nav_inv in *. cbn [set_path_idx s_path]. rewrite push_levels. lia. }
  destruct (s_path st) as [|a l] eqn:Ep.
  - eexists. split; [reflexivity|]. apply Hgen. rewrite len_cons, !len_nil. lia.
  - destruct (bytes_eqb (last (a :: l) []) first_sym) eqn:E; [apply bytes_eqb_eq in E; contradiction|].
    eexists. split; [reflexivity|]. apply Hgen. rewrite len_app. change (len [first_sym]) with 1. lia.
Qed.

Lemma run_first_safe bits cap k fuel c lang e :
  EInv bits cap k e ->
  match c_first c with
  | None => True
  | Some script => Forall (fr_ok bits cap k) script /\ first_pre (v_st (e_v e))
  end ->
  is_spanic (snd (run_first fuel c lang e)) = false /\ EInv bits cap k (fst (fst (run_first fuel c lang e))).
Proof.
  intros HE Hpre. unfold run_first.
  destruct (c_first c) as [script|]; [|cbn [fst snd]; auto].
  destruct Hpre as [Hscript Hfp]. cbv zeta.
  destruct (st_down_first _ _ _ _ _ HE Hfp) as (st1 & Ed & HS1). rewrite Ed.
  match goal with |- context [run fuel ?rs ?sep lang first_code ?vv] =>
    assert (HVV : VInv bits cap k vv) by exact HS1;
    pose proof (run_safe bits cap k rs sep (first_rsrc_wf _ _ _ _ Hscript) fuel lang first_code vv HVV (cok_first_code bits k)) as (R1 & R2 & R3);
    destruct (run fuel rs sep lang first_code vv) as [[v2 b] s] end.
  cbn [fst snd] in R1, R2, R3.
  (* the three-way decision *)
  set (dec := match s with
              | SOk => match b with
                       | [] => if getf (v_st v2) FLAG_TERMINATE then (false, SOk, true) else (true, SOk, false)
                       | _ => (false, SErr EGen None, false)
                       end
              | _ => (false, s, false)
              end).
  assert (Hdec : is_spanic (snd (fst dec)) = false).
  { unfold dec. destruct s; try discriminate R1; try reflexivity. destruct b; [destruct (getf _ _); reflexivity|reflexivity]. }
  destruct dec as [[r s'] take_exit]. cbn [fst snd] in Hdec.
  set (lastp := if take_exit then cache_last (v_ca v2) else (e_exit e, v_ca v2)).
  assert (Hlast : SC bits cap k (v_st v2) (snd lastp)).
  { unfold lastp. destruct take_exit; [|exact R2]. unfold cache_last. cbn [snd].
    destruct R2 as (Q1 & Q2 & Q3 & Q4 & Q5).
    apply (SC_cache bits cap k (v_st v2) (v_ca v2) _ (conj Q1 (conj Q2 (conj Q3 (conj Q4 Q5))))); [cbn [c_frames]; exact Q4|].
    intros Hkt Hc Hsz. split; [reflexivity|]. pose proof (cache_last_inv (v_ca v2) Hc) as [L1 L2].
    unfold cache_last in L1, L2. cbn [snd] in L1, L2. split; [exact L1|congruence]. }
  destruct lastp as [exit ca2]. cbn [snd] in Hlast.
  cbn [fst snd]. split; [exact Hdec|].
  unfold EInv, VInv. cbn [e_v v_st v_ca].
  set (st3 := resetf (resetf (v_st v2) FLAG_DIRTY) FLAG_TERMINATE).
  assert (HS3 : SC bits cap k st3 ca2).
  { eapply SC_flagish; [exact Hlast|]. eapply flagish_trans; apply flagish_resetf. }
  destruct (st_up st3) as [[sym st']|er|n] eqn:Eup.
  - apply (up_pop_SC _ _ _ _ _ _ _ HS3 Eup).
  - apply pop_only_SC; [exact HS3|]. unfold st_up in Eup. destruct (s_path st3); [reflexivity|discriminate].
  - pose proof (st_up_no_panic st3) as Hn. rewrite Eup in Hn. discriminate.
Qed.

(* ---- setCode, init, exec --------------------------------------------------------------------- *)
Lemma SC_cache_last bits cap k st ca : SC bits cap k st ca -> SC bits cap k st (snd (cache_last ca)).
Proof.
  intros H. pose proof H as (Q1 & Q2 & Q3 & Q4 & Q5). unfold cache_last. cbn [snd].
  apply (SC_cache bits cap k st ca _ H); [cbn [c_frames]; exact Q4|].
  intros Hkt Hc Hsz. split; [reflexivity|]. pose proof (cache_last_inv ca Hc) as [L1 L2].
  unfold cache_last in L1, L2. cbn [snd] in L1, L2. split; [exact L1|congruence].
Qed.

Lemma set_code_eng_safe bits cap k e b :
  EInv bits cap k e -> cok bits k b -> EInv bits cap k (fst (set_code_eng e b)).
Proof.
  intros HE Hb. unfold set_code_eng. cbv zeta.
  assert (HS : SC bits cap k (set_code (v_st (e_v e)) b) (v_ca (e_v e))) by (apply SC_set_code; [exact HE|exact Hb]).
  destruct b as [|x b'].
  - destruct (getf (set_code (v_st (e_v e)) []) FLAG_DIRTY).
    + pose proof (SC_cache_last _ _ _ _ _ HS) as HL. destruct (cache_last (v_ca (e_v e))) as [lst ca']. exact HL.
    + exact HS.
  - exact HS.
Qed.

(* what the entry function needs of the engine it runs in *)
Definition FirstOk (bits cap : N) (k : bool) (c : config) (e : engine) : Prop :=
  match c_first c with
  | None => True
  | Some script => Forall (fr_ok bits cap k) script
                   /\ (e_initd e = true \/ (e_execd e = false /\ first_pre (v_st (e_v e))))
  end.

Lemma cok_move_root bits k c : wf_sym (cfg_root c) -> cok bits k (encode (IMove (cfg_root c))).
Proof. intros H. apply code_ok_encode; [exact H|exact I]. Qed.

Lemma eng_init_safe bits cap k fuel rs c e input :
  rs_wf bits cap k rs -> wf_sym (cfg_root c) -> EInv bits cap k e -> FirstOk bits cap k c e ->
  is_spanic (snd (eng_init fuel rs c e input)) = false /\ EInv bits cap k (fst (fst (eng_init fuel rs c e input))).
Proof.
  intros Hrs Hroot HE HF. unfold eng_init.
  (* prepare *)
  set (prep := if e_execd e then let '(e', _, f) := eng_flush fuel rs c e in (e', stat_of_f f) else (e, SOk)).
  assert (Hprep : is_spanic (snd prep) = false /\ EInv bits cap k (fst prep)
                  /\ match c_first c with
                     | None => True
                     | Some script => Forall (fr_ok bits cap k) script
                                      /\ (e_initd (fst prep) = true \/ first_pre (v_st (e_v (fst prep))))
                     end).
  { unfold prep. destruct (e_execd e) eqn:Ex.
    - pose proof (eng_flush_safe bits cap k fuel rs c e Hrs HE) as (F1 & F2 & F3).
      destruct (eng_flush fuel rs c e) as [[e' o] f]. cbn [fst snd] in *.
      split; [destruct f; try reflexivity; contradiction|]. split; [exact F2|].
      unfold FirstOk in HF. destruct (c_first c); [|exact I]. destruct HF as [H1 [H2|[H2 _]]]; [|congruence].
      split; [exact H1|left; congruence].
    - cbn [fst snd]. split; [reflexivity|]. split; [exact HE|].
      unfold FirstOk in HF. destruct (c_first c); [|exact I]. destruct HF as [H1 [H2|[_ H2]]]; auto. }
  destruct prep as [e1 s1]. cbn [fst snd] in Hprep. destruct Hprep as (P1 & P2 & P3).
  destruct s1; try discriminate P1; try (cbn [fst snd]; auto; fail).
  cbv zeta.
  set (e2 := mkEng (e_v e1) (e_initd e1) [] false false).
  assert (HE2 : EInv bits cap k e2) by exact P2.
  destruct (e_initd e2) eqn:Ei; [cbn [fst snd]; auto|].
  pose proof (set_input_SC bits cap k (v_st (e_v e2)) (v_ca (e_v e2)) (Some input) HE2) as Hin.
  destruct (set_input (v_st (e_v e2)) (Some input)) as [st1|er|n] eqn:Ein; [|cbn [fst snd]; auto|contradiction].
  set (e3 := eset_v e2 (vset_st (e_v e2) st1)).
  assert (HE3 : EInv bits cap k e3) by exact Hin.
  assert (Hpre3 : match c_first c with
                  | None => True
                  | Some script => Forall (fr_ok bits cap k) script /\ first_pre (v_st (e_v e3))
                  end).
  { destruct (c_first c); [|exact I]. destruct P3 as [H1 [H2|H2]]; [cbn in Ei; congruence|].
    split; [exact H1|]. unfold e3. cbn [e_v eset_v v_st vset_st]. unfold set_input in Ein.
    destruct (INPUT_LIMIT <? len input); [discriminate|]. injection Ein as <-. exact H2. }
  pose proof (run_first_safe bits cap k fuel c (s_lang (v_st (e_v e2))) e3 HE3 Hpre3) as [R1 R2].
  destruct (run_first fuel c (s_lang (v_st (e_v e2))) e3) as [[e4 r] s]. cbn [fst snd] in R1, R2.
  destruct s; try discriminate R1; try (cbn [fst snd]; auto; fail).
  destruct (negb r); [cbn [fst snd]; auto|].
  (* stale position *)
  set (stale := match s_code (v_st (e_v e4)), s_path (v_st (e_v e4)) with
                | [], _ :: _ =>
                  if getf (v_st (e_v e4)) FLAG_TERMINATE then (e4, SOk)
                  else let '(v', s') := eng_reset_inner (e_v e4) in (eset_v e4 v', s')
                | _, _ => (e4, SOk)
                end).
  assert (Hstale : is_spanic (snd stale) = false /\ EInv bits cap k (fst stale)).
  { unfold stale. destruct (s_code (v_st (e_v e4))); [|cbn [fst snd]; auto].
    destruct (s_path (v_st (e_v e4))); [cbn [fst snd]; auto|].
    destruct (getf (v_st (e_v e4)) FLAG_TERMINATE); [cbn [fst snd]; auto|].
    pose proof (eng_reset_inner_safe bits cap k (e_v e4) R2) as [Q1 Q2].
    destruct (eng_reset_inner (e_v e4)) as [v' s']. cbn [fst snd] in *. auto. }
  destruct stale as [e4' s4]. cbn [fst snd] in Hstale. destruct Hstale as [T1 T2].
  destruct s4; try discriminate T1; try (cbn [fst snd]; auto; fail).
  set (sc := match s_code (v_st (e_v e4')) with
             | [] => set_code_eng e4' (encode (IMove (cfg_root c)))
             | _ => (e4', true)
             end).
  assert (Hsc : EInv bits cap k (fst sc)).
  { unfold sc. destruct (s_code (v_st (e_v e4'))); [|exact T2].
    apply set_code_eng_safe; [exact T2|apply cok_move_root; exact Hroot]. }
  destruct sc as [e5 cont]. cbn [fst] in Hsc.
  cbn [fst snd]. split; [reflexivity|].
  unfold EInv, VInv. cbn [e_v v_st v_ca vset_st].
  apply SC_set_input_raw; [exact Hsc|].
  intros Hkt. destruct HE2 as (_ & _ & _ & _ & Hk2). destruct (Hk2 Hkt) as (_ & _ & _ & Hi). exact Hi.
Qed.

Lemma eng_reset_force_safe bits cap k c e :
  wf_sym (cfg_root c) -> EInv bits cap k e ->
  is_spanic (snd (eng_reset_force c e)) = false /\ EInv bits cap k (fst (eng_reset_force c e)).
Proof.
  intros Hroot HE. unfold eng_reset_force.
  destruct (s_path (v_st (e_v e))); [cbn [fst snd]; auto|]. cbv zeta.
  match goal with |- context [eng_reset_inner ?vv] =>
    assert (HVV : VInv bits cap k vv) by (unfold VInv; vsimp; apply SC_set_code; [exact HE|apply cok_move_root; exact Hroot]);
    pose proof (eng_reset_inner_safe bits cap k vv HVV) as [Q1 Q2];
    destruct (eng_reset_inner vv) as [v' s] end.
  cbn [fst snd] in *. auto.
Qed.

Lemma eng_exec_inner_safe bits cap k fuel rs c e :
  rs_wf bits cap k rs -> EInv bits cap k e ->
  is_spanic (snd (eng_exec_inner fuel rs c e)) = false /\ EInv bits cap k (fst (fst (eng_exec_inner fuel rs c e))).
Proof.
  intros Hrs HE. unfold eng_exec_inner. cbv zeta.
  assert (Hcode : cok bits k (s_code (v_st (e_v e)))) by apply HE.
  assert (HV0 : VInv bits cap k (vset_st (e_v e) (set_code (v_st (e_v e)) []))).
  { unfold VInv; vsimp. apply SC_set_code; [exact HE|constructor]. }
  destruct (s_code (v_st (e_v e))) as [|x code'] eqn:Ec; [cbn [fst snd]; auto|].
  match goal with |- context [run fuel rs ?sep ?lang ?code ?vv] =>
    pose proof (run_safe bits cap k rs sep Hrs fuel lang code vv HV0 Hcode) as (R1 & R2 & R3);
    destruct (run fuel rs sep lang code vv) as [[v1 b] s] end.
  cbn [fst snd] in R1, R2, R3.
  destruct s; try discriminate R1; try (cbn [fst snd]; auto; fail).
  destruct (getf (v_st v1) FLAG_TERMINATE); [cbn [fst snd]; auto|].
  match goal with |- context [set_code_eng ?ee b] =>
    assert (HEE : EInv bits cap k ee) by exact R2;
    pose proof (set_code_eng_safe bits cap k ee b HEE R3) as HS;
    destruct (set_code_eng ee b) as [e2 cont] end.
  cbn [fst snd] in *. auto.
Qed.

Lemma eng_exec_safe bits cap k fuel rs c e input :
  rs_wf bits cap k rs -> wf_sym (cfg_root c) -> EInv bits cap k e -> FirstOk bits cap k c e ->
  is_spanic (snd (eng_exec fuel rs c e input)) = false /\ EInv bits cap k (fst (fst (eng_exec fuel rs c e input))).
Proof.
  intros Hrs Hroot HE HF. unfold eng_exec.
  pose proof (eng_init_safe bits cap k fuel rs c e input Hrs Hroot HE HF) as [I1 I2].
  destruct (eng_init fuel rs c e input) as [[e1 cont] s]. cbn [fst snd] in I1, I2.
  destruct s; try discriminate I1; try (cbn [fst snd]; auto; fail).
  destruct (negb cont); [cbn [fst snd]; auto|].
  set (rf := if c_reset_empty c && (len input =? 0) then eng_reset_force c e1 else (e1, SOk)).
  assert (Hrf : is_spanic (snd rf) = false /\ EInv bits cap k (fst rf)).
  { unfold rf. destruct (c_reset_empty c && (len input =? 0)); [apply eng_reset_force_safe; assumption|cbn [fst snd]; auto]. }
  destruct rf as [e2 s2]. cbn [fst snd] in Hrf. destruct Hrf as [F1 F2].
  destruct s2; try discriminate F1; try (cbn [fst snd]; auto; fail).
  destruct ((0 <? len input) && negb (valid_input_b input)); [cbn [fst snd]; auto|].
  pose proof (set_input_SC bits cap k (v_st (e_v e2)) (v_ca (e_v e2)) (Some input) F2) as Hin.
  destruct (set_input (v_st (e_v e2)) (Some input)) as [st'|er|n]; [|cbn [fst snd]; auto|contradiction].
  apply eng_exec_inner_safe; [exact Hrs|exact Hin].
Qed.

(* ---- requests ------------------------------------------------------------------------------------ *)
Definition resp_np (r : response) : Prop := is_spanic (r_exec r) = false /\ f_np (r_flush r).

Lemma request_long_safe bits cap k fuel rs c e input :
  rs_wf bits cap k rs -> wf_sym (cfg_root c) -> EInv bits cap k e -> FirstOk bits cap k c e ->
  resp_np (snd (request_long fuel rs c e input)) /\ EInv bits cap k (fst (request_long fuel rs c e input)).
Proof.
  intros Hrs Hroot HE HF. unfold request_long.
  pose proof (eng_exec_safe bits cap k fuel rs c e input Hrs Hroot HE HF) as [X1 X2].
  destruct (eng_exec fuel rs c e input) as [[e1 cont] s]. cbn [fst snd] in X1, X2.
  destruct s; try discriminate X1.
  - pose proof (eng_flush_safe bits cap k fuel rs c e1 Hrs X2) as (F1 & F2 & _).
    destruct (eng_flush fuel rs c e1) as [[e2 out] f]. cbn [fst snd] in *. unfold resp_np. cbn [r_exec r_flush]. auto.
  - pose proof (eng_flush_safe bits cap k fuel rs c e1 Hrs X2) as (F1 & F2 & _).
    destruct (eng_flush fuel rs c e1) as [[e2 out] f]. cbn [fst snd] in *. unfold resp_np. cbn [r_exec r_flush]. auto.
  - cbn [fst snd]. unfold resp_np. cbn [r_exec r_flush f_np is_spanic]. auto.
Qed.

(* ---- new engines, configurations -------------------------------------------------------------- *)
Definition cfg_bits (c : config) : N := w32 (c_flagcount c + 8).
Definition cfg_ok (c : config) : Prop :=
  wf_sym (cfg_root c) /\ c_flagcount c + 8 <= 2040 /\ c_cachesize c < 4294967296.
Definition cfg_okb (c : config) : bool :=
  wf_symb (cfg_root c) && (c_flagcount c + 8 <=? 2040) && (c_cachesize c <? 4294967296).

Lemma wf_symb_sound s : wf_symb s = true -> wf_sym s.
Proof.
  unfold wf_symb, wf_sym, bytes_okb, bytes_ok. intros H.
  apply andb_true_iff in H. destruct H as [H H3]. apply andb_true_iff in H. destruct H as [H1 H2].
  split; [|split; [apply N.leb_le; exact H2|apply N.leb_le; exact H3]].
  rewrite forallb_forall in H1. apply Forall_forall. intros x Hx. apply N.ltb_lt. apply H1. exact Hx.
Qed.
Lemma cfg_okb_sound c : cfg_okb c = true -> cfg_ok c.
Proof.
  unfold cfg_okb, cfg_ok. intros H.
  apply andb_true_iff in H. destruct H as [H H3]. apply andb_true_iff in H. destruct H as [H1 H2].
  split; [apply wf_symb_sound; exact H1|]. split; [apply N.leb_le; exact H2|apply N.ltb_lt; exact H3].
Qed.

Lemma len_falses n : len (falses n) = N.of_nat n.
Proof. unfold len. f_equal. induction n; cbn [falses List.length]; congruence. Qed.

Lemma to_byte_size_covers bs : bs <= 2040 -> bs <= 8 * to_byte_size bs.
Proof.
  intros H. unfold to_byte_size, w8, w32.
  destruct (N.eqb_spec bs 0); [lia|].
  destruct (N.eqb_spec (bs mod 8) 0).
  - rewrite N.add_0_r. rewrite (N.mod_small bs 4294967296) by lia.
    rewrite (N.mod_small (bs / 8) 256) by (apply N.div_lt_upper_bound; lia).
    pose proof (N.div_mod bs 8 ltac:(lia)). lia.
  - pose proof (N.mod_lt bs 8 ltac:(lia)) as Hm.
    rewrite (N.mod_small (bs + (8 - bs mod 8)) 4294967296) by lia.
    rewrite (N.mod_small ((bs + (8 - bs mod 8)) / 8) 256) by (apply N.div_lt_upper_bound; lia).
    pose proof (N.div_mod bs 8 ltac:(lia)) as Hd.
    assert (E : bs + (8 - bs mod 8) = (bs / 8 + 1) * 8) by lia.
    rewrite E, N.div_mul by lia. lia.
Qed.

Lemma fresh_SC k c : cfg_ok c -> SC (cfg_bits c) (c_cachesize c) k (fresh_state c) (fresh_cache c).
Proof.
  intros (Hroot & Hfc & Hcap). unfold cfg_bits.
  assert (Hbs : w32 (c_flagcount c + 8) = c_flagcount c + 8) by (unfold w32; apply N.mod_small; lia).
  assert (H0 : SC (w32 (c_flagcount c + 8)) (c_cachesize c) k (new_state (c_flagcount c)) (fresh_cache c)).
  { unfold new_state, fresh_cache. cbv zeta.
    split; [reflexivity|]. split; [cbn [s_flags]; rewrite len_falses, N2Nat.id; apply to_byte_size_covers; lia|].
    split; [constructor|]. split; [cbn; discriminate|].
    intros _. split; [reflexivity|]. split; [apply new_cache_inv; exact Hcap|]. split; [reflexivity|exact I]. }
  unfold fresh_state. cbv zeta.
  assert (H1 : SC (w32 (c_flagcount c + 8)) (c_cachesize c) k
                  (st_set_language lang_lookup (new_state (c_flagcount c)) (c_lang c)) (fresh_cache c)).
  { eapply SC_flagish; [exact H0|apply flagish_set_language]. }
  destruct (s_lang _); [eapply SC_flagish; [exact H1|apply flagish_setf]|exact H1].
Qed.

Definition snap_ok (bits cap : N) (k : bool) (sn : option snapshot) : Prop :=
  match sn with Some (s, ca) => SC bits cap k s ca | None => True end.

Lemma new_engine_EInv k c sn w lg :
  cfg_ok c -> snap_ok (cfg_bits c) (c_cachesize c) k sn -> EInv (cfg_bits c) (c_cachesize c) k (new_engine c sn w lg).
Proof.
  intros Hc Hs. unfold new_engine. destruct sn as [[s ca]|]; [exact Hs|]. apply fresh_SC. exact Hc.
Qed.

Lemma snap_of_ok bits cap k st ca : SC bits cap k st ca -> snap_ok bits cap k (Some (snap_of st ca)).
Proof. intros H. unfold snap_of, snap_ok. apply SC_set_input_raw; [exact H|intros _; exact I]. Qed.

Definition PInv (bits cap : N) (k : bool) (p : pworld) : Prop := snap_ok bits cap k (pw_store p).

Lemma request_persisted_safe k fuel rs c p input :
  rs_wf (cfg_bits c) (c_cachesize c) k rs -> cfg_ok c -> PInv (cfg_bits c) (c_cachesize c) k p ->
  FirstOk (cfg_bits c) (c_cachesize c) k c (new_engine c (pw_store p) (pw_w p) (pw_log p)) ->
  resp_np (snd (request_persisted fuel rs c p input))
  /\ PInv (cfg_bits c) (c_cachesize c) k (fst (request_persisted fuel rs c p input)).
Proof.
  intros Hrs Hc HP HF. unfold request_persisted. cbv zeta.
  set (e := new_engine c (pw_store p) (pw_w p) (pw_log p)) in *.
  assert (HE : EInv (cfg_bits c) (c_cachesize c) k e) by (apply new_engine_EInv; assumption).
  set (store0 := match pw_store p with Some s => Some s | None => Some (snap_of (v_st (e_v e)) (v_ca (e_v e))) end).
  assert (H0 : snap_ok (cfg_bits c) (c_cachesize c) k store0).
  { unfold store0. unfold PInv in HP. destruct (pw_store p); [exact HP|]. apply snap_of_ok. exact HE. }
  pose proof (eng_exec_safe _ _ k fuel rs c e input Hrs (proj1 Hc) HE HF) as [X1 X2].
  destruct (eng_exec fuel rs c e input) as [[e1 cont] s]. cbn [fst snd] in X1, X2.
  assert (Hflush : forall s0, is_spanic s0 = false ->
    resp_np (snd (let '(e2, out, f) := eng_flush fuel rs c e1 in
       match f with
       | FPanic _ | FFuel => (mkPw store0 (v_w (e_v e2)) (v_log (e_v e2)) (pw_taint p || v_taint (e_v e2)), mkResp cont s0 out f)
       | _ => (mkPw match eng_finish e2 with Some sn => Some sn | None => store0 end
                    (v_w (e_v e2)) (v_log (e_v e2)) (pw_taint p || v_taint (e_v e2)), mkResp cont s0 out f)
       end))
    /\ PInv (cfg_bits c) (c_cachesize c) k (fst (let '(e2, out, f) := eng_flush fuel rs c e1 in
       match f with
       | FPanic _ | FFuel => (mkPw store0 (v_w (e_v e2)) (v_log (e_v e2)) (pw_taint p || v_taint (e_v e2)), mkResp cont s0 out f)
       | _ => (mkPw match eng_finish e2 with Some sn => Some sn | None => store0 end
                    (v_w (e_v e2)) (v_log (e_v e2)) (pw_taint p || v_taint (e_v e2)), mkResp cont s0 out f)
       end))).
  { intros s0 Hs0. pose proof (eng_flush_safe _ _ k fuel rs c e1 Hrs X2) as (F1 & F2 & _).
    destruct (eng_flush fuel rs c e1) as [[e2 out] f]. cbn [fst snd] in F1, F2.
    assert (Hfin : snap_ok (cfg_bits c) (c_cachesize c) k match eng_finish e2 with Some sn => Some sn | None => store0 end).
    { unfold eng_finish. destruct (e_initd e2); [apply snap_of_ok; exact F2|exact H0]. }
    destruct f; try contradiction; cbn [fst snd]; unfold resp_np, PInv; cbn [r_exec r_flush pw_store f_np]; auto. }
  destruct s; try discriminate X1.
  - apply Hflush. reflexivity.
  - apply Hflush. reflexivity.
  - cbn [fst snd]. unfold resp_np, PInv. cbn [r_exec r_flush pw_store f_np is_spanic]. auto.
Qed.

(* ---- histories: every request has its own fuel -------------------------------------------------- *)
Fixpoint hist_long (rs : rsrc) (c : config) (e : engine) (h : list (nat * bytes)) : engine * list response :=
  match h with
  | [] => (e, [])
  | (fuel, input) :: r =>
    let '(e', resp) := request_long fuel rs c e input in
    let '(e'', resps) := hist_long rs c e' r in (e'', resp :: resps)
  end.
Fixpoint hist_pers (rs : rsrc) (c : config) (p : pworld) (h : list (nat * bytes)) : pworld * list response :=
  match h with
  | [] => (p, [])
  | (fuel, input) :: r =>
    let '(p', resp) := request_persisted fuel rs c p input in
    let '(p'', resps) := hist_pers rs c p' r in (p'', resp :: resps)
  end.

Lemma FirstOk_none bits cap k c e : c_first c = None -> FirstOk bits cap k c e.
Proof. intros H. unfold FirstOk. rewrite H. exact I. Qed.

Lemma hist_long_safe bits cap k rs c :
  rs_wf bits cap k rs -> wf_sym (cfg_root c) -> c_first c = None ->
  forall h e, EInv bits cap k e ->
  Forall resp_np (snd (hist_long rs c e h)) /\ EInv bits cap k (fst (hist_long rs c e h)).
Proof.
  intros Hrs Hroot Hf. induction h as [|[fuel input] h IH]; intros e HE; cbn [hist_long].
  - cbn [fst snd]. split; [constructor|exact HE].
  - pose proof (request_long_safe bits cap k fuel rs c e input Hrs Hroot HE (FirstOk_none _ _ _ _ _ Hf)) as [R1 R2].
    destruct (request_long fuel rs c e input) as [e' resp]. cbn [fst snd] in R1, R2.
    destruct (IH e' R2) as [I1 I2]. destruct (hist_long rs c e' h) as [e'' resps]. cbn [fst snd] in *.
    split; [constructor; assumption|exact I2].
Qed.

Lemma hist_pers_safe k rs c :
  rs_wf (cfg_bits c) (c_cachesize c) k rs -> cfg_ok c -> c_first c = None ->
  forall h p, PInv (cfg_bits c) (c_cachesize c) k p ->
  Forall resp_np (snd (hist_pers rs c p h)) /\ PInv (cfg_bits c) (c_cachesize c) k (fst (hist_pers rs c p h)).
Proof.
  intros Hrs Hc Hf. induction h as [|[fuel input] h IH]; intros p HP; cbn [hist_pers].
  - cbn [fst snd]. split; [constructor|exact HP].
  - pose proof (request_persisted_safe k fuel rs c p input Hrs Hc HP (FirstOk_none _ _ _ _ _ Hf)) as [R1 R2].
    destruct (request_persisted fuel rs c p input) as [p' resp]. cbn [fst snd] in R1, R2.
    destruct (IH p' R2) as [I1 I2]. destruct (hist_pers rs c p' h) as [p'' resps]. cbn [fst snd] in *.
    split; [constructor; assumption|exact I2].
Qed.

(* ================================================================================== *)
(* Part F — decidable well-formedness (corr/EngineMon.v) implies rs_wf                 *)
(* ================================================================================== *)
From Vise Require Import CorrBase EngineCorr EngineMon.

Lemma alookup_In_pair {V} k (l : list (bytes * V)) v : alookup k l = Some v -> In (k, v) l.
Proof.
  induction l as [|[k' v'] l IH]; cbn [alookup]; [discriminate|].
  destruct (bytes_eqb k k') eqn:E.
  - intros H. injection H as ->. apply bytes_eqb_eq in E. subst k'. left. reflexivity.
  - intros H. right. apply IH. exact H.
Qed.

(* entry functions' values are far from the uint32 wrap of the cache usage counter *)
Definition vals_small (cap : N) (a : app) : bool :=
  forallb (fun f => forallb (fun fr => len (fr_content fr) + INPUT_LIMIT + cap <? 4294967296) (snd f)) (a_funcs a).

Lemma instr_wf_iok a bits self i : instr_wf a bits self i = true -> iok bits false i.
Proof.
  destruct i; cbn [instr_wf iok]; try (intros; exact I); try discriminate.
  - intros H. apply andb_true_iff in H. destruct H as [_ H]. apply N.ltb_lt. exact H.
  - intros H. split; [apply N.ltb_lt; exact H|reflexivity].
Qed.

Definition is_croak (i : instr) : bool := match i with ICroak _ _ => true | _ => false end.
Lemma iok_no_croak bits i : iok bits false i -> is_croak i = false -> iok bits true i.
Proof. destruct i; cbn [iok is_croak]; auto. discriminate. Qed.

Lemma fres_wf_ok bits cap fr : fres_wf bits fr = true -> fr_ok bits cap false fr.
Proof.
  unfold fres_wf, fr_ok. intros H. apply andb_true_iff in H. destruct H as [H1 H2].
  rewrite forallb_forall in H1, H2.
  split; [apply Forall_forall; intros x Hx; apply N.ltb_lt; apply H1; exact Hx|].
  split; [apply Forall_forall; intros x Hx; apply N.ltb_lt; apply H2; exact Hx|discriminate].
Qed.

Lemma wf_app_node a c sym code :
  wf_app_b a c = true -> alookup sym (a_code a) = Some code ->
  exists p, parse_all code = Ok p /\ node_instrs a sym = p /\ Forall (iok (cfg_bits c) false) p.
Proof.
  intros Hwf Hl. unfold wf_app_b in Hwf. cbv zeta in Hwf.
  repeat (apply andb_true_iff in Hwf; destruct Hwf as [Hwf ?]).
  match goal with H : forallb _ (a_code a) = true |- _ => rename H into Hnodes end.
  rewrite forallb_forall in Hnodes. specialize (Hnodes (sym, code) (alookup_In_pair _ _ _ Hl)). cbn [fst snd] in Hnodes.
  repeat (apply andb_true_iff in Hnodes; destruct Hnodes as [Hnodes ?]).
  unfold decodes in Hnodes. destruct code as [|x code']; [discriminate|].
  destruct (parse_all (x :: code')) as [p|e|n] eqn:Ep; try discriminate.
  exists p. split; [reflexivity|].
  assert (En : node_instrs a sym = p) by (unfold node_instrs; rewrite Hl, Ep; reflexivity).
  split; [exact En|]. rewrite En in *.
  match goal with H : forallb (instr_wf _ _ _) p = true |- _ => rename H into Hi end.
  rewrite forallb_forall in Hi. apply Forall_forall. intros i Hin. eapply instr_wf_iok. apply Hi. exact Hin.
Qed.

Lemma wf_app_rs_wf a c : wf_app_b a c = true -> rs_wf (cfg_bits c) (c_cachesize c) false (app_rsrc a).
Proof.
  intros Hwf. constructor; cbn [app_rsrc rs_code rs_tpl rs_menu rs_func].
  - intros sym. destruct (alookup sym (a_code a)) as [code|] eqn:El; [|exact I].
    destruct (wf_app_node a c sym code Hwf El) as (p & Hp & _ & HF). eapply code_ok_of_parse; eassumption.
  - intros l sym. destruct (lookup_lang (a_tpl a) sym l); reflexivity.
  - intros l t. destruct (lookup_lang (a_menu a) (t ++ menu_suffix) l); reflexivity.
  - intros sym script Hl. unfold wf_app_b in Hwf. cbv zeta in Hwf.
    repeat (apply andb_true_iff in Hwf; destruct Hwf as [Hwf ?]).
    match goal with H : forallb _ (a_funcs a) = true |- _ => rename H into Hfs end.
    rewrite forallb_forall in Hfs. specialize (Hfs (sym, script) (alookup_In_pair _ _ _ Hl)). cbn [snd] in Hfs.
    rewrite forallb_forall in Hfs. apply Forall_forall. intros fr Hin. apply fres_wf_ok. apply Hfs. exact Hin.
Qed.

(* level true: additionally no CROAK anywhere (has_croak, the guard of K-C08-croak) and small values *)
Lemma wf_app_rs_wf_consistent a c :
  wf_app_b a c = true -> has_croak a = false -> vals_small (c_cachesize c) a = true ->
  rs_wf (cfg_bits c) (c_cachesize c) true (app_rsrc a).
Proof.
  intros Hwf Hnc Hsm. pose proof (wf_app_rs_wf a c Hwf) as H0. constructor; cbn [app_rsrc rs_code rs_tpl rs_menu rs_func].
  - intros sym. destruct (alookup sym (a_code a)) as [code|] eqn:El; [|exact I].
    destruct (wf_app_node a c sym code Hwf El) as (p & Hp & En & HF).
    eapply code_ok_of_parse; [exact Hp|].
    unfold has_croak in Hnc.
    assert (Hno : existsb is_croak (node_instrs a sym) = false).
    { destruct (existsb is_croak (node_instrs a sym)) eqn:E; [|reflexivity].
      assert (Hex : existsb (fun nc => existsb (fun i => match i with ICroak _ _ => true | _ => false end) (node_instrs a (fst nc))) (a_code a) = true).
      { apply existsb_exists. exists (sym, code). split; [apply alookup_In_pair; exact El|exact E]. }
      congruence. }
    rewrite En in Hno. rewrite Forall_forall in HF. apply Forall_forall. intros i Hin.
    apply iok_no_croak; [apply HF; exact Hin|].
    destruct (is_croak i) eqn:E; [|reflexivity].
    assert (existsb is_croak p = true) by (apply existsb_exists; exists i; auto). congruence.
  - apply (rw_tpl _ _ _ _ H0).
  - apply (rw_menu _ _ _ _ H0).
  - intros sym script Hl. pose proof (rw_func _ _ _ _ H0 sym script Hl) as HF.
    unfold vals_small in Hsm. rewrite forallb_forall in Hsm.
    specialize (Hsm (sym, script) (alookup_In_pair _ _ _ Hl)). cbn [snd] in Hsm. rewrite forallb_forall in Hsm.
    rewrite Forall_forall in HF. apply Forall_forall. intros fr Hin. destruct (HF fr Hin) as (A1 & A2 & _).
    split; [exact A1|]. split; [exact A2|]. intros _. apply N.ltb_lt. apply Hsm. exact Hin.
Qed.

(* ================================================================================== *)
(* Final forms (props/C08safe.v)                                                       *)
(* ================================================================================== *)

Lemma run_no_panic bits cap k rs sep fuel lang b v v' b' s :
  rs_wf bits cap k rs -> VInv bits cap k v -> cok bits k b ->
  run fuel rs sep lang b v = (v', b', s) ->
  (forall n, s <> SPanic n) /\ VInv bits cap k v' /\ cok bits k b'.
Proof.
  intros Hrs HV Hb H. pose proof (run_safe bits cap k rs sep Hrs fuel lang b v HV Hb) as (R1 & R2 & R3).
  rewrite H in R1, R2, R3. cbn [fst snd] in *. split; [|auto]. intros n ->. discriminate.
Qed.

(* SFuel is not a panic: it is the model's "out of fuel", a separate status *)
Lemma fuel_not_panic : forall n, SFuel <> SPanic n.
Proof. discriminate. Qed.

Lemma vm_render_no_panic bits cap k rs sep fuel lang v v' r :
  rs_wf bits cap k rs -> VInv bits cap k v ->
  vm_render fuel rs sep lang v = (v', r) -> (forall n, r <> RRPanic n) /\ VInv bits cap k v'.
Proof.
  intros Hrs HV H. pose proof (vm_render_safe bits cap k rs sep fuel lang v Hrs HV) as [R1 R2].
  rewrite H in R1, R2. cbn [fst snd] in *. split; [|exact R2]. intros n ->. exact R1.
Qed.

Definition resp_no_panic (r : response) : Prop :=
  (forall n, r_exec r <> SPanic n) /\ (forall n, r_flush r <> FPanic n).
Lemma resp_np_no_panic r : resp_np r -> resp_no_panic r.
Proof.
  intros [H1 H2]. split; intros n E; rewrite E in *; [discriminate|contradiction].
Qed.

(* the consistency half *)
Definition session_consistent (st : state) (ca : cache) : Prop :=
  cache_levels ca = len (s_path st) + 1 /\ CInv ca.
Lemma SC_consistent bits cap st ca : SC bits cap true st ca -> session_consistent st ca.
Proof. intros (_ & _ & _ & _ & Hk). destruct (Hk eq_refl) as (K1 & K2 & _). split; assumption. Qed.

(* one request, any engine state satisfying the invariant, both drivers *)
Lemma request_no_panic_long a c k fuel e input :
  wf_app_b a c = true -> cfg_okb c = true ->
  (k = true -> has_croak a = false /\ vals_small (c_cachesize c) a = true) ->
  EInv (cfg_bits c) (c_cachesize c) k e -> FirstOk (cfg_bits c) (c_cachesize c) k c e ->
  resp_no_panic (snd (request_long fuel (app_rsrc a) c e input))
  /\ EInv (cfg_bits c) (c_cachesize c) k (fst (request_long fuel (app_rsrc a) c e input)).
Proof.
  intros Hwf Hc Hk HE HF. apply cfg_okb_sound in Hc.
  assert (Hrs : rs_wf (cfg_bits c) (c_cachesize c) k (app_rsrc a)).
  { destruct k; [destruct (Hk eq_refl); apply wf_app_rs_wf_consistent; assumption|apply wf_app_rs_wf; assumption]. }
  destruct (request_long_safe _ _ k fuel (app_rsrc a) c e input Hrs (proj1 Hc) HE HF) as [R1 R2].
  split; [apply resp_np_no_panic; exact R1|exact R2].
Qed.

Lemma request_no_panic_pers a c k fuel p input :
  wf_app_b a c = true -> cfg_okb c = true ->
  (k = true -> has_croak a = false /\ vals_small (c_cachesize c) a = true) ->
  PInv (cfg_bits c) (c_cachesize c) k p ->
  FirstOk (cfg_bits c) (c_cachesize c) k c (new_engine c (pw_store p) (pw_w p) (pw_log p)) ->
  resp_no_panic (snd (request_persisted fuel (app_rsrc a) c p input))
  /\ PInv (cfg_bits c) (c_cachesize c) k (fst (request_persisted fuel (app_rsrc a) c p input)).
Proof.
  intros Hwf Hc Hk HP HF. apply cfg_okb_sound in Hc.
  assert (Hrs : rs_wf (cfg_bits c) (c_cachesize c) k (app_rsrc a)).
  { destruct k; [destruct (Hk eq_refl); apply wf_app_rs_wf_consistent; assumption|apply wf_app_rs_wf; assumption]. }
  destruct (request_persisted_safe k fuel (app_rsrc a) c p input Hrs Hc HP HF) as [R1 R2].
  split; [apply resp_np_no_panic; exact R1|exact R2].
Qed.

(* all histories from a new session, both drivers; guard: no entry function (see the refutations) *)
Lemma history_no_panic a c w lg h :
  wf_app_b a c = true -> cfg_okb c = true -> c_first c = None ->
  Forall resp_no_panic (snd (hist_long (app_rsrc a) c (new_engine c None w lg) h))
  /\ Forall resp_no_panic (snd (hist_pers (app_rsrc a) c (mkPw None w lg false) h)).
Proof.
  intros Hwf Hc Hf. apply cfg_okb_sound in Hc. pose proof (wf_app_rs_wf a c Hwf) as Hrs.
  split.
  - destruct (hist_long_safe _ _ false (app_rsrc a) c Hrs (proj1 Hc) Hf h (new_engine c None w lg)
               (new_engine_EInv false c None w lg Hc I)) as [H1 _].
    eapply Forall_impl; [|exact H1]. intros r. apply resp_np_no_panic.
  - destruct (hist_pers_safe false (app_rsrc a) c Hrs Hc Hf h (mkPw None w lg false) I) as [H1 _].
    eapply Forall_impl; [|exact H1]. intros r. apply resp_np_no_panic.
Qed.

(* consistency after every history: guard additionally excludes CROAK (K-C08-croak) and values
   within 4 GiB of the usage counter's wrap *)
Lemma history_consistent_partial a c w lg h :
  wf_app_b a c = true -> cfg_okb c = true -> c_first c = None ->
  has_croak a = false -> vals_small (c_cachesize c) a = true ->
  (let e := fst (hist_long (app_rsrc a) c (new_engine c None w lg) h) in
   session_consistent (v_st (e_v e)) (v_ca (e_v e)))
  /\ match pw_store (fst (hist_pers (app_rsrc a) c (mkPw None w lg false) h)) with
     | Some (st, ca) => session_consistent st ca
     | None => True
     end.
Proof.
  intros Hwf Hc Hf Hnc Hsm. apply cfg_okb_sound in Hc.
  pose proof (wf_app_rs_wf_consistent a c Hwf Hnc Hsm) as Hrs.
  split.
  - destruct (hist_long_safe _ _ true (app_rsrc a) c Hrs (proj1 Hc) Hf h (new_engine c None w lg)
               (new_engine_EInv true c None w lg Hc I)) as [_ H2].
    cbv zeta. eapply SC_consistent. exact H2.
  - destruct (hist_pers_safe true (app_rsrc a) c Hrs Hc Hf h (mkPw None w lg false) I) as [_ H2].
    unfold PInv, snap_ok in H2. destruct (pw_store _) as [[st ca]|]; [|exact I]. eapply SC_consistent. exact H2.
Qed.

(* ================================================================================== *)
(* Part G — refutation witnesses                                                       *)
(* ================================================================================== *)

(* K-C08-croak: root moves to foo, foo's "CROAK 8 0" fires (flag 8 is not set): the cache is
   reset to one scope, the navigation stack keeps both nodes *)
Definition wit_croak_app : app :=
  mkApp [(s2b "root", encode (IMove (s2b "foo")));
         (s2b "foo", encode_prog [ICroak 8 false; IHalt]);
         (catch_sym, encode IHalt)] [] [] [].
Definition wit_croak_cfg : config := mkCfg 0 [] 1 0 [] [] false None.

Lemma consistent_refuted_croak :
  wf_app_b wit_croak_app wit_croak_cfg = true /\ cfg_okb wit_croak_cfg = true
  /\ c_first wit_croak_cfg = None /\ vals_small (c_cachesize wit_croak_cfg) wit_croak_app = true
  /\ has_croak wit_croak_app = true
  /\ (let e := fst (hist_long (app_rsrc wit_croak_app) wit_croak_cfg (new_engine wit_croak_cfg None [] []) [(100%nat, [])]) in
      cache_levels (v_ca (e_v e)) = 1 /\ len (s_path (v_st (e_v e))) = 2
      /\ cache_levels (v_ca (e_v e)) <> len (s_path (v_st (e_v e))) + 1)
  /\ match pw_store (fst (hist_pers (app_rsrc wit_croak_app) wit_croak_cfg (mkPw None [] [] false) [(100%nat, [])])) with
     | Some (st, ca) => cache_levels ca <> len (s_path st) + 1
     | None => False
     end.
Proof. vm_compute. repeat split; discriminate. Qed.

(* NEW (K-C08-first-depth): with an entry function (WithFirst) every request of persisted
   operation runs State.Down("_first") on the stored position.  applyTarget lets the stack grow
   to MaxLevel + 1 = 129 nodes, State.Down panics beyond MaxLevel nodes: a session 129 levels
   deep crashes on its next request. *)
Definition chain_name (k : N) : bytes := [110; 48 + k / 100; 48 + (k / 10) mod 10; 48 + k mod 10].
Fixpoint chain_nodes (n : nat) (k : N) : list (bytes * bytes) :=
  match n with
  | O => [(chain_name k, encode_prog [IHalt; IHalt])]
  | S n' => (chain_name k, encode (IMove (chain_name (k + 1)))) :: chain_nodes n' (k + 1)
  end.
Definition wit_deep_app : app :=
  mkApp ((s2b "root", encode (IMove (chain_name 1))) :: (catch_sym, encode IHalt) :: chain_nodes 127 1) [] [] [].
Definition wit_first_ok : fres := mkFres (s2b "x") false 0 [] [] false.
Definition wit_deep_cfg : config := mkCfg 0 [] 0 0 [] [] false (Some [wit_first_ok]).

Lemma no_panic_refuted_first_depth :
  wf_app_b wit_deep_app wit_deep_cfg = true /\ cfg_okb wit_deep_cfg = true
  /\ map (fun r => (r_exec r, r_flush r))
         (snd (hist_pers (app_rsrc wit_deep_app) wit_deep_cfg (mkPw None [] [] false) [(3000%nat, []); (3000%nat, s2b "1")]))
     = [(SOk, FErr ENotFound); (SPanic 23, FPanic 23)].
Proof. vm_compute. repeat split. Qed.

(* NEW (K-C08-first-fail): a failing entry function sends its private VM to "_catch"; runFirst's
   single deferred Up leaves "_first" on the stack of the engine, which is not initialised.  The
   next Exec on the same (long-lived) engine calls State.Down("_first") again: "down into same
   node" panic. *)
Definition wit_first_fail : fres := mkFres [] false 1 [] [] true.
Definition wit_fail_cfg : config := mkCfg 0 [] 0 0 [] [] false (Some [wit_first_fail]).
Definition wit_fail_app : app := mkApp [(s2b "root", encode IHalt); (catch_sym, encode IHalt)] [] [] [].

Lemma no_panic_refuted_first_fail :
  wf_app_b wit_fail_app wit_fail_cfg = true /\ cfg_okb wit_fail_cfg = true
  /\ map (fun r => (r_exec r, r_flush r))
         (snd (hist_long (app_rsrc wit_fail_app) wit_fail_cfg (new_engine wit_fail_cfg None [] []) [(100%nat, []); (100%nat, [])]))
     = [(SOk, FOk); (SPanic 24, FPanic 24)].
Proof. vm_compute. repeat split. Qed.

(* NEW (K-C08-flagcount): state.toByteSize returns a uint8: with more than 2032 client flags
   the flag field is SHORTER than BitSize says (FlagCount 4000: BitSize 4008, 245 bytes), and a
   flag the range check accepts indexes past the field.  cfg_okb excludes it. *)
Definition wit_flags_app : app :=
  mkApp [(s2b "root", encode_prog [ICatch catch_sym 2000 true; IHalt]); (catch_sym, encode IHalt)] [] [] [].
Definition wit_flags_cfg : config := mkCfg 0 [] 4000 0 [] [] false None.

Lemma no_panic_refuted_flagcount :
  wf_app_b wit_flags_app wit_flags_cfg = true /\ cfg_okb wit_flags_cfg = false
  /\ c_first wit_flags_cfg = None
  /\ map (fun r => (r_exec r, r_flush r))
         (snd (hist_long (app_rsrc wit_flags_app) wit_flags_cfg (new_engine wit_flags_cfg None [] []) [(100%nat, [])]))
     = [(SPanic 20, FPanic 20)].
Proof. vm_compute. repeat split. Qed.

(* ---- entry function, long-lived engine: once initialised, runFirst never runs again ------------ *)
Lemma set_code_eng_initd e b : e_initd (fst (set_code_eng e b)) = e_initd e.
Proof.
  unfold set_code_eng. cbv zeta. destruct b; [|reflexivity].
  destruct (getf _ FLAG_DIRTY); [destruct (cache_last (v_ca (e_v e)))|]; reflexivity.
Qed.

Lemma eng_init_initd fuel rs c e input :
  e_initd e = true -> e_initd (fst (fst (eng_init fuel rs c e input))) = true.
Proof.
  intros Hi. unfold eng_init.
  set (prep := if e_execd e then let '(e', _, f) := eng_flush fuel rs c e in (e', stat_of_f f) else (e, SOk)).
  assert (Hp : e_initd (fst prep) = true).
  { unfold prep. destruct (e_execd e); [|exact Hi].
    assert (F3 : e_initd (fst (fst (eng_flush fuel rs c e))) = e_initd e).
    { unfold eng_flush. destruct (negb (e_execd e)); [reflexivity|].
      destruct (vm_render fuel rs (c_sep c) (s_lang (v_st (e_v e))) (e_v e)) as [v r]. cbv zeta.
      destruct (eng_reset_inner (e_v (eset_v e v))) as [v' s'].
      destruct r; repeat match goal with
        | |- context [if ?cc then _ else _] => destruct cc
        | |- context [match e_exit ?x with _ => _ end] => destruct (e_exit x)
        | |- context [match ?x with SOk => _ | SErr _ _ => _ | SPanic _ => _ | SFuel => _ end] => destruct x
        end; reflexivity. }
    destruct (eng_flush fuel rs c e) as [[e' o] f]. cbn [fst snd] in *. congruence. }
  destruct prep as [e1 s1]. cbn [fst] in Hp.
  destruct s1; try (cbn [fst]; exact Hp).
  cbv zeta. cbn [e_initd]. rewrite Hp. reflexivity.
Qed.

Lemma eng_exec_initd fuel rs c e input :
  e_initd e = true -> e_initd (fst (fst (eng_exec fuel rs c e input))) = true.
Proof.
  intros Hi. unfold eng_exec.
  pose proof (eng_init_initd fuel rs c e input Hi) as H1.
  destruct (eng_init fuel rs c e input) as [[e1 cont] s]. cbn [fst] in H1.
  destruct s; try (cbn [fst]; exact H1).
  destruct (negb cont); [cbn [fst]; exact H1|].
  set (rf := if c_reset_empty c && (len input =? 0) then eng_reset_force c e1 else (e1, SOk)).
  assert (Hrf : e_initd (fst rf) = true).
  { unfold rf. destruct (c_reset_empty c && (len input =? 0)); [|exact H1].
    unfold eng_reset_force. destruct (s_path (v_st (e_v e1))); [exact H1|]. cbv zeta.
    destruct (eng_reset_inner _) as [v' s']. exact H1. }
  destruct rf as [e2 s2]. cbn [fst] in Hrf.
  destruct s2; try (cbn [fst]; exact Hrf).
  destruct ((0 <? len input) && negb (valid_input_b input)); [cbn [fst]; exact Hrf|].
  destruct (set_input (v_st (e_v e2)) (Some input)) as [st'|er|n]; try (cbn [fst]; exact Hrf).
  unfold eng_exec_inner. cbv zeta. cbn [e_v eset_v v_st vset_st s_code].
  destruct (s_code st'); [cbn [fst]; exact Hrf|].
  destruct (run _ _ _ _ _ _) as [[v1 b] s]. destruct s; try (cbn [fst]; exact Hrf).
  destruct (getf (v_st v1) FLAG_TERMINATE); [cbn [fst]; exact Hrf|].
  match goal with |- context [set_code_eng ?ee b] =>
    pose proof (set_code_eng_initd ee b) as Hs; destruct (set_code_eng ee b) as [e3 cont3] end.
  cbn [fst] in *. rewrite Hs. exact Hrf.
Qed.

Lemma request_long_initd fuel rs c e input :
  e_initd e = true -> e_initd (fst (request_long fuel rs c e input)) = true.
Proof.
  intros Hi. unfold request_long.
  pose proof (eng_exec_initd fuel rs c e input Hi) as H1.
  destruct (eng_exec fuel rs c e input) as [[e1 cont] s]. cbn [fst] in H1.
  assert (F3 : e_initd (fst (fst (eng_flush fuel rs c e1))) = e_initd e1).
  { unfold eng_flush. destruct (negb (e_execd e1)); [reflexivity|].
    destruct (vm_render fuel rs (c_sep c) (s_lang (v_st (e_v e1))) (e_v e1)) as [v r]. cbv zeta.
    destruct (eng_reset_inner (e_v (eset_v e1 v))) as [v' s'].
    destruct r; repeat match goal with
      | |- context [if ?cc then _ else _] => destruct cc
      | |- context [match e_exit ?x with _ => _ end] => destruct (e_exit x)
      | |- context [match ?x with SOk => _ | SErr _ _ => _ | SPanic _ => _ | SFuel => _ end] => destruct x
      end; reflexivity. }
  destruct s; try (cbn [fst]; exact H1);
    destruct (eng_flush fuel rs c e1) as [[e2 out] f]; cbn [fst] in *; congruence.
Qed.

Lemma hist_long_safe_initd bits cap k rs c :
  rs_wf bits cap k rs -> wf_sym (cfg_root c) ->
  match c_first c with Some script => Forall (fr_ok bits cap k) script | None => True end ->
  forall h e, EInv bits cap k e -> e_initd e = true ->
  Forall resp_np (snd (hist_long rs c e h)) /\ EInv bits cap k (fst (hist_long rs c e h)).
Proof.
  intros Hrs Hroot Hf. induction h as [|[fuel input] h IH]; intros e HE Hi; cbn [hist_long].
  - cbn [fst snd]. split; [constructor|exact HE].
  - assert (HF : FirstOk bits cap k c e) by (unfold FirstOk; destruct (c_first c); [split; [exact Hf|left; exact Hi]|exact I]).
    pose proof (request_long_safe bits cap k fuel rs c e input Hrs Hroot HE HF) as [R1 R2].
    pose proof (request_long_initd fuel rs c e input Hi) as Hi'.
    destruct (request_long fuel rs c e input) as [e' resp]. cbn [fst snd] in R1, R2, Hi'.
    destruct (IH e' R2 Hi') as [I1 I2]. destruct (hist_long rs c e' h) as [e'' resps]. cbn [fst snd] in *.
    split; [constructor; assumption|exact I2].
Qed.

Lemma wf_app_first a c :
  wf_app_b a c = true ->
  match c_first c with Some script => Forall (fr_ok (cfg_bits c) (c_cachesize c) false) script | None => True end.
Proof.
  intros Hwf. unfold wf_app_b in Hwf. cbv zeta in Hwf.
  apply andb_true_iff in Hwf. destruct Hwf as [_ Hf].
  destruct (c_first c) as [script|]; [|exact I].
  rewrite forallb_forall in Hf. apply Forall_forall. intros fr Hin. apply fres_wf_ok. apply Hf. exact Hin.
Qed.

Lemma first_pre_fresh c : first_pre (v_st (e_v (new_engine c None [] []))) .
Proof.
  unfold new_engine. cbn [e_v v_st]. unfold first_pre.
  assert (Hp : s_path (fresh_state c) = []).
  { unfold fresh_state. cbv zeta.
    assert (H1 : s_path (st_set_language lang_lookup (new_state (c_flagcount c)) (c_lang c)) = [])
      by (destruct (flagish_set_language lang_lookup (new_state (c_flagcount c)) (c_lang c)) as (E & _); rewrite E; reflexivity).
    destruct (s_lang _); [destruct (flagish_setf (st_set_language lang_lookup (new_state (c_flagcount c)) (c_lang c)) FLAG_LANG) as (E & _); rewrite E|]; exact H1. }
  rewrite Hp. split; [cbn; lia|cbn; discriminate].
Qed.

(* with an entry function, long-lived engine: the first request of a new engine is safe, and if it
   leaves the engine initialised every later history is *)
Lemma history_no_panic_first_long a c fuel input h :
  wf_app_b a c = true -> cfg_okb c = true ->
  resp_no_panic (snd (request_long fuel (app_rsrc a) c (new_engine c None [] []) input))
  /\ (e_initd (fst (request_long fuel (app_rsrc a) c (new_engine c None [] []) input)) = true ->
      Forall resp_no_panic
        (snd (hist_long (app_rsrc a) c (fst (request_long fuel (app_rsrc a) c (new_engine c None [] []) input)) h))).
Proof.
  intros Hwf Hc. apply cfg_okb_sound in Hc. pose proof (wf_app_rs_wf a c Hwf) as Hrs.
  pose proof (wf_app_first a c Hwf) as Hfs.
  assert (HF : FirstOk (cfg_bits c) (c_cachesize c) false c (new_engine c None [] [])).
  { unfold FirstOk. destruct (c_first c); [|exact I]. split; [exact Hfs|right]. split; [reflexivity|apply first_pre_fresh]. }
  destruct (request_long_safe _ _ false fuel (app_rsrc a) c _ input Hrs (proj1 Hc)
              (new_engine_EInv false c None [] [] Hc I) HF) as [R1 R2].
  split; [apply resp_np_no_panic; exact R1|].
  intros Hi. destruct (hist_long_safe_initd _ _ false (app_rsrc a) c Hrs (proj1 Hc) Hfs h _ R2 Hi) as [H1 _].
  eapply Forall_impl; [|exact H1]. intros r. apply resp_np_no_panic.
Qed.

Lemma request_no_panic a c k fuel input :
  wf_app_b a c = true -> cfg_okb c = true ->
  (k = true -> has_croak a = false /\ vals_small (c_cachesize c) a = true) ->
  (forall e, EInv (cfg_bits c) (c_cachesize c) k e -> FirstOk (cfg_bits c) (c_cachesize c) k c e ->
     resp_no_panic (snd (request_long fuel (app_rsrc a) c e input))
     /\ EInv (cfg_bits c) (c_cachesize c) k (fst (request_long fuel (app_rsrc a) c e input)))
  /\ (forall p, PInv (cfg_bits c) (c_cachesize c) k p ->
     FirstOk (cfg_bits c) (c_cachesize c) k c (new_engine c (pw_store p) (pw_w p) (pw_log p)) ->
     resp_no_panic (snd (request_persisted fuel (app_rsrc a) c p input))
     /\ PInv (cfg_bits c) (c_cachesize c) k (fst (request_persisted fuel (app_rsrc a) c p input))).
Proof.
  intros Hwf Hc Hk. split.
  - intros e HE HF. apply request_no_panic_long; assumption.
  - intros p HP HF. apply request_no_panic_pers; assumption.
Qed.

(* ---- non-vacuity witness: LOAD + MAP + menu + INCMP + CATCH + _catch with an ascent ------------- *)
Definition wit_app : app :=
  mkApp [(s2b "root", encode_prog [ILoad (s2b "aa") 0; IMap (s2b "aa"); IMOut (s2b "go") (s2b "1"); IHalt; IInCmp (s2b "foo") (s2b "1")]);
         (s2b "foo", encode_prog [ICatch (s2b "root") 9 true; IMOut (s2b "back") (s2b "0"); IHalt; IInCmp (s2b "_") (s2b "0")]);
         (catch_sym, encode_prog [IHalt; IMove (s2b "_")])]
        [(s2b "root", s2b "root {{.aa}}"); (s2b "foo", s2b "foo"); (catch_sym, s2b "catch")] []
        [(s2b "aa", [mkFres (s2b "hello") false 0 [8] [] false])].
Definition wit_cfg : config := mkCfg 0 [] 2 0 [] [] false None.
(* start, valid selector, junk, over-long, unknown selector, ascent, and a request without fuel *)
Definition wit_hist : list (nat * bytes) :=
  [(200%nat, []); (200%nat, s2b "1"); (200%nat, s2b "!junk"); (200%nat, rep 65 300); (200%nat, s2b "9");
   (200%nat, s2b "0"); (0%nat, s2b "1")].
Definition resp_view (r : response) := (r_cont r, r_exec r, r_out r, r_flush r).
Definition wit_trace : list (bool * stat * bytes * fstat) :=
  [(true, SOk, s2b "root hello" ++ [10] ++ s2b "1:go", FOk);
   (true, SOk, s2b "foo" ++ [10] ++ s2b "0:back", FOk);
   (true, SErr EGen None, [], FErr EFlushNoExec);
   (false, SErr EGen None, [], FErr EFlushNoExec);
   (true, SOk, s2b "invalid input: '9'" ++ [10] ++ s2b "catch", FOk);
   (true, SOk, s2b "foo" ++ [10] ++ s2b "0:back", FOk);
   (false, SFuel, [], FFuel)].

Lemma wit_guards :
  wf_app_b wit_app wit_cfg = true /\ cfg_okb wit_cfg = true /\ c_first wit_cfg = None
  /\ has_croak wit_app = false /\ vals_small (c_cachesize wit_cfg) wit_app = true.
Proof. vm_compute. repeat split. Qed.
Lemma wit_runs :
  map resp_view (snd (hist_long (app_rsrc wit_app) wit_cfg (new_engine wit_cfg None [] []) wit_hist)) = wit_trace
  /\ map resp_view (snd (hist_pers (app_rsrc wit_app) wit_cfg (mkPw None [] [] false) wit_hist)) = wit_trace.
Proof. vm_compute. split; reflexivity. Qed.
Lemma wit_invariant k : EInv (cfg_bits wit_cfg) (c_cachesize wit_cfg) k (new_engine wit_cfg None [] []).
Proof. apply new_engine_EInv; [apply cfg_okb_sound; vm_compute; reflexivity|exact I]. Qed.
Lemma wit_rs_wf : rs_wf (cfg_bits wit_cfg) (c_cachesize wit_cfg) true (app_rsrc wit_app).
Proof. apply wf_app_rs_wf_consistent; vm_compute; reflexivity. Qed.
(* the same application behind an entry function that succeeds *)
Definition wit_first_cfg : config := mkCfg 0 [] 2 0 [] [] false (Some [wit_first_ok]).
