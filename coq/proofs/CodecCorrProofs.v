(* CodecCorrProofs.v — why the correspondence may judge a LARGE disassembler case (CDisasmEnc) without
   evaluating the decoder model: for the encoding of a well-formed, non-empty program the model's
   answer is given by the round-trip theorem of C14. *)
From Vise Require Import Bytes Errors Consts Codec BytesProofs CodecProofs CorrBase CodecCorr.
From Coq Require Import Bool.
Local Open Scope N_scope.

Lemma bytes_okb_true b : bytes_okb b = true -> bytes_ok b.
Proof.
  unfold bytes_okb, bytes_ok. intro H. apply Forall_forall. intros x Hx.
  rewrite forallb_forall in H. apply N.ltb_lt. apply H. exact Hx.
Qed.

Lemma wf_symb_true s : wf_symb s = true -> wf_sym s.
Proof.
  unfold wf_symb, wf_sym. intro H.
  apply andb_true_iff in H. destruct H as [H H3].
  apply andb_true_iff in H. destruct H as [H1 H2].
  split; [apply bytes_okb_true; exact H1|].
  split; [apply N.leb_le; exact H2|apply N.leb_le; exact H3].
Qed.

Lemma wf_numb_true n : wf_numb n = true -> wf_num n.
Proof. unfold wf_numb, wf_num. apply N.ltb_lt. Qed.

Lemma and_wf a b (P Q : Prop) : (a = true -> P) -> (b = true -> Q) -> a && b = true -> P /\ Q.
Proof. intros HP HQ H. apply andb_true_iff in H. destruct H. split; auto. Qed.

Lemma wf_instrb_true i : wf_instrb i = true -> wf_instr i.
Proof.
  destruct i; cbn [wf_instrb wf_instr];
    first [ discriminate
          | intros _; exact I
          | apply wf_symb_true
          | apply wf_numb_true
          | apply and_wf; first [apply wf_symb_true | apply wf_numb_true] ].
Qed.

Lemma wf_progb_true p : forallb wf_instrb p = true -> Forall wf_instr p.
Proof.
  intro H. apply Forall_forall. intros i Hi. apply wf_instrb_true.
  rewrite forallb_forall in H. apply H. exact Hi.
Qed.

(* a CDisasmEnc case the correspondence accepts: the file b IS the encoding of p, the decoder
   model lists it as print_prog p (theorem, not evaluation), and the command agreed *)
Theorem disasm_enc_by_theorem : forall p b ex out,
  corr_ok (CDisasmEnc p b ex out) = true ->
  b = encode_prog p /\ to_string b = Ok (print_prog p) /\ ex = 0.
Proof.
  intros p b ex out H. cbn [corr_ok] in H.
  repeat (apply andb_true_iff in H; destruct H as [H ?]).
  match goal with Hb : bytes_eqb (encode_prog p) b = true |- _ => apply bytes_eqb_eq in Hb; subst b end.
  split; [reflexivity|]. split.
  - apply disasm_lemma; [apply wf_progb_true; assumption|].
    destruct p; [discriminate|discriminate].
  - apply N.eqb_eq. assumption.
Qed.
