(* SymbolProofs.v — lemmas for C05 (loaded symbols live exactly as long as their stack level)
   and C18 (the selected language reaches every lookup and survives the session).
   Written by agent `symbols`.  Builds on CacheProofs (CInv, C09 lemmas), NavProofs (lock-step),
   VmProofs (the run_load lemmas).  No model file is touched. *)
From Coq Require Import Lia ZifyN ZifyNat ZifyBool.
From Vise Require Import Bytes Errors Consts EngConsts Codec CacheModel StateModel NavModel NavSpec
  RenderModel VmModel EngineModel BytesProofs CacheProofs NavProofs VmProofs.
Local Open Scope N_scope.

(* ================================================================================== *)
(* Part 1 — the cache as seen from one symbol                                         *)
(* ================================================================================== *)

(* what each scope says about symbol k, outermost scope first *)
Definition kview (k : bytes) (fs : list (list (bytes * bytes))) : list (option bytes) := map (alookup k) fs.

(* first scope that defines the symbol: (scope number, value) *)
Fixpoint first_some {A} (i : N) (l : list (option A)) : option (N * A) :=
  match l with
  | [] => None
  | Some v :: _ => Some (i, v)
  | None :: r => first_some (i + 1) r
  end.

(* "symbol k lives in scope number n with value v" *)
Definition lives (c : cache) (k : bytes) : option (N * bytes) := first_some 0 (kview k (c_frames c)).

Lemma ahas_alookup {V} k (f : list (bytes * V)) : ahas k f = match alookup k f with Some _ => true | None => false end.
Proof. reflexivity. Qed.

Lemma frame_of_from_view i fs k :
  frame_of_from i fs k = option_map fst (first_some i (kview k fs)).
Proof.
  revert i. induction fs as [|f fs IH]; intro i; [reflexivity|].
  cbn [frame_of_from kview map first_some]. rewrite ahas_alookup.
  destruct (alookup k f); [reflexivity|]. apply IH.
Qed.

Lemma first_some_nth {A} (l : list (option A)) : forall i j v,
  first_some i l = Some (j, v) ->
  exists m, j = i + N.of_nat m /\ nth_error l m = Some (Some v)
            /\ forall m', (m' < m)%nat -> nth_error l m' = Some None.
Proof.
  induction l as [|x l IH]; intros i j v H; [discriminate|].
  destruct x as [a|]; cbn [first_some] in H.
  - injection H as <- <-. exists O. split; [lia|]. split; [reflexivity|]. intros m' Hm. lia.
  - destruct (IH _ _ _ H) as [m [Hj [Hn Hlt]]]. exists (S m). split; [lia|]. split; [exact Hn|].
    intros [|m'] Hm; [reflexivity|]. cbn [nth_error]. apply Hlt. lia.
Qed.

Lemma first_some_lt {A} (l : list (option A)) i j v :
  first_some i l = Some (j, v) -> i <= j /\ j < i + len l.
Proof.
  intros H. destruct (first_some_nth _ _ _ _ H) as [m [Hj [Hn _]]].
  assert (m < List.length l)%nat by (apply nth_error_Some; congruence). unfold len. lia.
Qed.

Lemma first_some_shift {A} (l : list (option A)) : forall i d,
  first_some (i + d) l = option_map (fun p => (fst p + d, snd p)) (first_some i l).
Proof.
  induction l as [|x l IH]; intros i d; [reflexivity|].
  destruct x; cbn [first_some option_map fst snd]; [reflexivity|].
  replace (i + d + 1) with (i + 1 + d) by lia. apply IH.
Qed.

Lemma first_some_app {A} (a b : list (option A)) : forall i,
  first_some i (a ++ b) = match first_some i a with Some r => Some r | None => first_some (i + len a) b end.
Proof.
  induction a as [|x a IH]; intro i; cbn [List.app first_some].
  - unfold len. cbn. rewrite N.add_0_r. reflexivity.
  - destruct x; [reflexivity|]. rewrite IH. destruct (first_some (i + 1) a); [reflexivity|].
    f_equal. unfold len. cbn [List.length]. lia.
Qed.

Lemma frame_get_view fs i k :
  frame_get fs i k = match nth_error (kview k fs) (N.to_nat i) with Some (Some v) => v | _ => [] end.
Proof.
  unfold frame_get, kview. rewrite nth_error_map. destruct (nth_error fs (N.to_nat i)); reflexivity.
Qed.

(* Get reads the first scope that defines the symbol *)
Lemma cache_get_lives c k :
  cache_get c k = match lives c k with Some (_, v) => Ok v | None => Err EGen end.
Proof.
  unfold cache_get, frame_of, lives. rewrite frame_of_from_view.
  destruct (first_some 0 (kview k (c_frames c))) as [[j v]|] eqn:H; cbn [option_map fst]; [|reflexivity].
  rewrite frame_get_view. destruct (first_some_nth _ _ _ _ H) as [m [Hj [Hn _]]].
  replace (N.to_nat j) with m by lia. rewrite Hn. reflexivity.
Qed.

Lemma frame_of_lives c k : frame_of c k = option_map fst (lives c k).
Proof. unfold frame_of, lives. apply frame_of_from_view. Qed.

Lemma cache_get_never_panics c k n : cache_get c k <> Panic n.
Proof. rewrite cache_get_lives. destruct (lives c k) as [[? ?]|]; discriminate. Qed.

Lemma lives_iff c k n v :
  lives c k = Some (n, v) <-> (frame_of c k = Some n /\ cache_get c k = Ok v).
Proof.
  rewrite frame_of_lives, cache_get_lives. split.
  - intros ->. split; reflexivity.
  - destruct (lives c k) as [[j w]|]; cbn [option_map fst]; intros [H1 H2]; [|discriminate]. congruence.
Qed.

Lemma lives_none_iff c k : lives c k = None <-> cache_get c k = Err EGen.
Proof. rewrite cache_get_lives. destruct (lives c k) as [[? ?]|]; split; intro H; congruence. Qed.

Lemma lives_lt c k n v : lives c k = Some (n, v) -> n < cache_levels c.
Proof.
  unfold lives, cache_levels. intros H. apply first_some_lt in H. unfold kview in H.
  unfold len in *. rewrite map_length in H. lia.
Qed.

(* ---- how each cache operation moves the view --------------------------------------- *)
Lemma kview_update_nth k i g fs :
  (forall f, alookup k (g f) = alookup k f) -> kview k (update_nth i g fs) = kview k fs.
Proof.
  intros Hg. revert i. induction fs as [|f fs IH]; intros [|i]; cbn [update_nth kview map]; try reflexivity.
  - rewrite Hg. reflexivity.
  - f_equal. apply IH.
Qed.

Lemma lives_push c k : lives (cache_push c) k = lives c k.
Proof.
  unfold lives, cache_push. cbn [c_frames]. unfold kview. rewrite map_app. cbn [map alookup].
  rewrite first_some_app. destruct (first_some 0 _); reflexivity.
Qed.

Lemma kview_app k a b : kview k (a ++ b) = kview k a ++ kview k b.
Proof. apply map_app. Qed.

(* Pop: the symbol is gone iff it lived in the top scope; otherwise nothing changes *)
Lemma lives_pop c c' k :
  cache_pop c = Ok c' ->
  lives c' k = match lives c k with
               | Some (n, v) => if n + 1 =? cache_levels c then None else Some (n, v)
               | None => None
               end.
Proof.
  unfold cache_pop. intros H. destruct (rev (c_frames c)) as [|top rr] eqn:Hr; [discriminate|].
  injection H as <-. assert (Hf : c_frames c = rev rr ++ [top]).
  { rewrite <- (rev_involutive (c_frames c)), Hr. reflexivity. }
  unfold lives, cache_levels. cbn [c_frames]. rewrite Hf, kview_app, first_some_app.
  assert (Hlen : len (rev rr ++ [top]) = len (kview k (rev rr)) + 1).
  { unfold len, kview. rewrite app_length, map_length. cbn. lia. }
  rewrite Hlen. clear Hlen.
  assert (Hpre : first_some 0 (kview k (match rev rr with [] => [[]] | _ => rev rr end)) = first_some 0 (kview k (rev rr))).
  { destruct (rev rr); reflexivity. }
  rewrite Hpre. destruct (first_some 0 (kview k (rev rr))) as [[n v]|] eqn:Hs.
  - apply first_some_lt in Hs. destruct (n + 1 =? len (kview k (rev rr)) + 1) eqn:He; [lia|reflexivity].
  - cbn [kview map first_some]. destruct (alookup k top); [|reflexivity].
    rewrite N.eqb_refl. reflexivity.
Qed.

Lemma lives_pop_cases c c' k :
  cache_pop c = Ok c' -> lives c' k = None \/ lives c' k = lives c k.
Proof.
  intros H. rewrite (lives_pop _ _ _ H). destruct (lives c k) as [[n v]|]; [|left; reflexivity].
  destruct (n + 1 =? cache_levels c); [left|right]; reflexivity.
Qed.

Lemma top_index_nat c : c_frames c <> [] -> S (N.to_nat (top_index c)) = List.length (c_frames c).
Proof. intros H. unfold top_index, len. destruct (c_frames c); [congruence|]. cbn [List.length]. lia. Qed.

Lemma update_nth_length {A} i g (l : list A) : List.length (update_nth i g l) = List.length l.
Proof. revert i. induction l as [|x l IH]; intros [|i]; cbn [update_nth List.length]; auto. Qed.

(* Add: stored in the TOP scope with the declared limit, nothing else moves *)
Lemma cache_add_ok c k v l c' :
  cache_add c k v l = Ok c' ->
  lives c k = None
  /\ lives c' k = Some (top_index c, v)
  /\ cache_levels c' = cache_levels c
  /\ cache_reserved c' k = Ok l
  /\ (0 < l -> len v <= l)
  /\ c_last c' = v
  /\ (forall k2, k2 <> k -> lives c' k2 = lives c k2 /\ cache_reserved c' k2 = cache_reserved c k2).
Proof.
  unfold cache_add. intros H.
  destruct ((0 <? l) && (l <? len v)) eqn:Hlim; [discriminate|].
  destruct (frame_of c k) as [i|] eqn:Hfo; [destruct (i =? top_index c); discriminate|].
  destruct ((0 <? len v) && _); [discriminate|].
  destruct (c_frames c) as [|f0 fs0] eqn:Hfs; [discriminate|].
  injection H as <-.
  assert (Hne : c_frames c <> []) by congruence.
  destruct (frames_last (c_frames c) Hne) as [pre [top Hpt]].
  assert (Hti : N.to_nat (top_index c) = List.length pre) by (apply (top_index_app c pre top); exact Hpt).
  rewrite frame_of_lives in Hfo. unfold lives in *. unfold cache_levels, cache_reserved. cbn [c_frames c_sizes c_last].
  rewrite <- Hfs. rewrite Hpt in *. rewrite Hti, update_nth_app.
  rewrite kview_app, first_some_app in Hfo.
  destruct (first_some 0 (kview k pre)) eqn:Hp; [discriminate|].
  cbn [kview map first_some option_map] in Hfo. destruct (alookup k top) eqn:Hat; [discriminate|].
  split; [rewrite kview_app, first_some_app, Hp; cbn [kview map first_some]; rewrite Hat; reflexivity|].
  split.
  { rewrite kview_app, first_some_app, Hp. cbn [kview map first_some]. rewrite alookup_aset_same.
    f_equal. f_equal. unfold top_index. rewrite Hpt. unfold len, kview. rewrite app_length, map_length. cbn. lia. }
  split; [unfold len; rewrite !app_length; reflexivity|].
  split; [rewrite alookup_aset_same; reflexivity|].
  split.
  { intros Hl. apply andb_false_iff in Hlim. destruct Hlim as [Hx|Hx]; [apply N.ltb_ge in Hx; lia|apply N.ltb_ge in Hx; exact Hx]. }
  split; [reflexivity|].
  intros k2 Hk2. split.
  - rewrite !kview_app. cbn [kview map]. rewrite alookup_aset_other by exact Hk2. reflexivity.
  - rewrite alookup_aset_other by exact Hk2. reflexivity.
Qed.

(* a rejected Add changes nothing (it returns no cache at all: the caller keeps the old one) *)

(* Update: in ITS scope, also by the empty string; sizes untouched *)
Lemma kview_update_same k i v fs old :
  nth_error (kview k fs) i = Some (Some old) ->
  kview k (update_nth i (aset k v) fs) = update_nth i (fun _ => Some v) (kview k fs).
Proof.
  revert i. induction fs as [|f fs IH]; intros [|i] H; cbn [update_nth kview map nth_error] in *; try discriminate.
  - rewrite alookup_aset_same. reflexivity.
  - f_equal. apply IH. exact H.
Qed.

Lemma first_some_update {A} (l : list (option A)) : forall i j (old v : A) m,
  first_some i l = Some (j, old) -> j = i + N.of_nat m ->
  first_some i (update_nth m (fun _ => Some v) l) = Some (j, v).
Proof.
  induction l as [|x l IH]; intros i j old v m H Hj; [discriminate|].
  destruct x as [a|]; cbn [first_some] in H.
  - injection H as <- <-. assert (m = O) by lia. subst m. reflexivity.
  - destruct m as [|m].
    + apply first_some_lt in H. lia.
    + cbn [update_nth first_some]. eapply IH; [exact H|lia].
Qed.

Lemma cache_update_raw_ok c k v c' :
  cache_update_raw c k v = (c', None) ->
  exists n old, lives c k = Some (n, old) /\ lives c' k = Some (n, v)
    /\ cache_levels c' = cache_levels c /\ c_sizes c' = c_sizes c /\ c_last c' = c_last c
    /\ (forall l, cache_reserved c k = Ok l -> 0 < l -> len v <= l)
    /\ (forall k2, k2 <> k -> lives c' k2 = lives c k2).
Proof.
  unfold cache_update_raw. intros H.
  destruct ((0 <? match alookup k (c_sizes c) with Some l => l | None => 0 end) && _) eqn:Hlim; [discriminate|].
  destruct (frame_of c k) as [i|] eqn:Hfo; [|discriminate].
  cbv zeta in H. cbn [c_size c_use c_frames c_sizes c_last] in H.
  destruct ((check_capacity _ _ v =? 0) && (0 <? len v)); [discriminate|].
  injection H as <-.
  rewrite frame_of_lives in Hfo. destruct (lives c k) as [[n old]|] eqn:Hl; [|discriminate].
  cbn [option_map fst] in Hfo. injection Hfo as <-.
  exists n, old. split; [reflexivity|].
  unfold lives in *. unfold cache_levels, cache_reserved. cbn [c_frames c_sizes c_last].
  destruct (first_some_nth _ _ _ _ Hl) as [m [Hn [Hnth _]]].
  assert (Hm : N.to_nat n = m) by lia. rewrite Hm.
  split.
  { rewrite (kview_update_same k m v _ []).
    - rewrite (kview_update_same k m [] _ old Hnth).
      eapply first_some_update; [|exact Hn]. eapply first_some_update; [exact Hl|exact Hn].
    - rewrite (kview_update_same k m [] _ old Hnth).
      clear - Hnth. revert Hnth. generalize (kview k (c_frames c)). intros l. revert m.
      induction l as [|x l IH]; intros [|m] H; cbn [nth_error update_nth] in *; try discriminate; auto. }
  split; [unfold len; rewrite !update_nth_length; reflexivity|].
  split; [reflexivity|]. split; [reflexivity|].
  split.
  { intros l Hr Hl0. destruct (alookup k (c_sizes c)); [|discriminate]. injection Hr as ->.
    apply andb_false_iff in Hlim. destruct Hlim as [Hx|Hx]; apply N.ltb_ge in Hx; lia. }
  intros k2 Hk2.
  rewrite !kview_update_nth; [reflexivity| |]; intros f; apply alookup_aset_other; exact Hk2.
Qed.

(* a failed Update gives back the cache it was given (roll-back: C09) *)
Lemma cache_update_raw_failed c k v c' e :
  CInv c -> len v + c_size c < 4294967296 -> cache_update_raw c k v = (c', Some e) -> c' = c.
Proof.
  intros Hi Hb H. pose proof (cache_update_raw_spec c k v Hi Hb) as S. cbv zeta in S. rewrite H in S.
  cbn [fst snd] in S. apply S. discriminate.
Qed.

(* over-limit update: rejected, whatever the length (no 16-bit truncation), with no invariant needed *)
Lemma cache_update_raw_over_limit c k v l :
  cache_reserved c k = Ok l -> 0 < l -> l < len v -> cache_update_raw c k v = (c, Some EGen).
Proof.
  unfold cache_reserved, cache_update_raw. intros Hr H0 H1. destruct (alookup k (c_sizes c)); [|discriminate].
  injection Hr as ->. assert (E : (0 <? l) && (l <? len v) = true) by (apply andb_true_intro; split; apply N.ltb_lt; assumption).
  rewrite E. reflexivity.
Qed.

(* the empty string is always accepted for a live symbol *)
Lemma cache_update_raw_empty c k n old :
  lives c k = Some (n, old) -> exists c', cache_update_raw c k [] = (c', None).
Proof.
  intros Hl. unfold cache_update_raw. assert (Hf : frame_of c k = Some n) by (rewrite frame_of_lives, Hl; reflexivity).
  rewrite Hf. change (len (@nil N)) with 0.
  assert (E1 : forall x, (0 <? x) && (x <? 0) = false).
  { intros x. apply andb_false_intro2. apply N.ltb_ge. lia. }
  rewrite E1. cbv zeta. change (0 <? 0) with false. rewrite andb_false_r. eexists. reflexivity.
Qed.

(* ================================================================================== *)
(* Part 2 — scope lifetime over cache histories and over moves                        *)
(* ================================================================================== *)

Lemma pops_S m c : pops (S m) c = match cache_pop c with Ok c' => pops m c' | _ => c end.
Proof. reflexivity. Qed.

Lemma lives_pops m : forall c k, c_frames c <> [] -> lives (pops m c) k = None \/ lives (pops m c) k = lives c k.
Proof.
  induction m as [|m IH]; intros c k Hne; [right; reflexivity|].
  rewrite pops_S. destruct (pop_levels c Hne) as [c' [Hp [Hne' _]]]. rewrite Hp.
  destruct (IH c' k Hne') as [H|H]; [left; exact H|].
  rewrite H. apply lives_pop_cases. exact Hp.
Qed.

(* ascending past the scope of k: gone.  m pops from a cache whose scope count is at most n + m *)
Lemma gone_after_pops m : forall c k n v,
  c_frames c <> [] -> lives c k = Some (n, v) -> cache_levels c <= n + N.of_nat m -> lives (pops m c) k = None.
Proof.
  induction m as [|m IH]; intros c k n v Hne Hl Hlev.
  - apply lives_lt in Hl. lia.
  - rewrite pops_S. destruct (pop_levels c Hne) as [c' [Hp [Hne' Hlv']]]. rewrite Hp.
    pose proof (lives_pop _ _ k Hp) as Hl'. rewrite Hl in Hl'.
    destruct (n + 1 =? cache_levels c) eqn:He.
    + destruct (lives_pops m c' k Hne') as [H|H]; [exact H|]. rewrite H. exact Hl'.
    + apply (IH c' k n v Hne' Hl'). pose proof (lives_lt _ _ _ _ Hl) as Hlt.
      destruct (cache_levels c =? 1) eqn:H1; lia.
Qed.

(* not ascending past it: still there, same scope, same value *)
Lemma kept_by_pops m : forall c k n v,
  c_frames c <> [] -> lives c k = Some (n, v) -> n + 1 + N.of_nat m <= cache_levels c -> lives (pops m c) k = Some (n, v).
Proof.
  induction m as [|m IH]; intros c k n v Hne Hl Hlev; [exact Hl|].
  rewrite pops_S. destruct (pop_levels c Hne) as [c' [Hp [Hne' Hlv']]]. rewrite Hp.
  pose proof (lives_pop _ _ k Hp) as Hl'. rewrite Hl in Hl'.
  destruct (n + 1 =? cache_levels c) eqn:He; [lia|].
  apply (IH c' k n v Hne' Hl'). destruct (cache_levels c =? 1) eqn:H1; lia.
Qed.

(* Update of ANOTHER symbol never changes what is seen of k — in all three outcomes
   (limit refusal, capacity refusal with roll-back, success) *)
Lemma lives_update_other c k2 v k : k2 <> k -> lives (fst (cache_update_raw c k2 v)) k = lives c k.
Proof.
  intros Hk. unfold cache_update_raw.
  destruct ((0 <? _) && _); [reflexivity|]. destruct (frame_of c k2) as [i|]; [|reflexivity].
  cbv zeta. cbn [c_size c_use c_frames c_sizes c_last].
  destruct ((check_capacity _ _ v =? 0) && (0 <? len v)); unfold lives; cbn [fst c_frames];
    rewrite !kview_update_nth; try reflexivity; intros f; apply alookup_aset_other; congruence.
Qed.

Lemma lives_reset0 c k v : lives c k = Some (0, v) -> lives (cache_reset c) k = Some (0, v).
Proof.
  unfold lives, cache_reset. destruct (c_frames c) as [|f0 fs] eqn:Hf; [rewrite Hf; intro H; exact H|].
  cbn [c_frames kview map first_some]. destruct (alookup k f0); [intro H; exact H|].
  intros H. apply first_some_lt in H. lia.
Qed.

(* the histories that do not leave the scope of k: no Pop below scope n+1, no CROAK-style Reset
   unless k lives in scope 0, no Update (RELOAD) of k itself *)
Fixpoint keeps_scope (k : bytes) (n : N) (c : cache) (ops : list cop) : bool :=
  match ops with
  | [] => true
  | o :: r =>
    (match o with
     | OPop => n + 2 <=? cache_levels c
     | OReset => n =? 0
     | OUpdate k2 _ => negb (bytes_eqb k2 k)
     | _ => true
     end) && keeps_scope k n (fst (cache_step c o)) r
  end.

Lemma cache_run_cons c o ops : cache_run c (o :: ops) = cache_run (fst (cache_step c o)) ops.
Proof. reflexivity. Qed.

Lemma visible_from_deeper_levels_lemma ops : forall c k n v,
  lives c k = Some (n, v) -> keeps_scope k n c ops = true -> lives (cache_run c ops) k = Some (n, v).
Proof.
  induction ops as [|o ops IH]; intros c k n v Hl Hk; [exact Hl|].
  cbn [keeps_scope] in Hk. apply andb_prop in Hk as [Ho Hk]. rewrite cache_run_cons.
  apply IH; [|exact Hk]. clear IH Hk.
  destruct o as [k2 v2 l|k2 v2|k2| | | |]; cbn [cache_step].
  - destruct (cache_add c k2 v2 l) as [c'| |] eqn:Ha; cbn [fst]; try exact Hl.
    destruct (cache_add_ok _ _ _ _ _ Ha) as [Hn [_ [_ [_ [_ [_ Hoth]]]]]].
    destruct (bytes_eqb k2 k) eqn:E.
    + apply beqb_true in E. subst k2. congruence.
    + apply beqb_false in E. destruct (Hoth k) as [H _]; [congruence|]. rewrite H. exact Hl.
  - apply negb_true_iff in Ho. apply beqb_false in Ho.
    pose proof (lives_update_other c k2 v2 k Ho) as H.
    destruct (cache_update_raw c k2 v2) as [c' [e|]]; cbn [fst] in *; rewrite H; exact Hl.
  - destruct (cache_get c k2); exact Hl.
  - cbn [fst]. rewrite lives_push. exact Hl.
  - destruct (cache_pop c) as [c'| |] eqn:Hp; cbn [fst]; try exact Hl.
    rewrite (lives_pop _ _ _ Hp), Hl. apply N.leb_le in Ho.
    destruct (n + 1 =? cache_levels c) eqn:E; [lia|reflexivity].
  - cbn [fst]. apply N.eqb_eq in Ho. subst n. apply lives_reset0. exact Hl.
  - cbn [cache_last fst]. exact Hl.
Qed.

(* ---- over moves: apply_target, with the stack and the cache in lock-step ------------ *)
Lemma nav_inv_ne st ca : nav_inv st ca -> c_frames ca <> [].
Proof. unfold nav_inv. intros H. apply levels_ne. lia. Qed.

Lemma lives_apply_target t st ca st' ca' sym r k :
  c_frames ca <> [] -> apply_target t st ca = (st', ca', sym, r) ->
  lives ca' k = None \/ lives ca' k = lives ca k.
Proof.
  intros Hne H. destruct r as [|e m|p|].
  - destruct (apply_ok_exact _ _ _ _ _ _ Hne H) as [_ [_ [_ Hc]]]. subst ca'.
    destruct (valid_sym_b t); [right; apply lives_push|apply lives_pops; exact Hne].
  - destruct (apply_fail_unchanged _ _ _ _ _ _ _ Hne H) as [_ ->]; [discriminate|right; reflexivity].
  - destruct (apply_fail_unchanged _ _ _ _ _ _ _ Hne H) as [_ ->]; [discriminate|right; reflexivity].
  - destruct (apply_fail_unchanged _ _ _ _ _ _ _ Hne H) as [_ ->]; [discriminate|right; reflexivity].
Qed.

(* one move that ends above the level where k was loaded: k is gone *)
Lemma gone_after_ascent_step t st ca st' ca' sym r k n v :
  nav_inv st ca -> lives ca k = Some (n, v) ->
  apply_target t st ca = (st', ca', sym, r) -> len (s_path st') < n ->
  lives ca' k = None.
Proof.
  intros Hi Hl H Hlen. destruct (apply_levels _ _ _ _ _ _ _ Hi H) as [Hi' _].
  destruct (lives_apply_target _ _ _ _ _ _ _ k (nav_inv_ne _ _ Hi) H) as [Hn|Hs]; [exact Hn|].
  rewrite Hl in Hs. apply lives_lt in Hs. unfold nav_inv in Hi'. lia.
Qed.

(* one move that does not end above it: k is still there, same scope, same value *)
Lemma kept_by_step t st ca st' ca' sym r k n v :
  nav_inv st ca -> lives ca k = Some (n, v) ->
  apply_target t st ca = (st', ca', sym, r) -> n <= len (s_path st') ->
  lives ca' k = Some (n, v).
Proof.
  intros Hi Hl H Hlen. pose proof (nav_inv_ne _ _ Hi) as Hne.
  destruct r as [|e m|p|].
  - destruct (apply_ok_exact _ _ _ _ _ _ Hne H) as [Hnc [_ [_ Hc]]]. subst ca'.
    destruct (valid_sym_b t) eqn:Hv; [rewrite lives_push; exact Hl|].
    apply kept_by_pops; [exact Hne|exact Hl|].
    pose proof (nav_code_shape _ _ _ Hnc) as Hs. rewrite Hv in Hs. destruct Hs as [Hs _].
    unfold pos_of in Hs. cbn [fst] in Hs. unfold nav_inv in Hi. unfold len in *. lia.
  - destruct (apply_fail_unchanged _ _ _ _ _ _ _ Hne H) as [_ ->]; [discriminate|exact Hl].
  - destruct (apply_fail_unchanged _ _ _ _ _ _ _ Hne H) as [_ ->]; [discriminate|exact Hl].
  - destruct (apply_fail_unchanged _ _ _ _ _ _ _ Hne H) as [_ ->]; [discriminate|exact Hl].
Qed.

(* any sequence of moves (successful or refused) *)
Lemma lives_nav_run ts : forall st ca st2 ca2 log k,
  nav_inv st ca -> nav_run st ca ts = (st2, ca2, log) ->
  nav_inv st2 ca2 /\ (lives ca2 k = None \/ lives ca2 k = lives ca k).
Proof.
  induction ts as [|t ts IH]; intros st ca st2 ca2 log k Hi H; cbn [nav_run] in H.
  - injection H as <- <- _. split; [exact Hi|right; reflexivity].
  - destruct (apply_target t st ca) as [[[st' ca'] sym] r] eqn:Ha.
    destruct (nav_run st' ca' ts) as [[st3 ca3] lg] eqn:Hr. injection H as <- <- _.
    destruct (apply_levels _ _ _ _ _ _ _ Hi Ha) as [Hi' _].
    destruct (IH _ _ _ _ _ k Hi' Hr) as [Hi3 Hc]. split; [exact Hi3|].
    destruct Hc as [Hc|Hc]; [left; exact Hc|]. rewrite Hc.
    eapply lives_apply_target; [exact (nav_inv_ne st ca Hi)|exact Ha].
Qed.

Lemma gone_after_ascent_lemma ts st ca st2 ca2 log k n v :
  nav_inv st ca -> lives ca k = Some (n, v) ->
  nav_run st ca ts = (st2, ca2, log) -> len (s_path st2) < n ->
  cache_get ca2 k = Err EGen.
Proof.
  intros Hi Hl H Hlen. apply lives_none_iff.
  destruct (lives_nav_run ts _ _ _ _ _ k Hi H) as [Hi2 [Hn|Hs]]; [exact Hn|].
  rewrite Hl in Hs. apply lives_lt in Hs. unfold nav_inv in Hi2. lia.
Qed.

(* the stack never gets shorter than n along the way: still visible at the end *)
Fixpoint stays_at_or_below (n : N) (st : state) (ca : cache) (ts : list bytes) : bool :=
  match ts with
  | [] => true
  | t :: ts' =>
    let '(st', ca', _, _) := apply_target t st ca in
    (n <=? len (s_path st')) && stays_at_or_below n st' ca' ts'
  end.

Lemma kept_by_nav_run ts : forall st ca st2 ca2 log k n v,
  nav_inv st ca -> lives ca k = Some (n, v) -> stays_at_or_below n st ca ts = true ->
  nav_run st ca ts = (st2, ca2, log) -> lives ca2 k = Some (n, v).
Proof.
  induction ts as [|t ts IH]; intros st ca st2 ca2 log k n v Hi Hl Hs H; cbn [nav_run stays_at_or_below] in *.
  - injection H as _ <- _. exact Hl.
  - destruct (apply_target t st ca) as [[[st' ca'] sym] r] eqn:Ha.
    destruct (nav_run st' ca' ts) as [[st3 ca3] lg] eqn:Hr. injection H as _ <- _.
    apply andb_prop in Hs as [H1 H2]. apply N.leb_le in H1.
    destruct (apply_levels _ _ _ _ _ _ _ Hi Ha) as [Hi' _].
    eapply IH; [exact Hi'| |exact H2|exact Hr].
    exact (kept_by_step t st ca st' ca' sym r k n v Hi Hl Ha H1).
Qed.

(* ================================================================================== *)
(* Part 3 — the handlers: LOAD, RELOAD, MAP and what empties the map                  *)
(* ================================================================================== *)

(* how often the world has seen symbol key called *)
Definition calls (key : bytes) (v : vmst) : N := match alookup key (v_w v) with Some n => n | None => 0 end.
(* the resource has a (non-empty) script for key: FuncFor succeeds *)
Definition has_func (rs : rsrc) (key : bytes) : bool :=
  match rs_func rs key with Some (_ :: _) => true | _ => false end.

Definition is_func_ev (e : ev) : bool := match e with EvFunc _ _ _ => true | _ => false end.
Definition func_count (l : list ev) : nat := List.length (filter is_func_ev l).

Lemma nth_fres_some script n : script <> [] -> exists fr, nth_fres script n = Some fr.
Proof.
  intros Hne. unfold nth_fres. destruct script as [|x r] eqn:E; [congruence|]. rewrite <- E.
  assert (Hl : len script <> 0) by (subst script; unfold len; cbn [List.length]; lia).
  destruct (nth_error script (N.to_nat (n mod len script))) as [fr|] eqn:Hn; [eauto|].
  apply nth_error_None in Hn. pose proof (N.mod_lt n (len script) Hl). unfold len in *. lia.
Qed.

(* refresh never touches cache or page; it calls the function exactly once when there is one *)
Lemma refresh_frame rs lang key v v' content s :
  refresh rs lang key v = (v', content, s) -> v_ca v' = v_ca v /\ v_pg v' = v_pg v.
Proof.
  unfold refresh. intros H.
  destruct (rs_func rs key) as [script|]; [|injection H as <- _ _; auto].
  destruct (nth_fres script _) as [fr|]; [|injection H as <- _ _; auto].
  destruct (fr_fail fr); [injection H as <- _ _; auto|].
  destruct (apply_flags false _ _) as [st1| |]; [|injection H as <- _ _; auto|injection H as <- _ _; auto].
  destruct (apply_flags true _ st1) as [st2| |]; injection H as <- _ _; auto.
Qed.

Lemma refresh_calls_once rs lang key v v' content s :
  has_func rs key = true -> refresh rs lang key v = (v', content, s) ->
  v_log v' = EvFunc key lang (s_input (v_st v)) :: v_log v
  /\ v_w v' = aset key (calls key v + 1) (v_w v).
Proof.
  unfold has_func, refresh, calls. intros Hf H.
  destruct (rs_func rs key) as [script|]; [|discriminate].
  destruct script as [|x r] eqn:E; [discriminate|]. rewrite <- E in *.
  destruct (nth_fres_some script (match alookup key (v_w v) with Some n => n | None => 0 end)) as [fr Hfr]; [congruence|].
  rewrite Hfr in H.
  destruct (fr_fail fr); [injection H as <- _ _; auto|].
  destruct (apply_flags false _ _) as [st1| |]; [|injection H as <- _ _; auto|injection H as <- _ _; auto].
  destruct (apply_flags true _ st1) as [st2| |]; injection H as <- _ _; auto.
Qed.

Lemma refresh_no_func rs lang key v :
  has_func rs key = false -> refresh rs lang key v = (v, [], SErr EGen (Some (rs_nofunc rs key))).
Proof.
  unfold has_func, refresh. intros Hf. destruct (rs_func rs key) as [[|x r]|]; try discriminate; reflexivity.
Qed.

(* the log only grows, by at most one function call *)
Lemma refresh_log rs lang key v v' content s :
  refresh rs lang key v = (v', content, s) ->
  v_log v' = v_log v \/ v_log v' = EvFunc key lang (s_input (v_st v)) :: v_log v.
Proof.
  intros H. destruct (has_func rs key) eqn:Hf.
  - right. apply (refresh_calls_once _ _ _ _ _ _ _ Hf H).
  - left. rewrite refresh_no_func in H by exact Hf. injection H as <- _ _. reflexivity.
Qed.

(* ---- LOAD -------------------------------------------------------------------------- *)
Lemma load_once_while_visible_lemma : forall rs lang sym sz b v val,
  cache_get (v_ca v) sym = Ok val ->
  run_load rs lang sym sz b v = (v, b, SOk).
Proof. exact run_load_visible. Qed.

Lemma cache_add_dup c k v l : cache_add c k v l = Err EDup -> frame_of c k <> None.
Proof.
  unfold cache_add. destruct ((0 <? l) && (l <? len v)); [discriminate|].
  destruct (frame_of c k); [discriminate|]. destruct ((0 <? len v) && _); [discriminate|].
  destruct (c_frames c); discriminate.
Qed.

Lemma load_stores_lemma rs lang sym sz b v e v' b' s :
  cache_get (v_ca v) sym = Err e -> has_func rs sym = true ->
  run_load rs lang sym sz b v = (v', b', s) ->
  b' = b
  /\ v_log v' = EvFunc sym lang (s_input (v_st v)) :: v_log v
  /\ v_w v' = aset sym (calls sym v + 1) (v_w v)
  /\ v_pg v' = v_pg v
  /\ (s = SOk ->
      exists v1 content, refresh rs lang sym v = (v1, content, SOk)
        /\ lives (v_ca v') sym = Some (top_index (v_ca v), content)
        /\ cache_reserved (v_ca v') sym = Ok (w16 sz)
        /\ (0 < w16 sz -> len content <= w16 sz)
        /\ cache_levels (v_ca v') = cache_levels (v_ca v)
        /\ forall k2, k2 <> sym -> lives (v_ca v') k2 = lives (v_ca v) k2)
  /\ (s <> SOk -> v_ca v' = v_ca v).
Proof.
  intros Hg Hf H. unfold run_load in H. rewrite Hg in H.
  destruct (refresh rs lang sym v) as [[v1 content] s1] eqn:Hr.
  destruct (refresh_calls_once _ _ _ _ _ _ _ Hf Hr) as [Hlog Hw].
  destruct (refresh_frame _ _ _ _ _ _ _ Hr) as [Hca Hpg].
  assert (Hnone : frame_of (v_ca v1) sym = None).
  { rewrite Hca, frame_of_lives. rewrite cache_get_lives in Hg. destruct (lives (v_ca v) sym) as [[? ?]|]; [discriminate|reflexivity]. }
  destruct s1 as [|e1 m1|p1|].
  - destruct (cache_add (v_ca v1) sym content (w16 sz)) as [ca'|e2|p2] eqn:Ha.
    + injection H as <- <- <-. cbn [v_log v_w v_pg v_ca vset_ca].
      repeat split; try assumption; [|intros Hs; congruence].
      intros _. exists v1, content. split; [reflexivity|].
      destruct (cache_add_ok _ _ _ _ _ Ha) as [_ [H1 [H2 [H3 [H4 [_ H5]]]]]]. rewrite Hca in *.
      repeat split; try assumption. intros k2 Hk2. apply (H5 k2 Hk2).
    + destruct e2; try (injection H as <- <- <-; repeat split; try assumption; intros; congruence).
      exfalso. apply (cache_add_dup _ _ _ _ Ha). exact Hnone.
    + injection H as <- <- <-. repeat split; try assumption; intros; congruence.
  - injection H as <- <- <-. repeat split; try assumption; intros; congruence.
  - injection H as <- <- <-. repeat split; try assumption; intros; congruence.
  - injection H as <- <- <-. repeat split; try assumption; intros; congruence.
Qed.

(* a LOAD of a symbol the resource has no function for: no call, error, nothing stored *)
Lemma load_no_func rs lang sym sz b v e :
  cache_get (v_ca v) sym = Err e -> has_func rs sym = false ->
  run_load rs lang sym sz b v = (v, b, SErr EGen (Some (rs_nofunc rs sym))).
Proof. intros Hg Hf. unfold run_load. rewrite Hg, refresh_no_func by exact Hf. reflexivity. Qed.

(* ---- MAP ---------------------------------------------------------------------------- *)
Lemma page_map_ok c pg k pg' :
  page_map c pg k = Ok pg' ->
  exists val l, cache_get c k = Ok val /\ cache_reserved c k = Ok l
    /\ p_map pg' = aset k val (p_map pg)
    /\ p_menu pg' = p_menu pg /\ p_err pg' = p_err pg /\ p_extra pg' = p_extra pg.
Proof.
  unfold page_map. intros H. destruct (cache_get c k) as [val| |]; cbn [obind] in H; try discriminate.
  destruct (cache_reserved c k) as [l| |]; cbn [obind] in H; try discriminate.
  destruct (if l =? 0 then _ else false); [discriminate|]. injection H as <-.
  exists val, l. cbn. auto 10.
Qed.

(* what is not in the cache cannot be mapped *)
Lemma page_map_needs_cache c pg k e : cache_get c k = Err e -> page_map c pg k = Err e.
Proof. unfold page_map. intros ->. reflexivity. Qed.

Lemma page_map_value c pg k pg' :
  page_map c pg k = Ok pg' -> exists val, cache_get c k = Ok val /\ alookup k (p_map pg') = Some val.
Proof.
  intros H. destruct (page_map_ok _ _ _ _ H) as [val [l [Hg [_ [Hm _]]]]]. exists val. split; [exact Hg|].
  rewrite Hm. apply alookup_aset_same.
Qed.

Lemma page_reset_map pg : p_map (page_reset pg) = [].
Proof. reflexivity. Qed.
Lemma page_reset_sink pg : p_sink (page_reset pg) = None.
Proof. reflexivity. Qed.
Lemma vm_reset_map sep pg : p_map (vm_reset sep pg) = [].
Proof. reflexivity. Qed.

Lemma run_map_lemma sym b v v' b' s :
  run_map sym b v = (v', b', s) ->
  b' = b /\ v_st v' = v_st v /\ v_ca v' = v_ca v /\ v_log v' = v_log v /\ v_w v' = v_w v
  /\ (s = SOk -> exists val, cache_get (v_ca v) sym = Ok val
                 /\ p_map (v_pg v') = aset sym val (p_map (v_pg v)))
  /\ (s <> SOk -> v_pg v' = v_pg v).
Proof.
  unfold run_map. intros H. destruct (page_map (v_ca v) (v_pg v) sym) as [pg'|e|p] eqn:Hm; injection H as <- <- <-;
    cbn [v_st v_ca v_log v_w v_pg vset_pg]; repeat split; try congruence.
  intros _. destruct (page_map_ok _ _ _ _ Hm) as [val [l [Hg [_ [Hp _]]]]]. eauto.
Qed.

(* ---- RELOAD -------------------------------------------------------------------------- *)
Lemma reload_replaces_lemma rs lang sym b v v' b' s :
  has_func rs sym = true -> run_reload rs lang sym b v = (v', b', s) ->
  b' = b
  /\ v_log v' = EvFunc sym lang (s_input (v_st v)) :: v_log v
  /\ v_w v' = aset sym (calls sym v + 1) (v_w v)
  /\ (forall v1 content, refresh rs lang sym v = (v1, content, SOk) ->
        v_ca v' = fst (cache_update_raw (v_ca v) sym content)
        (* accepted: replaced in ITS scope (also by the empty string), limit respected, other symbols untouched *)
        /\ (snd (cache_update_raw (v_ca v) sym content) = None ->
            exists n old, lives (v_ca v) sym = Some (n, old) /\ lives (v_ca v') sym = Some (n, content)
              /\ cache_levels (v_ca v') = cache_levels (v_ca v)
              /\ (forall l, cache_reserved (v_ca v) sym = Ok l -> cache_reserved (v_ca v') sym = Ok l /\ (0 < l -> len content <= l))
              /\ forall k2, k2 <> sym -> lives (v_ca v') k2 = lives (v_ca v) k2)
        (* refused (over the limit, over the capacity, not loaded): the cache is what it was *)
        /\ (snd (cache_update_raw (v_ca v) sym content) <> None ->
            CInv (v_ca v) -> len content + c_size (v_ca v) < 4294967296 -> v_ca v' = v_ca v)
        (* then the symbol is mapped, with whatever the cache now holds *)
        /\ (s = SOk -> exists val, cache_get (v_ca v') sym = Ok val
                        /\ p_map (v_pg v') = aset sym val (p_map (v_pg v))))
  /\ (forall v1 content s1, refresh rs lang sym v = (v1, content, s1) -> s1 <> SOk ->
        s = s1 /\ v_ca v' = v_ca v /\ v_pg v' = v_pg v).
Proof.
  intros Hf H. unfold run_reload in H.
  destruct (refresh rs lang sym v) as [[v1 content] s1] eqn:Hr.
  destruct (refresh_calls_once _ _ _ _ _ _ _ Hf Hr) as [Hlog Hw].
  destruct (refresh_frame _ _ _ _ _ _ _ Hr) as [Hca Hpg].
  destruct s1 as [|e1 m1|p1|].
  - rewrite Hca in H. destruct (cache_update_raw (v_ca v) sym content) as [ca' oe] eqn:Hu.
    cbn [v_ca v_pg vset_ca] in H. rewrite Hpg in H.
    assert (Hcommon : v_ca v' = ca' /\ b' = b /\ v_log v' = v_log v1 /\ v_w v' = v_w v1
                      /\ (s = SOk -> exists val, cache_get ca' sym = Ok val /\ p_map (v_pg v') = aset sym val (p_map (v_pg v)))).
    { destruct (page_map ca' (v_pg v) sym) as [pg'|e|p] eqn:Hm; injection H as <- <- <-;
        cbn [v_ca v_log v_w v_pg vset_pg vset_ca]; repeat split; try congruence.
      intros _. destruct (page_map_ok _ _ _ _ Hm) as [val [l [Hg [_ [Hp _]]]]]. eauto. }
    destruct Hcommon as [Hc' [Hb [Hl' [Hw' Hmap]]]].
    split; [exact Hb|]. split; [congruence|]. split; [congruence|]. split.
    + intros v1' content' E. injection E as <- <-. rewrite Hu. cbn [fst snd]. split; [exact Hc'|]. rewrite Hc'. split; [|split].
      * intros ->. destruct (cache_update_raw_ok _ _ _ _ Hu) as [n [old [H1 [H2 [H3 [H4 [_ [H6 H7]]]]]]]].
        exists n, old. split; [exact H1|]. split; [exact H2|]. split; [exact H3|]. split; [|exact H7].
        intros l Hres. split; [unfold cache_reserved in *; rewrite H4; exact Hres|apply (H6 l Hres)].
      * intros Hne Hinv Hbound. destruct oe as [e|]; [|congruence]. eapply cache_update_raw_failed; eauto.
      * exact Hmap.
    + intros v1' c' s1' E Hne. injection E as _ _ <-. congruence.
  - injection H as <- <- <-. repeat split; try assumption; try congruence.
  - injection H as <- <- <-. repeat split; try assumption; try congruence.
  - injection H as <- <- <-. repeat split; try assumption; try congruence.
Qed.

(* ---- a result longer than its (non-zero) limit is never stored and cannot be shown ---- *)
Lemma oversize_load_lemma rs lang sym sz b v e v1 content :
  cache_get (v_ca v) sym = Err e ->
  refresh rs lang sym v = (v1, content, SOk) ->
  0 < w16 sz -> w16 sz < len content ->
  run_load rs lang sym sz b v = (v1, b, SErr EGen None)
  /\ v_ca v1 = v_ca v
  /\ cache_get (v_ca v1) sym = Err e
  /\ c_last (v_ca v1) = c_last (v_ca v)
  /\ (forall pg, page_map (v_ca v1) pg sym = Err e)
  /\ (forall b2, run_map sym b2 v1 = (v1, b2, SErr e None)).
Proof.
  intros Hg Hr H0 H1. destruct (refresh_frame _ _ _ _ _ _ _ Hr) as [Hca _].
  split; [eapply run_load_over_limit; eauto|]. split; [exact Hca|]. rewrite Hca.
  split; [exact Hg|]. split; [reflexivity|]. split.
  - intros pg. apply page_map_needs_cache. exact Hg.
  - intros b2. unfold run_map. rewrite Hca, (page_map_needs_cache _ _ _ _ Hg). reflexivity.
Qed.

Lemma oversize_reload_lemma rs lang sym b v v1 content l v' b' s :
  refresh rs lang sym v = (v1, content, SOk) ->
  cache_reserved (v_ca v) sym = Ok l -> 0 < l -> l < len content ->
  run_reload rs lang sym b v = (v', b', s) ->
  v_ca v' = v_ca v
  /\ forall val, alookup sym (p_map (v_pg v')) = Some val ->
       alookup sym (p_map (v_pg v)) = Some val \/ cache_get (v_ca v) sym = Ok val.
Proof.
  intros Hr Hres H0 H1 H. unfold run_reload in H. rewrite Hr in H.
  destruct (refresh_frame _ _ _ _ _ _ _ Hr) as [Hca Hpg].
  rewrite Hca, (cache_update_raw_over_limit _ _ _ _ Hres H0 H1) in H. cbn [v_ca v_pg vset_ca] in H. rewrite Hpg in H.
  destruct (page_map (v_ca v) (v_pg v) sym) as [pg'|e|p] eqn:Hm; injection H as <- _ _; cbn [v_ca v_pg vset_pg vset_ca].
  - split; [reflexivity|]. intros val Hv. right. destruct (page_map_value _ _ _ _ Hm) as [val' [Hg Ha]]. congruence.
  - split; [reflexivity|]. intros val Hv. left. rewrite <- Hpg. exact Hv.
  - split; [reflexivity|]. intros val Hv. left. rewrite <- Hpg. exact Hv.
Qed.

(* ---- what empties the map, and what does not ------------------------------------------- *)
Lemma run_move_page rs sep sym b v v' b' s :
  run_move rs sep sym b v = (v', b', s) ->
  (s = SOk -> p_map (v_pg v') = [] /\ p_sink (v_pg v') = None) /\ (s <> SOk -> v_pg v' = v_pg v).
Proof.
  unfold run_move. intros H. destruct (apply_target sym (v_st v) (v_ca v)) as [[[st' ca'] nsym] s1].
  destruct s1; try (injection H as <- _ <-; split; [discriminate|reflexivity]).
  unfold fetch_code in H.
  destruct (rs_code rs nsym); destruct (rs_observed rs); injection H as <- _ <-; cbn; split; try discriminate; try congruence; auto.
Qed.

(* INCMP: either it did not fire (page untouched) or it fired: the page was reset before the code fetch *)
Lemma run_incmp_page rs sep dest sel b v v' b' s :
  run_incmp rs sep dest sel b v = (v', b', s) ->
  (v_pg v' = v_pg v /\ (v_log v' = v_log v \/ v_log v' = EvInCmp dest sel false :: v_log v))
  \/ (v_pg v' = vm_reset sep (v_pg v)
      /\ exists pre nsym, v_log v' = pre ++ EvMove 1 dest nsym :: EvInCmp dest sel true :: v_log v).
Proof.
  unfold run_incmp. intros H.
  destruct (getf (v_st v) FLAG_INMATCH && getf (v_st v) FLAG_READIN).
  { injection H as <- _ _. left. split; [reflexivity|]. right. reflexivity. }
  cbn [v_st vset_st] in H.
  destruct (s_input _) as [input|]; [|injection H as <- _ _; left; split; [reflexivity|left; reflexivity]].
  destruct ((negb _ && _) || _).
  - destruct (apply_target dest _ _) as [[[st' ca'] nsym] s1]. cbn [v_ca vset_st] in H.
    destruct s1 as [|e m|p|].
    + right. unfold fetch_code in H.
      destruct (rs_code rs nsym); destruct (rs_observed rs); injection H as <- _ _; cbn [v_pg v_log vlog vset_pg vset_ca vset_st];
        (split; [reflexivity|]);
        first [ exists [EvCode nsym], nsym; reflexivity | exists [], nsym; reflexivity ].
    + left. destruct e; injection H as <- _ _; cbn [v_pg v_log vlog vset_pg vset_ca vset_st]; (split; [reflexivity|]); auto.
    + left. injection H as <- _ _. cbn [v_pg v_log vset_ca vset_st]. split; [reflexivity|]. auto.
    + left. injection H as <- _ _. cbn [v_pg v_log vset_ca vset_st]. split; [reflexivity|]. auto.
  - injection H as <- _ _. left. split; [reflexivity|]. right. reflexivity.
Qed.

(* CATCH moves (applies its target, replaces the code) but does NOT reset the page: what was
   mapped before it is still mapped after it *)
Lemma run_catch_page rs sym sig mode b v v' b' s :
  run_catch rs sym sig mode b v = (v', b', s) -> v_pg v' = v_pg v.
Proof.
  unfold run_catch. intros H. destruct (match_flag (v_st v) sig mode) as [[|]| |]; try (injection H as <- _ _; reflexivity).
  destruct (apply_target sym (v_st v) (v_ca v)) as [[[st' ca'] nsym] s1].
  destruct s1; try (injection H as <- _ _; reflexivity).
  unfold fetch_code in H. destruct (rs_code rs nsym); destruct (rs_observed rs); injection H as <- _ _; reflexivity.
Qed.

Lemma run_croak_page sep sig mode b v v' b' s :
  run_croak sep sig mode b v = (v', b', s) -> v_pg v' = v_pg v \/ v_pg v' = vm_reset sep (v_pg v).
Proof.
  unfold run_croak. intros H. destruct (match_flag (v_st v) sig mode) as [[|]| |]; injection H as <- _ _; auto.
Qed.

(* ================================================================================== *)
(* Part 4 — the run loop as an iterated step                                          *)
(* ================================================================================== *)

(* one iteration either ends the run or hands over to the next instruction *)
Inductive step_out : Type :=
| Done (r : hres)
| Next (lang : option bytes) (b : bytes) (v : vmst).

(* the "Language" value of the context that the instruction about to run will see *)
Definition eff_lang (lang : option bytes) (st : state) : option bytes :=
  if getf st FLAG_LANG then match s_lang st with Some l => Some l | None => lang end else lang.

(* the prelude of every instruction: LANG and WAIT are consumed; after a HALT (WAIT was set)
   INMATCH is cleared and the page reset; DIRTY is set *)
Definition run_prelude (v : vmst) : vmst :=
  let st := resetf (v_st v) FLAG_LANG in
  let wait := getf st FLAG_WAIT in
  let st := resetf st FLAG_WAIT in
  let st := if wait then resetf st FLAG_INMATCH else st in
  let pg := if wait then upd_menu menu_reset (page_reset (page_with_error (v_pg v) None)) else v_pg v in
  vset_pg (vset_st v (setf st FLAG_DIRTY)) pg.

(* runErrCheck *)
Definition err_check (v1 : vmst) (b2 : bytes) (s : stat) : hres :=
  match s with
  | SErr e msg =>
    let v2 := set_page_err v1 msg in
    if getf (v_st v2) FLAG_LOADFAIL && negb (bytes_eqb (where_sym (v_st v2)) catch_sym)
    then (v2, move_catch_code, SOk) else (v2, b2, s)
  | _ => (v1, b2, s)
  end.

(* decode and execute: the instruction, if the bytes decode *)
Definition step_exec (rs : rsrc) (sep : bytes) (lang : option bytes) (op : N) (b1 : bytes) (v : vmst) : hres :=
  match parse_args op b1 with
  | Ok (i, b2) => exec_instr rs sep lang i b2 (vlog v (EvInstr op))
  | _ => (v, b1, SErr EGen None)
  end.

Definition run_step (rs : rsrc) (sep : bytes) (lang : option bytes) (b : bytes) (v : vmst) : step_out :=
  if getf (v_st v) FLAG_TERMINATE then Done (v, [], SOk) else
  let lang := eff_lang lang (v_st v) in
  let v := run_prelude v in
  match op_split b with
  | Err e => Done (v, b, SErr e None)
  | Panic n => Done (v, b, SPanic n)
  | Ok (op, b1) =>
    match parse_args op b1 with
    | Panic n => Done (v, b1, SPanic n)
    | _ =>
      let '(v1, b2, s) := step_exec rs sep lang op b1 v in
      if op =? op_HALT then Done (v1, b2, s) else
      let '(v2, b3, s2) := err_check v1 b2 s in
      match s2 with
      | SOk =>
        match b3 with
        | [] =>
          let '(v3, b4, s3) := dead_check v2 in
          match s3 with
          | SOk => match b4 with [] => Done (v3, [], SOk) | _ => Next lang b4 v3 end
          | _ => Done (v3, b4, s3)
          end
        | _ => Next lang b3 v2
        end
      | _ => Done (v2, b3, s2)
      end
    end
  end.

Lemma run_S fuel rs sep lang b v :
  run (S fuel) rs sep lang b v =
  match run_step rs sep lang b v with
  | Done r => r
  | Next l b' v' => run fuel rs sep l b' v'
  end.
Proof.
  unfold run_step, step_exec, err_check, run_prelude, eff_lang. cbn [run]. cbv zeta.
  destruct (getf (v_st v) FLAG_TERMINATE); [reflexivity|].
  destruct (op_split b) as [[op b1]|e|n]; [|reflexivity|reflexivity].
  destruct (parse_args op b1) as [[i b2]|e|n]; [| |reflexivity].
  - destruct (exec_instr rs sep _ i b2 _) as [[v1 b2'] s].
    destruct (op =? op_HALT); [reflexivity|].
    destruct s as [|e m|n|]; cbn [set_page_err];
      try (destruct (getf _ FLAG_LOADFAIL && _));
      try (destruct b2' as [|x b2']; [destruct (dead_check _) as [[v3 b4] s3]; destruct s3; try reflexivity; destruct b4; reflexivity|reflexivity]);
      try reflexivity.
    all: destruct (dead_check _) as [[v3 b4] s3]; destruct s3; try reflexivity; destruct b4; reflexivity.
  - destruct (op =? op_HALT); [reflexivity|].
    cbn [set_page_err]. destruct (getf _ FLAG_LOADFAIL && _); [|reflexivity].
    destruct (dead_check _) as [[v3 b4] s3] eqn:Hd. cbn [move_catch_code]. reflexivity.
Qed.

(* configurations (context language, pending code, machine) and the ones a run passes through *)
Notation conf := (option bytes * bytes * vmst)%type (only parsing).

Inductive reaches (rs : rsrc) (sep : bytes) : conf -> conf -> Prop :=
| reach_refl : forall c, reaches rs sep c c
| reach_step : forall lang b v l1 b1 v1 c,
    run_step rs sep lang b v = Next l1 b1 v1 -> reaches rs sep (l1, b1, v1) c -> reaches rs sep (lang, b, v) c.

Lemma reaches_trans rs sep c1 c2 c3 : reaches rs sep c1 c2 -> reaches rs sep c2 c3 -> reaches rs sep c1 c3.
Proof. induction 1; intros H3; [exact H3|]. eapply reach_step; [eassumption|auto]. Qed.

(* invariants of the loop: preserved by every hand-over, hence true of every configuration reached *)
Lemma reaches_invariant rs sep (P : option bytes -> bytes -> vmst -> Prop) :
  (forall lang b v l1 b1 v1, P lang b v -> run_step rs sep lang b v = Next l1 b1 v1 -> P l1 b1 v1) ->
  forall lang b v l' b' v', P lang b v -> reaches rs sep (lang, b, v) (l', b', v') -> P l' b' v'.
Proof.
  intros Hstep lang b v l' b' v' HP H.
  remember (lang, b, v) as c1 eqn:E1. remember (l', b', v') as c2 eqn:E2.
  revert lang b v HP E1. induction H as [c|lang0 b0 v0 l1 b1 v1 c Hs Hr IH]; intros lang b v HP E1.
  - subst c. injection E1 as <- <- <-. exact HP.
  - injection E1 as <- <- <-. apply (IH E2 l1 b1 v1); [|reflexivity]. eapply Hstep; eassumption.
Qed.

(* results of the loop: whatever every final step establishes from an invariant holds of the
   result of the run, for every fuel that suffices *)
Lemma run_result rs sep (P : option bytes -> bytes -> vmst -> Prop) (Q : hres -> Prop) :
  (forall lang b v l1 b1 v1, P lang b v -> run_step rs sep lang b v = Next l1 b1 v1 -> P l1 b1 v1) ->
  (forall lang b v r, P lang b v -> run_step rs sep lang b v = Done r -> Q r) ->
  forall fuel lang b v, P lang b v -> snd (run fuel rs sep lang b v) <> SFuel -> Q (run fuel rs sep lang b v).
Proof.
  intros Hn Hd. induction fuel as [|fuel IH]; intros lang b v HP Hf.
  - cbn [run snd] in Hf. congruence.
  - rewrite run_S in *. destruct (run_step rs sep lang b v) as [r|l1 b1 v1] eqn:Hs.
    + eapply Hd; eassumption.
    + apply IH; [eapply Hn; eassumption|exact Hf].
Qed.

(* the same, for properties that also hold when the fuel runs out (the machine reached so far) *)
Lemma run_result_fuel rs sep (P : option bytes -> bytes -> vmst -> Prop) (Q : hres -> Prop) :
  (forall lang b v l1 b1 v1, P lang b v -> run_step rs sep lang b v = Next l1 b1 v1 -> P l1 b1 v1) ->
  (forall lang b v r, P lang b v -> run_step rs sep lang b v = Done r -> Q r) ->
  (forall lang b v, P lang b v -> Q (v, b, SFuel)) ->
  forall fuel lang b v, P lang b v -> Q (run fuel rs sep lang b v).
Proof.
  intros Hn Hd Hf. induction fuel as [|fuel IH]; intros lang b v HP.
  - cbn [run]. apply (Hf lang b v HP).
  - rewrite run_S. destruct (run_step rs sep lang b v) as [r|l1 b1 v1] eqn:Hs.
    + eapply Hd; eassumption.
    + apply IH. eapply Hn; eassumption.
Qed.

(* ---- what a move leaves alone in the state ------------------------------------------- *)
Definition nav_keeps (st st' : state) : Prop :=
  s_lang st' = s_lang st /\ s_flags st' = s_flags st /\ s_input st' = s_input st /\ s_code st' = s_code st
  /\ s_bitsize st' = s_bitsize st.

Lemma nav_keeps_refl st : nav_keeps st st.
Proof. unfold nav_keeps; auto. Qed.
Lemma nav_keeps_trans a b c : nav_keeps a b -> nav_keeps b c -> nav_keeps a c.
Proof. unfold nav_keeps. intuition congruence. Qed.
Lemma nav_keeps_path st p i : nav_keeps st (set_path_idx st p i).
Proof. unfold nav_keeps; cbn; auto. Qed.

Lemma st_up_keeps st sym st' : st_up st = Ok (sym, st') -> nav_keeps st st'.
Proof. unfold st_up. destruct (s_path st); [discriminate|]. intros H. injection H as _ <-. apply nav_keeps_path. Qed.

Lemma rewind_keeps fuel : forall sym st ca st' ca' sym' r,
  rewind fuel sym st ca = (st', ca', sym', r) -> nav_keeps st st'.
Proof.
  induction fuel as [|fuel IH]; intros sym st ca st' ca' sym' r H; cbn [rewind] in H.
  - injection H as <- _ _ _. apply nav_keeps_refl.
  - destruct (st_top st) as [[|]|e|n]; try (injection H as <- _ _ _; apply nav_keeps_refl).
    destruct (st_up st) as [[sy st1]|e|n] eqn:Hu; try (injection H as <- _ _ _; apply nav_keeps_refl).
    pose proof (st_up_keeps _ _ _ Hu) as K.
    destruct (cache_pop ca) as [ca1|e|n]; try (injection H as <- _ _ _; exact K).
    eapply nav_keeps_trans; [exact K|]. eapply IH. exact H.
Qed.

Lemma apply_target_keeps t st ca st' ca' sym r :
  apply_target t st ca = (st', ca', sym, r) -> nav_keeps st st'.
Proof.
  rewrite apply_target_ite. intros H.
  destruct (negb (valid_target_b t)); [injection H as <- _ _ _; apply nav_keeps_refl|].
  destruct (bytes_eqb t t_up).
  { unfold do_up in H. destruct (st_up st) as [[sy st1]|e|n] eqn:Hu; try (injection H as <- _ _ _; apply nav_keeps_refl).
    pose proof (st_up_keeps _ _ _ Hu) as K. destruct (cache_pop ca); injection H as <- _ _ _; exact K. }
  destruct (bytes_eqb t t_next).
  { unfold do_next, st_next in H. destruct (s_path st); injection H as <- _ _ _; [apply nav_keeps_refl|apply nav_keeps_path]. }
  destruct (bytes_eqb t t_prev).
  { unfold do_prev, st_previous in H. destruct (s_path st); [injection H as <- _ _ _; apply nav_keeps_refl|].
    destruct (s_idx st =? 0); injection H as <- _ _ _; [apply nav_keeps_refl|apply nav_keeps_path]. }
  destruct (bytes_eqb t t_top); [eapply rewind_keeps; exact H|].
  destruct (bytes_eqb t t_same); [injection H as <- _ _ _; apply nav_keeps_refl|].
  unfold do_named in H. destruct (MaxLevel + 1 <=? len (s_path st)); [injection H as <- _ _ _; apply nav_keeps_refl|].
  destruct (bytes_eqb (where_sym st) t); [injection H as <- _ _ _; apply nav_keeps_refl|].
  unfold st_down in H. destruct (MaxLevel <? len (s_path st)); [injection H as <- _ _ _; apply nav_keeps_refl|].
  destruct (s_path st) as [|x p]; [injection H as <- _ _ _; apply nav_keeps_path|].
  destruct (bytes_eqb (last (x :: p) []) t); injection H as <- _ _ _; [apply nav_keeps_refl|apply nav_keeps_path].
Qed.

(* ================================================================================== *)
(* Part 5 — C18 at run level: which language every function call carries              *)
(* ================================================================================== *)

(* an event appended while the context language is L: a function call carries L; the run loop
   never renders *)
Definition ev_ok (L : option bytes) (e : ev) : Prop :=
  match e with EvFunc _ l _ => l = L | EvRender _ _ _ => False | _ => True end.
Definition log_ext (L : option bytes) (v v' : vmst) : Prop :=
  exists new, v_log v' = new ++ v_log v /\ Forall (ev_ok L) new.
(* the session language changes only together with a set LANG flag *)
Definition lang_step (st st' : state) : Prop := s_lang st' = s_lang st \/ getf st' FLAG_LANG = true.

Lemma log_ext_refl L v v' : v_log v' = v_log v -> log_ext L v v'.
Proof. intros H. exists []. split; [exact H|constructor]. Qed.
Lemma log_ext_trans L a b c : log_ext L a b -> log_ext L b c -> log_ext L a c.
Proof.
  intros [n1 [H1 F1]] [n2 [H2 F2]]. exists (n2 ++ n1). split; [rewrite H2, H1, app_assoc; reflexivity|].
  apply Forall_app. split; assumption.
Qed.
Lemma log_ext_cons L v v' e : v_log v' = e :: v_log v -> ev_ok L e -> log_ext L v v'.
Proof. intros H He. exists [e]. split; [exact H|constructor; [exact He|constructor]]. Qed.

Lemma refresh_ok rs lang key v v' content s :
  refresh rs lang key v = (v', content, s) -> log_ext lang v v' /\ lang_step (v_st v) (v_st v').
Proof.
  intros H. split.
  - destruct (refresh_log _ _ _ _ _ _ _ H) as [E|E]; [apply log_ext_refl; exact E|].
    eapply log_ext_cons; [exact E|reflexivity].
  - unfold refresh in H. unfold lang_step.
    destruct (rs_func rs key) as [script|]; [|injection H as <- _ _; left; reflexivity].
    destruct (nth_fres script _) as [fr|]; [|injection H as <- _ _; left; reflexivity].
    destruct (fr_fail fr); [injection H as <- _ _; left; reflexivity|].
    cbn [v_st vlog vset_w] in H.
    destruct (apply_flags false _ _) as [st1| |] eqn:H1; [|injection H as <- _ _; left; reflexivity|injection H as <- _ _; left; reflexivity].
    destruct (apply_flags true _ st1) as [st2| |] eqn:H2; [|injection H as <- _ _; left; reflexivity|injection H as <- _ _; left; reflexivity].
    injection H as <- _ _. cbn [v_st vset_st].
    destruct (apply_flags_reserved _ _ _ _ H1) as [_ S1]. destruct (apply_flags_reserved _ _ _ _ H2) as [_ S2].
    destruct (getf st2 FLAG_LANG) eqn:Hl.
    + right. rewrite getf_set_language. exact Hl.
    + left. unfold same_but_flags in *. intuition congruence.
Qed.

(* what the function result does to the session language, exactly *)
Definition new_lang (lookup : bytes -> option bytes) (cur : option bytes) (code : bytes) : option bytes :=
  match lookup code with
  | Some c3 => Some c3
  | None => match code with [] => None | _ => cur end
  end.

Lemma st_set_language_lang lk st code : s_lang (st_set_language lk st code) = new_lang lk (s_lang st) code.
Proof. unfold st_set_language, new_lang. destruct code; destruct (lk _); reflexivity. Qed.

Lemma refresh_switch rs lang key v v' content :
  refresh rs lang key v = (v', content, SOk) ->
  s_lang (v_st v') = if getf (v_st v') FLAG_LANG then new_lang lang_lookup (s_lang (v_st v)) content
                     else s_lang (v_st v).
Proof.
  unfold refresh. intros H.
  destruct (rs_func rs key) as [script|]; [|discriminate].
  destruct (nth_fres script _) as [fr|]; [|discriminate].
  destruct (fr_fail fr); [discriminate|]. cbn [v_st vlog vset_w] in H.
  destruct (apply_flags false _ _) as [st1| |] eqn:H1; [|discriminate|discriminate].
  destruct (apply_flags true _ st1) as [st2| |] eqn:H2; [|discriminate|discriminate].
  injection H as <- <-. cbn [v_st vset_st].
  destruct (apply_flags_reserved _ _ _ _ H1) as [_ S1]. destruct (apply_flags_reserved _ _ _ _ H2) as [_ S2].
  assert (E : s_lang st2 = s_lang (v_st v)) by (unfold same_but_flags in *; intuition congruence).
  destruct (getf st2 FLAG_LANG) eqn:Hl.
  - rewrite getf_set_language, Hl, st_set_language_lang, E. reflexivity.
  - rewrite Hl. exact E.
Qed.

Lemma fetch_code_ok L rs sym v v' c : fetch_code rs sym v = (v', c) ->
  log_ext L v v' /\ v_st v' = v_st v /\ v_ca v' = v_ca v /\ v_pg v' = v_pg v.
Proof.
  unfold fetch_code. intros H. destruct (rs_observed rs); injection H as <- _; cbn; (split; [|auto]).
  - eapply log_ext_cons; [reflexivity|exact I].
  - apply log_ext_refl. reflexivity.
Qed.

Lemma lang_step_keeps st st' : nav_keeps st st' -> lang_step st st'.
Proof. intros [H _]. left. exact H. Qed.

Lemma exec_instr_ok rs sep lang i b v v' b' s :
  exec_instr rs sep lang i b v = (v', b', s) -> log_ext lang v v' /\ lang_step (v_st v) (v_st v').
Proof.
  destruct i as [|sym sig mode|sig mode|sym sz|sym|sym|sym| |dest sel| |title sel|title sel|title sel]; cbn [exec_instr]; intros H;
    try (injection H as <- _ _; split; [apply log_ext_refl; reflexivity|left; reflexivity]).
  - (* CATCH *)
    unfold run_catch in H. destruct (match_flag (v_st v) sig mode) as [[|]| |];
      try (injection H as <- _ _; split; [apply log_ext_refl; reflexivity|left; reflexivity]).
    destruct (apply_target sym (v_st v) (v_ca v)) as [[[st' ca'] nsym] s1] eqn:Ha.
    pose proof (lang_step_keeps _ _ (apply_target_keeps _ _ _ _ _ _ _ Ha)) as K.
    destruct s1; try (injection H as <- _ _; split; [apply log_ext_refl; reflexivity|exact K]).
    destruct (fetch_code rs nsym _) as [v2 c] eqn:Hf.
    destruct (fetch_code_ok lang _ _ _ _ _ Hf) as [Hl [Hst _]]. cbn [v_st vlog vset_st vset_ca] in Hst.
    assert (Hx : log_ext lang v v2).
    { eapply log_ext_trans; [|exact Hl]. eapply log_ext_cons; [reflexivity|exact I]. }
    destruct c; injection H as <- _ _; (split; [exact Hx|rewrite Hst; exact K]).
  - (* CROAK *)
    unfold run_croak in H. destruct (match_flag (v_st v) sig mode) as [[|]| |]; injection H as <- _ _;
      (split; [apply log_ext_refl; reflexivity|left; reflexivity]).
  - (* LOAD *)
    unfold run_load in H. destruct (cache_get (v_ca v) sym);
      try (injection H as <- _ _; split; [apply log_ext_refl; reflexivity|left; reflexivity]).
    destruct (refresh rs lang sym v) as [[v1 content] s1] eqn:Hr. destruct (refresh_ok _ _ _ _ _ _ _ Hr) as [Hl Hs].
    destruct s1; try (injection H as <- _ _; split; assumption).
    destruct (cache_add _ _ _ _) as [ca'|e2|p2]; [| |injection H as <- _ _; split; assumption].
    + injection H as <- _ _. split; [|exact Hs]. destruct Hl as [n [E F]]. exists n. split; [exact E|exact F].
    + destruct e2; injection H as <- _ _; split; assumption.
  - (* RELOAD *)
    unfold run_reload in H.
    destruct (refresh rs lang sym v) as [[v1 content] s1] eqn:Hr. destruct (refresh_ok _ _ _ _ _ _ _ Hr) as [Hl Hs].
    destruct s1; try (injection H as <- _ _; split; assumption).
    destruct (cache_update_raw _ _ _) as [ca' oe].
    destruct (page_map _ _ _); injection H as <- _ _; (split; [|exact Hs]); destruct Hl as [n [E F]]; exists n; (split; [exact E|exact F]).
  - (* MAP *)
    unfold run_map in H. destruct (page_map _ _ _); injection H as <- _ _; (split; [apply log_ext_refl; reflexivity|left; reflexivity]).
  - (* MOVE *)
    unfold run_move in H.
    destruct (apply_target sym (v_st v) (v_ca v)) as [[[st' ca'] nsym] s1] eqn:Ha.
    pose proof (lang_step_keeps _ _ (apply_target_keeps _ _ _ _ _ _ _ Ha)) as K.
    destruct s1; try (injection H as <- _ _; split; [apply log_ext_refl; reflexivity|exact K]).
    destruct (fetch_code rs nsym _) as [v2 c] eqn:Hf.
    destruct (fetch_code_ok lang _ _ _ _ _ Hf) as [Hl [Hst _]]. cbn [v_st vlog vset_st vset_ca] in Hst.
    assert (Hx : log_ext lang v v2).
    { eapply log_ext_trans; [|exact Hl]. eapply log_ext_cons; [reflexivity|exact I]. }
    destruct c; injection H as <- _ _; cbn [v_st vset_pg]; (split; [|rewrite Hst; exact K]); exact Hx.
  - (* INCMP *)
    unfold run_incmp in H.
    destruct (getf (v_st v) FLAG_INMATCH && getf (v_st v) FLAG_READIN).
    { injection H as <- _ _. split; [eapply log_ext_cons; [reflexivity|exact I]|left; reflexivity]. }
    cbn [v_st vset_st] in H.
    assert (E0 : s_lang (if getf (v_st v) FLAG_INMATCH then v_st v else setf (v_st v) FLAG_READIN) = s_lang (v_st v))
      by (destruct (getf (v_st v) FLAG_INMATCH); reflexivity).
    destruct (s_input _) as [input|]; [|injection H as <- _ _; split; [apply log_ext_refl; reflexivity|left; exact E0]].
    destruct ((negb _ && _) || _).
    + destruct (apply_target dest _ _) as [[[st' ca'] nsym] s1] eqn:Ha. cbn [v_ca vset_st] in H.
      pose proof (apply_target_keeps _ _ _ _ _ _ _ Ha) as [K _]. cbn [s_lang resetf setf set_flags] in K.
      assert (K' : s_lang st' = s_lang (v_st v)) by (rewrite K; exact E0).
      destruct s1 as [|e m|p|].
      * destruct (fetch_code rs nsym _) as [v3 c] eqn:Hf.
        destruct (fetch_code_ok lang _ _ _ _ _ Hf) as [Hl [Hst _]]. cbn [v_st vlog vset_st vset_ca vset_pg] in Hst.
        assert (Hx : log_ext lang v v3).
        { eapply log_ext_trans; [|exact Hl]. exists [EvMove 1 dest nsym; EvInCmp dest sel true]. split; [reflexivity|].
          repeat constructor. }
        destruct c; injection H as <- _ _; (split; [exact Hx|left; rewrite Hst; exact K']).
      * destruct e; injection H as <- _ _; cbn [v_st v_log vlog vset_st vset_ca];
          (split; [first [apply log_ext_refl; reflexivity | eapply log_ext_cons; [reflexivity|exact I]]|left; exact K']).
      * injection H as <- _ _. split; [apply log_ext_refl; reflexivity|left; exact K'].
      * injection H as <- _ _. split; [apply log_ext_refl; reflexivity|left; exact K'].
    + injection H as <- _ _. split; [eapply log_ext_cons; [reflexivity|exact I]|left; exact E0].
Qed.

Lemma prelude_log v : v_log (run_prelude v) = v_log v.
Proof. reflexivity. Qed.
Lemma prelude_lang v : s_lang (v_st (run_prelude v)) = s_lang (v_st v).
Proof. unfold run_prelude. cbn [v_st vset_st vset_pg]. destruct (getf (resetf (v_st v) FLAG_LANG) FLAG_WAIT); reflexivity. Qed.
Lemma prelude_ca v : v_ca (run_prelude v) = v_ca v.
Proof. reflexivity. Qed.
Lemma prelude_input v : s_input (v_st (run_prelude v)) = s_input (v_st v).
Proof. unfold run_prelude. cbn [v_st vset_st vset_pg]. destruct (getf (resetf (v_st v) FLAG_LANG) FLAG_WAIT); reflexivity. Qed.

Lemma step_exec_ok rs sep L op b1 v0 v1 b2 s :
  step_exec rs sep L op b1 v0 = (v1, b2, s) -> log_ext L v0 v1 /\ lang_step (v_st v0) (v_st v1).
Proof.
  unfold step_exec. intros H. destruct (parse_args op b1) as [[i b2']|e|n];
    try (injection H as <- _ _; split; [apply log_ext_refl; reflexivity|left; reflexivity]).
  destruct (exec_instr_ok _ _ _ _ _ _ _ _ _ H) as [Hl Hs]. split; [|exact Hs].
  eapply log_ext_trans; [|exact Hl]. eapply log_ext_cons; [reflexivity|exact I].
Qed.

Lemma err_check_ok v1 b2 s v2 b3 s2 :
  err_check v1 b2 s = (v2, b3, s2) -> v_log v2 = v_log v1 /\ v_st v2 = v_st v1 /\ v_ca v2 = v_ca v1 /\ v_w v2 = v_w v1.
Proof.
  unfold err_check. intros H. destruct s as [|e m|n|]; try (injection H as <- _ _; auto).
  assert (E : v_log (set_page_err v1 m) = v_log v1 /\ v_st (set_page_err v1 m) = v_st v1
              /\ v_ca (set_page_err v1 m) = v_ca v1 /\ v_w (set_page_err v1 m) = v_w v1)
    by (destruct m; cbn; auto).
  destruct (getf _ FLAG_LOADFAIL && _); injection H as <- _ _; exact E.
Qed.

Lemma dead_check_ok v2 v3 b4 s3 :
  dead_check v2 = (v3, b4, s3) ->
  v_log v3 = v_log v2 /\ s_lang (v_st v3) = s_lang (v_st v2) /\ getf (v_st v3) FLAG_LANG = getf (v_st v2) FLAG_LANG
  /\ v_ca v3 = v_ca v2 /\ v_w v3 = v_w v2.
Proof.
  unfold dead_check. intros H. destruct (negb (getf (v_st v2) FLAG_READIN)).
  { injection H as <- _ _. cbn [v_log v_st vset_st v_ca v_w]. repeat split; try reflexivity.
    apply getf_setf_other. discriminate. }
  destruct (getf (v_st v2) FLAG_TERMINATE); [injection H as <- _ _; auto|].
  destruct (where_sym (v_st v2)); [injection H as <- _ _; auto|].
  destruct (bytes_eqb _ catch_sym); injection H as <- _ _; cbn; auto.
Qed.

Lemma lang_step_then st0 st1 st2 :
  lang_step st0 st1 -> s_lang st2 = s_lang st1 -> getf st2 FLAG_LANG = getf st1 FLAG_LANG -> lang_step st0 st2.
Proof. unfold lang_step. intros [H|H] E1 E2; [left|right]; congruence. Qed.

(* one iteration: the language it runs in, what it logs, what it does to the session language *)
Lemma run_step_ok rs sep lang b v :
  match run_step rs sep lang b v with
  | Done (v', _, _) => log_ext (eff_lang lang (v_st v)) v v' /\ lang_step (v_st v) (v_st v')
  | Next l1 b1 v1 => l1 = eff_lang lang (v_st v) /\ log_ext l1 v v1 /\ lang_step (v_st v) (v_st v1)
  end.
Proof.
  unfold run_step. destruct (getf (v_st v) FLAG_TERMINATE).
  { split; [apply log_ext_refl; reflexivity|left; reflexivity]. }
  cbv zeta. set (L := eff_lang lang (v_st v)).
  assert (P0 : log_ext L v (run_prelude v) /\ lang_step (v_st v) (v_st (run_prelude v))).
  { split; [apply log_ext_refl; apply prelude_log|left; apply prelude_lang]. }
  destruct (op_split b) as [[op b1]|e|n]; [|exact P0|exact P0].
  assert (Hex : forall v1 b2 s, step_exec rs sep L op b1 (run_prelude v) = (v1, b2, s) ->
            log_ext L v v1 /\ lang_step (v_st v) (v_st v1)).
  { intros v1 b2 s Hx. destruct (step_exec_ok _ _ _ _ _ _ _ _ _ Hx) as [Hl Hs]. split.
    - eapply log_ext_trans; [exact (proj1 P0)|exact Hl].
    - destruct Hs as [Hs|Hs]; [left; rewrite Hs; apply prelude_lang|right; exact Hs]. }
  assert (Hmain :
    let '(v1, b2, s) := step_exec rs sep L op b1 (run_prelude v) in
    match (if op =? op_HALT then Done (v1, b2, s) else
      let '(v2, b3, s2) := err_check v1 b2 s in
      match s2 with
      | SOk => match b3 with
               | [] => let '(v3, b4, s3) := dead_check v2 in
                       match s3 with
                       | SOk => match b4 with [] => Done (v3, [], SOk) | _ => Next L b4 v3 end
                       | _ => Done (v3, b4, s3)
                       end
               | _ => Next L b3 v2
               end
      | _ => Done (v2, b3, s2)
      end) with
    | Done (v', _, _) => log_ext L v v' /\ lang_step (v_st v) (v_st v')
    | Next l1 b1 v1 => l1 = L /\ log_ext l1 v v1 /\ lang_step (v_st v) (v_st v1)
    end).
  { destruct (step_exec rs sep L op b1 (run_prelude v)) as [[v1 b2] s] eqn:Hx.
    destruct (Hex _ _ _ eq_refl) as [Hl Hs].
    destruct (op =? op_HALT); [split; assumption|].
    destruct (err_check v1 b2 s) as [[v2 b3] s2] eqn:He.
    destruct (err_check_ok _ _ _ _ _ _ He) as [El [Est _]].
    assert (Hl2 : log_ext L v v2) by (destruct Hl as [n [E F]]; exists n; split; [congruence|exact F]).
    assert (Hs2 : lang_step (v_st v) (v_st v2)) by (rewrite Est; exact Hs).
    destruct s2; try (split; assumption).
    destruct b3 as [|x b3]; [|split; [reflexivity|split; assumption]].
    destruct (dead_check v2) as [[v3 b4] s3] eqn:Hd.
    destruct (dead_check_ok _ _ _ _ Hd) as [Dl [Dlang [Dflag _]]].
    assert (Hl3 : log_ext L v v3) by (destruct Hl2 as [n [E F]]; exists n; split; [congruence|exact F]).
    assert (Hs3 : lang_step (v_st v) (v_st v3)) by (eapply lang_step_then; eassumption).
    destruct s3; try (split; assumption).
    destruct b4; [split; assumption|split; [reflexivity|split; assumption]]. }
  destruct (parse_args op b1) as [[i b2]|e|n]; [| |exact P0];
    (destruct (step_exec rs sep L op b1 (run_prelude v)) as [[v1 b2'] s]; exact Hmain).
Qed.

(* ---- the invariant: the context language follows the session language ---------------- *)
(* J: the instruction's language is the session's, or the session has none;
   I: the same, once a pending LANG flag has been consumed *)
Definition lang_follows (l : option bytes) (st : state) : Prop := l = s_lang st \/ s_lang st = None.
Definition lang_inv (lang : option bytes) (st : state) : Prop :=
  getf st FLAG_LANG = true \/ lang_follows lang st.

Lemma lang_inv_start st : lang_inv (s_lang st) st.
Proof. right. left. reflexivity. Qed.

Lemma lang_inv_eff lang st : lang_inv lang st -> lang_follows (eff_lang lang st) st.
Proof.
  unfold lang_inv, lang_follows, eff_lang. intros [H|H].
  - rewrite H. destruct (s_lang st); [left; reflexivity|right; reflexivity].
  - destruct (getf st FLAG_LANG); [|exact H]. destruct (s_lang st); [left; reflexivity|right; reflexivity].
Qed.

Lemma lang_inv_step rs sep lang b v l1 b1 v1 :
  lang_inv lang (v_st v) -> run_step rs sep lang b v = Next l1 b1 v1 -> lang_inv l1 (v_st v1).
Proof.
  intros Hi Hs. pose proof (run_step_ok rs sep lang b v) as H. rewrite Hs in H. destruct H as [-> [_ [Hk|Hk]]].
  - right. pose proof (lang_inv_eff _ _ Hi) as F. unfold lang_follows in *. rewrite Hk. exact F.
  - left. exact Hk.
Qed.

(* every instruction of a run executes in the session's current language (when it has one) *)
Lemma run_lang_follows_lemma rs sep lang b v l' b' v' :
  lang_inv lang (v_st v) -> reaches rs sep (lang, b, v) (l', b', v') ->
  lang_follows (eff_lang l' (v_st v')) (v_st v').
Proof.
  intros Hi Hr. apply lang_inv_eff.
  apply (reaches_invariant rs sep (fun l _ v => lang_inv l (v_st v))) with (lang := lang) (b := b) (v := v) (b' := b'); try assumption.
  intros. eapply lang_inv_step; eassumption.
Qed.

(* ... so after a switch to L, every later instruction that finds the session in L runs in L *)
Lemma run_lang_after_switch_lemma rs sep lang b v l' b' v' L :
  lang_inv lang (v_st v) -> reaches rs sep (lang, b, v) (l', b', v') ->
  s_lang (v_st v') = Some L -> eff_lang l' (v_st v') = Some L.
Proof.
  intros Hi Hr HL. destruct (run_lang_follows_lemma _ _ _ _ _ _ _ _ Hi Hr) as [H|H]; congruence.
Qed.

(* the function calls of one instruction carry that language; the session language can only
   change together with a LANG flag left set for the next instruction to consume *)
Lemma step_calls_lemma rs sep lang b v :
  forall v' , (exists b' s, run_step rs sep lang b v = Done (v', b', s)) \/ (exists l1 b1, run_step rs sep lang b v = Next l1 b1 v') ->
  (exists new, v_log v' = new ++ v_log v
     /\ Forall (fun e => match e with EvFunc _ l _ => l = eff_lang lang (v_st v) | EvRender _ _ _ => False | _ => True end) new)
  /\ (s_lang (v_st v') <> s_lang (v_st v) -> getf (v_st v') FLAG_LANG = true).
Proof.
  intros v' H. pose proof (run_step_ok rs sep lang b v) as K.
  destruct H as [[b' [s H]]|[l1 [b1 H]]]; rewrite H in K.
  - destruct K as [Hl Hs]. split; [exact Hl|]. intros Hne. destruct Hs; congruence.
  - destruct K as [-> [Hl Hs]]. split; [exact Hl|]. intros Hne. destruct Hs; congruence.
Qed.

(* whole run: every event it appends was appended by an instruction of a configuration it
   passed through, in that instruction's language; no render event *)
Definition ev_from (rs : rsrc) (sep : bytes) (c0 : conf) (e : ev) : Prop :=
  match e with
  | EvFunc _ l _ => exists l2 b2 v2, reaches rs sep c0 (l2, b2, v2) /\ l = eff_lang l2 (v_st v2)
  | EvRender _ _ _ => False
  | _ => True
  end.

Lemma ev_ok_from rs sep c0 l2 b2 v2 e :
  reaches rs sep c0 (l2, b2, v2) -> ev_ok (eff_lang l2 (v_st v2)) e -> ev_from rs sep c0 e.
Proof. intros Hr. destruct e; cbn; auto. intros ->. eauto. Qed.

Lemma run_events_lemma rs sep fuel lang b v :
  exists new, v_log (fst (fst (run fuel rs sep lang b v))) = new ++ v_log v
              /\ Forall (ev_from rs sep (lang, b, v)) new.
Proof.
  set (c0 := (lang, b, v)).
  apply (run_result_fuel rs sep
    (fun l b1 v1 => reaches rs sep c0 (l, b1, v1) /\ exists new, v_log v1 = new ++ v_log v /\ Forall (ev_from rs sep c0) new)
    (fun r => exists new, v_log (fst (fst r)) = new ++ v_log v /\ Forall (ev_from rs sep c0) new)).
  - intros l b1 v1 l2 b2 v2 [Hr [n [E F]]] Hs. pose proof (run_step_ok rs sep l b1 v1) as K. rewrite Hs in K.
    destruct K as [-> [[n2 [E2 F2]] _]]. split.
    + eapply reaches_trans; [exact Hr|]. eapply reach_step; [exact Hs|apply reach_refl].
    + exists (n2 ++ n). split; [rewrite E2, E, app_assoc; reflexivity|]. apply Forall_app. split; [|exact F].
      eapply Forall_impl; [|exact F2]. intros e He. eapply ev_ok_from; eassumption.
  - intros l b1 v1 [[v' b'] s] [Hr [n [E F]]] Hs. pose proof (run_step_ok rs sep l b1 v1) as K. rewrite Hs in K.
    destruct K as [[n2 [E2 F2]] _]. cbn [fst]. exists (n2 ++ n). split; [rewrite E2, E, app_assoc; reflexivity|].
    apply Forall_app. split; [|exact F]. eapply Forall_impl; [|exact F2]. intros e He. eapply ev_ok_from; eassumption.
  - intros l b1 v1 [_ H]. exact H.
  - split; [apply reach_refl|]. exists []. split; [reflexivity|constructor].
Qed.

(* combined: every function call of a run started in the session's language carries the
   language the session had when that instruction began — unless the session had none *)
Lemma run_funcs_lang_lemma rs sep fuel lang b v :
  lang_inv lang (v_st v) ->
  exists new, v_log (fst (fst (run fuel rs sep lang b v))) = new ++ v_log v
    /\ Forall (fun e => match e with
                        | EvFunc _ l _ => exists l2 b2 v2, reaches rs sep (lang, b, v) (l2, b2, v2)
                                            /\ l = eff_lang l2 (v_st v2) /\ lang_follows l (v_st v2)
                        | EvRender _ _ _ => False
                        | _ => True end) new.
Proof.
  intros Hi. destruct (run_events_lemma rs sep fuel lang b v) as [new [E F]]. exists new. split; [exact E|].
  eapply Forall_impl; [|exact F]. intros e He. destruct e; cbn in *; auto.
  destruct He as [l2 [b2 [v2 [Hr ->]]]]. exists l2, b2, v2. split; [exact Hr|]. split; [reflexivity|].
  eapply run_lang_follows_lemma; eassumption.
Qed.

(* the run loop never logs a render event (used at engine level) *)
Definition not_render (e : ev) : Prop := match e with EvRender _ _ _ => False | _ => True end.
Lemma run_no_render rs sep fuel lang b v :
  exists new, v_log (fst (fst (run fuel rs sep lang b v))) = new ++ v_log v /\ Forall not_render new.
Proof.
  destruct (run_events_lemma rs sep fuel lang b v) as [new [E F]]. exists new. split; [exact E|].
  eapply Forall_impl; [|exact F]. intros e He. destruct e; cbn in *; auto.
Qed.

(* ================================================================================== *)
(* Part 6 — C05 at run level: the resume after HALT empties the map                   *)
(* ================================================================================== *)

Lemma upd_menu_map f pg : p_map (upd_menu f pg) = p_map pg /\ p_sink (upd_menu f pg) = p_sink pg.
Proof. unfold upd_menu. destruct (p_menu pg); auto. Qed.

Lemma prelude_resume_clears v :
  getf (v_st v) FLAG_WAIT = true -> p_map (v_pg (run_prelude v)) = [] /\ p_sink (v_pg (run_prelude v)) = None.
Proof.
  intros H. unfold run_prelude. rewrite getf_resetf_other by discriminate. rewrite H. cbn [v_pg vset_pg].
  destruct (upd_menu_map menu_reset (page_reset (page_with_error (v_pg v) None))) as [-> ->]. auto.
Qed.

Lemma prelude_no_resume v : getf (v_st v) FLAG_WAIT = false -> v_pg (run_prelude v) = v_pg v.
Proof. intros H. unfold run_prelude. rewrite getf_resetf_other by discriminate. rewrite H. reflexivity. Qed.

(* in the loop: an instruction that runs right after a HALT (WAIT set) starts from an empty map *)
Lemma step_resume_lemma rs sep lang b v op b1 :
  getf (v_st v) FLAG_TERMINATE = false -> getf (v_st v) FLAG_WAIT = true -> op_split b = Ok (op, b1) ->
  exists v0, p_map (v_pg v0) = [] /\ v_ca v0 = v_ca v /\
    run_step rs sep lang b v =
    match parse_args op b1 with
    | Panic n => Done (v0, b1, SPanic n)
    | _ =>
      let '(v1, b2, s) := step_exec rs sep (eff_lang lang (v_st v)) op b1 v0 in
      if op =? op_HALT then Done (v1, b2, s) else
      let '(v2, b3, s2) := err_check v1 b2 s in
      match s2 with
      | SOk =>
        match b3 with
        | [] =>
          let '(v3, b4, s3) := dead_check v2 in
          match s3 with
          | SOk => match b4 with [] => Done (v3, [], SOk) | _ => Next (eff_lang lang (v_st v)) b4 v3 end
          | _ => Done (v3, b4, s3)
          end
        | _ => Next (eff_lang lang (v_st v)) b3 v2
        end
      | _ => Done (v2, b3, s2)
      end
    end.
Proof.
  intros Ht Hw Ho. exists (run_prelude v). split; [apply (prelude_resume_clears v Hw)|]. split; [reflexivity|].
  unfold run_step. rewrite Ht, Ho. reflexivity.
Qed.

(* one instruction and the map: cleared, kept, or extended by the one symbol MAP/RELOAD names *)
Lemma exec_instr_map_lemma rs sep lang i b v v' b' s :
  exec_instr rs sep lang i b v = (v', b', s) ->
  p_map (v_pg v') = []
  \/ p_map (v_pg v') = p_map (v_pg v)
  \/ exists k val, (i = IMap k \/ i = IReload k) /\ cache_get (v_ca v') k = Ok val
                   /\ p_map (v_pg v') = aset k val (p_map (v_pg v)).
Proof.
  destruct i as [|sym sig mode|sig mode|sym sz|sym|sym|sym| |dest sel| |title sel|title sel|title sel]; cbn [exec_instr]; intros H;
    try (injection H as <- _ _; right; left; cbn [v_pg vset_pg vset_st]; first [reflexivity | apply upd_menu_map]).
  - right; left. rewrite (run_catch_page _ _ _ _ _ _ _ _ _ H). reflexivity.
  - destruct (run_croak_page _ _ _ _ _ _ _ _ H) as [E|E]; rewrite E; [right; left; reflexivity|left; reflexivity].
  - right; left. unfold run_load in H. destruct (cache_get (v_ca v) sym); try (injection H as <- _ _; reflexivity).
    destruct (refresh rs lang sym v) as [[v1 content] s1] eqn:Hr. destruct (refresh_frame _ _ _ _ _ _ _ Hr) as [_ Hpg].
    destruct s1; try (injection H as <- _ _; rewrite Hpg; reflexivity).
    destruct (cache_add _ _ _ _) as [ca'|e2|p2]; [injection H as <- _ _; cbn [v_pg vset_ca]; rewrite Hpg; reflexivity| |injection H as <- _ _; rewrite Hpg; reflexivity].
    destruct e2; injection H as <- _ _; rewrite Hpg; reflexivity.
  - unfold run_reload in H.
    destruct (refresh rs lang sym v) as [[v1 content] s1] eqn:Hr. destruct (refresh_frame _ _ _ _ _ _ _ Hr) as [_ Hpg].
    destruct s1; try (injection H as <- _ _; right; left; rewrite Hpg; reflexivity).
    destruct (cache_update_raw _ _ _) as [ca' oe]. cbn [v_ca v_pg vset_ca] in H.
    destruct (page_map ca' (v_pg v1) sym) as [pg'|e|p] eqn:Hm; injection H as <- _ _; cbn [v_pg v_ca vset_pg vset_ca];
      try (right; left; rewrite Hpg; reflexivity).
    right; right. destruct (page_map_ok _ _ _ _ Hm) as [val [l [Hg [_ [Hp _]]]]]. exists sym, val.
    split; [right; reflexivity|]. split; [exact Hg|]. rewrite Hp, Hpg. reflexivity.
  - destruct (run_map_lemma _ _ _ _ _ _ H) as [_ [_ [Hca [_ [_ [Hok Hne]]]]]].
    destruct s; try (right; left; rewrite Hne by discriminate; reflexivity).
    right; right. destruct (Hok eq_refl) as [val [Hg Hp]]. exists sym, val. split; [left; reflexivity|]. rewrite Hca. auto.
  - destruct (run_move_page _ _ _ _ _ _ _ _ H) as [Hok Hne].
    destruct s; try (right; left; rewrite Hne by discriminate; reflexivity). left. apply (Hok eq_refl).
  - destruct (run_incmp_page _ _ _ _ _ _ _ _ _ H) as [[E _]|[E _]]; rewrite E; [right; left; reflexivity|left; reflexivity].
Qed.

(* ================================================================================== *)
(* Part 7 — C18 at engine level                                                       *)
(* ================================================================================== *)

(* ---- the renderer sees the resource only through the two lookups it is handed --------- *)
Lemma menu_loop_ext f g sep : (forall t, f t = g t) ->
  forall items r, menu_loop f sep items r = menu_loop g sep items r.
Proof.
  intros E. induction items as [|[sel title] rest IH]; intros r; cbn [menu_loop]; [reflexivity|].
  rewrite E. destruct (g title); [apply IH|reflexivity|reflexivity].
Qed.

Lemma menu_render_st_ext f g m idx : (forall t, f t = g t) -> menu_render_st f m idx = menu_render_st g m idx.
Proof.
  intros E. unfold menu_render_st. destruct (menu_apply_page m idx) as [m1|e|n]; try reflexivity.
  destruct (m_has_rs m1); [|reflexivity]. rewrite (menu_loop_ext f g _ E). reflexivity.
Qed.

Lemma render_template_ext f g pg sym vals idx : (forall t, f t = g t) ->
  render_template f pg sym vals idx = render_template g pg sym vals idx.
Proof. intros E. unfold render_template. rewrite E. reflexivity. Qed.

Lemma page_render_inner_ext f g f' g' pg sym vals idx :
  (forall t, f t = f' t) -> (forall t, g t = g' t) ->
  page_render_inner f g pg sym vals idx = page_render_inner f' g' pg sym vals idx.
Proof.
  intros E1 E2. unfold page_render_inner. rewrite (render_template_ext f f' _ _ _ _ E1).
  destruct (render_template f' pg sym vals idx); try reflexivity.
  destruct (p_menu pg) as [m|]; [|reflexivity]. rewrite (menu_render_st_ext g g' _ _ E2). reflexivity.
Qed.

Lemma page_prepare_ext c f g f' g' pg sym idx :
  (forall t, f t = f' t) -> (forall t, g t = g' t) ->
  page_prepare c f g pg sym idx = page_prepare c f' g' pg sym idx.
Proof.
  intros E1 E2. unfold page_prepare. destruct (p_sizer pg); [|reflexivity].
  destruct (page_split c (p_map pg)) as [[[nsv0 sink0] svs0]|e|n]; try reflexivity.
  assert (Hs : forall m, menu_render_st g (menu_with_pages (menu_with_dispose m)) 0
                       = menu_render_st g' (menu_with_pages (menu_with_dispose m)) 0)
    by (intros m; apply menu_render_st_ext; exact E2).
  destruct (p_menu pg) as [m|].
  - destruct (m_sink m).
    + destruct (negb _); [reflexivity|]. rewrite Hs.
      destruct (menu_render_st g' _ 0) as [[mstr|e|n] m2]; try reflexivity.
      destruct (prep_write _ _ _ _ _) as [nsv1 pg3].
      rewrite (page_render_inner_ext f g f' g' _ _ _ _ E1 E2). reflexivity.
    + rewrite (page_render_inner_ext f g f' g' _ _ _ _ E1 E2). reflexivity.
  - rewrite (page_render_inner_ext f g f' g' _ _ _ _ E1 E2). reflexivity.
Qed.

Lemma page_render_ext c f g f' g' pg sym idx :
  (forall t, f t = f' t) -> (forall t, g t = g' t) ->
  page_render c f g pg sym idx = page_render c f' g' pg sym idx.
Proof.
  intros E1 E2. unfold page_render. rewrite (page_prepare_ext c f g f' g' _ _ _ E1 E2).
  destruct (page_prepare c f' g' pg sym idx) as [[vals|e|n] pg']; try reflexivity.
  apply page_render_inner_ext; assumption.
Qed.

(* ---- the run loop sees the resource only through code, functions and their error text -- *)
Definition rs_same_code (rs rs' : rsrc) : Prop :=
  (forall s, rs_code rs s = rs_code rs' s) /\ (forall s, rs_func rs s = rs_func rs' s)
  /\ (forall s, rs_nofunc rs s = rs_nofunc rs' s) /\ rs_observed rs = rs_observed rs'.

Lemma refresh_ext rs rs' lang key v : rs_same_code rs rs' -> refresh rs lang key v = refresh rs' lang key v.
Proof. intros [_ [Ef [En _]]]. unfold refresh. rewrite Ef, En. reflexivity. Qed.

Lemma fetch_code_ext rs rs' sym v : rs_same_code rs rs' -> fetch_code rs sym v = fetch_code rs' sym v.
Proof. intros [Ec [_ [_ Eo]]]. unfold fetch_code. rewrite Ec, Eo. reflexivity. Qed.

Lemma exec_instr_ext rs rs' sep lang i b v : rs_same_code rs rs' ->
  exec_instr rs sep lang i b v = exec_instr rs' sep lang i b v.
Proof.
  intros E. destruct i; cbn [exec_instr]; try reflexivity.
  - unfold run_catch. destruct (match_flag _ _ _) as [[|]| |]; try reflexivity.
    destruct (apply_target _ _ _) as [[[st' ca'] nsym] s1]. destruct s1; try reflexivity.
    rewrite (fetch_code_ext rs rs' _ _ E). reflexivity.
  - unfold run_load. rewrite (refresh_ext rs rs' _ _ _ E). reflexivity.
  - unfold run_reload. rewrite (refresh_ext rs rs' _ _ _ E). reflexivity.
  - unfold run_move. destruct (apply_target _ _ _) as [[[st' ca'] nsym] s1]. destruct s1; try reflexivity.
    rewrite (fetch_code_ext rs rs' _ _ E). reflexivity.
  - unfold run_incmp. destruct (_ && _); [reflexivity|]. destruct (s_input _); [|reflexivity].
    destruct (_ || _); [|reflexivity]. destruct (apply_target _ _ _) as [[[st' ca'] nsym] s1]. destruct s1; try reflexivity.
    rewrite (fetch_code_ext rs rs' _ _ E). reflexivity.
Qed.

Lemma run_step_ext rs rs' sep lang b v : rs_same_code rs rs' -> run_step rs sep lang b v = run_step rs' sep lang b v.
Proof.
  intros E. unfold run_step. destruct (getf _ FLAG_TERMINATE); [reflexivity|]. cbv zeta.
  destruct (op_split b) as [[op b1]|e|n]; [|reflexivity|reflexivity].
  assert (Hx : step_exec rs sep (eff_lang lang (v_st v)) op b1 (run_prelude v)
             = step_exec rs' sep (eff_lang lang (v_st v)) op b1 (run_prelude v)).
  { unfold step_exec. destruct (parse_args op b1) as [[i b2]|e|n]; [apply exec_instr_ext; exact E|reflexivity|reflexivity]. }
  rewrite Hx. reflexivity.
Qed.

Lemma run_ext rs rs' sep : rs_same_code rs rs' ->
  forall fuel lang b v, run fuel rs sep lang b v = run fuel rs' sep lang b v.
Proof.
  intros E. induction fuel as [|fuel IH]; intros lang b v; [reflexivity|].
  rewrite !run_S, (run_step_ext rs rs' _ _ _ _ E). destruct (run_step rs' sep lang b v); [reflexivity|apply IH].
Qed.

(* two resources that agree on everything but the entries of OTHER languages *)
Definition rs_agree_on (lang : option bytes) (rs rs' : rsrc) : Prop :=
  rs_same_code rs rs'
  /\ (forall s, rs_tpl rs lang s = rs_tpl rs' lang s)
  /\ (forall s, rs_menu rs lang s = rs_menu rs' lang s).

Lemma vm_render_ext fuel rs rs' sep lang v : rs_agree_on lang rs rs' ->
  vm_render fuel rs sep lang v = vm_render fuel rs' sep lang v.
Proof.
  intros [Ec [Et Em]]. unfold vm_render. destruct (negb _); [reflexivity|]. cbv zeta.
  destruct (where_sym _) as [|x sym]; [reflexivity|].
  rewrite (page_render_ext _ _ _ _ _ _ _ _ Et Em).
  destruct (page_render _ (rs_tpl rs' lang) (rs_menu rs' lang) _ _ _) as [r pg'].
  destruct r as [out|e|n]; try reflexivity. destruct e; try reflexivity.
  rewrite (run_ext rs rs' sep Ec).
  destruct (run fuel rs' sep lang move_catch_code _) as [[v1 b1] s]. destruct s; try reflexivity;
    rewrite (page_render_ext _ _ _ _ _ _ _ _ Et Em); reflexivity.
Qed.

(* non-interference: Flush does not depend on what the resource holds for other languages *)
Lemma eng_flush_noninterference fuel rs rs' c e :
  rs_agree_on (s_lang (v_st (e_v e))) rs rs' -> eng_flush fuel rs c e = eng_flush fuel rs' c e.
Proof.
  intros E. unfold eng_flush. destruct (negb (e_execd e)); [reflexivity|]. cbv zeta.
  rewrite (vm_render_ext _ _ _ _ _ _ E). reflexivity.
Qed.

(* for applications: tables that resolve every key the same way in the session's language *)
Definition app_agree_on (lang : option bytes) (a a' : app) : Prop :=
  a_code a = a_code a' /\ a_funcs a = a_funcs a'
  /\ (forall k, lookup_lang (a_tpl a) k lang = lookup_lang (a_tpl a') k lang)
  /\ (forall k, lookup_lang (a_menu a) k lang = lookup_lang (a_menu a') k lang).

Lemma app_agree_rs lang a a' : app_agree_on lang a a' -> rs_agree_on lang (app_rsrc a) (app_rsrc a').
Proof.
  intros [Ec [Ef [Et Em]]]. unfold rs_agree_on, rs_same_code, app_rsrc. cbn [rs_code rs_func rs_nofunc rs_observed rs_tpl rs_menu].
  rewrite Ec, Ef. repeat split; try reflexivity.
  - intros s. rewrite Et. reflexivity.
  - intros s. rewrite Em. reflexivity.
Qed.

(* ---- every render event of a Flush carries the session language at flush time ---------- *)
Definition render_in (lang : option bytes) (e : ev) : Prop :=
  match e with EvRender _ _ l => l = lang | _ => True end.

Lemma not_render_in lang e : not_render e -> render_in lang e.
Proof. destruct e; cbn; auto. intros []. Qed.

Lemma vm_render_events fuel rs sep lang v :
  exists new, v_log (fst (vm_render fuel rs sep lang v)) = new ++ v_log v /\ Forall (render_in lang) new.
Proof.
  unfold vm_render. destruct (negb _); [exists []; split; [reflexivity|constructor]|]. cbv zeta.
  destruct (where_sym _) as [|x sym]; [exists []; split; [reflexivity|constructor]|].
  destruct (page_render _ _ _ _ _ _) as [r pg'].
  set (ev1 := EvRender (x :: sym) (s_idx (v_st (vset_st v (resetf (v_st v) FLAG_DIRTY)))) lang).
  assert (H1 : exists new, ev1 :: v_log v = new ++ v_log v /\ Forall (render_in lang) new).
  { exists [ev1]. split; [reflexivity|repeat constructor]. }
  destruct r as [out|e|n]; try exact H1. destruct e; try exact H1.
  match goal with |- context [run fuel rs sep lang move_catch_code ?V] => set (v2 := V) end.
  destruct (run_no_render rs sep fuel lang move_catch_code v2) as [n2 [E2 F2]].
  destruct (run fuel rs sep lang move_catch_code v2) as [[v3 b3] s3]. cbn [fst] in E2.
  assert (H3 : exists new, v_log v3 = new ++ v_log v /\ Forall (render_in lang) new).
  { exists (n2 ++ [ev1]). split; [rewrite E2; subst v2; cbn [v_log vset_pg vlog vset_st]; rewrite <- app_assoc; reflexivity|].
    apply Forall_app. split; [eapply Forall_impl; [|exact F2]; intros; apply not_render_in; assumption|repeat constructor]. }
  destruct s3; try exact H3;
    destruct (page_render _ _ _ _ _ _) as [r1 pg1]; cbn [fst v_log vlog vset_pg];
    destruct H3 as [n3 [E3 F3]]; eexists (_ :: n3); (split; [rewrite E3; reflexivity|constructor; [reflexivity|exact F3]]).
Qed.

Lemma eng_reset_inner_log v : v_log (fst (eng_reset_inner v)) = v_log v /\ v_w (fst (eng_reset_inner v)) = v_w v.
Proof.
  unfold eng_reset_inner. destruct (unwind _ _ _) as [[st ca] s]. destruct s; cbn; auto.
Qed.

Lemma eng_flush_events fuel rs c e :
  exists new, v_log (e_v (fst (fst (eng_flush fuel rs c e)))) = new ++ v_log (e_v e)
              /\ Forall (render_in (s_lang (v_st (e_v e)))) new.
Proof.
  unfold eng_flush. destruct (negb (e_execd e)); [exists []; split; [reflexivity|constructor]|]. cbv zeta.
  destruct (vm_render_events fuel rs (c_sep c) (s_lang (v_st (e_v e))) (e_v e)) as [new [E F]].
  destruct (vm_render _ _ _ _ _) as [v r]. cbn [fst] in E.
  assert (H0 : exists new, v_log v = new ++ v_log (e_v e) /\ Forall (render_in (s_lang (v_st (e_v e)))) new) by eauto.
  destruct r as [out|er|n|]; try exact H0; cbn [e_exit eset_v e_exiting e_v];
    repeat match goal with
    | |- context [if ?c then _ else _] => destruct c
    | |- context [eng_reset_inner v] => let H := fresh in pose proof (proj1 (eng_reset_inner_log v)) as H; destruct (eng_reset_inner v) as [v' s']; cbn [fst] in H
    | |- context [match e_exit e with _ => _ end] => destruct (e_exit e)
    | |- context [match ?s with SOk => _ | _ => _ end] => destruct s
    end; cbn [fst e_v]; try exact H0; try (rewrite H; exact H0).
Qed.

(* ---- Exec: the main run starts in the session language ---------------------------------- *)
(* the configuration eng_exec_inner hands to the run loop *)
Definition exec_start (c : config) (e : engine) : conf :=
  let v := vset_st (e_v e) (set_code (v_st (e_v e)) []) in
  (s_lang (v_st (e_v e)), s_code (v_st (e_v e)), v).

Lemma eng_exec_inner_run fuel rs c e :
  s_code (v_st (e_v e)) <> [] ->
  let '(lang, code, v) := exec_start c e in
  let '(v1, b, s) := run fuel rs (c_sep c) lang code v in
  v_log (e_v (fst (fst (eng_exec_inner fuel rs c e)))) = v_log v1
  /\ s_lang (v_st (e_v (fst (fst (eng_exec_inner fuel rs c e))))) = s_lang (v_st v1).
Proof.
  intros Hne. unfold exec_start, eng_exec_inner. cbv zeta.
  destruct (s_code (v_st (e_v e))) as [|x code] eqn:Hc; [congruence|].
  cbn [v_st vset_st s_lang set_code].
  destruct (run fuel rs (c_sep c) _ (x :: code) _) as [[v1 b] s].
  destruct s; try (cbn; auto; fail).
  destruct (getf (v_st v1) FLAG_TERMINATE); [cbn; auto|].
  unfold set_code_eng. cbn [e_v]. destruct b as [|y b]; [|cbn; auto].
  destruct (getf (set_code (v_st v1) []) FLAG_DIRTY); cbn; auto.
Qed.

(* every function call of Exec's main run is made in the language the session has when the
   calling instruction begins (or the session has none by then: K-C18-emptylang) *)
Lemma eng_exec_inner_calls fuel rs c e :
  s_code (v_st (e_v e)) <> [] ->
  exists new, v_log (e_v (fst (fst (eng_exec_inner fuel rs c e)))) = new ++ v_log (e_v e)
    /\ Forall (fun ev => match ev with
                         | EvFunc _ l _ => exists l2 b2 v2, reaches rs (c_sep c) (exec_start c e) (l2, b2, v2)
                                             /\ l = eff_lang l2 (v_st v2) /\ lang_follows l (v_st v2)
                         | EvRender _ _ _ => False
                         | _ => True end) new.
Proof.
  intros Hne. pose proof (eng_exec_inner_run fuel rs c e Hne) as H. unfold exec_start in *. cbv zeta in H.
  set (v0 := vset_st (e_v e) (set_code (v_st (e_v e)) [])) in *.
  assert (Hi : lang_inv (s_lang (v_st (e_v e))) (v_st v0)) by (right; left; reflexivity).
  destruct (run_funcs_lang_lemma rs (c_sep c) fuel _ (s_code (v_st (e_v e))) v0 Hi) as [new [E F]].
  destruct (run fuel rs (c_sep c) _ _ v0) as [[v1 b] s]. destruct H as [Hl _]. cbn [fst] in E.
  exists new. split; [rewrite Hl, E; reflexivity|exact F].
Qed.

(* ---- persistence ---------------------------------------------------------------------- *)
Lemma snap_of_lang st ca : s_lang (fst (snap_of st ca)) = s_lang st.
Proof. reflexivity. Qed.

Lemma new_engine_resumes_lang c st ca w lg :
  s_lang (v_st (e_v (new_engine c (Some (st, ca)) w lg))) = s_lang st.
Proof. reflexivity. Qed.

Lemma eng_finish_lang e sn : eng_finish e = Some sn -> s_lang (fst sn) = s_lang (v_st (e_v e)).
Proof. unfold eng_finish. destruct (e_initd e); [|discriminate]. intros H. injection H as <-. reflexivity. Qed.

(* the configured language only matters for a session that does not exist yet *)
Definition cfg_set_lang (c : config) (l : bytes) : config :=
  mkCfg (c_out c) (c_root c) (c_flagcount c) (c_cachesize c) l (c_sep c) (c_reset_empty c) (c_first c).

Lemma eng_flush_cfg_lang fuel rs c l e : eng_flush fuel rs (cfg_set_lang c l) e = eng_flush fuel rs c e.
Proof. destruct c. reflexivity. Qed.
Lemma run_first_cfg_lang fuel c l lang e : run_first fuel (cfg_set_lang c l) lang e = run_first fuel c lang e.
Proof. destruct c. reflexivity. Qed.
Lemma eng_init_cfg_lang fuel rs c l e input : eng_init fuel rs (cfg_set_lang c l) e input = eng_init fuel rs c e input.
Proof. reflexivity. Qed.
Lemma eng_exec_cfg_lang fuel rs c l e input : eng_exec fuel rs (cfg_set_lang c l) e input = eng_exec fuel rs c e input.
Proof. reflexivity. Qed.

Lemma request_persisted_ignores_cfg_lang fuel rs c l p input sn :
  pw_store p = Some sn ->
  request_persisted fuel rs (cfg_set_lang c l) p input = request_persisted fuel rs c p input.
Proof.
  intros Hs. unfold request_persisted. rewrite Hs. cbv zeta.
  assert (En : new_engine (cfg_set_lang c l) (Some sn) (pw_w p) (pw_log p) = new_engine c (Some sn) (pw_w p) (pw_log p))
    by (destruct c; reflexivity).
  rewrite En, eng_exec_cfg_lang.
  destruct (eng_exec fuel rs c _ input) as [[e1 cont] s].
  destruct s; try reflexivity; rewrite eng_flush_cfg_lang; reflexivity.
Qed.

(* what a persisted request stores is the language the session has after Flush, and the next
   request's engine starts from it *)
Lemma request_persisted_store_lang fuel rs c p input :
  let e := new_engine c (pw_store p) (pw_w p) (pw_log p) in
  let '(e1, cont, s) := eng_exec fuel rs c e input in
  match s with
  | SPanic _ | SFuel => True
  | _ =>
    let '(e2, out, f) := eng_flush fuel rs c e1 in
    match f with
    | FPanic _ | FFuel => True
    | _ => e_initd e2 = true ->
           exists st' ca', pw_store (fst (request_persisted fuel rs c p input)) = Some (st', ca')
                           /\ s_lang st' = s_lang (v_st (e_v e2))
    end
  end.
Proof.
  cbv zeta. unfold request_persisted.
  destruct (eng_exec fuel rs c _ input) as [[e1 cont] s].
  destruct s; try exact I;
    (destruct (eng_flush fuel rs c e1) as [[e2 out] f]; destruct f; try exact I;
     intros Hi; unfold eng_finish; rewrite Hi; cbn [fst pw_store];
     exists (set_input_raw (v_st (e_v e2)) None), (v_ca (e_v e2)); (split; reflexivity)).
Qed.

(* ---- fallback to the default entry ------------------------------------------------------- *)
Lemma lookup_lang_translated tbl key l v :
  alookup (key ++ us ++ l) tbl = Some v -> lookup_lang tbl key (Some l) = Some v.
Proof. unfold lookup_lang. intros ->. reflexivity. Qed.
Lemma lookup_lang_default tbl key l :
  alookup (key ++ us ++ l) tbl = None -> lookup_lang tbl key (Some l) = alookup key tbl.
Proof. unfold lookup_lang. intros ->. reflexivity. Qed.
Lemma lookup_lang_none tbl key : lookup_lang tbl key None = alookup key tbl.
Proof. reflexivity. Qed.

Lemma fallback_lemma a l :
  (* templates *)
  (forall sym t, alookup (sym ++ us ++ l) (a_tpl a) = Some t -> rs_tpl (app_rsrc a) (Some l) sym = Ok t)
  /\ (forall sym t, alookup (sym ++ us ++ l) (a_tpl a) = None -> alookup sym (a_tpl a) = Some t ->
        rs_tpl (app_rsrc a) (Some l) sym = Ok t)
  /\ (forall sym, alookup (sym ++ us ++ l) (a_tpl a) = None -> alookup sym (a_tpl a) = None ->
        rs_tpl (app_rsrc a) (Some l) sym = Err ENotFound)
  (* menu labels *)
  /\ (forall title t, alookup ((title ++ menu_suffix) ++ us ++ l) (a_menu a) = Some t -> rs_menu (app_rsrc a) (Some l) title = Ok t)
  /\ (forall title t, alookup ((title ++ menu_suffix) ++ us ++ l) (a_menu a) = None -> alookup (title ++ menu_suffix) (a_menu a) = Some t ->
        rs_menu (app_rsrc a) (Some l) title = Ok t)
  /\ (forall title, alookup ((title ++ menu_suffix) ++ us ++ l) (a_menu a) = None -> alookup (title ++ menu_suffix) (a_menu a) = None ->
        rs_menu (app_rsrc a) (Some l) title = Ok title).
Proof.
  unfold app_rsrc. cbn [rs_tpl rs_menu]. unfold lookup_lang.
  repeat split; intros; repeat match goal with H : alookup _ _ = _ |- _ => rewrite H; clear H end; reflexivity.
Qed.

(* ---- an unknown code ----------------------------------------------------------------------- *)
Lemma invalid_code_keeps_language_lemma (lk : bytes -> option bytes) st code :
  code <> [] -> lk code = None -> st_set_language lk st code = st.
Proof.
  intros Hne Hl. unfold st_set_language. rewrite Hl. destruct code; [congruence|reflexivity].
Qed.

Lemma valid_code_sets_language_lemma (lk : bytes -> option bytes) st code c3 :
  lk code = Some c3 -> s_lang (st_set_language lk st code) = Some c3.
Proof. intros Hl. unfold st_set_language. rewrite Hl. destruct code; reflexivity. Qed.

(* the empty code: the language is RESET, for every lookup function that does not resolve "" *)
Lemma empty_code_resets_language_lemma (lk : bytes -> option bytes) st :
  lk [] = None -> s_lang (st_set_language lk st []) = None.
Proof. intros Hl. unfold st_set_language. rewrite Hl. reflexivity. Qed.

Lemma lang_lookup_empty : lang_lookup [] = None.
Proof. vm_compute. reflexivity. Qed.

(* at instruction level: a function result with LANG and an unknown non-empty code *)
Lemma refresh_invalid_code_lemma rs lang key v v' content :
  refresh rs lang key v = (v', content, SOk) ->
  content <> [] -> lang_lookup content = None -> s_lang (v_st v') = s_lang (v_st v).
Proof.
  intros H Hne Hl. rewrite (refresh_switch _ _ _ _ _ _ H). destruct (getf (v_st v') FLAG_LANG); [|reflexivity].
  unfold new_lang. rewrite Hl. destruct content; [congruence|reflexivity].
Qed.

Lemma refresh_valid_code_lemma rs lang key v v' content c3 :
  refresh rs lang key v = (v', content, SOk) ->
  getf (v_st v') FLAG_LANG = true -> lang_lookup content = Some c3 -> s_lang (v_st v') = Some c3.
Proof.
  intros H Hf Hl. rewrite (refresh_switch _ _ _ _ _ _ H), Hf. unfold new_lang. rewrite Hl. reflexivity.
Qed.

(* ---- the configured language --------------------------------------------------------------- *)
Lemma getf_setf_same s i : (N.to_nat i < List.length (s_flags s))%nat -> getf (setf s i) i = true.
Proof. intros H. unfold getf, setf. cbn [s_flags set_flags]. apply nth_set_nth_bit_same. exact H. Qed.

Lemma falses_length n : List.length (falses n) = n.
Proof. induction n; cbn [falses List.length]; auto. Qed.

Lemma config_language_lemma c l3 :
  1 <= to_byte_size (w32 (c_flagcount c + 8)) ->
  lang_lookup (c_lang c) = Some l3 ->
  s_lang (fresh_state c) = Some l3 /\ getf (fresh_state c) FLAG_LANG = true
  /\ forall w lg, s_lang (v_st (e_v (new_engine c None w lg))) = Some l3.
Proof.
  intros Hb Hl. unfold fresh_state.
  assert (E : s_lang (st_set_language lang_lookup (new_state (c_flagcount c)) (c_lang c)) = Some l3)
    by (apply valid_code_sets_language_lemma; exact Hl).
  rewrite E. split; [exact E|]. split.
  - apply getf_setf_same. rewrite st_set_language_flags. unfold new_state. cbn [s_flags].
    rewrite falses_length. unfold FLAG_LANG. lia.
  - intros w lg. unfold new_engine, fresh_state. rewrite E. cbn [e_v v_st]. exact E.
Qed.

Lemma byte_size_small n : n <= 2032 -> 1 <= to_byte_size (w32 (n + 8)).
Proof.
  intros H. unfold to_byte_size, w32, w8. rewrite (N.mod_small (n + 8)) by lia.
  destruct (n + 8 =? 0) eqn:E0; [lia|].
  set (m := n + 8) in *. assert (Hm : 8 <= m <= 2040) by lia.
  pose proof (N.mod_lt m 8 ltac:(lia)) as Hr. pose proof (N.div_mod m 8 ltac:(lia)) as Hd.
  destruct (m mod 8 =? 0) eqn:E8.
  - rewrite N.add_0_r, (N.mod_small m) by lia.
    assert (1 <= m / 8 <= 255) by (split; [apply N.div_le_lower_bound; lia|apply N.lt_succ_r; apply N.div_lt_upper_bound; lia]).
    rewrite N.mod_small by lia. lia.
  - rewrite (N.mod_small (m + _)) by lia.
    assert (1 <= (m + (8 - m mod 8)) / 8 <= 255) by (split; [apply N.div_le_lower_bound; lia|apply N.lt_succ_r; apply N.div_lt_upper_bound; lia]).
    rewrite N.mod_small by lia. lia.
Qed.

(* ================================================================================== *)
(* Part 8 — C05 at instruction level: what one instruction can do to a live symbol    *)
(* ================================================================================== *)

Lemma move_cache_cases t st ca st' ca' sym r k n val :
  nav_inv st ca -> lives ca k = Some (n, val) -> apply_target t st ca = (st', ca', sym, r) ->
  lives ca' k = Some (n, val) \/ (lives ca' k = None /\ len (s_path st') < n).
Proof.
  intros Hi Hl Ha. destruct (N.le_gt_cases n (len (s_path st'))) as [Hle|Hgt].
  - left. eapply kept_by_step; eassumption.
  - right. split; [|lia]. eapply gone_after_ascent_step; eassumption.
Qed.

Lemma top_index_nav st ca : nav_inv st ca -> top_index ca = len (s_path st).
Proof. unfold nav_inv, top_index, cache_levels. lia. Qed.

(* a live symbol k (scope n, value val) after ONE instruction: untouched; or replaced in place,
   by RELOAD k only; or gone — only by a move that ends above scope n, or by CROAK *)
Lemma exec_instr_symbol_lemma rs sep lang i b v v' b' s k n val :
  nav_inv (v_st v) (v_ca v) -> lives (v_ca v) k = Some (n, val) ->
  exec_instr rs sep lang i b v = (v', b', s) ->
  lives (v_ca v') k = Some (n, val)
  \/ (i = IReload k /\ exists val', lives (v_ca v') k = Some (n, val'))
  \/ (lives (v_ca v') k = None
      /\ ((exists sig mode, i = ICroak sig mode) \/ len (s_path (v_st v')) < n)).
Proof.
  intros Hi Hl.
  destruct i as [|sym sig mode|sig mode|sym sz|sym|sym|sym| |dest sel| |title sel|title sel|title sel]; cbn [exec_instr]; intros H;
    try (injection H as <- _ _; left; exact Hl).
  - (* CATCH *)
    unfold run_catch in H. destruct (match_flag (v_st v) sig mode) as [[|]| |]; try (injection H as <- _ _; left; exact Hl).
    destruct (apply_target sym (v_st v) (v_ca v)) as [[[st' ca'] nsym] s1] eqn:Ha.
    assert (Hc : lives ca' k = Some (n, val) \/ (lives ca' k = None /\ len (s_path st') < n))
      by (eapply move_cache_cases; eassumption).
    assert (Hfin : forall vx, v_ca vx = ca' -> v_st vx = st' ->
              lives (v_ca vx) k = Some (n, val)
              \/ (ICatch sym sig mode = IReload k /\ exists val', lives (v_ca vx) k = Some (n, val'))
              \/ (lives (v_ca vx) k = None /\ ((exists sig0 mode0, ICatch sym sig mode = ICroak sig0 mode0) \/ len (s_path (v_st vx)) < n))).
    { intros vx -> ->. destruct Hc as [Hc|[Hc Hlt]]; [left; exact Hc|right; right; split; [exact Hc|right; exact Hlt]]. }
    destruct s1; try (injection H as <- _ _; apply Hfin; reflexivity).
    unfold fetch_code in H. destruct (rs_code rs nsym); destruct (rs_observed rs); injection H as <- _ _; apply Hfin; reflexivity.
  - (* CROAK *)
    unfold run_croak in H. destruct (match_flag (v_st v) sig mode) as [[|]| |]; try (injection H as <- _ _; left; exact Hl).
    injection H as <- _ _. cbn [v_ca vset_ca vset_pg].
    destruct (lives (cache_reset (v_ca v)) k) as [[n' val']|] eqn:Hr.
    + left. destruct (n =? 0) eqn:E0.
      * apply N.eqb_eq in E0. subst n. rewrite (lives_reset0 _ _ _ Hl) in Hr. congruence.
      * exfalso. unfold lives, cache_reset in *. destruct (c_frames (v_ca v)) as [|f0 fs] eqn:Hf; [rewrite Hf in Hr; discriminate|].
        cbn [c_frames kview map first_some] in *. destruct (alookup k f0); [injection Hl as <- _; discriminate|discriminate].
    + right; right. split; [reflexivity|left; eauto].
  - (* LOAD *)
    unfold run_load in H. destruct (cache_get (v_ca v) sym) eqn:Hg; try (injection H as <- _ _; left; exact Hl).
    destruct (refresh rs lang sym v) as [[v1 content] s1] eqn:Hr. destruct (refresh_frame _ _ _ _ _ _ _ Hr) as [Hca _].
    destruct s1; try (injection H as <- _ _; left; rewrite Hca; exact Hl).
    destruct (cache_add (v_ca v1) sym content (w16 sz)) as [ca'|e2|p2] eqn:Ha.
    + injection H as <- _ _. cbn [v_ca vset_ca]. left.
      destruct (cache_add_ok _ _ _ _ _ Ha) as [Hn [_ [_ [_ [_ [_ Hoth]]]]]]. rewrite Hca in *.
      destruct (bytes_eqb k sym) eqn:E; [apply beqb_true in E; subst; congruence|].
      apply beqb_false in E. destruct (Hoth k E) as [-> _]. exact Hl.
    + destruct e2; injection H as <- _ _; left; rewrite Hca; exact Hl.
    + injection H as <- _ _. left. rewrite Hca. exact Hl.
  - (* RELOAD *)
    unfold run_reload in H.
    destruct (refresh rs lang sym v) as [[v1 content] s1] eqn:Hr. destruct (refresh_frame _ _ _ _ _ _ _ Hr) as [Hca _].
    destruct s1; try (injection H as <- _ _; left; rewrite Hca; exact Hl).
    rewrite Hca in H. destruct (cache_update_raw (v_ca v) sym content) as [ca' oe] eqn:Hu.
    assert (Hc : lives ca' k = Some (n, val) \/ (IReload sym = IReload k /\ exists val', lives ca' k = Some (n, val'))).
    { destruct (bytes_eqb sym k) eqn:E.
      - apply beqb_true in E. subst sym. destruct oe as [er|].
        + left. unfold cache_update_raw in Hu.
          destruct ((0 <? _) && _); [injection Hu as <- _; exact Hl|].
          rewrite frame_of_lives, Hl in Hu. cbn [option_map fst] in Hu. cbv zeta in Hu. cbn [c_size c_use c_frames c_sizes c_last] in Hu.
          destruct ((check_capacity _ _ content =? 0) && (0 <? len content)); [|discriminate].
          injection Hu as <- _. unfold lives in *. cbn [c_frames].
          destruct (first_some_nth _ _ _ _ Hl) as [m [Hn [Hnth _]]].
          assert (Hm : N.to_nat n = m) by lia. rewrite Hm.
          assert (Hnth2 : nth_error (kview k (update_nth m (aset k []) (c_frames (v_ca v)))) m = Some (Some [])).
          { rewrite (kview_update_same k m [] _ val Hnth). clear - Hnth. revert Hnth. generalize (kview k (c_frames (v_ca v))).
            intros l. revert m. induction l as [|x l IH]; intros [|m] H; cbn [nth_error update_nth] in *; try discriminate; auto. }
          rewrite (kview_update_same k m _ _ [] Hnth2), (kview_update_same k m [] _ val Hnth).
          assert (Hrt : frame_get (c_frames (v_ca v)) n k = val).
          { rewrite frame_get_view, Hm, Hnth. reflexivity. }
          rewrite Hrt. eapply first_some_update; [|exact Hn]. eapply first_some_update; [exact Hl|exact Hn].
        + right. split; [reflexivity|]. destruct (cache_update_raw_ok _ _ _ _ Hu) as [n' [old [H1 [H2 _]]]].
          rewrite Hl in H1. injection H1 as <- <-. eauto.
      - left. apply beqb_false in E. pose proof (lives_update_other (v_ca v) sym content k E) as Ho.
        rewrite Hu in Ho. cbn [fst] in Ho. rewrite Ho. exact Hl. }
    cbn [v_ca v_pg vset_ca] in H.
    destruct (page_map ca' (v_pg v1) sym); injection H as <- _ _; cbn [v_ca vset_pg vset_ca];
      (destruct Hc as [Hc|[Hc1 Hc2]]; [left; exact Hc|right; left; split; assumption]).
  - (* MAP *)
    unfold run_map in H. destruct (page_map _ _ _); injection H as <- _ _; left; exact Hl.
  - (* MOVE *)
    unfold run_move in H.
    destruct (apply_target sym (v_st v) (v_ca v)) as [[[st' ca'] nsym] s1] eqn:Ha.
    assert (Hc : lives ca' k = Some (n, val) \/ (lives ca' k = None /\ len (s_path st') < n))
      by (eapply move_cache_cases; eassumption).
    assert (Hfin : forall vx, v_ca vx = ca' -> v_st vx = st' ->
              lives (v_ca vx) k = Some (n, val)
              \/ (IMove sym = IReload k /\ exists val', lives (v_ca vx) k = Some (n, val'))
              \/ (lives (v_ca vx) k = None /\ ((exists sig0 mode0, IMove sym = ICroak sig0 mode0) \/ len (s_path (v_st vx)) < n))).
    { intros vx -> ->. destruct Hc as [Hc|[Hc Hlt]]; [left; exact Hc|right; right; split; [exact Hc|right; exact Hlt]]. }
    destruct s1; try (injection H as <- _ _; apply Hfin; reflexivity).
    unfold fetch_code in H. destruct (rs_code rs nsym); destruct (rs_observed rs); injection H as <- _ _; apply Hfin; reflexivity.
  - (* INCMP *)
    unfold run_incmp in H.
    destruct (getf (v_st v) FLAG_INMATCH && getf (v_st v) FLAG_READIN); [injection H as <- _ _; left; exact Hl|].
    cbn [v_st vset_st] in H.
    destruct (s_input _) as [input|]; [|injection H as <- _ _; left; exact Hl].
    destruct ((negb _ && _) || _); [|injection H as <- _ _; left; exact Hl].
    destruct (apply_target dest _ _) as [[[st' ca'] nsym] s1] eqn:Ha. cbn [v_ca vset_st] in *.
    assert (Hi' : nav_inv (resetf (setf (if getf (v_st v) FLAG_INMATCH then v_st v else setf (v_st v) FLAG_READIN) FLAG_INMATCH) FLAG_READIN) (v_ca v)).
    { unfold nav_inv in *. cbn [s_path resetf setf set_flags]. destruct (getf (v_st v) FLAG_INMATCH); exact Hi. }
    assert (Hc : lives ca' k = Some (n, val) \/ (lives ca' k = None /\ len (s_path st') < n))
      by (eapply move_cache_cases; eassumption).
    assert (Hfin : forall vx, v_ca vx = ca' -> s_path (v_st vx) = s_path st' ->
              lives (v_ca vx) k = Some (n, val)
              \/ (IInCmp dest sel = IReload k /\ exists val', lives (v_ca vx) k = Some (n, val'))
              \/ (lives (v_ca vx) k = None /\ ((exists sig0 mode0, IInCmp dest sel = ICroak sig0 mode0) \/ len (s_path (v_st vx)) < n))).
    { intros vx -> ->. destruct Hc as [Hc|[Hc Hlt]]; [left; exact Hc|right; right; split; [exact Hc|right; exact Hlt]]. }
    destruct s1 as [|e m|p|].
    + unfold fetch_code in H. destruct (rs_code rs nsym); destruct (rs_observed rs); injection H as <- _ _; apply Hfin; reflexivity.
    + destruct e; injection H as <- _ _; apply Hfin; reflexivity.
    + injection H as <- _ _. apply Hfin; reflexivity.
    + injection H as <- _ _. apply Hfin; reflexivity.
Qed.

(* after the ascent the next LOAD calls the function again *)
Lemma reload_after_return_lemma ts st ca st2 ca2 log k n val rs lang sz b v v' b' s :
  nav_inv st ca -> lives ca k = Some (n, val) ->
  nav_run st ca ts = (st2, ca2, log) -> len (s_path st2) < n ->
  v_ca v = ca2 -> has_func rs k = true ->
  run_load rs lang k sz b v = (v', b', s) ->
  v_log v' = EvFunc k lang (s_input (v_st v)) :: v_log v
  /\ v_w v' = aset k (calls k v + 1) (v_w v).
Proof.
  intros Hi Hl Hr Hlen Hca Hf H.
  pose proof (gone_after_ascent_lemma _ _ _ _ _ _ _ _ _ Hi Hl Hr Hlen) as Hg. rewrite <- Hca in Hg.
  destruct (load_stores_lemma _ _ _ _ _ _ _ _ _ _ Hg Hf H) as [_ [H1 [H2 _]]]. auto.
Qed.

(* ================================================================================== *)
(* Part 9 — grouped statements for the property files                                 *)
(* ================================================================================== *)

Lemma map_until_next_move_lemma :
  (* MAP puts the value Get returns into the page map; nothing else of the map changes *)
  (forall c pg k pg', page_map c pg k = Ok pg' ->
     exists val, cache_get c k = Ok val /\ p_map pg' = aset k val (p_map pg))
  (* Page.Reset and Vm.Reset empty it *)
  /\ (forall pg, p_map (page_reset pg) = [])
  /\ (forall sep pg, p_map (vm_reset sep pg) = [])
  (* every successful MOVE empties it; a failed one leaves the page alone *)
  /\ (forall rs sep sym b v v' b' s, run_move rs sep sym b v = (v', b', s) ->
        (s = SOk -> p_map (v_pg v') = []) /\ (s <> SOk -> v_pg v' = v_pg v))
  (* INCMP: not fired, page untouched; fired (the move is logged), emptied *)
  /\ (forall rs sep dest sel b v v' b' s, run_incmp rs sep dest sel b v = (v', b', s) ->
        (v_pg v' = v_pg v /\ (v_log v' = v_log v \/ v_log v' = EvInCmp dest sel false :: v_log v))
        \/ (p_map (v_pg v') = []
            /\ exists pre nsym, v_log v' = pre ++ EvMove 1 dest nsym :: EvInCmp dest sel true :: v_log v))
  (* a matching CROAK empties it *)
  /\ (forall sep sig mode b v v' b' s, run_croak sep sig mode b v = (v', b', s) ->
        v_pg v' = v_pg v \/ p_map (v_pg v') = [])
  (* the first instruction after a HALT starts from an empty map *)
  /\ (forall v, getf (v_st v) FLAG_WAIT = true -> p_map (v_pg (run_prelude v)) = [])
  /\ (forall v, getf (v_st v) FLAG_WAIT = false -> v_pg (run_prelude v) = v_pg v)
  (* any instruction: emptied, kept, or extended by the one symbol MAP / RELOAD names *)
  /\ (forall rs sep lang i b v v' b' s, exec_instr rs sep lang i b v = (v', b', s) ->
        p_map (v_pg v') = [] \/ p_map (v_pg v') = p_map (v_pg v)
        \/ exists k val, (i = IMap k \/ i = IReload k) /\ cache_get (v_ca v') k = Ok val
                         /\ p_map (v_pg v') = aset k val (p_map (v_pg v))).
Proof.
  split. { intros c pg k pg' H. destruct (page_map_ok _ _ _ _ H) as [val [l [Hg [_ [Hm _]]]]]. eauto. }
  split; [reflexivity|]. split; [reflexivity|].
  split. { intros rs sep sym b v v' b' s H. destruct (run_move_page _ _ _ _ _ _ _ _ H) as [H1 H2]. split; [intro E; apply (H1 E)|exact H2]. }
  split. { intros rs sep dest sel b v v' b' s H. destruct (run_incmp_page _ _ _ _ _ _ _ _ _ H) as [H1|[E H1]]; [left; exact H1|right]. rewrite E. auto. }
  split. { intros sep sig mode b v v' b' s H. destruct (run_croak_page _ _ _ _ _ _ _ _ H) as [E|E]; [left; exact E|right; rewrite E; reflexivity]. }
  split; [intros v H; apply (prelude_resume_clears v H)|].
  split; [exact prelude_no_resume|]. exact exec_instr_map_lemma.
Qed.

Lemma reload_cache_lemma :
  (* accepted *)
  (forall c k v c', cache_update_raw c k v = (c', None) ->
     exists n old, lives c k = Some (n, old) /\ lives c' k = Some (n, v)
       /\ cache_levels c' = cache_levels c /\ c_sizes c' = c_sizes c
       /\ (forall l, cache_reserved c k = Ok l -> 0 < l -> len v <= l)
       /\ (forall k2, k2 <> k -> lives c' k2 = lives c k2))
  (* the empty string is accepted for every live symbol *)
  /\ (forall c k n old, lives c k = Some (n, old) -> exists c', cache_update_raw c k [] = (c', None))
  (* over the limit: refused for every length, cache unchanged *)
  /\ (forall c k v l, cache_reserved c k = Ok l -> 0 < l -> l < len v -> cache_update_raw c k v = (c, Some EGen))
  (* any refusal (also over capacity, after the blank-and-restore): cache unchanged *)
  /\ (forall c k v c' e, CInv c -> len v + c_size c < 4294967296 -> cache_update_raw c k v = (c', Some e) -> c' = c).
Proof.
  split.
  { intros c k v c' H. destruct (cache_update_raw_ok _ _ _ _ H) as [n [old [H1 [H2 [H3 [H4 [_ [H6 H7]]]]]]]]. exists n, old. auto 10. }
  split; [exact cache_update_raw_empty|]. split; [exact cache_update_raw_over_limit|exact cache_update_raw_failed].
Qed.

(* ---- iterating the step function: computable witnesses for `reaches` ----------------------- *)
Fixpoint iter_step (n : nat) (rs : rsrc) (sep : bytes) (c : conf) : option conf :=
  match n with
  | O => Some c
  | S n' =>
    let '(lang, b, v) := c in
    match run_step rs sep lang b v with
    | Next l1 b1 v1 => iter_step n' rs sep (l1, b1, v1)
    | Done _ => None
    end
  end.

Lemma iter_step_reaches n : forall rs sep c c', iter_step n rs sep c = Some c' -> reaches rs sep c c'.
Proof.
  induction n as [|n IH]; intros rs sep c c' H; cbn [iter_step] in H.
  - injection H as <-. apply reach_refl.
  - destruct c as [[lang b] v]. destruct (run_step rs sep lang b v) as [r|l1 b1 v1] eqn:Hs; [discriminate|].
    eapply reach_step; [exact Hs|apply IH; exact H].
Qed.

(* ---- example applications ------------------------------------------------------------------ *)
Definition ex_fr (c : string) (set : list N) : fres := mkFres (s2b c) false 0 set [] false.
Definition ex_cfg : config := mkCfg 0 [] 2 0 [] [] false None.
Definition ex_catch_node : bytes * bytes := (s2b "_catch", encode_prog [IHalt; IInCmp (s2b "_") (s2b "*")]).
Definition ex_fuel : nat := 200.

(* long-lived engine over an input history: final engine, outputs *)
Fixpoint ex_long (rs : rsrc) (c : config) (e : engine) (ins : list bytes) : engine * list bytes :=
  match ins with
  | [] => (e, [])
  | i :: r => let '(e', resp) := request_long ex_fuel rs c e i in
              let '(e2, outs) := ex_long rs c e' r in (e2, r_out resp :: outs)
  end.
(* one engine per request over a store *)
Fixpoint ex_pers (rs : rsrc) (c : config) (p : pworld) (ins : list bytes) : pworld * list bytes :=
  match ins with
  | [] => (p, [])
  | i :: r => let '(p', resp) := request_persisted ex_fuel rs c p i in
              let '(p2, outs) := ex_pers rs c p' r in (p2, r_out resp :: outs)
  end.
Definition ex_calls (l : list ev) : list ev :=
  rev (filter (fun e => match e with EvFunc _ _ _ | EvRender _ _ _ => true | _ => false end) l).
Definition ex_e0 (c : config) : engine := new_engine c None [] [].
Definition ex_p0 : pworld := mkPw None [] [] false.

(* C05: root -> foo (LOAD aa twice, MAP) -> bar (LOAD aa, MAP); functions answers one, two, three *)
Definition ex_app_scope : app := mkApp
  [ (s2b "root", encode_prog [IHalt; IInCmp (s2b "foo") (s2b "1")]);
    (s2b "foo", encode_prog [ILoad (s2b "aa") 5; ILoad (s2b "aa") 5; IMap (s2b "aa"); IHalt;
                             IInCmp (s2b "_") (s2b "0"); IInCmp (s2b "bar") (s2b "2")]);
    (s2b "bar", encode_prog [ILoad (s2b "aa") 5; IMap (s2b "aa"); IHalt; IInCmp (s2b "_") (s2b "0")]);
    ex_catch_node ]
  [ (s2b "root", s2b "root"); (s2b "foo", s2b "foo {{.aa}}"); (s2b "bar", s2b "bar {{.aa}}"); (s2b "_catch", s2b "catch") ]
  []
  [ (s2b "aa", [ex_fr "one" []; ex_fr "two" []; ex_fr "three" []]) ].

(* C05: RELOAD with a second answer `second` under limit 5 *)
Definition ex_app_reload (second : bytes) : app := mkApp
  [ (s2b "root", encode_prog [ILoad (s2b "aa") 5; IReload (s2b "aa"); IHalt; IInCmp (s2b "_") (s2b "0")]); ex_catch_node ]
  [ (s2b "root", s2b "root [{{.aa}}]"); (s2b "_catch", s2b "catch") ]
  []
  [ (s2b "aa", [ex_fr "one" []; mkFres second false 0 [] [] false]) ].

(* C05: the node foo maps aa and leaves upwards, by `leave`; root (entered through CATCH foo 9 0,
   flag 9 being set by aa) shows {{.aa}} without mapping it *)
Definition ex_app_leave (leave : instr) : app := mkApp
  [ (s2b "root", encode_prog [ICatch (s2b "foo") 9 false; IHalt; IInCmp (s2b "foo") (s2b "1")]);
    (s2b "foo", encode_prog [ILoad (s2b "aa") 5; IMap (s2b "aa"); leave]);
    ex_catch_node ]
  [ (s2b "root", s2b "root {{.aa}}"); (s2b "foo", s2b "foo {{.aa}}"); (s2b "_catch", s2b "catch") ]
  []
  [ (s2b "aa", [ex_fr "one" [9]]) ].

(* C18: corpus case lang-empty (go/cmd/vh/engine.go) with one more function *)
Definition ex_app_lang : app := mkApp
  [ (s2b "root", encode_prog [ILoad (s2b "lang1") 0; IHalt; IInCmp (s2b "foo") (s2b "1")]);
    (s2b "foo", encode_prog [IReload (s2b "lang1"); ILoad (s2b "other") 0; IHalt; IInCmp (s2b "_") (s2b "0")]);
    ex_catch_node ]
  [ (s2b "root", s2b "root"); (s2b "foo", s2b "foo"); (s2b "_catch", s2b "catch");
    (s2b "root_nor", s2b "rot"); (s2b "foo_nor", s2b "fu") ]
  [ (s2b "back_menu", s2b "back"); (s2b "back_menu_nor", s2b "tilbake") ]
  [ (s2b "lang1", [ex_fr "nor" [7]; ex_fr "" [7]; ex_fr "xx" [7]]); (s2b "other", [ex_fr "o" []]) ].
Definition ex_cfg1 : config := mkCfg 0 [] 1 0 [] [] false None.

(* C18: switch, then a second function and a menu label in the same node; translations for a
   subset only; `swa` entries that must not matter *)
Definition ex_app_switch (swa_tpl swa_menu : bytes) : app := mkApp
  [ (s2b "root", encode_prog [ILoad (s2b "lang1") 0; ILoad (s2b "other") 0; IMOut (s2b "go") (s2b "1");
                              IMOut (s2b "stay") (s2b "2"); IHalt; IInCmp (s2b "foo") (s2b "1")]);
    (s2b "foo", encode_prog [ILoad (s2b "third") 0; IHalt; IInCmp (s2b "_") (s2b "0")]);
    ex_catch_node ]
  [ (s2b "root", s2b "root"); (s2b "foo", s2b "foo"); (s2b "_catch", s2b "catch");
    (s2b "root_nor", s2b "rot"); (s2b "root_swa", swa_tpl) ]
  [ (s2b "go_menu", s2b "go on"); (s2b "go_menu_nor", s2b "videre"); (s2b "go_menu_swa", swa_menu) ]
  [ (s2b "lang1", [ex_fr "no" [7]]); (s2b "other", [ex_fr "o" []]); (s2b "third", [ex_fr "t" []]) ].

Lemma gone_after_pops_get m c k n v :
  c_frames c <> [] -> lives c k = Some (n, v) -> cache_levels c <= n + N.of_nat m ->
  cache_get (pops m c) k = Err EGen.
Proof. intros. apply lives_none_iff. eapply gone_after_pops; eassumption. Qed.

(* ---- C18 witnesses -------------------------------------------------------------------------- *)
(* the machine after the first request of ex_app_lang (language nor selected, root shown), about
   to execute foo's code: RELOAD lang1 answers "" with LANG *)
Definition ex_lang_conf : conf :=
  let '(e, _) := request_long ex_fuel (app_rsrc ex_app_lang) ex_cfg1 (ex_e0 ex_cfg1) [] in
  (s_lang (v_st (e_v e)),
   encode_prog [IReload (s2b "lang1"); ILoad (s2b "other") 0; IHalt],
   vset_st (e_v e) (set_input_raw (v_st (e_v e)) (Some (s2b "1")))).

(* K-C18-emptylang inside one run: the session is in nor, the run starts in nor; after the empty
   result the session has NO language, and the next instruction still runs in nor *)
Lemma emptylang_run_witness :
  exists rs sep lang b v l' b' v',
    lang = Some (s2b "nor") /\ s_lang (v_st v) = lang /\ lang_inv lang (v_st v)
    /\ reaches rs sep (lang, b, v) (l', b', v')
    /\ s_lang (v_st v') = None /\ eff_lang l' (v_st v') = Some (s2b "nor").
Proof.
  destruct ex_lang_conf as [[lang b] v] eqn:E.
  exists (app_rsrc ex_app_lang), [], lang, b, v.
  destruct (iter_step 1 (app_rsrc ex_app_lang) [] (lang, b, v)) as [[[l' b'] v']|] eqn:Hi.
  - exists l', b', v'. rewrite <- E in Hi. 
    assert (H1 : lang = Some (s2b "nor") /\ s_lang (v_st v) = lang).
    { assert (Hx : (fst (fst ex_lang_conf), s_lang (v_st (snd ex_lang_conf))) = (Some (s2b "nor"), Some (s2b "nor"))) by (vm_compute; reflexivity).
      rewrite E in Hx. cbn [fst snd] in Hx. injection Hx as -> ->. auto. }
    destruct H1 as [H1 H2]. split; [exact H1|]. split; [exact H2|]. split; [right; left; symmetry; exact H2|].
    split; [rewrite <- E; apply (iter_step_reaches 1); exact Hi|].
    assert (Hy : option_map (fun c => (s_lang (v_st (snd c)), eff_lang (fst (fst c)) (v_st (snd c)))) (iter_step 1 (app_rsrc ex_app_lang) [] ex_lang_conf)
                 = Some (None, Some (s2b "nor"))) by (vm_compute; reflexivity).
    rewrite Hi in Hy. cbn [option_map fst snd] in Hy. injection Hy as -> ->. auto.
  - exfalso. rewrite <- E in Hi.
    assert (Hy : iter_step 1 (app_rsrc ex_app_lang) [] ex_lang_conf <> None) by (vm_compute; discriminate).
    congruence.
Qed.

Lemma config_language_lemma2 c l3 :
  c_flagcount c <= 2032 -> lang_lookup (c_lang c) = Some l3 ->
  s_lang (fresh_state c) = Some l3 /\ getf (fresh_state c) FLAG_LANG = true
  /\ forall w lg, s_lang (v_st (e_v (new_engine c None w lg))) = Some l3.
Proof. intros H. apply config_language_lemma. apply byte_size_small. exact H. Qed.

Lemma language_survives_lemma :
  (forall st ca, s_lang (fst (snap_of st ca)) = s_lang st)
  /\ (forall e sn, eng_finish e = Some sn -> s_lang (fst sn) = s_lang (v_st (e_v e)))
  /\ (forall c st ca w lg, s_lang (v_st (e_v (new_engine c (Some (st, ca)) w lg))) = s_lang st).
Proof. split; [exact snap_of_lang|]. split; [exact eng_finish_lang|exact new_engine_resumes_lang]. Qed.

Lemma lookup_lang_lemma :
  (forall tbl key l v, alookup (key ++ us ++ l) tbl = Some v -> lookup_lang tbl key (Some l) = Some v)
  /\ (forall tbl key l, alookup (key ++ us ++ l) tbl = None -> lookup_lang tbl key (Some l) = alookup key tbl)
  /\ (forall tbl key, lookup_lang tbl key None = alookup key tbl).
Proof. split; [exact lookup_lang_translated|]. split; [exact lookup_lang_default|exact lookup_lang_none]. Qed.

Lemma flush_noninterference_app fuel a a' c e :
  app_agree_on (s_lang (v_st (e_v e))) a a' ->
  eng_flush fuel (app_rsrc a) c e = eng_flush fuel (app_rsrc a') c e.
Proof. intros H. apply eng_flush_noninterference. apply app_agree_rs. exact H. Qed.

(* C18: no switching function; the language comes from the configuration *)
Definition ex_cfg_lang (code : string) : config := mkCfg 0 [] 1 0 (s2b code) [] false None.
Definition ex_app_plain : app := mkApp
  [ (s2b "root", encode_prog [ILoad (s2b "other") 0; IMOut (s2b "go") (s2b "1"); IHalt; IInCmp (s2b "foo") (s2b "1")]);
    (s2b "foo", encode_prog [IHalt; IInCmp (s2b "_") (s2b "0")]); ex_catch_node ]
  [ (s2b "root", s2b "root"); (s2b "foo", s2b "foo"); (s2b "_catch", s2b "catch"); (s2b "root_nor", s2b "rot") ]
  [ (s2b "go_menu", s2b "go on"); (s2b "go_menu_nor", s2b "videre") ]
  [ (s2b "other", [ex_fr "o" []]) ].

(* ================================================================================== *)
(* Part 10 — C05 along a run: a live symbol stays visible while the run stays at or   *)
(*           below its level                                                          *)
(* ================================================================================== *)

Definition step_machine (o : step_out) : vmst :=
  match o with Done (v, _, _) => v | Next _ _ v => v end.

(* every exit of one iteration hands out one of five machines *)
Lemma run_step_exits rs sep lang b v (Q : vmst -> Prop) :
  Q v -> Q (run_prelude v) ->
  (forall op b1 v1 b2 s, step_exec rs sep (eff_lang lang (v_st v)) op b1 (run_prelude v) = (v1, b2, s) -> Q v1) ->
  (forall v1 b2 s v2 b3 s2, Q v1 -> err_check v1 b2 s = (v2, b3, s2) -> Q v2) ->
  (forall v2 v3 b4 s3, Q v2 -> dead_check v2 = (v3, b4, s3) -> Q v3) ->
  Q (step_machine (run_step rs sep lang b v)).
Proof.
  intros Q0 Qp Qx Qe Qd. unfold run_step. destruct (getf (v_st v) FLAG_TERMINATE); [exact Q0|]. cbv zeta.
  destruct (op_split b) as [[op b1]|e|n]; [|exact Qp|exact Qp].
  assert (Hmain :
    let '(v1, b2, s) := step_exec rs sep (eff_lang lang (v_st v)) op b1 (run_prelude v) in
    Q (step_machine (if op =? op_HALT then Done (v1, b2, s) else
      let '(v2, b3, s2) := err_check v1 b2 s in
      match s2 with
      | SOk => match b3 with
               | [] => let '(v3, b4, s3) := dead_check v2 in
                       match s3 with
                       | SOk => match b4 with [] => Done (v3, [], SOk) | _ => Next (eff_lang lang (v_st v)) b4 v3 end
                       | _ => Done (v3, b4, s3)
                       end
               | _ => Next (eff_lang lang (v_st v)) b3 v2
               end
      | _ => Done (v2, b3, s2)
      end))).
  { destruct (step_exec rs sep _ op b1 (run_prelude v)) as [[v1 b2] s] eqn:Hx.
    pose proof (Qx _ _ _ _ _ Hx) as Q1.
    destruct (op =? op_HALT); [exact Q1|].
    destruct (err_check v1 b2 s) as [[v2 b3] s2] eqn:He. pose proof (Qe _ _ _ _ _ _ Q1 He) as Q2.
    destruct s2; try exact Q2. destruct b3 as [|x b3]; [|exact Q2].
    destruct (dead_check v2) as [[v3 b4] s3] eqn:Hd. pose proof (Qd _ _ _ _ Q2 Hd) as Q3.
    destruct s3; try exact Q3. destruct b4; exact Q3. }
  destruct (parse_args op b1) as [[i b2]|e|n]; [| |exact Qp];
    (destruct (step_exec rs sep (eff_lang lang (v_st v)) op b1 (run_prelude v)) as [[v1 b2'] s]; exact Hmain).
Qed.

Lemma prelude_path v : s_path (v_st (run_prelude v)) = s_path (v_st v).
Proof. unfold run_prelude. cbn [v_st vset_st vset_pg]. destruct (getf (resetf (v_st v) FLAG_LANG) FLAG_WAIT); reflexivity. Qed.

Lemma dead_check_path v2 v3 b4 s3 : dead_check v2 = (v3, b4, s3) -> s_path (v_st v3) = s_path (v_st v2).
Proof.
  unfold dead_check. intros H. destruct (negb (getf (v_st v2) FLAG_READIN)); [injection H as <- _ _; reflexivity|].
  destruct (getf (v_st v2) FLAG_TERMINATE); [injection H as <- _ _; reflexivity|].
  destruct (where_sym (v_st v2)); [injection H as <- _ _; reflexivity|].
  destruct (bytes_eqb _ catch_sym); injection H as <- _ _; reflexivity.
Qed.

Lemma run_croak_frame sep sig mode b v v' b' s :
  run_croak sep sig mode b v = (v', b', s) ->
  v_st v' = v_st v /\ (v_ca v' = v_ca v \/ v_ca v' = cache_reset (v_ca v)).
Proof.
  unfold run_croak. intros H. destruct (match_flag (v_st v) sig mode) as [[|]| |]; injection H as <- _ _; cbn; auto.
Qed.

Lemma cache_reset_levels c : c_frames c <> [] -> cache_levels (cache_reset c) = 1.
Proof. unfold cache_reset, cache_levels. destruct (c_frames c); [congruence|reflexivity]. Qed.

(* the symbol after one iteration: still in scope n (value possibly RELOADed), or gone — and then
   the stack is shorter than n, or the lock-step of stack and cache is broken (CROAK, K-C08-croak) *)
Definition sym_after (k : bytes) (n : N) (vo : vmst) : Prop :=
  (exists val', lives (v_ca vo) k = Some (n, val'))
  \/ (lives (v_ca vo) k = None /\ (len (s_path (v_st vo)) < n \/ ~ nav_inv (v_st vo) (v_ca vo))).

Lemma step_symbol_lemma rs sep lang b v k n val :
  nav_inv (v_st v) (v_ca v) -> lives (v_ca v) k = Some (n, val) ->
  sym_after k n (step_machine (run_step rs sep lang b v)).
Proof.
  intros Hi Hl. apply run_step_exits.
  - left. eauto.
  - left. rewrite prelude_ca. eauto.
  - intros op b1 v1 b2 s Hx. unfold step_exec in Hx.
    destruct (parse_args op b1) as [[i b2']|e|p]; try (injection Hx as <- _ _; left; rewrite prelude_ca; eauto).
    assert (Hi' : nav_inv (v_st (vlog (run_prelude v) (EvInstr op))) (v_ca (vlog (run_prelude v) (EvInstr op)))).
    { unfold nav_inv in *. cbn [v_st v_ca vlog]. rewrite prelude_path, prelude_ca. exact Hi. }
    assert (Hl' : lives (v_ca (vlog (run_prelude v) (EvInstr op))) k = Some (n, val)) by exact Hl.
    destruct (exec_instr_symbol_lemma _ _ _ _ _ _ _ _ _ _ _ _ Hi' Hl' Hx) as [H|[[_ H]|[H [[sig [mode ->]]|Hlt]]]].
    + left. eauto.
    + left. exact H.
    + right. split; [exact H|]. right. cbn [exec_instr] in Hx.
      destruct (run_croak_frame _ _ _ _ _ _ _ _ Hx) as [Est [Eca|Eca]].
      * rewrite Eca in H. cbn [v_ca vlog] in H. rewrite prelude_ca in H. congruence.
      * intros Hn. unfold nav_inv in Hn, Hi. rewrite Est, Eca in Hn. cbn [v_st v_ca vlog] in Hn.
        rewrite prelude_path, prelude_ca in Hn. rewrite cache_reset_levels in Hn by (apply (nav_inv_ne _ _ Hi)).
        pose proof (lives_lt _ _ _ _ Hl) as Hlt. assert (n = 0) by lia. subst n.
        rewrite Eca in H. cbn [v_ca vlog] in H. rewrite prelude_ca in H. rewrite (lives_reset0 _ _ _ Hl) in H. discriminate.
    + right. split; [exact H|left; exact Hlt].
  - intros v1 b2 s v2 b3 s2 Q1 He. destruct (err_check_ok _ _ _ _ _ _ He) as [_ [Est [Eca _]]].
    unfold sym_after in *. rewrite Est, Eca. exact Q1.
  - intros v2 v3 b4 s3 Q2 Hd. destruct (dead_check_ok _ _ _ _ Hd) as [_ [_ [_ [Eca _]]]].
    pose proof (dead_check_path _ _ _ _ Hd) as Ep. unfold sym_after, nav_inv in *. rewrite Eca, Ep. exact Q2.
Qed.

(* a run that stays at or below level n and keeps stack and cache in lock-step *)
Inductive reaches_within (rs : rsrc) (sep : bytes) (n : N) : conf -> conf -> Prop :=
| within_refl : forall c, reaches_within rs sep n c c
| within_step : forall lang b v l1 b1 v1 c,
    run_step rs sep lang b v = Next l1 b1 v1 ->
    n <= len (s_path (v_st v1)) -> nav_inv (v_st v1) (v_ca v1) ->
    reaches_within rs sep n (l1, b1, v1) c -> reaches_within rs sep n (lang, b, v) c.

Lemma reaches_within_reaches rs sep n c c' : reaches_within rs sep n c c' -> reaches rs sep c c'.
Proof. induction 1; [apply reach_refl|eapply reach_step; eassumption]. Qed.

(* ... keeps the symbol visible in its scope all along, so a LOAD of it anywhere on the way
   calls nothing *)
Lemma run_symbol_visible_lemma rs sep n k c c' :
  reaches_within rs sep n c c' ->
  forall val, nav_inv (v_st (snd c)) (v_ca (snd c)) -> lives (v_ca (snd c)) k = Some (n, val) ->
  exists val', lives (v_ca (snd c')) k = Some (n, val').
Proof.
  induction 1 as [c|lang b v l1 b1 v1 c Hs Hlen Hi1 Hr IH]; intros val Hi Hl; [eauto|].
  cbn [snd] in *. pose proof (step_symbol_lemma rs sep lang b v k n val Hi Hl) as H. rewrite Hs in H. cbn [step_machine] in H.
  destruct H as [[val' H]|[_ [H|H]]]; [eapply IH; eassumption|lia|contradiction].
Qed.

Lemma run_load_once_lemma rs sep n k c l' b' v' val rs2 lang2 sz b2 :
  reaches_within rs sep n c (l', b', v') ->
  nav_inv (v_st (snd c)) (v_ca (snd c)) -> lives (v_ca (snd c)) k = Some (n, val) ->
  run_load rs2 lang2 k sz b2 v' = (v', b2, SOk).
Proof.
  intros Hr Hi Hl. destruct (run_symbol_visible_lemma _ _ _ k _ _ Hr val Hi Hl) as [val' H]. cbn [snd] in H.
  apply (run_load_visible rs2 lang2 k sz b2 v' val'). rewrite cache_get_lives, H. reflexivity.
Qed.

(* computable witnesses for reaches_within *)
Definition nav_inv_b (st : state) (ca : cache) : bool := cache_levels ca =? len (s_path st) + 1.
Lemma nav_inv_b_sound st ca : nav_inv_b st ca = true -> nav_inv st ca.
Proof. unfold nav_inv_b, nav_inv. intros H. apply N.eqb_eq in H. exact H. Qed.

Fixpoint iter_within (m : nat) (n : N) (rs : rsrc) (sep : bytes) (c : conf) : option conf :=
  match m with
  | O => Some c
  | S m' =>
    let '(lang, b, v) := c in
    match run_step rs sep lang b v with
    | Next l1 b1 v1 =>
      if (n <=? len (s_path (v_st v1))) && nav_inv_b (v_st v1) (v_ca v1) then iter_within m' n rs sep (l1, b1, v1) else None
    | Done _ => None
    end
  end.

Lemma iter_within_sound m : forall n rs sep c c', iter_within m n rs sep c = Some c' -> reaches_within rs sep n c c'.
Proof.
  induction m as [|m IH]; intros n rs sep c c' H; cbn [iter_within] in H.
  - injection H as <-. apply within_refl.
  - destruct c as [[lang b] v]. destruct (run_step rs sep lang b v) as [r|l1 b1 v1] eqn:Hs; [discriminate|].
    destruct ((n <=? len (s_path (v_st v1))) && nav_inv_b (v_st v1) (v_ca v1)) eqn:Hc; [|discriminate].
    apply andb_prop in Hc as [H1 H2]. apply N.leb_le in H1. apply nav_inv_b_sound in H2.
    eapply within_step; [exact Hs|exact H1|exact H2|apply IH; exact H].
Qed.

(* the configuration Exec hands to the run loop for `input` on engine e (None when Exec stops before) *)
Definition ex_exec_conf (rs : rsrc) (c : config) (e : engine) (input : bytes) : option conf :=
  let '(e1, cont, s) := eng_init ex_fuel rs c e input in
  match s, cont, set_input (v_st (e_v e1)) (Some input) with
  | SOk, true, Ok st' => Some (exec_start c (eset_v e1 (vset_st (e_v e1) st')))
  | _, _, _ => None
  end.

(* ---- the entry function of WithFirst runs through the same loop ------------------------------- *)
Definition first_start (lang : option bytes) (e : engine) : option conf :=
  match st_down (v_st (e_v e)) first_sym with
  | Ok st1 =>
    Some (lang, first_code,
          mkVm st1 (cache_push (v_ca (e_v e))) (page_with_menu (page_reset new_page) (vm_new_menu []))
               (v_w (e_v e)) (v_log (e_v e)) (v_taint (e_v e)))
  | _ => None
  end.

Lemma st_down_keeps st sym st1 : st_down st sym = Ok st1 -> s_lang st1 = s_lang st /\ s_flags st1 = s_flags st.
Proof.
  unfold st_down. destruct (MaxLevel <? len (s_path st)); [discriminate|].
  destruct (s_path st); [intros H; injection H as <-; auto|].
  destruct (bytes_eqb _ sym); [discriminate|]. intros H; injection H as <-; auto.
Qed.

Lemma run_first_calls fuel c lang e script :
  c_first c = Some script -> lang_inv lang (v_st (e_v e)) ->
  exists new, v_log (e_v (fst (fst (run_first fuel c lang e)))) = new ++ v_log (e_v e)
    /\ Forall (fun ev => match ev with
                         | EvFunc _ l _ => exists c0 l2 b2 v2, first_start lang e = Some c0
                                             /\ reaches (first_rsrc script) [] c0 (l2, b2, v2)
                                             /\ l = eff_lang l2 (v_st v2)
                                             /\ (l = s_lang (v_st v2) \/ s_lang (v_st v2) = None)
                         | EvRender _ _ _ => False
                         | _ => True end) new.
Proof.
  intros Hc Hi. unfold run_first, first_start. rewrite Hc.
  destruct (st_down (v_st (e_v e)) first_sym) as [st1|er|n] eqn:Hd;
    [|exists []; split; [reflexivity|constructor]|exists []; split; [reflexivity|constructor]].
  destruct (st_down_keeps _ _ _ Hd) as [El Ef].
  set (v1 := mkVm st1 (cache_push (v_ca (e_v e))) (page_with_menu (page_reset new_page) (vm_new_menu []))
                  (v_w (e_v e)) (v_log (e_v e)) (v_taint (e_v e))).
  assert (Hi1 : lang_inv lang (v_st v1)).
  { unfold lang_inv, lang_follows, getf in *. cbn [v_st v1]. rewrite El, Ef. exact Hi. }
  destruct (run_funcs_lang_lemma (first_rsrc script) [] fuel lang first_code v1 Hi1) as [new [E F]].
  destruct (run fuel (first_rsrc script) [] lang first_code v1) as [[v2 b] s]. cbn [fst] in E.
  exists new. split.
  - destruct s; [destruct b; [destruct (getf (v_st v2) FLAG_TERMINATE)|]| | |];
      try (destruct (cache_last (v_ca v2)) as [ex ca2]); cbn [fst e_v v_log]; exact E.
  - eapply Forall_impl; [|exact F]. intros ev Hev. destruct ev; auto.
    destruct Hev as [l2 [b2 [v2' [Hr [H1 H2]]]]]. exists (lang, first_code, v1), l2, b2, v2'. auto.
Qed.

Definition ex_cfg_first : config := mkCfg 0 [] 1 0 (s2b "no") [] false (Some [ex_fr "hello" []]).
