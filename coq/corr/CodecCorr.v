(* CodecCorr.v — correspondence cases and monitors for the codec (C14, C15). *)
From Vise Require Import Bytes Errors Consts Codec CorrBase.
Local Open Scope N_scope.

Definition instr_eqb (a b : instr) : bool :=
  match a, b with
  | INoop, INoop | IHalt, IHalt | IMSink, IMSink => true
  | ICatch s n m, ICatch s' n' m' => bytes_eqb s s' && (n =? n') && Bool.eqb m m'
  | ICroak n m, ICroak n' m' => (n =? n') && Bool.eqb m m'
  | ILoad s n, ILoad s' n' => bytes_eqb s s' && (n =? n')
  | IReload s, IReload s' | IMap s, IMap s' | IMove s, IMove s' => bytes_eqb s s'
  | IInCmp s t, IInCmp s' t' | IMOut s t, IMOut s' t'
  | IMNext s t, IMNext s' t' | IMPrev s t, IMPrev s' t' => bytes_eqb s s' && bytes_eqb t t'
  | _, _ => false
  end.

Inductive ccase : Type :=
(* bytes given to ParseHandler.ParseAll (collecting handlers) and to ToString *)
| CParseAll (b : bytes) (o : res (list instr)) (txt : res bytes)
(* bytes given to vm.ParseOp followed by the opcode's Parse function (the VM's path) *)
| CDecodeOne (b : bytes) (o : res (instr * bytes))
(* one instruction encoded by vm.NewLine and by the assembler's writers *)
| CEncode (i : instr) (newline : bytes) (asmw : res bytes)
(* encode with NewLine, then decode with the VM path and list with ToString *)
| CRoundTrip (p : list instr) (dec : res (list instr)) (txt : res bytes)
| CIntSplit (b : bytes) (o : res (N * bytes))
| CSymSplit (b : bytes) (o : res (bytes * bytes))
| CWriteSize (n : N) (o : res bytes)
| CWriteSym (s : bytes) (o : res bytes)
(* vm.NewLine called with these raw arguments (None = nil slice, Some [] = empty non-nil slice) *)
| CNewLine (op : N) (strargs : list bytes) (byteargs numargs : option bytes) (o : bytes) (dec : res (instr * bytes))
(* the assembler (asm.Parse) on the one-line source text of a numeric instruction: bytes written, ending *)
| CAsmLine (i : instr) (o : res bytes)
(* the dev/disasm command run on a file holding b: exit status and standard output *)
| CDisasm (b : bytes) (exit : N) (out : bytes)
(* the same for a LARGE file that holds the encoding b of the known program p.  The decoder model
   re-measures the rest of its input at every instruction (as the Go code does with len()), so
   evaluating it on tens of thousands of bytes takes minutes; for these files the model's answer
   comes from the theorem C14_disasm_lists_same instead (disasm_enc_by_theorem below):
   to_string (encode_prog p) = Ok (print_prog p) *)
| CDisasmEnc (p : list instr) (b : bytes) (exit : N) (out : bytes).

Definition ib_eqb := pair_eqb instr_eqb bytes_eqb.
Definition nb_eqb := pair_eqb N.eqb bytes_eqb.
Definition bb_eqb := pair_eqb bytes_eqb bytes_eqb.

(* model agrees with what the implementation did *)
Definition corr_ok (c : ccase) : bool :=
  match c with
  | CParseAll b o txt =>
    outcome_eqb (list_eqb instr_eqb) (parse_all b) o && outcome_eqb bytes_eqb (to_string b) txt
  | CDecodeOne b o => outcome_eqb ib_eqb (decode_one b) o
  | CEncode i nlb asmw => bytes_eqb (encode i) nlb && outcome_eqb bytes_eqb (encode_asm i) asmw
  | CRoundTrip p d txt =>
    outcome_eqb (list_eqb instr_eqb) (parse_all (encode_prog p)) d
    && outcome_eqb bytes_eqb (to_string (encode_prog p)) txt
  | CIntSplit b o => outcome_eqb nb_eqb (int_split b) o
  | CSymSplit b o => outcome_eqb bb_eqb (sym_split b) o
  | CWriteSize n o => outcome_eqb bytes_eqb (write_size n) o
  | CWriteSym s o => outcome_eqb bytes_eqb (write_sym s) o
  | CNewLine op strs ba na o dec => bytes_eqb (new_line op strs ba na) o && outcome_eqb ib_eqb (decode_one o) dec
  | CAsmLine i o => outcome_eqb bytes_eqb (encode_asm i) o
  | CDisasm b ex out =>
    (* dev/disasm/main.go: ToString error => "parse error" on stderr, exit 1; otherwise the listing
       is printed (through Printf, so a listing containing '%' is not compared) and exit 0 *)
    match to_string b with
    | Ok t => (ex =? 0) && (existsb (N.eqb 37) t || bytes_eqb out t)
    | Err _ => (ex =? 1) && bytes_eqb out []
    | Panic _ => ex =? 2
    end
  | CDisasmEnc p b ex out =>
    forallb wf_instrb p && negb (match p with [] => true | _ => false end)
    && bytes_eqb (encode_prog p) b
    && (ex =? 0) && (existsb (N.eqb 37) (print_prog p) || bytes_eqb out (print_prog p))
  end.

(* C14 on the implementation's observed behaviour: an encodable program decodes to itself,
   is listed as itself, both encoders agree. *)
Definition c14_ok (c : ccase) : bool :=
  match c with
  | CRoundTrip p d txt =>
    if forallb wf_instrb p && negb (match p with [] => true | _ => false end) then
      outcome_eqb (list_eqb instr_eqb) d (Ok p) && outcome_eqb bytes_eqb txt (Ok (print_prog p))
    else true
  | CEncode i nlb asmw =>
    if wf_instrb i then outcome_eqb bytes_eqb asmw (Ok nlb) else true
  | CNewLine op strs ba na o dec =>
    (* whatever instruction the reference encoding of these arguments denotes (integers in any
       accepted form: minimal, zero-length for 0, padded), the bytes NewLine produced are decoded BY
       THE VM'S DECODER (dec) to exactly that instruction and nothing is left over *)
    match decode_one (new_line op strs ba na) with
    | Ok (i, []) => outcome_eqb ib_eqb dec (Ok (i, []))
    | _ => true
    end
  | CAsmLine i o =>
    (* the assembler writes for a numeric instruction what the reference encoder writes *)
    if wf_instrb i then outcome_eqb bytes_eqb o (Ok (encode i)) else true
  | CDisasmEnc p b ex out =>
    (* an encodable program is listed by dev/disasm as itself, however long the file *)
    if forallb wf_instrb p && negb (match p with [] => true | _ => false end) then
      (ex =? 0) && (existsb (N.eqb 37) (print_prog p) || bytes_eqb out (print_prog p))
    else true
  | _ => true
  end.

(* C15 on the implementation's observed behaviour: never a panic; success only for input the
   strict grammar accepts, with the same instructions. *)
Definition c15_ok (c : ccase) : bool :=
  match c with
  | CParseAll b o txt =>
    negb (is_panic o) && negb (is_panic txt)
    && match o with
       | Ok p => option_eqb (list_eqb instr_eqb) (strict_all b) (Some p)
       | _ => true
       end
    && match txt with
       | Ok t => match strict_all b with Some p => bytes_eqb t (print_prog p) | None => false end
       | _ => true
       end
  | CDecodeOne b o =>
    negb (is_panic o)
    && match o with
       | Ok (i, r) => option_eqb ib_eqb (strict_one b) (Some (i, r))
       | _ => true
       end
  | CIntSplit _ o => negb (is_panic o)
  | CSymSplit _ o => negb (is_panic o)
  | CDisasm b ex out =>
    (* exit 2 is the Go runtime's status for an unrecovered panic *)
    negb (ex =? 2)
    && (if ex =? 0 then
          match strict_all b with
          | Some p => existsb (N.eqb 37) (print_prog p) || bytes_eqb out (print_prog p)
          | None => false
          end
        else true)
  | CDisasmEnc p b ex out =>
    (* a complete, well-formed program: listed completely, never refused, no panic *)
    (ex =? 0) && (existsb (N.eqb 37) (print_prog p) || bytes_eqb out (print_prog p))
  | _ => true
  end.

Definition mismatches (cs : list ccase) : list N := bad_indices corr_ok cs.
(* (index, class): class 0 = not attributable to any listed finding *)
Definition violations14 (cs : list ccase) : list (N * N) := map (fun i => (i, 0)) (bad_indices c14_ok cs).
Definition violations15 (cs : list ccase) : list (N * N) := map (fun i => (i, 0)) (bad_indices c15_ok cs).
