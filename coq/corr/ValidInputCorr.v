(* ValidInputCorr.v — client input formats registered by the application (engine.AddValidInput /
   vm.RegisterInputValidator), which the engine model does not carry.  Driver `validinput`: the two formats
   below are registered in the driver's process; vm.ValidInput is called directly, and an engine over a
   persisted session is given the same inputs.
     format 0   ^\*[0-9*]+#$     (a service code: "*123#", "*1*2#")
     format 1   ^#[0-9]{1,4}$
   Go's regexp: ^ and $ match at the beginning and the end of the TEXT only (no multi-line flag), so a
   trailing CR or LF is part of what must match. *)
From Vise Require Import Bytes Errors NavModel CorrBase.
Local Open Scope N_scope.

Definition is_digit (c : N) : bool := (48 <=? c) && (c <=? 57).
Fixpoint code_body (b : bytes) : bool :=      (* [0-9*]+# *)
  match b with
  | [] => false
  | [c; h] => (is_digit c || (c =? 42)) && (h =? 35)
  | c :: r => (is_digit c || (c =? 42)) && code_body r
  end.
Definition format0 (b : bytes) : bool := match b with 42 :: r => code_body r | _ => false end.
Definition format1 (b : bytes) : bool :=
  match b with 35 :: r => (1 <=? len r) && (len r <=? 4) && forallb is_digit r | _ => false end.

(* vm.ValidInput: 1 = the built-in format, 2 + k = registered format k, 0 = no format matches (error) *)
Definition valid_input_idx (b : bytes) : N :=
  if valid_input_b b then 1 else if format0 b then 2 else if format1 b then 3 else 0.

Inductive vicase :=
| CVIn (input : bytes) (idx : N)
(* one request of an engine with the two formats registered, on a stored session halted before
   `INCMP foo *`: the input was refused (Exec returned an error) / the stored session changed *)
| CVEng (input : bytes) (refused changed : bool).

Definition INPUT_MAX : N := 255.
(* DefaultEngine.Exec: the empty input is never checked against the formats *)
Definition accepted_b (b : bytes) : bool := (len b =? 0) || ((0 <? valid_input_idx b) && (len b <=? INPUT_MAX)).
Definition vi_corr_ok (c : vicase) : bool :=
  match c with
  | CVIn b i => valid_input_idx b =? i
  | CVEng b refused changed =>
    Bool.eqb refused (negb (accepted_b b))
  end.
Definition vi_mismatches (cs : list vicase) : list N := bad_indices vi_corr_ok cs.

(* C17 on the observed behaviour: an input that matches no format (or is over-long) is refused, and a
   refused input leaves the stored session as it was *)
Definition vi_c17_ok (c : vicase) : bool :=
  match c with
  | CVIn b i => if valid_input_idx b =? 0 then i =? 0 else true
  | CVEng b refused changed =>
    (if accepted_b b then true else refused) && (if refused then negb changed else true)
  end.
Definition vi_violations (cs : list vicase) : list (N * N) := map (fun i => (i, 0)) (bad_indices vi_c17_ok cs).
