(* FlagCorr.v — correspondence cases and the C06 monitor for the flag field (state/flag.go,
   State.SetFlag / ResetFlag / GetFlag / MatchFlag).

   One case = a sequence of flag operations on a real state.NewState(flag_count), each with what
   came back (the returned bool, or a panic), and the flag bytes at the end.
   Mismatch = the model's StateModel.get_flag / set_flag / reset_flag / match_flag disagree.
   Violation = the observed behaviour is not that of a set of flag indices (the reference below,
   which does not use the model): a flag reads as set exactly when it was set and not reset since,
   MatchFlag is "reads as set = mode" (what CATCH and CROAK fire on), an operation changes no other
   flag, and an index outside the bit field panics and changes nothing. *)
From Vise Require Import Bytes Errors Consts StateModel CorrBase.
Local Open Scope N_scope.

Inductive fop : Set := FSet (i : N) | FReset (i : N) | FGet (i : N) | FMatch (i : N) (mode : bool).
(* observed result: FB b = returned b; FPanic *)
Inductive fobs : Set := FB (b : bool) | FPanic.

Record flcase := mkFl {
  fl_count : N;                 (* NewState(flag_count) *)
  fl_ops : list (fop * fobs);
  fl_bytes : bytes              (* State.Flags afterwards *)
}.

Definition fobs_eqb (a b : fobs) : bool :=
  match a, b with FB x, FB y => Bool.eqb x y | FPanic, FPanic => true | _, _ => false end.

(* ---- model ---- *)
Definition fl_model_step (s : state) (o : fop) : state * fobs :=
  match o with
  | FSet i => match set_flag s i with Ok (s', b) => (s', FB b) | _ => (s, FPanic) end
  | FReset i => match reset_flag s i with Ok (s', b) => (s', FB b) | _ => (s, FPanic) end
  | FGet i => match get_flag s i with Ok b => (s, FB b) | _ => (s, FPanic) end
  | FMatch i m => match match_flag s i m with Ok b => (s, FB b) | _ => (s, FPanic) end
  end.
Fixpoint fl_model_run (s : state) (ops : list (fop * fobs)) : bool * state :=
  match ops with
  | [] => (true, s)
  | (o, r) :: ops' =>
    let '(s', r') := fl_model_step s o in
    let '(ok, s'') := fl_model_run s' ops' in (fobs_eqb r r' && ok, s'')
  end.
Definition fl_corr_ok (c : flcase) : bool :=
  let '(ok, s) := fl_model_run (new_state (fl_count c)) (fl_ops c) in
  ok && bytes_eqb (flag_bytes (s_flags s)) (fl_bytes c).

(* ---- reference: the set of flags that are set, as a list of indices ---- *)
Definition mem_n (i : N) (l : list N) : bool := existsb (N.eqb i) l.
Definition del_n (i : N) (l : list N) : list N := filter (fun j => negb (j =? i)) l.
(* flags 0 .. flag_count+7 exist *)
Definition fl_exists (count i : N) : bool := i <? count + 8.

Fixpoint fl_ref_run (count : N) (set : list N) (ops : list (fop * fobs)) : bool * list N :=
  match ops with
  | [] => (true, set)
  | (o, r) :: ops' =>
    let i := match o with FSet i | FReset i | FGet i | FMatch i _ => i end in
    if negb (fl_exists count i) then
      let '(ok, set') := fl_ref_run count set ops' in (fobs_eqb r FPanic && ok, set')
    else
      let '(want, set1) :=
        match o with
        | FSet _ => (FB (negb (mem_n i set)), if mem_n i set then set else i :: set)
        | FReset _ => (FB (mem_n i set), del_n i set)
        | FGet _ => (FB (mem_n i set), set)
        | FMatch _ m => (FB (Bool.eqb m (mem_n i set)), set)
        end in
      let '(ok, set') := fl_ref_run count set1 ops' in (fobs_eqb r want && ok, set')
  end.
(* bit i of the flag bytes, least significant bit of byte i/8 first *)
Definition byte_bit (bs : bytes) (i : N) : bool := N.testbit (nth (N.to_nat (i / 8)) bs 0) (i mod 8).
Fixpoint upto (n : nat) : list N := match n with O => [] | S n' => upto n' ++ [N.of_nat n'] end.
(* guard of the judgement: the property's flag counts (a bit field of at most 255 bytes; beyond that
   NewState's uint8 byte size wraps, which is K-C08-flagcount's territory) *)
Definition fl_in_scope (c : flcase) : bool := fl_count c + 8 <=? 2040.
Definition fl_c06_ok (c : flcase) : bool :=
  if negb (fl_in_scope c) then true else
  let '(ok, set) := fl_ref_run (fl_count c) [] (fl_ops c) in
  ok && (len (fl_bytes c) =? (fl_count c + 8 + 7) / 8)
  && forallb (fun i => Bool.eqb (byte_bit (fl_bytes c) i) (mem_n i set)) (upto (N.to_nat (8 * len (fl_bytes c)))).

Definition flag_mismatches (cs : list flcase) : list N := bad_indices fl_corr_ok cs.
Definition flag_violations (cs : list flcase) : list (N * N) := map (fun i => (i, 0)) (bad_indices fl_c06_ok cs).
