(* FsCrashCorr.v — correspondence cases and the C12 monitor for db/fs Put under crashes.

   FTrace: the system calls the real fsDb.Put made on the store directory (strace of a child
           process), abstracted to fsops; checked to be exactly the model's operation list.
   FCrash: one (previous record, new record) pair of real persisted session states; the REAL Put
           of the new record onto the store was traced (strace), and every sampled crash state
           of the OBSERVED operation list was materialised in a scratch directory, where the real
           Persister.Load, the real Dump and a fresh engine's first Exec+Flush+Finish were run.
           Mismatch = the observed list is not the model's put_ops, or a materialised state is
           not what apply_op says; violation = the C12 monitor fails on an observed state — so a
           change of Put that is not crash-atomic yields a concrete failing crash state, not
           only a mismatch. *)
From Vise Require Import Bytes Errors Consts FsCrash CorrBase.
Local Open Scope N_scope.

Definition fsop_eqb (a b : fsop) : bool :=
  match a, b with
  | CreateTemp x, CreateTemp y => bytes_eqb x y
  | Write x c, Write y d => bytes_eqb x y && bytes_eqb c d
  | Chmod x, Chmod y => bytes_eqb x y
  | Close x, Close y => bytes_eqb x y
  | Rename x p, Rename y q => bytes_eqb x y && bytes_eqb p q
  | Remove x, Remove y => bytes_eqb x y
  | OpenTrunc x, OpenTrunc y => bytes_eqb x y
  | OpenWrite x, OpenWrite y => bytes_eqb x y
  | OpenCreate x, OpenCreate y => bytes_eqb x y
  | WriteAt x o c, WriteAt y q d => bytes_eqb x y && (o =? q) && bytes_eqb c d
  | _, _ => false
  end.

(* file contents are given by reference into the case's blob table (keeps the literals short):
   the whole blob, a prefix of a blob, or raw bytes *)
Inductive cref : Type := CRef (i : N) | CPre (i k : N) | CRaw (b : bytes).

Record crashobs := mkCrashObs {
  co_i : N;                          (* crash point: operations completed ...                  *)
  co_k : N;                          (* ... and bytes of the next Write transferred            *)
  co_files : list (bytes * cref);    (* the scratch directory, sorted by name                  *)
  co_load_ok : bool;                 (* real Persister.Load of the session succeeded           *)
  co_eq_prev : bool;                 (* the engine's next request (continue flag, error, output, decoded record
                                        after Finish) equals the same request on the directory before the save *)
  co_eq_new : bool;                  (* ... on the directory with the complete new record       *)
  co_eq_fresh : bool;                (* ... on the directory without any record of the session  *)
  co_dump : list bytes               (* keys listed by the real Dump(DATATYPE_STATE, "")         *)
}.

(* an observed operation whose payload is given by reference *)
Inductive eop : Type :=
| EOp (o : fsop)
| EWrite (t : bytes) (c : cref)
| EWriteAt (t : bytes) (off : N) (c : cref).

(* FCrash: evs = the system calls the REAL Put made for this very save (store fs0, value =
   blob newi), abstracted, with their success flag; for the self-test (oldlist) the pre-repair
   list supplied by the driver.  killed = the child was killed by an injected SIGKILL on entry to
   a system call (evs is then what it did before dying, the fatal call last and failed).
   The crash states (obs) are those of the OBSERVED operations, whatever they are. *)
Inductive fcase : Type :=
| FTrace (kind : N) (p : bytes) (value : bytes) (evs : list (fsop * bool))
| FCrash (oldlist : bool) (blobs : list bytes) (fs0 : list (bytes * N))
         (p alt tmp : bytes) (newi : N) (evs : list (eop * bool)) (killed : bool)
         (obs : list crashobs)
(* a save that FAILS (the store directory is away during Finish) and is then retried by the same
   engine (Finish again, directory back): failed = the first Finish reported an error; got = the
   session the store holds afterwards (decoded, canonical text); want = what it holds after the same
   history without the failure *)
| FRetry (failed : bool) (got want : bytes)
(* one history served request by request on the FILESYSTEM store, whose handle the application also uses
   for data of its own between creating the persister and the request (got = the record it holds at the
   end, decoded; every response), and on a memory store used for nothing else (want) *)
| FSame (got want : bytes).

(* ---- traces ------------------------------------------------------------------------------- *)

Definition ev_writes (evs : list (fsop * bool)) : list bytes :=
  flat_map (fun e => match e with (Write _ b, true) => [b] | _ => [] end) evs.
Definition first_created (evs : list (fsop * bool)) : bytes :=
  match evs with (CreateTemp t, _) :: _ => t | _ => [] end.
(* ".tmp-" + something, directly inside the store directory *)
Definition is_tmp_name (t : bytes) : bool :=
  is_prefix tmp_prefix t && negb (existsb (N.eqb 47) t).

(* kind 0: a Put that succeeds — every call succeeded and the sequence is put_ops_chunked for
           the observed chunking, the chunks adding up to the value;
   kind 1: the record name is a directory, so the rename fails (Go's os.Rename refuses before
           the system call, or rename(2) fails) — the sequence is put_ops_failed *)
Definition trace_ok (kind : N) (p value : bytes) (evs : list (fsop * bool)) : bool :=
  let t := first_created evs in
  let chunks := ev_writes evs in
  let okops := map fst (filter (fun e => snd e) evs) in
  let failed := map fst (filter (fun e => negb (snd e)) evs) in
  is_tmp_name t && negb (bytes_eqb t p) && bytes_eqb (List.concat chunks) value
  && match kind with
     | 0 => list_eqb fsop_eqb okops (put_ops_chunked t p chunks) && (len failed =? 0)
     | _ => list_eqb fsop_eqb okops (put_ops_failed t chunks true)
            && (list_eqb fsop_eqb failed [] || list_eqb fsop_eqb failed [Rename t p])
     end.

(* ---- crash cases ---------------------------------------------------------------------------- *)

Definition blob (blobs : list bytes) (i : N) : bytes := nth (N.to_nat i) blobs [].
Definition resolve (blobs : list bytes) (c : cref) : bytes :=
  match c with
  | CRef i => blob blobs i
  | CPre i k => take k (blob blobs i)
  | CRaw b => b
  end.
Definition resolve_op (blobs : list bytes) (e : eop) : fsop :=
  match e with
  | EOp o => o
  | EWrite t c => Write t (resolve blobs c)
  | EWriteAt t off c => WriteAt t off (resolve blobs c)
  end.
(* the operations that took effect *)
Definition observed_ops (blobs : list bytes) (evs : list (eop * bool)) : list fsop :=
  map (fun e => resolve_op blobs (fst e)) (filter (fun e => snd e) evs).
Fixpoint ops_prefix (a b : list fsop) : bool :=
  match a, b with
  | [], _ => true
  | x :: a', y :: b' => fsop_eqb x y && ops_prefix a' b'
  | _ :: _, [] => false
  end.
(* no call failed; when killed, only the last (fatal) one *)
Fixpoint flags_ok (killed : bool) (evs : list (eop * bool)) : bool :=
  match evs with
  | [] => true
  | [e] => snd e || killed
  | e :: evs' => snd e && flags_ok killed evs'
  end.
Definition mk_fs (blobs : list bytes) (fs0 : list (bytes * N)) : list (bytes * bytes) :=
  map (fun e => (fst e, blob blobs (snd e))) fs0.
Definition obs_files (blobs : list bytes) (o : crashobs) : list (bytes * bytes) :=
  map (fun e => (fst e, resolve blobs (snd e))) (co_files o).
Definition files_eqb : list (bytes * bytes) -> list (bytes * bytes) -> bool :=
  list_eqb (pair_eqb bytes_eqb bytes_eqb).
Definition case_ops (oldlist : bool) (tmp p new : bytes) : list fsop :=
  if oldlist then put_ops_old p new else put_ops tmp p new.
Definition opt_is (o : option bytes) (b : bytes) : bool :=
  match o with Some x => bytes_eqb x b | None => false end.
Definition strict_prefix (a b : bytes) : bool := is_prefix a b && (len a <? len b).

(* model vs observed, one crash state:
   - the directory is exactly the model's crash state;
   - the assumptions about the record format hold on what was found: the previous and the new
     record load, a strict prefix of the new record (the empty string included) does not;
   - the engine behaved as 'recover' says (validity of the found record := what Load said);
   - the directory scan lists what dump_keys lists *)
Definition obs_corr (blobs : list bytes) (fs : list (bytes * bytes)) (ops : list fsop)
           (p alt new : bytes) (o : crashobs) : bool :=
  let fs' := crash_state_at fs ops (N.to_nat (co_i o)) (co_k o) in
  let prev := fs_get fs p alt in
  files_eqb (asort fs') (obs_files blobs o)
  && match fs_get fs' p alt with
     | None => negb (co_load_ok o)
     | Some b =>
       if opt_is prev b || bytes_eqb b new then co_load_ok o
       else if strict_prefix b new then negb (co_load_ok o) else true
     end
  && match recover (fun _ => co_load_ok o) fs' p alt with
     | Continued b =>
       if opt_is prev b then co_eq_prev o else if bytes_eqb b new then co_eq_new o else true
     | FreshStarted => co_eq_fresh o
     end
  && list_eqb bytes_eqb (dump_keys DATATYPE_STATE [] [] (map fst (asort fs'))) (co_dump o).

(* the observed operations are the model's (killed: a prefix of them), and every crash state
   derived from the observed operations is what was found *)
Definition case_corr_ok (c : fcase) : bool :=
  match c with
  | FTrace kind p value evs => trace_ok kind p value evs
  | FRetry failed _ _ => failed     (* the injection worked: nothing else is modelled here *)
  | FSame _ _ => true               (* two runs of the implementation: nothing is modelled here *)
  | FCrash oldlist blobs fs0 p alt tmp newi evs killed obs =>
    let fs := mk_fs blobs fs0 in
    let new := blob blobs newi in
    let ops := observed_ops blobs evs in
    let model := case_ops oldlist tmp p new in
    flags_ok killed evs
    && (if killed then ops_prefix ops model else list_eqb fsop_eqb ops model)
    && (oldlist || (is_tmp_name tmp && negb (ahas tmp fs)))
    && (1 <=? len obs) && forallb (obs_corr blobs fs ops p alt new) obs
  end.

(* ---- the C12 monitor, on the observed behaviour only ------------------------------------- *)

(* what the property demands of one crash state:
   - the session's record is the complete previous one or the complete new one (when there was
     no previous record: absent or the complete new one) — never empty, truncated or mixed;
   - the real Persister.Load reads it (both are records the engine itself saved; the reference runs
     below go through the same Get, so a reader that mangles complete records would otherwise agree
     with itself) and the engine continues the session from it: its next request behaves exactly as
     it does on an undisturbed store holding that record;
   - every other file that was in the store is byte-identical, and nothing new appeared except
     temp files (names starting with ".tmp-", which are no session's record) *)
Definition c12_obs_ok (blobs : list bytes) (fs : list (bytes * bytes)) (p new : bytes) (o : crashobs) : bool :=
  let files := obs_files blobs o in
  match alookup p fs, alookup p files with
  | Some old, Some b => co_load_ok o && ((bytes_eqb b old && co_eq_prev o) || (bytes_eqb b new && co_eq_new o))
  | Some _, None => false
  | None, None => true
  | None, Some b => co_load_ok o && bytes_eqb b new && co_eq_new o
  end
  && forallb (fun e => bytes_eqb (fst e) p || opt_is (alookup (fst e) files) (snd e)) fs
  && forallb (fun e => bytes_eqb (fst e) p || ahas (fst e) fs || is_prefix tmp_prefix (fst e)) files.

Definition c12_case_ok (c : fcase) : bool :=
  match c with
  | FTrace _ _ _ _ => true
  (* a failed save leaves the old record, and the retried save stores the session the engine holds:
     never an emptied or mixed one *)
  | FRetry _ got want => bytes_eqb got want
  (* the record a store holds is the session's, whatever else the handle is used for *)
  | FSame got want => bytes_eqb got want
  | FCrash _ blobs fs0 p _ _ newi _ _ obs =>
    forallb (c12_obs_ok blobs (mk_fs blobs fs0) p (blob blobs newi)) obs
  end.

Definition fscrash_mismatches (cs : list fcase) : list N := bad_indices case_corr_ok cs.
(* no known finding: every violation is class 0 *)
Definition fscrash_violations (cs : list fcase) : list (N * N) :=
  map (fun i => (i, 0)) (bad_indices c12_case_ok cs).

(* self-test of the check (negative controls, placed in the prelude of every case file):
   - the crash states of the operation list BEFORE the repair (put_ops_old), materialised the
     same way, must agree with the model AND be flagged by the monitor;
   - the strace of an old-style write (os.WriteFile on the record path, run by the same child
     process) must abstract to exactly put_ops_old and must be REJECTED by trace_ok.
   If the self-test fails, one extra (out-of-range) mismatch index is reported. *)
Definition selftest_case_ok (c : fcase) : bool :=
  match c with
  | FCrash true _ _ _ _ _ _ _ _ _ => case_corr_ok c && negb (c12_case_ok c)
  | FCrash false _ _ _ _ _ _ _ _ _ => false
  | FTrace kind p value evs =>
    negb (trace_ok kind p value evs)
    && list_eqb fsop_eqb (map fst evs) (put_ops_old p value) && forallb (fun e => snd e) evs
  | FRetry _ _ _ => false
  | FSame _ _ => false
  end.
Definition selftest_ok (st : list fcase) : bool :=
  existsb (fun c => match c with FTrace _ _ _ _ => true | _ => false end) st
  && existsb (fun c => match c with FCrash _ _ _ _ _ _ _ _ _ _ => true | _ => false end) st
  && forallb selftest_case_ok st.
Definition fscrash_mismatches_st (st cs : list fcase) : list N :=
  fscrash_mismatches cs ++ (if selftest_ok st then [] else [len cs]).
