(* RenderCorr.v — correspondence cases for render/page.go, size.go, menu.go and the C01 (page
   level) / C02 monitors on the OBSERVED behaviour of the Go code.

   Two case types:
   * sinkcase  — the private joinSink (through VerifJoinSink) + Sizer.GetAt on generated rows;
   * rcase     — a real render.Page over a real cache.Cache and a resource, driven by a list of
                 runs; each run builds a fresh page as vm.Reset + the node's MAP/MOUT/... do and
                 then applies operations (Render idx | Reset | Map | Put), all observable state
                 being recorded after every operation.

   Page.cacheMap, Page.extra and the Menu fields have no export hook; they are observed through
   the exported API: Menu.String() (page count, sink, canNext, canPrevious), Page.Val(key) for
   the probe keys, Page.Usage() (fails iff the map holds a key unknown to the cache, e.g. ""),
   Page.RenderTemplate on a probe symbol (shows error prefix and extra), and — at the end of a
   run, because it mutates — Menu.Render(0) (shows the items that are left). *)
From Vise Require Import Bytes Errors CacheModel RenderModel CorrBase.
Local Open Scope N_scope.

Definition res_bytes_eqb : res bytes -> res bytes -> bool := outcome_eqb bytes_eqb.
Definition nlist_eqb : list N -> list N -> bool := list_eqb N.eqb.
Definition amap_eqb : alist -> alist -> bool := list_eqb (pair_eqb bytes_eqb bytes_eqb).

Fixpoint seqN (n : nat) (start : N) : list N :=
  match n with O => [] | S k => start :: seqN k (start + 1) end.

(* ============================================================ sink driver ===== *)
Record sinkcase := mkSinkCase {
  sc_rows : list bytes;
  sc_rem : N;
  sc_ms : N * N * N * N;
  sc_join : res (bytes * N);            (* observed joinSink result *)
  sc_crs : list N;                      (* observed cursors afterwards (sizer started with [0]) *)
  sc_pages : list (res alist)           (* observed GetAt({"o":"x","s":r}, idx), idx = 0..count+1, sorted *)
}.

Definition sink_key : bytes := [115].   (* "s" *)
Definition other_kv : bytes * bytes := ([111], [120]).  (* "o" -> "x" *)

Definition sink_model (sc : sinkcase) : res (bytes * N) * list N * list (res alist) :=
  let '(jr, crs) := join_sink (sc_rows sc) (sc_rem sc) (sc_ms sc) [0] in
  match jr with
  | Ok (r, n) =>
    let z := mkSizer 0 [] 0 crs sink_key in
    (jr, crs, map (fun i => match sizer_get_at z [other_kv; (sink_key, r)] i with
                            | Ok m => Ok (asort m) | Err e => Err e | Panic s => Panic s end)
                  (seqN (N.to_nat n + 2) 0))
  | _ => (jr, crs, [])
  end.

Definition sink_corr_ok (sc : sinkcase) : bool :=
  let '(jr, crs, pages) := sink_model sc in
  outcome_eqb (pair_eqb bytes_eqb N.eqb) jr (sc_join sc)
  && nlist_eqb crs (sc_crs sc)
  && list_eqb (outcome_eqb amap_eqb) pages (sc_pages sc).

Definition sink_mismatches (cs : list sinkcase) : list N := bad_indices sink_corr_ok cs.

Definition lists_eqb : list bytes -> list bytes -> bool := list_eqb bytes_eqb.

Definition page_value (o : res alist) : res bytes :=
  match o with
  | Ok m => match alookup sink_key m with Some v => Ok v | None => Err EGen end
  | Err e => Err e
  | Panic s => Panic s
  end.

(* C02 on the observed paginator: no panic; when joinSink succeeds with n pages, pages 0..n-1
   are delivered and their rows, concatenated, are the original rows; pages n and n+1 are errors *)
Definition sink_c02_ok (sc : sinkcase) : bool :=
  match sc_rows sc with
  | [] => true (* no sink at all: GetAt is not asked for one *)
  | _ =>
    match sc_join sc with
    | Panic _ => false
    | Err _ => true
    | Ok (_, n) =>
      let pv := map page_value (sc_pages sc) in
      let shown := firstn (N.to_nat n) pv in
      let past := skipn (N.to_nat n) pv in
      forallb is_ok shown
      && lists_eqb (flat_map (fun p => match p with Ok b => split_on nl b | _ => [] end) shown) (sc_rows sc)
      && (len past =? 2) && forallb is_err past
    end
  end.

Definition has_empty_row (vs : list bytes) : bool := existsb (fun v => len v =? 0) vs.
Definition has_nul_row (vs : list bytes) : bool := existsb (existsb (fun x => x =? 0)) vs.

(* classes: 1 = K-C02-emptyrow (some row is empty), 3 = K-C02-nul (some row holds a NUL byte) *)
Definition sink_class (sc : sinkcase) : N :=
  if has_empty_row (sc_rows sc) then 1 else if has_nul_row (sc_rows sc) then 3 else 0.

Definition sink_violations (cs : list sinkcase) : list (N * N) :=
  map (fun i => (i, match nth_error cs (N.to_nat i) with Some sc => sink_class sc | None => 0 end))
      (bad_indices sink_c02_ok cs).

(* ========================================================== render driver ===== *)
Record rcfg := mkRcfg {
  rc_size : option N;                    (* None: no sizer; Some n: NewSizer(n) *)
  rc_late : bool;                        (* WithSizer only after the Maps (API misuse stream) *)
  rc_cache : list (bytes * bytes * N);   (* Add(key, value, limit) into a fresh cache *)
  rc_maps : list bytes;                  (* Page.Map, in order *)
  rc_sym : bytes;                        (* node symbol rendered *)
  rc_tpls : list (bytes * res bytes);    (* GetTemplate table; absent = error *)
  rc_labels : list (bytes * res bytes);  (* GetMenu table; absent = the label itself *)
  rc_menu : option (bytes * list (bytes * bytes) * browse * bool);  (* separator, items, browse, MSINK *)
  rc_err : option bytes
}.

Definition tbl_template (t : list (bytes * res bytes)) (k : bytes) : res bytes :=
  match alookup k t with Some r => r | None => Err EGen end.
Definition tbl_menu (t : list (bytes * res bytes)) (k : bytes) : res bytes :=
  match alookup k t with Some r => r | None => Ok k end.

Definition build_cache (l : list (bytes * bytes * N)) : cache :=
  fold_left (fun c e => let '(k, v, lim) := e in
                        match cache_add c k v lim with Ok c' => c' | _ => c end) l (new_cache 0).

Definition build_menu (mc : bytes * list (bytes * bytes) * browse * bool) : menu :=
  let '(sep, items, b, msink) := mc in
  let m := menu_with_browse (new_menu sep) b in
  let m := fold_left (fun m it => menu_put m (fst it) (snd it)) items m in
  if msink then menu_with_pages (menu_with_browse (menu_with_sink m) b) else m.

(* page as vm.Reset + the node's instructions build it; returns the Map outcomes too *)
Definition map_all (c : cache) (pg : page) (ks : list bytes) : page * list bool :=
  fold_left (fun st k => let '(pg, rs) := st in
                         match page_map c pg k with
                         | Ok pg' => (pg', rs ++ [true])
                         | _ => (pg, rs ++ [false])
                         end) ks (pg, []).

Definition build_page (cfg : rcfg) (c : cache) : page * list bool :=
  let pg := page_reset new_page in
  let pg := match rc_menu cfg with Some mc => page_with_menu pg (build_menu mc) | None => pg end in
  let pg := match rc_size cfg with
            | Some n => if rc_late cfg then pg else page_with_sizer pg (new_sizer n)
            | None => pg end in
  let '(pg, rs) := map_all c pg (rc_maps cfg) in
  let pg := match rc_size cfg with
            | Some n => if rc_late cfg then page_with_sizer pg (new_sizer n) else pg
            | None => pg end in
  (page_with_error pg (rc_err cfg), rs).

Inductive rop : Type :=
| RRender (idx : N)
| RReset                      (* pg.WithError(nil); pg.Reset(); mn.Reset() — as Run does on resume *)
| RMap (k : bytes)
| RPut (sel title : bytes).

Record robs := mkRobs {
  ro_out : res bytes;
  ro_crs : list N;
  ro_zsink : bytes;
  ro_menu : option (N * bool * bool * bool);  (* Menu.String(): page count, sink, next, prev *)
  ro_vals : list (option bytes);              (* Page.Val on the probe keys *)
  ro_usage : res (N * N);                     (* Page.Usage *)
  ro_tpl : res bytes                          (* Page.RenderTemplate(probe symbol, {"_menu": "<M>"}, 0) *)
}.

Record rrun := mkRun { ru_maps : list bool; ru_steps : list (rop * robs); ru_end : res bytes }.
Record rcase := mkRcase { rc_cfg : rcfg; rc_runs : list rrun }.

Definition probe_sym : bytes := [122; 122; 112; 114; 111; 98; 101].  (* "zzprobe" *)
Definition probe_vals : alist := [(menu_sink_key, [60; 77; 62])].      (* "_menu" -> "<M>" *)
Definition probe_keys (cfg : rcfg) : list bytes := [] :: menu_sink_key :: rc_maps cfg.

(* Page.Val *)
Definition page_val (pg : page) (k : bytes) : option bytes :=
  match alookup k (p_map pg) with
  | Some v => if len v =? 0 then None else Some v
  | None => None
  end.

(* Page.Usage *)
Fixpoint usage_loop (c : cache) (m : alist) (l c16 : N) : res (N * N) :=
  match m with
  | [] => let r := w32 l in Ok (r, if r <? c16 then c16 - r else 0)
  | (k, v) :: m' =>
    match cache_reserved c k with
    | Ok sz => usage_loop c m' (l + len v) (w16 (c16 + sz))
    | Err e => Err e
    | Panic s => Panic s
    end
  end.
Definition page_usage (c : cache) (pg : page) : res (N * N) := usage_loop c (p_map pg) 0 0.

Definition observe (cfg : rcfg) (c : cache) (pg : page) (out : res bytes) : robs :=
  mkRobs out
    (match p_sizer pg with Some z => z_crsrs z | None => [] end)
    (match p_sizer pg with Some z => z_sink z | None => [] end)
    (option_map (fun m => (m_page_count m, m_sink m, m_can_next m, m_can_prev m)) (p_menu pg))
    (map (page_val pg) (probe_keys cfg))
    (page_usage c pg)
    (render_template (tbl_template (rc_tpls cfg)) pg probe_sym probe_vals 0).

Definition rop_step (cfg : rcfg) (c : cache) (pg : page) (op : rop) : res bytes * page :=
  match op with
  | RRender i => page_render c (tbl_template (rc_tpls cfg)) (tbl_menu (rc_labels cfg)) pg (rc_sym cfg) i
  | RReset =>
    let pg1 := page_reset (page_with_error pg None) in
    (Ok [], page_set_menu pg1 (option_map menu_reset (p_menu pg1)))
  | RMap k =>
    match page_map c pg k with
    | Ok pg' => (Ok [], pg')
    | Err e => (Err e, pg)
    | Panic s => (Panic s, pg)
    end
  | RPut s t => (Ok [], page_set_menu pg (option_map (fun m => menu_put m s t) (p_menu pg)))
  end.

Definition menu_tuple_eqb (a b : N * bool * bool * bool) : bool :=
  let '(n1, s1, x1, p1) := a in let '(n2, s2, x2, p2) := b in
  (n1 =? n2) && Bool.eqb s1 s2 && Bool.eqb x1 x2 && Bool.eqb p1 p2.

Definition robs_eqb (a b : robs) : bool :=
  res_bytes_eqb (ro_out a) (ro_out b)
  && nlist_eqb (ro_crs a) (ro_crs b)
  && bytes_eqb (ro_zsink a) (ro_zsink b)
  && option_eqb menu_tuple_eqb (ro_menu a) (ro_menu b)
  && list_eqb (option_eqb bytes_eqb) (ro_vals a) (ro_vals b)
  && outcome_eqb (pair_eqb N.eqb N.eqb) (ro_usage a) (ro_usage b)
  && res_bytes_eqb (ro_tpl a) (ro_tpl b).

Fixpoint steps_ok (cfg : rcfg) (c : cache) (pg : page) (steps : list (rop * robs)) : bool * page :=
  match steps with
  | [] => (true, pg)
  | (op, ob) :: r =>
    let '(out, pg') := rop_step cfg c pg op in
    if robs_eqb (observe cfg c pg' out) ob then steps_ok cfg c pg' r else (false, pg')
  end.

Definition run_ok (cfg : rcfg) (c : cache) (ru : rrun) : bool :=
  let '(pg, maps) := build_page cfg c in
  list_eqb Bool.eqb maps (ru_maps ru)
  && (let '(ok, pg') := steps_ok cfg c pg (ru_steps ru) in
      ok && res_bytes_eqb (ru_end ru)
              (match p_menu pg' with
               | Some m => fst (menu_render_st (tbl_menu (rc_labels cfg)) m 0)
               | None => Ok []
               end)).

Definition render_corr_ok (rc : rcase) : bool :=
  let c := build_cache (rc_cache (rc_cfg rc)) in
  forallb (run_ok (rc_cfg rc) c) (rc_runs rc).

Definition render_mismatches (cs : list rcase) : list N := bad_indices render_corr_ok cs.

(* ------------------------------------------------ property monitors (on observations) --- *)
(* What the page should show, computed from the case INPUTS only (template table, cache
   contents, menu configuration), never from the model's render functions. *)

Definition is_suffix (a b : bytes) : bool := is_prefix (rev a) (rev b).

Fixpoint dedup (l : list bytes) : list bytes :=
  match l with [] => [] | x :: r => if mem_bytes x r then dedup r else x :: dedup r end.

Definition cache_entry (cfg : rcfg) (k : bytes) : option (bytes * N) :=
  match find (fun e => bytes_eqb (fst (fst e)) k) (rc_cache cfg) with
  | Some (_, v, lim) => Some (v, lim)
  | None => None
  end.

Inductive sink_kind : Type := NoSink | SymSink (k : bytes) | MenuSink.

Definition zero_syms (cfg : rcfg) : list bytes :=
  filter (fun k => match cache_entry cfg k with Some (_, 0) => true | _ => false end) (dedup (rc_maps cfg)).

Definition menu_is_sink (cfg : rcfg) : bool :=
  match rc_menu cfg with Some (_, _, _, ms) => ms | None => false end.

(* None = both a symbol sink and a menu sink, or two symbol sinks: no render is possible *)
Definition sink_of (cfg : rcfg) : option sink_kind :=
  match zero_syms cfg, menu_is_sink cfg with
  | [], false => Some NoSink
  | [], true => Some MenuSink
  | [k], false => Some (SymSink k)
  | _, _ => None
  end.

Definition resolve (cfg : rcfg) (t : bytes) : option bytes :=
  match tbl_menu (rc_labels cfg) t with Ok r => Some r | _ => None end.

Definition entry_text (cfg : rcfg) (sep : bytes) (it : bytes * bytes) : option bytes :=
  option_map (fun t => fst it ++ sep ++ t) (resolve cfg (snd it)).

Fixpoint all_some {A} (l : list (option A)) : option (list A) :=
  match l with
  | [] => Some []
  | Some x :: r => option_map (cons x) (all_some r)
  | None :: _ => None
  end.

Definition menu_part (entries : list bytes) : bytes :=
  match entries with [] => [] | _ => nl :: join_with [nl] entries end.

(* split the item list at the single occurrence of the sink variable *)
Fixpoint split_at_var (k : bytes) (items : list tpl_item) : option (list tpl_item * list tpl_item) :=
  match items with
  | [] => None
  | TVar n :: r => if bytes_eqb n k then Some ([], r)
                   else option_map (fun p => (TVar n :: fst p, snd p)) (split_at_var k r)
  | it :: r => option_map (fun p => (it :: fst p, snd p)) (split_at_var k r)
  end.
Definition mentions (k : bytes) (items : list tpl_item) : bool :=
  existsb (fun it => match it with TVar n => bytes_eqb n k | _ => false end) items.

(* everything the monitors need to know about what a page of this case must look like *)
Record expect := mkExpect {
  ex_pre : bytes;             (* rendered template text before the sink placeholder *)
  ex_post : bytes;            (* ... after it *)
  ex_entries : list bytes;    (* ordinary menu lines *)
  ex_next : bytes;            (* the browse lines, labels resolved, real separator *)
  ex_prev : bytes;
  ex_rows : list bytes;       (* sink rows; [] when there is no sink *)
  ex_kind : sink_kind;
  ex_raw : bytes;             (* the sink value as stored (symbol sink) *)
  ex_mnext : N;               (* what Menu.Sizes measures: raw label, ":" *)
  ex_mprev : N
}.

Definition non_sink_vals (cfg : rcfg) (sk : sink_kind) : alist :=
  flat_map (fun k => match sk with
                     | SymSink s => if bytes_eqb s k then [] else
                                    match cache_entry cfg k with Some (v, _) => [(k, v)] | None => [] end
                     | _ => match cache_entry cfg k with Some (v, _) => [(k, v)] | None => [] end
                     end) (dedup (rc_maps cfg)).

Definition ok_opt {A} (r : res A) : option A := match r with Ok a => Some a | _ => None end.

(* None = the case is outside the monitors' domain (see `in_domain` below for the reasons) *)
Definition expectation (cfg : rcfg) : option expect :=
  match rc_menu cfg, sink_of cfg with
  | Some (sep, items, b, _), Some sk =>
    (* 'next' must be configured (the walk uses it); 'previous' may be missing: ex_prev = [] then *)
    if (len sep =? 0) || negb (b_next_avail b) then None else
    match ok_opt (tbl_template (rc_tpls cfg) (rc_sym cfg)) with
    | None => None
    | Some src =>
      let extra := match sk with MenuSink => menu_sink_extra | _ => [] end in
      match tpl_parse (tpl_source (rc_err cfg) extra src) with
      | None => None
      | Some titems =>
        let var := match sk with SymSink k => k | _ => menu_sink_key end in
        let parts := match sk with
                     | NoSink => if mentions menu_sink_key titems then None else Some (titems, [])
                     | _ => match split_at_var var titems with
                            | Some (a, z) => if mentions var z then None else Some (a, z)
                            | None => None
                            end
                     end in
        match parts with
        | None => None
        | Some (a, z) =>
          let vals := non_sink_vals cfg sk in
          match ok_opt (tpl_exec a vals), ok_opt (tpl_exec z vals),
                all_some (map (entry_text cfg sep) items),
                entry_text cfg sep (b_next_sel b, b_next_title b),
                entry_text cfg sep (b_prev_sel b, b_prev_title b) with
          | Some pre, Some post, Some ents, Some nx, Some pv0 =>
            let pv := if b_prev_avail b then pv0 else [] in
            let raw := match sk with
                       | SymSink k => match cache_entry cfg k with Some (v, _) => v | None => [] end
                       | _ => [] end in
            Some (mkExpect pre post
                    (match sk with MenuSink => [] | _ => ents end) nx pv
                    (match sk with
                     | NoSink => []
                     | SymSink _ => split_on nl raw
                     | MenuSink => split_on nl (join_with [nl] ents)
                     end)
                    sk raw
                    (len (b_next_sel b) + 1 + len (b_next_title b))
                    (if b_prev_avail b then len (b_prev_sel b) + 1 + len (b_prev_title b) else 0))
          | _, _, _, _, _ => None
          end
        end
      end
    end
  | _, _ => None
  end.

(* find the browse entries and the sink text shown by an output *)
Definition decode_with (ex : expect) (out : bytes) (nx pv : bool) : option bytes :=
  let post := ex_post ex ++ menu_part (ex_entries ex ++ (if nx then [ex_next ex] else []) ++ (if pv then [ex_prev ex] else [])) in
  if is_prefix (ex_pre ex) out && is_suffix post out && (len (ex_pre ex) + len post <=? len out)
  then Some (take (len out - len (ex_pre ex) - len post) (drop (len (ex_pre ex)) out))
  else None.

Definition decode (ex : expect) (out : bytes) : option (bool * bool * bytes) :=
  let pvc := negb (len (ex_prev ex) =? 0) in   (* is a 'previous' entry configured at all *)
  match (if pvc then decode_with ex out true true else None) with Some x => Some (true, true, x) | None =>
  match decode_with ex out true false with Some x => Some (true, false, x) | None =>
  match (if pvc then decode_with ex out false true else None) with Some x => Some (false, true, x) | None =>
  match decode_with ex out false false with Some x => Some (false, false, x) | None => None
  end end end end.

Definition shown_rows (ex : expect) (x : bytes) : option (list bytes) :=
  match ex_kind ex with
  | NoSink => match x with [] => Some [] | _ => None end
  | _ => Some (split_on nl x)
  end.

(* walk: Some (n, rows shown, outcomes for idx >= n) or None when the walk breaks *)
Fixpoint c02_walk (ex : expect) (i : N) (outs : list (res bytes)) (acc : list bytes)
  : option (N * list bytes * list (res bytes)) :=
  match outs with
  | [] => None (* "next" still offered on the last observed page *)
  | Ok out :: rest =>
    match decode ex out with
    | Some (nx, pv, x) =>
      match shown_rows ex x with
      | Some rows =>
        if Bool.eqb pv ((0 <? i) && negb (len (ex_prev ex) =? 0)) then
          (if nx then c02_walk ex (i + 1) rest (acc ++ rows) else Some (i + 1, acc ++ rows, rest))
        else None
      | None => None
      end
    | None => None (* static parts missing or altered *)
    end
  | _ :: _ => None (* an offered page does not render *)
  end.

(* the runs of a walk case: run i is a fresh page with the single operation Render i *)
Fixpoint walk_outs (i : N) (runs : list rrun) : option (list (res bytes)) :=
  match runs with
  | [] => Some []
  | r :: rest =>
    match ru_steps r with
    | [(RRender j, ob)] =>
      if (i =? j) && forallb (fun b => b) (ru_maps r)
      then option_map (cons (ro_out ob)) (walk_outs (i + 1) rest) else None
    | _ => None
    end
  end.

Definition sized (cfg : rcfg) : option N :=
  match rc_size cfg with Some n => if (0 <? n) && negb (rc_late cfg) then Some n else None | None => None end.

(* C02 applies to: walk cases on a VM-shaped page (menu attached, sizer attached before the
   Maps, output size > 0, the 'next' entry configured - 'previous' is then expected exactly when it is
   configured too -, non-empty separator), whose template
   resolves, parses inside the fragment and mentions the sink exactly once, whose labels
   resolve, and whose page 0 renders.  Everything else is correspondence-only. *)
Definition c02_ok (rc : rcase) : bool :=
  match sized (rc_cfg rc), expectation (rc_cfg rc), walk_outs 0 (rc_runs rc) with
  | Some _, Some ex, Some outs =>
    if existsb is_panic outs then false else
    match outs with
    | Ok _ :: _ =>
      match c02_walk ex 0 outs [] with
      | Some (n, rows, rest) =>
        lists_eqb rows (ex_rows ex) && (2 <=? len rest) && forallb is_err rest
      | None => false
      end
    | _ => true
    end
  | _, _, _ => true
  end.

Definition maxlen (vs : list bytes) : N := fold_right (fun v m => N.max (len v) m) 0 vs.

(* space left for sink rows and browse entries on this case's pages *)
Definition remaining_of (size : N) (ex : expect) : N :=
  size - (len (ex_pre ex) + len (ex_post ex) + len (menu_part (ex_entries ex))).

Definition budget_ok_case (size : N) (ex : expect) : bool :=
  len (ex_next ex) + len (ex_prev ex) + 4 + maxlen (ex_rows ex) <=? remaining_of size ex.

(* 1 = K-C02-emptyrow, 3 = K-C02-nul, 4 = K-C02-labelsize (Menu.Sizes measures the raw label
   with ":" but the page shows the resolved label with the configured separator),
   2 = K-C02-budget (budget_ok fails), 0 = none of these *)
Definition c02_class (rc : rcase) : N :=
  match sized (rc_cfg rc), expectation (rc_cfg rc) with
  | Some size, Some ex =>
    if has_empty_row (ex_rows ex) then 1
    else if has_nul_row (ex_rows ex) then 3
    else if negb ((len (ex_next ex) =? ex_mnext ex) && (len (ex_prev ex) =? ex_mprev ex)) then 4
    else if negb (budget_ok_case size ex) then 2
    else 0
  | _, _ => 0
  end.

Definition render_violations_c02 (cs : list rcase) : list (N * N) :=
  map (fun i => (i, match nth_error cs (N.to_nat i) with Some rc => c02_class rc | None => 0 end))
      (bad_indices c02_ok cs).

(* ---- C01, page level ------------------------------------------------------------- *)
Definition render_outs (rc : rcase) : list (res bytes) :=
  flat_map (fun r => flat_map (fun s => match fst s with RRender _ => [ro_out (snd s)] | _ => [] end) (ru_steps r))
           (rc_runs rc).

Definition fits (rc : rcase) : bool :=
  match rc_size (rc_cfg rc) with
  | Some n => if 0 <? n then forallb (fun o => match o with Ok out => len out <=? n | _ => true end) (render_outs rc)
              else true
  | None => true
  end.

Fixpoint is_infix_rows (rows vs : list bytes) : bool :=
  lists_eqb (firstn (List.length rows) vs) rows
  || match vs with [] => false | _ :: vs' => is_infix_rows rows vs' end.

(* an Ok page is complete: all static parts are there and the sink text is a run of WHOLE rows
   (compared after the NUL -> LF display mapping); without a sizer the whole value is shown *)
Definition not_shortened (cfg : rcfg) (ex : expect) (out : bytes) : bool :=
  match ex_kind ex, rc_size cfg with
  | MenuSink, None => true (* without a sizer MSINK has no effect; `expectation` describes the sized page *)
  | _, _ =>
  match decode ex out with
  | Some (_, _, x) =>
    match ex_kind ex, rc_size cfg with
    | NoSink, _ => match x with [] => true | _ => false end
    | SymSink _, None => bytes_eqb x (ex_raw ex)
    | _, _ => is_infix_rows (split_on nl x) (split_on nl (nul_to_lf (join_with [nl] (ex_rows ex))))
    end
  | None => false
  end
  end.

(* the shape check is made on the first render of a fresh page (walk cases) *)
Definition c01_ok (rc : rcase) : bool :=
  fits rc
  && match expectation (rc_cfg rc), walk_outs 0 (rc_runs rc) with
     | Some ex, Some outs =>
       if rc_late (rc_cfg rc) then true else
       forallb (fun o => match o with Ok out => not_shortened (rc_cfg rc) ex out | _ => true end) outs
     | _, _ => true
     end.

Definition render_violations_c01 (cs : list rcase) : list (N * N) :=
  map (fun i => (i, 0)) (bad_indices c01_ok cs).
