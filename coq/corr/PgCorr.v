(* PgCorr.v — correspondence cases for db/postgres/pg.go over go/fakepg, and the C13 monitor
   applied to the OBSERVED behaviour. *)
From Vise Require Import Bytes Errors PgTx CorrBase.
Local Open Scope N_scope.

(* short constructor used by the harness printer *)
Definition ev (k : pkind) (id flag : N) : pev := mkEv k id flag.

Record pgcase := mkPgCase {
  pc_cfg : pcfg;
  pc_init : list (bytes * bytes);   (* committed before the history (Server.Seed) *)
  pc_ops : list pop;
  pc_orc : list bool;      (* fault script given to the fake *)
  pc_obs : list pobs       (* per operation: result class/value, OpenTx, committed map, driver log *)
}.

Definition pkind_eqb (a b : pkind) : bool :=
  match a, b with
  | KBegin, KBegin | KExec, KExec | KQuery, KQuery | KNext, KNext | KScan, KScan
  | KCommit, KCommit | KRollback, KRollback | KClose, KClose => true
  | _, _ => false
  end.
Definition pev_eqb (a b : pev) : bool :=
  pkind_eqb (ev_kind a) (ev_kind b) && (ev_tx a =? ev_tx b) && (ev_flag a =? ev_flag b).

Definition pobs_eqb (a b : pobs) : bool :=
  pres_eqb (o_res a) (o_res b) && (o_open a =? o_open b) && kv_eqb (o_comm a) (o_comm b)
  && list_eqb pev_eqb (o_evs a) (o_evs b).

(* model vs implementation: every observable of every step *)
Definition pg_corr_ok (pc : pgcase) : bool :=
  list_eqb pobs_eqb (pg_run (pc_cfg pc) (pc_init pc) (pc_ops pc) (pc_orc pc)) (pc_obs pc)
  && (len (pc_obs pc) =? len (pc_ops pc)).

Definition pg_mismatches (cs : list pgcase) : list N := bad_indices pg_corr_ok cs.

(* the C13 monitor on what the real code did *)
Definition pg_obs_checks (pc : pgcase) : list mcheck := mon_run (pc_cfg pc) (m_init (pc_cfg pc) (pc_init pc)) (pc_ops pc) (pc_obs pc).
Definition c13_ok (pc : pgcase) : bool := c13_full (pg_obs_checks pc).

(* Classification of the failing steps of a case (only if the real code behaved exactly as the
   faithful model predicts; otherwise class 0 = unknown).
   class 1 = K-C13-stickymulti: a hygiene/recovery demand fails at a step at or after the first step
     inside the guard (a single operation issued after some Start had succeeded and outside an
     explicit transaction);
   class 4 = K-C13-dumpswallow: the fault-is-reported demand fails at a Dump in which a fault fired
     at or after its deferred Commit (the Commit error is dropped, a failed fetch/Scan silently ends
     the iteration).
   (class 2 was K-C13-trfetch, repaired by 8748493; class 3 was K-C13-dumpleak, repaired by f3dc6ab;
   the numbers are not reused.) *)
Definition step_classes (k : mcheck) : list N :=
  (if k_fault k then [] else [if k_dsw k then 4 else 0])
  ++ (if k_hyg k && k_rec k then [] else [if k_hit k then 1 else 0]).
Definition mem_n (x : N) (l : list N) : bool := existsb (N.eqb x) l.
Definition pg_classes (pc : pgcase) : list N :=
  let cl := flat_map step_classes (pg_obs_checks pc) in
  if mem_n 0 cl || negb (pg_corr_ok pc) then [0]
  else filter (fun x => mem_n x cl) [1; 4].

Definition pg_violations (cs : list pgcase) : list (N * N) :=
  flat_map (fun i => map (fun cl => (i, cl))
                      (pg_classes (nth (N.to_nat i) cs (mkPgCase (mkCfg 0 0 [] None) [] [] [] []))))
           (bad_indices c13_ok cs).
