(* EngineKeptCorr.v — third way of serving a session: the application keeps the session's State
   and Cache objects in memory and hands them to a NEW engine object for every request
   (engine.NewEngine(cfg, rs).WithState(st).WithMemory(ca), no persister).

   Model: a new engine around the kept pair, with ensureState's branch for an explicit state
   (a CONFIGURED language is applied, with FLAG_LANG, only while the state has no language), then
   Exec and Flush as for the long-lived engine; the pair is whatever the engine left, saved or not
   (there is no Finish: the objects are shared with the application).

   The cases reuse ecase: ec_long is empty, ec_pers holds the observations of this mode. *)
From Vise Require Import Bytes Errors Consts Codec CacheModel StateModel NavModel RenderModel VmModel EngineModel CorrBase EngineCorr EngineMon.
Local Open Scope N_scope.

Definition kept_state (c : config) (st : state) : state :=
  match c_lang c, s_lang st with
  | _ :: _, None => setf (st_set_language lang_lookup st (c_lang c)) FLAG_LANG
  | _, _ => st
  end.
Definition kept_engine (c : config) (sc : snapshot) (w : list (bytes * N)) (lg : list ev) : engine :=
  new_engine c (Some (kept_state c (fst sc), snd sc)) w lg.

Definition request_kept (fuel : nat) (rs : rsrc) (c : config) (p : pworld) (input : bytes) : pworld * response :=
  let sc := match pw_store p with Some s => s | None => (new_state (c_flagcount c), fresh_cache c) end in
  let '(e, r) := request_long fuel rs c (kept_engine c sc (pw_w p) (pw_log p)) input in
  (mkPw (Some (snap_of (v_st (e_v e)) (v_ca (e_v e)))) (v_w (e_v e)) (v_log (e_v e)) (pw_taint p || v_taint (e_v e)), r).

Fixpoint corr_kept (rs : rsrc) (c : config) (p : pworld) (steps : list (bytes * eobs)) (k : N) : N :=
  match steps with
  | [] => 0
  | (input, o) :: steps' =>
    let lg0 := pw_log p in
    let '(p', r) := request_kept efuel rs c (untaint_p p) input in
    let tn := pw_taint p' && negb (exec_failed (r_exec r)) in
    if (tn && taint_stops c) || is_fuel (r_exec r) || is_ffuel (r_flush r) then 0 else
    if resp_ok_gen (negb tn) r (pw_store p') (new_events lg0 (pw_log p')) o
    then corr_kept rs c p' steps' (k + 1) else k
  end.
Definition kept_corr_ok (ec : ecase) : bool :=
  corr_kept (app_rsrc (ec_app ec)) (ec_cfg ec) (mkPw None [] [] false) (ec_pers ec) 1 =? 0.
Definition engine_mismatches_kept (cs : list ecase) : list N := bad_indices kept_corr_ok cs.

(* C18 on the observed behaviour of this mode: c18_steps (lookups carry the session's language, the
   first function call of a request carries the language the session had, a language is never
   lost) and, in addition, the language a session has selected changes only in a request that
   called some function (only a function result with LANG may change it) *)
Definition has_func_call (calls : list ocall) : bool :=
  existsb (fun c => match c with OcFunc _ _ _ => true | _ => false end) calls.
Fixpoint lang_stable (prev : option osnap) (steps : list (bytes * eobs)) : bool :=
  match steps with
  | [] => true
  | (_, o) :: r =>
    match eo_snap o with
    | Some os =>
      match prev with
      | Some p => match os_lang p with
                  | Some l => obytes_eqb (os_lang os) (Some l) || has_func_call (eo_calls o)
                  | None => true
                  end
      | None => true
      end && lang_stable (Some os) r
    | None => true
    end
  end.
(* c18_steps for this mode: the language a request starts in is the kept state's - or, while that
   has none, the configured one, which every new engine applies again (ensureState) *)
Definition start_lang (c : config) (p : osnap) : option bytes :=
  match os_lang p with
  | Some l => Some l
  | None => match c_lang c with [] => None | code => lang_lookup code end
  end.
Fixpoint c18_steps_kept (c : config) (prev : option osnap) (steps : list (bytes * eobs)) : N :=
  match steps with
  | [] => 0
  | (i, o) :: r =>
    match eo_snap o with
    | Some os =>
      let code_ok := match os_lang os with Some l => len l =? 3 | None => true end in
      let lookups_ok := code_ok && forallb (fun cl => match cl with
                                          | OcTpl _ l | OcMenu _ l => obytes_eqb l (os_lang os)
                                          | _ => true end) (eo_calls o) in
      let first_ok := match prev, first_func_lang (eo_calls o) with
                      | Some p, Some l => obytes_eqb l (start_lang c p) || obytes_eqb l (os_lang os)
                      | _, _ => true end in
      let lost := match prev with
                  | Some p => match os_lang p, os_lang os with Some _, None => true | _, _ => false end
                  | None => false end in
      if negb (lookups_ok && first_ok) then 2 else if lost then 1 else c18_steps_kept c (eo_snap o) r
    | None => 0
    end
  end.
Definition c18_kept_class (ec : ecase) : option N :=
  let b := c18_steps_kept (ec_cfg ec) None (ec_pers ec) in
  if (b =? 2) || negb (lang_stable None (ec_pers ec)) then Some 0
  else if b =? 1 then (if has_empty_lang (ec_app ec) (ec_cfg ec) then Some 1 else Some 0)
  else None.
Definition engine_violations_kept_c18 (cs : list ecase) : list (N * N) := classify c18_kept_class 0 cs.
