(* CorrBase.v — generic helpers for correspondence case files. *)
From Vise Require Import Bytes Errors.
Local Open Scope N_scope.

Definition outcome_eqb {A} (eqb : A -> A -> bool) (a b : outcome err A) : bool :=
  match a, b with
  | Ok x, Ok y => eqb x y
  | Err e, Err f => err_eqb e f
  | Panic _, Panic _ => true
  | _, _ => false
  end.

Fixpoint list_eqb {A} (eqb : A -> A -> bool) (a b : list A) : bool :=
  match a, b with
  | [], [] => true
  | x :: a', y :: b' => eqb x y && list_eqb eqb a' b'
  | _, _ => false
  end.

Definition pair_eqb {A B} (ea : A -> A -> bool) (eb : B -> B -> bool) (a b : A * B) : bool :=
  ea (fst a) (fst b) && eb (snd a) (snd b).

Definition option_eqb {A} (eqb : A -> A -> bool) (a b : option A) : bool :=
  match a, b with
  | Some x, Some y => eqb x y
  | None, None => true
  | _, _ => false
  end.

(* indices (from 0) of the elements for which ok is false *)
Fixpoint bad_from {A} (ok : A -> bool) (i : N) (l : list A) : list N :=
  match l with
  | [] => []
  | x :: l' => if ok x then bad_from ok (i + 1) l' else i :: bad_from ok (i + 1) l'
  end.
Definition bad_indices {A} (ok : A -> bool) (l : list A) : list N := bad_from ok 0 l.
