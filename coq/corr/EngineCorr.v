(* EngineCorr.v — correspondence cases for the engine-level model: a generated application,
   a configuration, a mode (long-lived engine / one engine per request over a store) and an
   input history with what the real engine did at every step. *)
From Vise Require Import Bytes Errors Consts EngConsts Codec CacheModel StateModel NavModel RenderModel VmModel EngineModel CorrBase.
Local Open Scope N_scope.

Inductive ostat : Type := OSOk | OSErr (e : err) | OSPanic.

Record osnap := mkOsnap {
  os_code : bytes;
  os_path : list bytes;
  os_idx : N;
  os_flags : bytes;
  os_lang : option bytes;
  os_csize : N;
  os_use : N;
  os_frames : list (list (bytes * bytes));   (* each sorted by key *)
  os_sizes : list (bytes * N);               (* sorted by key *)
  os_last : bytes
}.

Inductive ocall : Type :=
| OcFunc (sym : bytes) (lang : option bytes) (input : option bytes)
| OcCode (sym : bytes)
| OcTpl (sym : bytes) (lang : option bytes)
| OcMenu (sym : bytes) (lang : option bytes).

Record eobs := mkEobs {
  eo_cont : bool;
  eo_exec : ostat;
  eo_out : bytes;
  eo_flush : ostat;
  eo_snap : option osnap;     (* None: not observable (after a panic) *)
  eo_calls : list ocall       (* resource calls made during this request, in order *)
}.

(* one application and configuration, one input history, served twice by the real code:
   by one long-lived engine (until it reports stop) and by a new engine per request over a store *)
Record ecase := mkEcase {
  ec_app : app;
  ec_cfg : config;
  ec_long : list (bytes * eobs);
  ec_pers : list (bytes * eobs)
}.

Definition efuel : nat := 3000.

(* ---- projections of the model ------------------------------------------------------- *)
Definition ostat_of (s : stat) : ostat :=
  match s with SOk => OSOk | SErr e _ => OSErr e | SPanic _ => OSPanic | SFuel => OSPanic end.
Definition ostat_of_f (s : fstat) : ostat :=
  match s with FOk => OSOk | FErr e => OSErr e | FPanic _ => OSPanic | FFuel => OSPanic end.
Definition is_fuel (s : stat) : bool := match s with SFuel => true | _ => false end.
Definition is_ffuel (s : fstat) : bool := match s with FFuel => true | _ => false end.

Definition osnap_of (sn : snapshot) : osnap :=
  let '(s, c) := sn in
  mkOsnap (s_code s) (s_path s) (s_idx s) (flag_bytes (s_flags s)) (s_lang s)
          (c_size c) (c_use c) (map asort (c_frames c)) (asort (c_sizes c)) (c_last c).

Definition ostat_eqb (a b : ostat) : bool :=
  match a, b with
  | OSOk, OSOk | OSPanic, OSPanic => true
  | OSErr e, OSErr f => err_eqb e f
  | _, _ => false
  end.
Definition obytes_eqb := option_eqb bytes_eqb.
Definition osnap_eqb (a b : osnap) : bool :=
  bytes_eqb (os_code a) (os_code b) && list_eqb bytes_eqb (os_path a) (os_path b)
  && (os_idx a =? os_idx b) && bytes_eqb (os_flags a) (os_flags b) && obytes_eqb (os_lang a) (os_lang b)
  && (os_csize a =? os_csize b) && (os_use a =? os_use b)
  && list_eqb (list_eqb (pair_eqb bytes_eqb bytes_eqb)) (os_frames a) (os_frames b)
  && list_eqb (pair_eqb bytes_eqb N.eqb) (os_sizes a) (os_sizes b)
  && bytes_eqb (os_last a) (os_last b).

(* the calls the model predicts for the events of one request (oldest first): entry function
   calls and code fetches exactly; template/menu lookups are checked for their language *)
Definition firstn_rev_new (n : nat) (l : list ev) : list ev := rev (firstn n l).
Definition new_events (before after : list ev) : list ev :=
  firstn_rev_new (List.length after - List.length before) after.

Definition ocall_is_fc (c : ocall) : bool := match c with OcFunc _ _ _ | OcCode _ => true | _ => false end.
Fixpoint model_fc (es : list ev) : list ocall :=
  match es with
  | [] => []
  | EvFunc s l i :: r => OcFunc s l i :: model_fc r
  | EvCode s :: r => OcCode s :: model_fc r
  | _ :: r => model_fc r
  end.
Definition ocall_eqb (a b : ocall) : bool :=
  match a, b with
  | OcFunc s l i, OcFunc s' l' i' => bytes_eqb s s' && obytes_eqb l l' && obytes_eqb i i'
  | OcCode s, OcCode s' => bytes_eqb s s'
  | OcTpl s l, OcTpl s' l' => bytes_eqb s s' && obytes_eqb l l'
  | OcMenu s l, OcMenu s' l' => bytes_eqb s s' && obytes_eqb l l'
  | _, _ => false
  end.
Definition render_langs (es : list ev) : list (bytes * option bytes) :=
  List.concat (map (fun e => match e with EvRender s _ l => [(s, l)] | _ => [] end) es).
Definition lookups_ok (es : list ev) (calls : list ocall) : bool :=
  let rl := render_langs es in
  forallb (fun c => match c with
                    | OcTpl s l => existsb (fun p => bytes_eqb (fst p) s && obytes_eqb (snd p) l) rl
                    | OcMenu _ l => existsb (fun p => obytes_eqb (snd p) l) rl
                    | _ => true
                    end) calls.
Definition calls_ok (es : list ev) (calls : list ocall) : bool :=
  list_eqb ocall_eqb (model_fc es) (filter ocall_is_fc calls) && lookups_ok es calls.

Definition check_output : bool := true.
(* co = compare the output bytes too *)
Definition resp_ok_gen (co : bool) (r : response) (sn : option snapshot) (es : list ev) (o : eobs) : bool :=
  Bool.eqb (r_cont r) (eo_cont o)
  && ostat_eqb (ostat_of (r_exec r)) (eo_exec o)
  && (negb (check_output && co) || bytes_eqb (r_out r) (eo_out o))
  && (negb check_output || ostat_eqb (ostat_of_f (r_flush r)) (eo_flush o))
  && match eo_snap o, sn with
     | Some os, Some s => osnap_eqb (osnap_of s) os
     | None, _ => true
     | Some _, None => false
     end
  && calls_ok es (eo_calls o).
Definition resp_ok := resp_ok_gen true.


(* ---- running a case ------------------------------------------------------------------ *)
(* result: 0 = agrees on every step; k>0 = first disagreement at step k (1-based).
   Out of fuel: the comparison stops (as agreeing).  Tainted model (a Go error text the model does
   not spell out became the page's error prefix): without an output size the text can only change
   the output BYTES, so everything else - continue flag, statuses, the whole session snapshot, the
   resource calls - is still compared for the rest of the history; with an output size the text's
   length decides whether pages fit, and the comparison stops (as agreeing) *)
Definition taint_stops (c : config) : bool := negb (c_out c =? 0).
(* A text that became the error prefix in a request whose Exec then FAILED is never rendered: Flush
   refuses (nothing was executed) and the next request starts from a reset page (persisted: a new
   engine; long-lived: the harness ends the session, or the first loop iteration resets the page).
   Such a taint is without effect, so the taint is tracked per request and only counts when the
   request's Exec succeeded (the LOADFAIL path: the run goes on to _catch and the page, with the
   text, is rendered). *)
Definition exec_failed (s : stat) : bool := match s with SErr _ _ => true | _ => false end.
Definition untaint_v (v : vmst) : vmst := mkVm (v_st v) (v_ca v) (v_pg v) (v_w v) (v_log v) false.
Definition untaint_e (e : engine) : engine := eset_v e (untaint_v (e_v e)).
Definition untaint_p (p : pworld) : pworld := mkPw (pw_store p) (pw_w p) (pw_log p) false.
Fixpoint corr_long (rs : rsrc) (c : config) (e : engine) (steps : list (bytes * eobs)) (k : N) : N :=
  match steps with
  | [] => 0
  | (input, o) :: steps' =>
    let lg0 := v_log (e_v e) in
    let was := v_taint (e_v e) in
    let '(e', r) := request_long efuel rs c (untaint_e e) input in
    let tn := was || (v_taint (e_v e') && negb (exec_failed (r_exec r))) in
    let e' := if tn then e' else untaint_e e' in
    if (tn && taint_stops c) || is_fuel (r_exec r) || is_ffuel (r_flush r) then 0 else
    if resp_ok_gen (negb tn) r (Some (snap_of (v_st (e_v e')) (v_ca (e_v e')))) (new_events lg0 (v_log (e_v e'))) o
    then corr_long rs c e' steps' (k + 1) else k
  end.
(* ---- what the CBOR library does to a stored session (K-C07-utf8) ------------------------------------
   persist.Serialize writes Go strings (cache values and keys, LastValue, ExecPath entries, the language
   code) as CBOR TEXT strings without looking at them; fxamacker/cbor's decoder refuses a text string that
   is not valid UTF-8.  A stored session that holds such a string can therefore be saved but not loaded:
   Persister.Load fails, DefaultEngine.setupPersist takes the failure for "new session" and saves a fresh
   one over the record.  The engine model (request_persisted) knows nothing of encodings; the
   correspondence applies the library's behaviour around it: an undecodable record is no record. *)
Fixpoint valid_utf8 (b : bytes) : bool :=
  match b with
  | [] => true
  | x :: r =>
    if x <? 128 then valid_utf8 r
    else match r with
    | [] => false
    | y :: r2 =>
      let cont z := (128 <=? z) && (z <=? 191) in
      if (194 <=? x) && (x <=? 223) then cont y && valid_utf8 r2
      else match r2 with
      | [] => false
      | z :: r3 =>
        if x =? 224 then (160 <=? y) && (y <=? 191) && cont z && valid_utf8 r3
        else if ((225 <=? x) && (x <=? 236)) || (x =? 238) || (x =? 239) then cont y && cont z && valid_utf8 r3
        else if x =? 237 then (128 <=? y) && (y <=? 159) && cont z && valid_utf8 r3
        else match r3 with
        | [] => false
        | w :: r4 =>
          if x =? 240 then (144 <=? y) && (y <=? 191) && cont z && cont w && valid_utf8 r4
          else if (241 <=? x) && (x <=? 243) then cont y && cont z && cont w && valid_utf8 r4
          else if x =? 244 then (128 <=? y) && (y <=? 143) && cont z && cont w && valid_utf8 r4
          else false
        end
      end
    end
  end.
Definition snap_decodable (sn : snapshot) : bool :=
  let '(s, c) := sn in
  forallb valid_utf8 (s_path s)
  && match s_lang s with Some l => valid_utf8 l | None => true end
  && forallb (forallb (fun kv => valid_utf8 (fst kv) && valid_utf8 (snd kv))) (c_frames c)
  && forallb (fun kv => valid_utf8 (fst kv)) (c_sizes c)
  && valid_utf8 (c_last c).
Definition loadable (st : option snapshot) : option snapshot :=
  match st with Some sn => if snap_decodable sn then Some sn else None | None => None end.

Fixpoint corr_pers (rs : rsrc) (c : config) (p : pworld) (steps : list (bytes * eobs)) (k : N) : N :=
  match steps with
  | [] => 0
  | (input, o) :: steps' =>
    let lg0 := pw_log p in
    let p := mkPw (loadable (pw_store p)) (pw_w p) (pw_log p) (pw_taint p) in
    let '(p', r) := request_persisted efuel rs c (untaint_p p) input in
    (* every request has an engine of its own: a taint cannot outlive its request *)
    let tn := pw_taint p' && negb (exec_failed (r_exec r)) in
    if (tn && taint_stops c) || is_fuel (r_exec r) || is_ffuel (r_flush r) then 0 else
    (* the harness observes the stored session by loading it: an undecodable record shows as none *)
    if resp_ok_gen (negb tn) r (loadable (pw_store p')) (new_events lg0 (pw_log p')) o
    then corr_pers rs c p' steps' (k + 1) else k
  end.

(* The harness gives the long-lived engine an explicit State (engine.WithState) so that it can
   observe it.  ensureState's branch for an explicit state sets FLAG_LANG whenever a language is
   CONFIGURED, also when the code does not resolve (the nil-state branch, modelled by fresh_state,
   sets it only when it resolves).  The flag is consumed by the first instruction that runs. *)
Definition long_init (c : config) : engine :=
  let e := new_engine c None [] [] in
  match c_lang c, s_lang (v_st (e_v e)) with
  | _ :: _, None => eset_v e (vset_st (e_v e) (setf (v_st (e_v e)) FLAG_LANG))
  | _, _ => e
  end.

Definition engine_corr_at (ec : ecase) : N * N :=
  let rs := app_rsrc (ec_app ec) in
  (corr_long rs (ec_cfg ec) (long_init (ec_cfg ec)) (ec_long ec) 1,
   corr_pers rs (ec_cfg ec) (mkPw None [] [] false) (ec_pers ec) 1).
Definition engine_corr_ok (ec : ecase) : bool := let '(a, b) := engine_corr_at ec in (a =? 0) && (b =? 0).
Definition engine_mismatches (cs : list ecase) : list N := bad_indices engine_corr_ok cs.

(* debugging aid: what the model predicts for a case *)
Fixpoint model_trace_long (rs : rsrc) (c : config) (e : engine) (inputs : list bytes) : list (response * osnap * list ev * bool) :=
  match inputs with
  | [] => []
  | input :: r =>
    let lg0 := v_log (e_v e) in
    let '(e', resp) := request_long efuel rs c e input in
    (resp, osnap_of (snap_of (v_st (e_v e')) (v_ca (e_v e'))), new_events lg0 (v_log (e_v e')), v_taint (e_v e')) :: model_trace_long rs c e' r
  end.
Fixpoint model_trace_pers (rs : rsrc) (c : config) (p : pworld) (inputs : list bytes) : list (response * option osnap * list ev * bool) :=
  match inputs with
  | [] => []
  | input :: r =>
    let lg0 := pw_log p in
    let '(p', resp) := request_persisted efuel rs c p input in
    (resp, option_map osnap_of (pw_store p'), new_events lg0 (pw_log p'), pw_taint p') :: model_trace_pers rs c p' r
  end.

Definition engine_violations_eng (cs : list ecase) : list (N * N) := [].
Definition engine_first_bad (cs : list ecase) : list (N * (N * N)) :=
  List.concat (map (fun p => if engine_corr_ok (snd p) then [] else [(fst p, engine_corr_at (snd p))]) (combine (map N.of_nat (seq 0 (List.length cs))) cs)).
