(* VmRunCorr.v — correspondence and C15 monitor for Vm.Run on arbitrary (also malformed) bytecode.
   The real vm.NewVm(...).Run is called on a prepared state (flags, position, input) with a
   resource that answers a code fetch with HALT for _catch and with empty code otherwise; the case
   records what came back.  The resource also has one entry function ("lds"), and a case may name code
   that an EARLIER Run of the same machine executed (vr_pre): LOAD of an already cached symbol. *)
From Vise Require Import Bytes Errors Consts EngConsts Codec CacheModel StateModel NavModel RenderModel VmModel EngineModel CorrBase EngineCorr.
Local Open Scope N_scope.

Record vrcase := mkVr {
  vr_flags : list N;           (* built-in / client flags set before the run *)
  vr_input : option bytes;
  vr_path : list bytes;
  vr_code : bytes;
  vr_pre : bytes;              (* code of an EARLIER Run of the same Vm/state/cache (its outcome is not judged); [] = none *)
  vr_stat : ostat;             (* observed: nil / error class / panic *)
  vr_rest : bytes;             (* observed: remaining code returned by Run *)
  vr_oflags : bytes;           (* observed: State.Flags afterwards *)
  vr_opath : list bytes        (* observed: ExecPath afterwards *)
}.

(* resource.NewMenuResource() with a code getter that answers HALT for _catch and empty code for
   every other node; templates and labels empty, no function *)
Definition empty_rsrc : rsrc :=
  mkRsrc (fun sym => if bytes_eqb sym catch_sym then Ok (encode IHalt) else Ok []) (fun _ _ => Ok []) (fun _ _ => Ok []) (fun _ => None)
         (fun sym => s2b "unknown function: " ++ sym) false.

Fixpoint push_n (n : nat) (c : cache) : cache := match n with O => c | S k => push_n k (cache_push c) end.
Definition vr_init (c : vrcase) : vmst :=
  let st0 := new_state 4 in
  let st1 := fold_left (fun s f => setf s f) (vr_flags c) st0 in
  let st2 := set_input_raw (set_path_idx st1 (vr_path c) 0) (vr_input c) in
  mkVm st2 (push_n (List.length (vr_path c)) (new_cache 0)) (new_vm_page 0 []) [] [] false.

(* the driver's resource: empty_rsrc plus ONE entry function, "lds", answering "x" — so that a LOAD can
   succeed and a later LOAD of the same symbol finds it cached (Vm.runLoad's "skip already loaded symbol") *)
Definition lds_sym : bytes := s2b "lds".
Definition vr_rsrc : rsrc :=
  mkRsrc (rs_code empty_rsrc) (rs_tpl empty_rsrc) (rs_menu empty_rsrc)
         (fun sym => if bytes_eqb sym lds_sym then Some [mkFres (s2b "x") false 0 [] [] false] else None)
         (rs_nofunc empty_rsrc) false.

(* the machine the judged Run starts from: after the earlier Run, if there is one (cache, flags and
   position carried over; a fresh context, so no context language) *)
Definition vr_start (c : vrcase) : vmst * bool :=
  match vr_pre c with
  | [] => (vr_init c, false)
  | pre => let '(v, _, s) := run 3000 vr_rsrc [] None pre (vr_init c) in (v, is_fuel s)
  end.

Definition vr_model (c : vrcase) : vmst * bytes * stat := run 3000 vr_rsrc [] None (vr_code c) (fst (vr_start c)).

Definition vr_corr_ok (c : vrcase) : bool :=
  let '(v, b, s) := vr_model c in
  if is_fuel s || snd (vr_start c) then true else
  ostat_eqb (ostat_of s) (vr_stat c)
  && (match vr_stat c with
      | OSPanic => true
      | st =>
        (* the code handed back with an ERROR is whatever the failing parser returned: not compared
           (the engine drops it) *)
        (match st with OSOk => bytes_eqb b (vr_rest c) | _ => true end)
        && bytes_eqb (flag_bytes (s_flags (v_st v))) (vr_oflags c)
        && list_eqb bytes_eqb (s_path (v_st v)) (vr_opath c)
      end).

(* C15 on the observed behaviour: never a panic; when Run reports success and hands back a
   suffix of the code it was given, everything it consumed was a sequence of complete, valid
   instructions (success is never reported for code that ends inside an instruction or uses an
   undefined opcode) *)
Fixpoint consumed_ok (fuel : nat) (code : bytes) (rest_len : N) : bool :=
  match fuel with
  | O => false
  | S f =>
    if len code <=? rest_len then len code =? rest_len
    else match decode_one code with
         | Ok (INoop, _) => false
         | Ok (ICatch _ _ _, _) | Ok (ICroak _ _, _) => true   (* may replace the buffer: what follows is not judged *)
         | Ok (_, r) => consumed_ok f r rest_len
         | _ => false
         end
  end.
(* the same walk, telling whether a MOVE or an INCMP was passed before the walk failed: both append
   the target node's code AFTER the remaining code, so a truncated tail behind them is completed by
   the first bytes of that code and executed as whatever instruction results (K-C15-glue) *)
Fixpoint consumed_glued (fuel : nat) (code : bytes) (rest_len : N) (moved : bool) : bool :=
  match fuel with
  | O => false
  | S f =>
    if len code <=? rest_len then false
    else match decode_one code with
         | Ok (INoop, _) => false
         | Ok (ICatch _ _ _, _) | Ok (ICroak _ _, _) => false
         | Ok (IMove _, r) | Ok (IInCmp _ _, r) => consumed_glued f r rest_len true
         | Ok (_, r) => consumed_glued f r rest_len moved
         | _ => moved
         end
  end.
Fixpoint is_suffix_b (s l : bytes) : bool :=
  bytes_eqb s l || match l with [] => false | _ :: l' => is_suffix_b s l' end.
(* instructions that replace the code buffer (CATCH, CROAK) make the result no suffix: not judged.
   lf = also judge runs that started with LOADFAIL set (there runErrCheck turns ANY error, a decoding
   error included, into MOVE _catch with a nil error: K-C15-loadfail) *)
Definition vr_c15_gen (lf : bool) (c : vrcase) : bool :=
  match vr_stat c with
  | OSPanic =>
    (* a panic while EXECUTING a complete, valid instruction (flag index outside the configured flag
       count, State.Down) is C08's matter, not the decoder's: the model names the panic site *)
    match vr_model c with (_, _, SPanic n) => 20 <=? n | _ => false end
  | OSOk =>
    if is_suffix_b (vr_rest c) (vr_code c)
       && negb (getf (v_st (fst (vr_start c))) FLAG_TERMINATE)
       && (lf || negb (getf (v_st (fst (vr_start c))) FLAG_LOADFAIL))
    then consumed_ok (S (List.length (vr_code c))) (vr_code c) (len (vr_rest c)) else true
  | _ => true
  end.
Definition vr_c15_ok (c : vrcase) : bool := vr_c15_gen false c.
(* class 1 = K-C15-loadfail: the only failure is the swallowed decoding error of a run that started
   with LOADFAIL set; class 2 = K-C15-glue: the malformed tail lies behind a MOVE or INCMP of the same
   buffer *)
Definition vr_c15_class (c : vrcase) : option N :=
  if vr_c15_gen true c then None else if vr_c15_gen false c then Some 1
  else match vr_stat c with
       | OSOk => if consumed_glued (S (List.length (vr_code c))) (vr_code c) (len (vr_rest c)) false then Some 2 else Some 0
       | _ => Some 0
       end.

Definition vmrun_mismatches (cs : list vrcase) : list N := bad_indices vr_corr_ok cs.
Fixpoint vr_classify (i : N) (cs : list vrcase) : list (N * N) :=
  match cs with
  | [] => []
  | c :: r => match vr_c15_class c with
              | Some k => (i, k) :: vr_classify (i + 1) r
              | None => vr_classify (i + 1) r
              end
  end.
Definition vmrun_violations (cs : list vrcase) : list (N * N) := vr_classify 0 cs.
