(* DbCorr.v — correspondence cases for the storage backends and the monitors of C10 and C11.
   One case = one history run by the harness on mem, fs (text), fs (binary keys) and Postgres (fake
   server); an empty result list means "backend not run for this case". *)
From Vise Require Import Bytes Errors Consts DbKey DbModel CorrBase.
Local Open Scope N_scope.

Record dbcase := mkDbCase {
  dc_dir : list bytes;                      (* store directory below the model root *)
  dc_ops : list dbop;
  dc_mem : list dbres;
  dc_fst : list dbres;
  dc_fsb : list dbres;
  dc_pg : list dbres;
  dc_fst_files : list (bytes * bytes);      (* final files below the model root, sorted by path *)
  dc_fsb_files : list (bytes * bytes);
  dc_pg_rows : list (bytes * bytes)         (* final committed rows, sorted by key *)
}.

Definition kvs_eqb : list (bytes * bytes) -> list (bytes * bytes) -> bool := list_eqb (pair_eqb bytes_eqb bytes_eqb).

Definition dbres_eqb (a b : dbres) : bool :=
  match a, b with
  | DOk, DOk | DRefused, DRefused | DPanic, DPanic | DSkip, DSkip => true
  | DVal x, DVal y => bytes_eqb x y
  | DErr e, DErr f => err_eqb e f
  | DDump x, DDump y => kvs_eqb x y
  | DPaths x, DPaths y => list_eqb (option_eqb bytes_eqb) x y
  | _, _ => false
  end.

(* ---- model vs implementation ----------------------------------------------------------------- *)
Definition be_corr (be : backend) (c : dbcase) (obs : list dbres) (final : option (list (bytes * bytes))) : bool :=
  if is_nil obs && negb (is_nil (dc_ops c)) then true else
  let '(st, rs) := db_run be (db_init (dc_dir c)) (dc_ops c) in
  list_eqb dbres_eqb rs obs
  && match final with Some f => kvs_eqb (asort (d_store st)) f | None => true end.

Definition db_corr_ok (c : dbcase) : bool :=
  be_corr BMem c (dc_mem c) None
  && be_corr (BFs false) c (dc_fst c) (Some (dc_fst_files c))
  && be_corr (BFs true) c (dc_fsb c) (Some (dc_fsb_files c))
  && be_corr BPg c (dc_pg c) (Some (dc_pg_rows c)).

Definition db_mismatches (cs : list dbcase) : list N := bad_indices db_corr_ok cs.

(* ---- shared monitor machinery ---------------------------------------------------------------- *)
Definition is_derr (r : dbres) : bool := match r with DErr _ | DRefused => true | _ => false end.
Definition is_some {A} (o : option A) : bool := match o with Some _ => true | None => false end.
Definition is_get (o : dbop) : bool := match o with OGet _ => true | _ => false end.

(* names the fs backend derives for a key in a reference context: (primary names, legacy names) *)
Definition op_names (bin : bool) (b : base) (k : bytes) : list bytes * list bytes :=
  match fs_to_key bin (model_base b) k with
  | Ok lk =>
    let sks := lk_default lk :: match lk_translation lk with Some t => [t] | None => [] end in
    (map fs_name sks, map (fs_alt_name (b_pfx b)) sks)
  | _ => ([], [])
  end.

Fixpoint nodup_n (l : list N) : list N :=
  match l with [] => [] | x :: r => if existsb (N.eqb x) r then nodup_n r else x :: nodup_n r end.

(* the log of writes the implementation reported as successful, newest first: the reference map *)
Definition log_put (sp : spec) (k v : bytes) : spec :=
  mkSpec (sp_base sp) ((ctx_akey (sp_base sp) (eff_lang (sp_base sp)) k, v) :: sp_map sp).
(* context evolution (prefix, session, language, locks) *)
Definition ctx_step (sp : spec) (o : dbop) : spec :=
  match o with OPut _ _ => sp | _ => fst (spec_step sp o) end.

(* ---- C10: every backend is the same keyed map -------------------------------------------------- *)
Definition text_prefix_ok (p : bytes) : bool := forallb (fun x => is_alnum x || (x =? ch_us)) p.

(* the property's quantifier, per backend: documented types, dot-free session ids, three-letter
   language codes, well-formed keys (symbol grammar without language suffix on the text backends;
   any byte string in binary-key mode; on mem/pg any key for which the encoding is proved injective) *)
Definition c10_op_dom (be : backend) (b : base) (o : dbop) : bool :=
  match o with
  | OSetPrefix p => documented_type p
  | OSetSession s => dot_free s
  | OSetLanguage (Some c) => wf_lang c
  | OPut k _ | OGet k =>
    match be with
    | BFs true => bytes_ok k
    | BFs false => wf_key k
    | _ => key_ok b k
    end
  | ODump p =>
    match be with
    | BFs true => bytes_ok p
    | BFs false => text_prefix_ok p
    | _ => true
    end
  | _ => true
  end.
Fixpoint c10_dom (be : backend) (sp : spec) (ops : list dbop) : bool :=
  match ops with
  | [] => true
  | o :: r => c10_op_dom be (sp_base sp) o && c10_dom be (ctx_step sp o) r
  end.

Definition dump_same (l l' : list (bytes * bytes)) : bool :=
  kvs_eqb (asort l) (asort l').

(* Postgres Dump clears the handle's language (SetLanguage(nil)) before anything else *)
Definition pg_dump_ctx (sp : spec) : spec := mkSpec (set_language (sp_base sp) None) (sp_map sp).
(* C10 claims listing for the filesystem backend; a Postgres listing (prefix-bounded since the
   repair of dump.go) is judged in addition, in the states in which the listing theorem of the
   filesystem backend applies as well: documented type, a session id set exactly when the type is
   sessioned, no translation and no empty key stored for the type *)
Definition pg_dump_scope (sp : spec) : bool :=
  let b := sp_base sp in
  documented_type (b_pfx b)
  && (if sessioned (b_pfx b) then negb (is_nil (b_sid b)) else is_nil (b_sid b))
  && forallb (fun e : akey * bytes =>
       negb ((a_typ (fst e) =? b_pfx b) && (is_some (a_lang (fst e)) || is_nil (a_key (fst e))))) (sp_map sp).

(* what the property demands of one observed result; returns the advanced reference state *)
Definition c10_step (be : backend) (sp : spec) (o : dbop) (r : dbres) : spec * bool :=
  match r with DSkip => (ctx_step sp o, true) | _ =>
  match o with
  | OPut k v =>
    match snd (spec_put sp k v) with
    | DOk => match r with DOk => (log_put sp k v, true) | _ => (sp, false) end
    | _ => (sp, is_derr r)     (* locked, or type UNKNOWN: refused, nothing changes *)
    end
  | OGet k =>
    (sp, match spec_get sp k with
         | DVal v => dbres_eqb r (DVal v)
         | DErr ENotFound => dbres_eqb r (DErr ENotFound)
         | _ => is_derr r
         end)
  | OSetLock _ _ =>
    (ctx_step sp o, match snd (spec_step sp o) with DOk => dbres_eqb r DOk | _ => is_derr r end)
  | ODump p =>
    match be with
    | BFs _ =>
      (sp, match spec_listing sp p, r with
           | [], DErr ENotFound => true
           | l, DDump l' => dump_same l l'
           | _, _ => false
           end)
    | BPg =>
      let sp' := pg_dump_ctx sp in
      (sp', if pg_dump_scope sp' then
              match spec_listing sp' p, r with
              | [], DErr ENotFound => true
              | l, DDump l' => dump_same l l'
              | _, _ => false
              end
            else true)
    | BMem => (sp, true)   (* "unimplemented" *)
    end
  | OPaths _ | ODecode _ => (sp, true)
  | _ => (ctx_step sp o, dbres_eqb r DOk)
  end end.

(* finding classes of C10 (0 = none applies) *)
Definition c10_class (be : backend) (sp : spec) (o : dbop) : N :=
  match be with
  | BFs bin =>
    let b := sp_base sp in
    match o with
    | OGet k | OPut k _ =>
      let '(prim, alt) := op_names bin b k in
      if existsb (fun n => 255 <? len n) (prim ++ alt) then 6
      else if is_get o && existsb (fun a => negb (no_legacy_clash a)) alt then 1
      else if bin && negb (b64_slash_free k) then 2
      else if existsb (fun n => negb (name_plain n)) (prim ++ alt) then 7
      else 0
    | ODump p =>
      if bin then 3
      else if lang_type (b_pfx b)
              && (is_some (b_lang b)
                  || existsb (fun e => (a_typ (fst e) =? b_pfx b) && is_some (a_lang (fst e))) (sp_map sp)) then 4
      else if negb (sessioned (b_pfx b)) && negb (is_nil (b_sid b)) then 5
      else if sessioned (b_pfx b) && is_nil (b_sid b) then 8
      else 0
    | _ => 0
    end
  | _ => 0
  end.

Fixpoint c10_run (be : backend) (sp : spec) (ops : list dbop) (obs : list dbres) : list N :=
  match ops, obs with
  | o :: ops', r :: obs' =>
    let '(sp', ok) := c10_step be sp o r in
    (if ok then [] else [c10_class be sp o]) ++ c10_run be sp' ops' obs'
  | [], [] => []
  | _, _ => [0]   (* result list of the wrong length *)
  end.
Definition c10_backend (be : backend) (c : dbcase) (obs : list dbres) : list N :=
  if is_nil obs && negb (is_nil (dc_ops c)) then []
  else if negb (c10_dom be spec_init (dc_ops c)) then []
  else c10_run be spec_init (dc_ops c) obs.
Definition c10_classes (c : dbcase) : list N :=
  nodup_n (c10_backend BMem c (dc_mem c) ++ c10_backend (BFs false) c (dc_fst c)
           ++ c10_backend (BFs true) c (dc_fsb c) ++ c10_backend BPg c (dc_pg c)).

Fixpoint viol_from (f : dbcase -> list N) (i : N) (cs : list dbcase) : list (N * N) :=
  match cs with
  | [] => []
  | c :: r => map (fun k => (i, k)) (f c) ++ viol_from f (i + 1) r
  end.
Definition db_violations_c10 (cs : list dbcase) : list (N * N) := viol_from c10_classes 0 cs.

(* ---- C11: sessions and data types never see each other's data ---------------------------------- *)
Definition akey_name (bin : bool) (a : akey) : bytes :=
  fs_name (skey (a_typ a) (match a_sess a with Some s => s | None => [] end) (a_lang a)
                (if bin then b64_enc (a_key a) else a_key a)).
Definition odot (s : option bytes) : bool := match s with Some x => has_byte ch_dot x | None => false end.
Definition oempty (s : option bytes) : bool := match s with Some [] => true | _ => false end.

(* a value was returned to (or listed for) context b under key k although no write in b's own
   (type, session) produced it; w is the write it came from *)
Definition c11_class (be : backend) (b : base) (k : bytes) (w : option akey) : N :=
  let sr := if sessioned (b_pfx b) then Some (b_sid b) else None in
  let sw := match w with Some a => a_sess a | None => None end in
  let fsclass :=
    match be with
    | BFs bin =>
      let '(prim, alt) := op_names bin b k in
      if existsb (fun a => negb (no_legacy_clash a)) alt then 4
      else if existsb (fun n => negb (name_plain n))
                (prim ++ match w with Some a => [akey_name bin a] | None => [] end) then 3
      else 0
    | _ => 0
    end in
  if 0 <? fsclass then fsclass
  else if odot sr || odot sw then 1
  else if oempty sr || oempty sw then 2
  else 0.

Definition own_value (sp : spec) (v : bytes) : bool :=
  existsb (fun e => same_space (sp_base sp) (fst e) && bytes_eqb (snd e) v) (sp_map sp).
Definition writer_of (sp : spec) (v : bytes) : option akey :=
  match filter (fun e => bytes_eqb (snd e) v) (sp_map sp) with e :: _ => Some (fst e) | [] => None end.
Definition c11_value (be : backend) (sp : spec) (k v : bytes) : list N :=
  if own_value sp v then [] else [c11_class be (sp_base sp) k (writer_of sp v)].

Definition c11_step (be : backend) (sp : spec) (o : dbop) (r : dbres) : spec * list N :=
  match o, r with
  | OPut k v, DOk => (log_put sp k v, [])
  | OGet k, DVal v => (sp, c11_value be sp k v)
  | ODump _, DDump l => (sp, flat_map (fun kv => c11_value be sp (fst kv) (snd kv)) l)
  | _, _ => (ctx_step sp o, [])
  end.
Fixpoint c11_run (be : backend) (sp : spec) (ops : list dbop) (obs : list dbres) : list N :=
  match ops, obs with
  | o :: ops', r :: obs' => let '(sp', bad) := c11_step be sp o r in bad ++ c11_run be sp' ops' obs'
  | [], [] => []
  | _, _ => [0]
  end.
Definition c11_backend (be : backend) (c : dbcase) (obs : list dbres) : list N :=
  if is_nil obs && negb (is_nil (dc_ops c)) then [] else c11_run be spec_init (dc_ops c) obs.
Definition c11_classes (c : dbcase) : list N :=
  nodup_n (c11_backend BMem c (dc_mem c) ++ c11_backend (BFs false) c (dc_fst c)
           ++ c11_backend (BFs true) c (dc_fsb c) ++ c11_backend BPg c (dc_pg c)).
Definition db_violations_c11 (cs : list dbcase) : list (N * N) := viol_from c11_classes 0 cs.
