(* NavCorr.v — correspondence cases and C04 (component level) monitors for vm/input.go:applyTarget,
   vm/runner.go:Rewind, state/state.go navigation methods and the three input patterns. *)
From Vise Require Import Bytes Errors Consts CacheModel StateModel NavModel CorrBase NavProofs.
Local Open Scope N_scope.

(* how a call ended: error class (state.IndexError is the only sentinel) or panic *)
Inductive nres : Type := NOk | NErr (e : err) | NPanic.
Definition nres_eqb (a b : nres) : bool :=
  match a, b with
  | NOk, NOk | NPanic, NPanic => true
  | NErr e, NErr f => err_eqb e f
  | _, _ => false
  end.
Definition nres_of (r : stat) : nres :=
  match r with SOk => NOk | SErr e _ => NErr e | SPanic _ => NPanic | SFuel => NPanic end.

(* observation after one applyTarget call.  ExecPath is printed as (keep, tail): the first
   `keep` elements of the initial path followed by `tail` (navigation only changes the end of
   the stack, so this is the whole path, printed compactly for deep stacks). *)
Record nobs := mkNobs {
  no_sym : bytes;        (* returned symbol (ignored after a panic) *)
  no_ridx : N;           (* returned index  (ignored after a panic) *)
  no_res : nres;
  no_keep : N;
  no_tail : list bytes;
  no_sidx : N;           (* st.SizeIdx *)
  no_levels : N;         (* ca.Levels() *)
  no_code : bytes;       (* st.Code *)
  no_flags : bytes       (* st.Flags *)
}.

Inductive navcase : Type :=
(* initial ExecPath = `seeds` repeated cyclically to n elements, SizeIdx = idx, cache with
   `levels` frames; then the targets, one observation each *)
| NavSeq (seeds : list bytes) (n : N) (idx : N) (levels : N) (ts : list bytes) (obs : list nobs)
(* pattern checks: string, bit mask  1 inputRegex  2 symRegex  4 ctrlRegex (the compiled
   pattern strings themselves)  8 ValidInput  16 ValidSym  32 valid (VerifValidTarget) *)
| NavMatch (items : list (bytes * N)).

Fixpoint cycp_fuel (seeds cur : list bytes) (n : nat) : list bytes :=
  match n with
  | O => []
  | S n' =>
    match cur with
    | [] => match seeds with [] => [] | x :: r => x :: cycp_fuel seeds r n' end
    | x :: r => x :: cycp_fuel seeds r n'
    end
  end.
Definition cycp (seeds : list bytes) (n : N) : list bytes := cycp_fuel seeds seeds (N.to_nat n).

Fixpoint pushes (n : nat) (ca : cache) : cache :=
  match n with O => ca | S k => pushes k (cache_push ca) end.

(* the harness' initial state: NewState(8) with flags 3 and 9 set, Code = 00 01 *)
Definition init_code : bytes := [0; 1].
Definition init_flag_bytes : bytes := [8; 2].
Definition init_state (path : list bytes) (idx : N) : state :=
  mkState init_code path 16 idx (bits_of_bytes init_flag_bytes) None None.
(* cache.NewCache() has one frame; levels >= 1 *)
Definition init_cache (levels : N) : cache := pushes (N.to_nat (levels - 1)) (new_cache 0).

(* the (unused by every caller) index applyTarget returns next to the symbol *)
Definition where_idx (st : state) : N := match s_path st with [] => 0 | _ => s_idx st end.
Definition ret_idx (t : bytes) (st st' : state) (r : stat) : N :=
  let idx0 := where_idx st in
  if negb (valid_target_b t) then idx0 else
  match t with
  | [62] | [60] => match r with SOk => s_idx st' | _ => 0 end
  | [46] => where_idx st'
  | [95] | [94] => idx0      (* Up and Rewind do not refresh idx: the stale value is returned *)
  | _ => match r with SOk => 0 | _ => idx0 end
  end.

Definition obs_path (init : list bytes) (ob : nobs) : list bytes :=
  firstn (N.to_nat (no_keep ob)) init ++ no_tail ob.

Definition path_eqb : list bytes -> list bytes -> bool := list_eqb bytes_eqb.

(* model vs implementation, step by step *)
Fixpoint corr_steps (init : list bytes) (st : state) (ca : cache) (ts : list bytes) (obs : list nobs) : bool :=
  match ts, obs with
  | [], [] => true
  | t :: ts', ob :: obs' =>
    let '(st', ca', sym, r) := apply_target t st ca in
    nres_eqb (nres_of r) (no_res ob)
    && (match no_res ob with
        | NPanic => true
        | _ => bytes_eqb sym (no_sym ob) && (ret_idx t st st' r =? no_ridx ob)
        end)
    && path_eqb (s_path st') (obs_path init ob)
    && (s_idx st' =? no_sidx ob)
    && (cache_levels ca' =? no_levels ob)
    && bytes_eqb (s_code st') (no_code ob)
    && bytes_eqb (flag_bytes (s_flags st')) (no_flags ob)
    && corr_steps init st' ca' ts' obs'
  | _, _ => false
  end.

Definition bit (m k : N) : bool := N.odd (m / k).

Definition match_ok (it : bytes * N) : bool :=
  let '(s, m) := it in
  Bool.eqb (valid_input_b s) (bit m 1)
  && Bool.eqb (valid_input_b s) (bit m 8)
  && Bool.eqb (valid_sym_b s) (bit m 2 || bytes_eqb s catch_sym)
  && Bool.eqb (valid_sym_b s) (bit m 16)
  && Bool.eqb (valid_ctrl_b s) (bit m 4)
  && Bool.eqb (valid_target_b s) (bit m 32).

Definition nav_corr_ok (c : navcase) : bool :=
  match c with
  | NavSeq seeds n idx levels ts obs =>
    let init := cycp seeds n in
    corr_steps init (init_state init idx) (init_cache levels) ts obs
  | NavMatch items => forallb match_ok items
  end.

(* ---- C04 monitor on the OBSERVED behaviour ------------------------------------------ *)
Definition pos_eqb (a b : list bytes * N) : bool := path_eqb (fst a) (fst b) && (snd a =? snd b).

(* One step.  prev = (path, idx, levels) observed before the call.  Result: None = the step is
   what the move table says; Some 0 = unknown violation; Some 1 = "_" at the entry node that
   succeeded and left the empty stack (K-C04-up-at-entry), everything else as documented. *)
Definition step_class (init : list bytes) (ppath : list bytes) (pidx plevels : N) (t : bytes) (ob : nobs)
  : option N :=
  let path' := obs_path init ob in
  let keep_ok := bytes_eqb (no_code ob) init_code && bytes_eqb (no_flags ob) init_flag_bytes in
  let lock_ok := if plevels =? len ppath + 1 then no_levels ob + len ppath =? plevels + len path' else true in
  match no_res ob with
  | NOk =>
    if option_eqb pos_eqb (nav_spec (ppath, pidx) t) (Some (path', no_sidx ob))
       && bytes_eqb (no_sym ob) (last path' []) && lock_ok && keep_ok
    then None
    else if up_at_entry (ppath, pidx) t
            && pos_eqb (path', no_sidx ob) ([], 0) && bytes_eqb (no_sym ob) [] && lock_ok && keep_ok
    then None   (* "_" at the entry node: the stack is emptied and the engine-level request fails one
                   step later (GetCode "") -- read as the documented "fail and terminate execution";
                   C04_apply_target_exact states this row exactly *)
    else Some 0
  | _ =>
    (* a failed (or panicking) move leaves position and cache depth where they were *)
    if pos_eqb (path', no_sidx ob) (ppath, pidx) && (no_levels ob =? plevels) && keep_ok
    then None else Some 0
  end.

Fixpoint mon_steps (init : list bytes) (ppath : list bytes) (pidx plevels : N) (ts : list bytes) (obs : list nobs)
  : list N :=
  match ts, obs with
  | [], [] => []
  | t :: ts', ob :: obs' =>
    (match step_class init ppath pidx plevels t ob with Some k => [k] | None => [] end)
    ++ mon_steps init (obs_path init ob) (no_sidx ob) (no_levels ob) ts' obs'
  | _, _ => [0]
  end.

(* class of a case: none if every step is fine; 0 if any step is an unknown violation; else 1 *)
Definition case_class (c : navcase) : option N :=
  match c with
  | NavSeq seeds n idx levels ts obs =>
    let init := cycp seeds n in
    match mon_steps init init idx levels ts obs with
    | [] => None
    | ks => if existsb (N.eqb 0) ks then Some 0 else Some 1
    end
  | NavMatch _ => None
  end.

Fixpoint viol_from (i : N) (cs : list navcase) : list (N * N) :=
  match cs with
  | [] => []
  | c :: cs' => match case_class c with
                | Some k => (i, k) :: viol_from (i + 1) cs'
                | None => viol_from (i + 1) cs'
                end
  end.

Definition nav_mismatches (cs : list navcase) : list N := bad_indices nav_corr_ok cs.
Definition nav_violations (cs : list navcase) : list (N * N) := viol_from 0 cs.
