(* DbLangCorr.v — C18's monitor on the storage histories (the store side of "translation, else the
   default-language entry"): a Get of a language-scoped type (template, menu label, static value)
   must return what the C10 reference map holds for (type, session, language-or-default, key).
   Only Get steps of language-scoped types are judged, and only when no C10 finding class explains a
   deviation (those are reported under C10). *)
From Vise Require Import Bytes Errors Consts DbKey DbModel CorrBase DbCorr.
Local Open Scope N_scope.

Fixpoint c18_run (be : backend) (sp : spec) (ops : list dbop) (obs : list dbres) : list N :=
  match ops, obs with
  | o :: ops', r :: obs' =>
    let '(sp', ok) := c10_step be sp o r in
    (if ok || negb (is_get o) || negb (lang_type (b_pfx (sp_base sp))) || negb (c10_class be sp o =? 0)
     then [] else [0]) ++ c18_run be sp' ops' obs'
  | _, _ => []
  end.
Definition c18_backend (be : backend) (c : dbcase) (obs : list dbres) : list N :=
  if is_nil obs && negb (is_nil (dc_ops c)) then []
  else if negb (c10_dom be spec_init (dc_ops c)) then []
  else c18_run be spec_init (dc_ops c) obs.
Definition c18_db_classes (c : dbcase) : list N :=
  nodup_n (c18_backend BMem c (dc_mem c) ++ c18_backend (BFs false) c (dc_fst c)
           ++ c18_backend (BFs true) c (dc_fsb c) ++ c18_backend BPg c (dc_pg c)).
Definition db_violations_c18 (cs : list dbcase) : list (N * N) := viol_from c18_db_classes 0 cs.
