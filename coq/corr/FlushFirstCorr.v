(* FlushFirstCorr.v — C17, last sentence: "Asking for output before anything was executed is likewise
   refused without side effects".  The real Flush is called as the very FIRST operation on an engine
   object built in each of the supported ways; observed: error class / panic and the bytes written. *)
From Vise Require Import Bytes Errors Consts Codec CacheModel StateModel NavModel RenderModel VmModel EngineModel CorrBase EngineCorr.
Local Open Scope N_scope.

(* ff_kind: 0 = NewEngine alone (own state), 1 = WithPersister (new session), 2 = WithPersister (stored
   session), 3 = WithState + WithMemory; ff_again: the same Flush repeated *)
Record ffcase := mkFf { ff_kind : N; ff_cfg : config; ff_stat : ostat; ff_out : bytes; ff_stat2 : ostat; ff_out2 : bytes }.

Definition ff_model (c : config) : ostat * bytes :=
  let '(_, out, f) := eng_flush efuel (mkRsrc (fun _ => Ok []) (fun _ _ => Ok []) (fun _ _ => Ok []) (fun _ => None) (fun k => k) false) c (new_engine c None [] []) in
  (ostat_of_f f, out).
Definition ff_corr_ok (c : ffcase) : bool :=
  let '(s, o) := ff_model (ff_cfg c) in
  ostat_eqb s (ff_stat c) && bytes_eqb o (ff_out c) && ostat_eqb s (ff_stat2 c) && bytes_eqb o (ff_out2 c).
Definition ff_c17_ok (c : ffcase) : bool :=
  ostat_eqb (ff_stat c) (OSErr EFlushNoExec) && (len (ff_out c) =? 0)
  && ostat_eqb (ff_stat2 c) (OSErr EFlushNoExec) && (len (ff_out2 c) =? 0).
Definition flushfirst_mismatches (cs : list ffcase) : list N := bad_indices ff_corr_ok cs.
Definition flushfirst_violations (cs : list ffcase) : list (N * N) := map (fun i => (i, 0)) (bad_indices ff_c17_ok cs).
