(* StaticCorr.v — C18 for static LOAD symbols: resource.DbResource.DbFuncFor's STATICLOAD fallback
   (resource/db.go) on ONE resource object asked repeatedly, in different languages.

   One case = the raw store entries under DATATYPE_STATICLOAD (keys "sym", "sym_lng", "sym.txt",
   "sym.txt_lng") and a sequence of lookups (context language, symbol) with what the function
   FuncFor returned delivered (content, or an error class).
   Mismatch = ResModel.db_staticload (threaded through the sequence) disagrees.
   Violation = the answer is not, judged from the entries alone, the translation in the lookup's
   language if one is stored, else the default-language entry (first for the symbol, then for
   symbol ++ ".txt"), else not-found — whatever was looked up before on the same resource. *)
From Vise Require Import Bytes Errors Consts DbKey DbModel CorrBase ResModel.
Local Open Scope N_scope.

Record sqry := mkSq { sq_lang : option bytes; sq_sym : bytes; sq_obs : res bytes }.
Record stcase := mkSt { st_entries : list (bytes * bytes); st_qs : list sqry }.

Definition static_typs : N := N.lor res_default_typs DATATYPE_STATICLOAD.
Definition static_store (entries : list (bytes * bytes)) : dbstate :=
  fst (db_run BMem (db_init []) (unlock4 ++ OSetPrefix DATATYPE_STATICLOAD :: map put_op entries ++ [OSetLock 0 true])).

Definition resb_eqb : res bytes -> res bytes -> bool := outcome_eqb bytes_eqb.
Fixpoint static_run (st : dbstate) (qs : list sqry) : bool :=
  match qs with
  | [] => true
  | q :: r =>
    let '(st', o) := db_staticload st static_typs (sq_lang q) (sq_sym q) in
    resb_eqb o (sq_obs q) && static_run st' r
  end.
Definition static_corr_ok (c : stcase) : bool := static_run (static_store (st_entries c)) (st_qs c).

(* reference: the LAST entry stored under a key counts (Put overwrites) *)
Definition last_entry (k : bytes) (entries : list (bytes * bytes)) : option bytes := alookup k (rev entries).
Definition with_lang (k : bytes) (l : option bytes) : option bytes :=
  match l with Some (x :: c) => Some (k ++ ch_us :: x :: c) | _ => None end.
Definition tr_then_default (k : bytes) (l : option bytes) (entries : list (bytes * bytes)) : option bytes :=
  match match with_lang k l with Some kl => last_entry kl entries | None => None end with
  | Some v => Some v
  | None => last_entry k entries
  end.
Definition static_expect (q : sqry) (entries : list (bytes * bytes)) : res bytes :=
  match tr_then_default (sq_sym q) (sq_lang q) entries with
  | Some v => Ok v
  | None => match tr_then_default (sq_sym q ++ s2b ".txt") (sq_lang q) entries with
            | Some v => Ok v
            | None => Err ENotFound
            end
  end.
(* guard of the judgement: three-letter language codes, symbols without a language-suffix look-alike
   (the C10 key guard) *)
Definition static_in_scope (c : stcase) : bool :=
  forallb (fun q => match sq_lang q with Some l => len l =? 3 | None => true end) (st_qs c).
Definition static_c18_ok (c : stcase) : bool :=
  if negb (static_in_scope c) then true
  else forallb (fun q => resb_eqb (sq_obs q) (static_expect q (st_entries c))) (st_qs c).

Definition static_mismatches (cs : list stcase) : list N := bad_indices static_corr_ok cs.
Definition static_violations (cs : list stcase) : list (N * N) := map (fun i => (i, 0)) (bad_indices static_c18_ok cs).
