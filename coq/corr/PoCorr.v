(* PoCorr.v — correspondence cases for the PoResource model (driver `po`): one generated locale
   directory (real .po files written from the tables below), one real
   NewPoResource(default, dir).WithLanguage(...)... and a list of GetTemplate / GetMenu calls with
   the context language and what the call returned.  Written by agent `symbols`. *)
From Vise Require Import Bytes Errors PoModel CorrBase.
Local Open Scope N_scope.

Inductive pores : Type :=
| POk (s : bytes)
| PErr
| PPanic.

(* one call: context language (None = no "Language" value), symbol, menu?, observed *)
Record poreq := mkPoReq {
  pq_lang : option bytes;
  pq_sym : bytes;
  pq_menu : bool;
  pq_obs : pores
}.

Record pocase := mkPoCase {
  pc_tables : potables;     (* every file written, as the entries it holds (header under "") *)
  pc_dflt : bytes;          (* NewPoResource's language *)
  pc_regs : list bytes;     (* the WithLanguage calls *)
  pc_reqs : list poreq
}.

(* ---- model = observed ----------------------------------------------------------------------- *)
Definition po_req_ok (c : pocase) (q : poreq) : bool :=
  match pq_obs q with
  | POk s => bytes_eqb (po_get (pc_tables c) (pc_dflt c) (pc_regs c) (pq_lang q) (pq_sym q) (pq_menu q)) s
  | _ => false   (* GetTemplate / GetMenu return no error and do not panic *)
  end.
Definition po_corr_ok (c : pocase) : bool := forallb (po_req_ok c) (pc_reqs c).
Definition po_mismatches (cs : list pocase) : list N := bad_indices po_corr_ok cs.

(* ---- C18 on the observed behaviour, judged against the generated tables ----------------------- *)
(* written without po_table / po_getd / po_get: the entries of the file (l, d) that carry a
   NON-EMPTY translation of msgid k *)
Definition file_is (l : bytes) (d : pdom) (f : bytes * pdom * list (bytes * bytes)) : bool :=
  let '(l', d', _) := f in bytes_eqb l l' && pdom_eqb d d'.
Definition entries_of (t : potables) (l : bytes) (d : pdom) : list (bytes * bytes) :=
  match filter (file_is l d) t with
  | [] => []
  | (_, _, es) :: _ => es      (* the driver writes each file once *)
  end.
Definition translations_of (t : potables) (l : bytes) (d : pdom) (k : bytes) : list bytes :=
  map snd (filter (fun e => bytes_eqb (fst e) k && (0 <? len (snd e))) (entries_of t l d)).

Definition is_registered (c : pocase) (l : bytes) : bool :=
  bytes_eqb l (pc_dflt c) || existsb (bytes_eqb l) (pc_regs c).

(* the source string of a symbol: its (non-empty) entry in the default language's key domain, or
   the symbol itself *)
Definition ref_source (c : pocase) (sym : bytes) (menu : bool) : bytes :=
  match translations_of (pc_tables c) (pc_dflt c) (if menu then DKeyMenu else DKeyTpl) sym with
  | s :: _ => s
  | [] => sym
  end.

(* "the translation of the source string into the request language if one exists, else the
   default-language (source) string"; a context without language asks for the default language;
   a language without a registered locale has no translations *)
Definition c18_po_req_ok (c : pocase) (q : poreq) : bool :=
  match pq_obs q with
  | POk r =>
    let src := ref_source c (pq_sym q) (pq_menu q) in
    let l := match pq_lang q with Some l => l | None => pc_dflt c end in
    let trs := if is_registered c l then translations_of (pc_tables c) l DDefault src else [] in
    match trs with
    | tr :: _ => bytes_eqb r tr
    | [] => bytes_eqb r src
    end
  | _ => false
  end.

(* class 0: the only class (no finding is excused by this monitor) *)
Definition po_class (c : pocase) : option N :=
  if forallb (c18_po_req_ok c) (pc_reqs c) then None else Some 0.

Fixpoint classify_po (i : N) (cs : list pocase) : list (N * N) :=
  match cs with
  | [] => []
  | c :: r => match po_class c with
              | Some k => (i, k) :: classify_po (i + 1) r
              | None => classify_po (i + 1) r
              end
  end.
Definition po_violations (cs : list pocase) : list (N * N) := classify_po 0 cs.

(* ---- the stricter reading (wired in through po_violations_all; K-C18-po-defaultdomain) ---------- *)
(* "a lookup with no translation returns what a default-language session gets": a registered
   non-default language that has no translation of the source string must give the same string as
   the same call made in the default language.  Fails (class 2) exactly when the default language's
   own "default" domain rewrites the source string. *)
Definition obs_of (c : pocase) (l : option bytes) (sym : bytes) (menu : bool) : option bytes :=
  match filter (fun q => option_eqb bytes_eqb (pq_lang q) l && bytes_eqb (pq_sym q) sym && Bool.eqb (pq_menu q) menu) (pc_reqs c) with
  | q :: _ => match pq_obs q with POk r => Some r | _ => None end
  | [] => None
  end.
Definition c18_po_strict_req_ok (c : pocase) (q : poreq) : bool :=
  match pq_lang q, pq_obs q with
  | Some l, POk r =>
    if is_registered c l && negb (bytes_eqb l (pc_dflt c))
       && match translations_of (pc_tables c) l DDefault (ref_source c (pq_sym q) (pq_menu q)) with [] => true | _ => false end
    then match obs_of c (Some (pc_dflt c)) (pq_sym q) (pq_menu q) with
         | Some rd => bytes_eqb r rd
         | None => true      (* the default-language call was not made in this case *)
         end
    else true
  | _, _ => true
  end.
(* the default language's own "default" domain rewrites the source string of this request *)
Definition dflt_rewrites (c : pocase) (q : poreq) : bool :=
  let src := ref_source c (pq_sym q) (pq_menu q) in
  match translations_of (pc_tables c) (pc_dflt c) DDefault src with
  | tr :: _ => negb (bytes_eqb tr src)
  | [] => false
  end.
(* class 2 = K-C18-po-defaultdomain: every request failing the strict reading is one whose source
   string the default language's own default domain rewrites; any other failure is class 0 *)
Definition po_strict_class (c : pocase) : option N :=
  if forallb (c18_po_strict_req_ok c) (pc_reqs c) then None
  else if forallb (fun q => c18_po_strict_req_ok c q || dflt_rewrites c q) (pc_reqs c) then Some 2 else Some 0.
Fixpoint classify_po_strict (i : N) (cs : list pocase) : list (N * N) :=
  match cs with
  | [] => []
  | c :: r => match po_strict_class c with
              | Some k => (i, k) :: classify_po_strict (i + 1) r
              | None => classify_po_strict (i + 1) r
              end
  end.
Definition po_violations_strict (cs : list pocase) : list (N * N) := classify_po_strict 0 cs.

(* what the driver reports: the plain reading (class 0 only) and the strict one (class 2 or 0) *)
Definition po_violations_all (cs : list pocase) : list (N * N) := po_violations cs ++ po_violations_strict cs.
