(* SliceCorr.v — correspondence cases for C19 (harness drivers `alias` and `race`, go/cmd/vh_conc).

   CPrim: a schedule of trace-language operations executed by the harness on REAL Go slices, with exactly
     the Go statements the library uses (b = b[n:], b = append(b, code...), b = append([]byte{}, bh...),
     b = bh, st.Code = b, ...), for 2-4 sessions over shared resource arrays with spare capacity.
     Observed: what the stepping session can read after every step, the capacity of every array the Go
     runtime allocated (it becomes the model's growth oracle), the shared arrays afterwards, and the
     same sessions run alone.  Compared with model/SliceHeap.v step by step — schedules containing the
     pre-repair OpAdopt included: there the model must predict the interference.
   CApp: generated applications served by the REAL engine for 2-16 sessions that share nothing but the
     application's byte slices (allocated with spare capacity filled with a sentinel), interleaved on one
     goroutine along a generated schedule (driver alias) or concurrently, one goroutine per session
     (driver race; the schedule is then unknown: []).  Every session's observations are compared with
     EngineModel run for that session alone, configured with that session's own entry function (value semantics: what C19_vm_run_on_heap says the slice
     heap computes), the final shared arrays with the model's (C19_no_write_to_shared).
   Concurrent runs come in three deployment shapes (the kind tag of the case says which): plain; all sessions in
   state-debug mode; persisted sessions sharing ONE filesystem state directory through separate handles.
   Interleaved runs (driver alias) also come in the shape of a long-lived server: ONE persist.Persister created WithFlush and
   reused for every request of every session (kind app-shared-persister), sessions with a Config.Language of their own.
   The monitor looks at observations only: outputs, Finish/load success and the finally stored session equal those of the solo runs; shared arrays
   byte-identical to their initial content, sentinel region included; no session's st.Code ever
   overlapped a shared array. *)
From Vise Require Import Bytes Errors Consts EngConsts Codec CacheModel StateModel NavModel RenderModel VmModel EngineModel CorrBase EngineCorr SliceHeap.
Local Open Scope N_scope.

(* ---- primitive cases --------------------------------------------------------------------------------- *)
Record pcase := mkPcase {
  pc_tbl : list (list N * list N);        (* per node: code, spare capacity content *)
  pc_sched : list (N * op);
  pc_caps : list (N * N * N);             (* session, allocation number, capacity Go gave the new array *)
  pc_obs : list (list N * list N);        (* after each step: the stepping session's (b, st.Code) *)
  pc_final : list (list N);               (* the shared arrays afterwards, full capacity *)
  pc_solo : list (N * list (list N * list N))   (* per session: the same operations run alone *)
}.

Fixpoint cap_lookup (caps : list (N * N * N)) (sid k : N) : N :=
  match caps with
  | [] => 0
  | (s, i, c) :: r => if (s =? sid) && (i =? k) then c else cap_lookup r sid k
  end.
Definition pc_cfg (p : pcase) : scfg := mkScfg (fun sid k _ _ => cap_lookup (pc_caps p) sid k) (pc_tbl p).

Definition obs_eqb (a b : list N * list N) : bool := bytes_eqb (fst a) (fst b) && bytes_eqb (snd a) (snd b).

Definition shared_arrays (tbl : list (list N * list N)) (h : owner * N -> list N) : list (list N) :=
  map (fun k => h (OShared, N.of_nat k)) (seq 0 (List.length tbl)).
Definition initial_arrays (tbl : list (list N * list N)) : list (list N) := map (fun cs => fst cs ++ snd cs) tbl.

(* model vs observed *)
Definition prim_corr_ok (p : pcase) : bool :=
  let '(w, tr) := run_sched (pc_cfg p) (world_init (pc_tbl p)) (pc_sched p) in
  list_eqb obs_eqb (map te_obs tr) (pc_obs p)
  && list_eqb bytes_eqb (shared_arrays (pc_tbl p) (w_heap w)) (pc_final p)
  && forallb (fun so =>
       let '(_, tr1) := run_sched (pc_cfg p) (world_init (pc_tbl p)) (sched_of (fst so) (pc_sched p)) in
       list_eqb obs_eqb (map te_obs tr1) (snd so)) (pc_solo p).

(* monitor on the observations alone *)
Fixpoint obs_by_sid (sid : N) (sched : list (N * op)) (obs : list (list N * list N)) : list (list N * list N) :=
  match sched, obs with
  | (s, _) :: r, o :: ro => if s =? sid then o :: obs_by_sid sid r ro else obs_by_sid sid r ro
  | _, _ => []
  end.
Definition prim_mon_raw (p : pcase) : bool :=
  forallb (fun so => list_eqb obs_eqb (obs_by_sid (fst so) (pc_sched p) (pc_obs p)) (snd so)) (pc_solo p)
  && list_eqb bytes_eqb (pc_final p) (initial_arrays (pc_tbl p)).

(* schedules containing OpAdopt are not something the library does any more (the harness executes them to
   validate the model's aliasing semantics): the property is demanded of repaired schedules only *)
Definition prim_mon_ok (p : pcase) : bool := negb (sched_repaired (pc_sched p)) || prim_mon_raw p.

(* ---- application cases -------------------------------------------------------------------------------- *)
(* sr_fin: Finish succeeded and the stored session could be loaded afterwards (true for long-lived sessions) *)
Record sresp := mkSresp { sr_cont : bool; sr_exec : ostat; sr_out : list N; sr_flush : ostat; sr_fin : bool }.

(* one session of a run: how it is served and what was observed *)
Record sessobs := mkSessObs {
  so_pers : bool;                         (* one engine per request over a store (else one long-lived engine) *)
  so_first : option (list fres);          (* the script of ITS entry function (engine.WithFirst); differs from session to session *)
  so_lang : option (list N);              (* ITS Config.Language, when it differs from the case's configuration *)
  so_steps : list (list N * eobs)         (* (input, observation) in its own order *)
}.

Record acase := mkAcase {
  ac_app : app;
  ac_cfg : config;
  ac_spare : list N;                                   (* the sentinel bytes behind every shared slice *)
  ac_sess : list sessobs;
  ac_sched : list N;                                   (* which session each request of the run belonged to ([]: concurrent) *)
  ac_solo : list (list sresp);                         (* per session: its responses when served alone *)
  ac_final : list (list N);                            (* code arrays afterwards, full capacity, in a_code order *)
  ac_aliased : bool;                                   (* some session's st.Code overlapped a shared array *)
  ac_other_intact : bool;                              (* template / label arrays byte-identical afterwards *)
  ac_fin : list (list bool);                           (* per session, per request of the run: Finish and the load of the stored session succeeded *)
  ac_solo_final : list (option osnap)                  (* per session: its stored session (snapshot) at the end of its solo run *)
}.

Definition cfg_of_sess (c : config) (s : sessobs) : config :=
  mkCfg (c_out c) (c_root c) (c_flagcount c) (c_cachesize c)
        (match so_lang s with Some l => l | None => c_lang c end) (c_sep c) (c_reset_empty c) (so_first s).

Definition sess_corr_ok (a : app) (c0 : config) (s : sessobs) : bool :=
  let rs := app_rsrc a in
  let c := cfg_of_sess c0 s in
  if so_pers s then corr_pers rs c (mkPw None [] [] false) (so_steps s) 1 =? 0
  else corr_long rs c (new_engine c None [] []) (so_steps s) 1 =? 0.

Definition app_tbl (a : app) (spare : list N) : list (list N * list N) := map (fun kv => (snd kv, spare)) (a_code a).

Definition app_corr_ok (ac : acase) : bool :=
  forallb (sess_corr_ok (ac_app ac) (ac_cfg ac)) (ac_sess ac)
  && forallb (forallb (fun b => b)) (ac_fin ac)          (* the model's Finish never fails on a store nobody else writes to *)
  && list_eqb bytes_eqb (shared_arrays (app_tbl (ac_app ac) (ac_spare ac)) (res_heap (app_tbl (ac_app ac) (ac_spare ac)))) (ac_final ac).

Definition sresp_of (o : eobs) (fin : bool) : sresp := mkSresp (eo_cont o) (eo_exec o) (eo_out o) (eo_flush o) fin.
Definition sresp_eqb (a b : sresp) : bool :=
  Bool.eqb (sr_cont a) (sr_cont b) && ostat_eqb (sr_exec a) (sr_exec b)
  && bytes_eqb (sr_out a) (sr_out b) && ostat_eqb (sr_flush a) (sr_flush b) && Bool.eqb (sr_fin a) (sr_fin b).

Fixpoint sresps_of (steps : list (list N * eobs)) (fins : list bool) : list sresp :=
  match steps with
  | [] => []
  | (_, o) :: r => sresp_of o (match fins with f :: _ => f | [] => false end) :: sresps_of r (match fins with _ :: fr => fr | [] => [] end)
  end.
Fixpoint run_sresps (ss : list sessobs) (fins : list (list bool)) : list (list sresp) :=
  match ss with
  | [] => []
  | s :: r => sresps_of (so_steps s) (match fins with f :: _ => f | [] => [] end) :: run_sresps r (match fins with _ :: fr => fr | [] => [] end)
  end.

(* the session's stored state after its last request of the run *)
Definition last_snap (steps : list (list N * eobs)) : option osnap :=
  match rev steps with (_, o) :: _ => eo_snap o | [] => None end.

Definition app_mon_ok (ac : acase) : bool :=
  list_eqb (list_eqb sresp_eqb) (run_sresps (ac_sess ac) (ac_fin ac)) (ac_solo ac)
  && list_eqb (option_eqb osnap_eqb) (map (fun s => last_snap (so_steps s)) (ac_sess ac)) (ac_solo_final ac)
  && list_eqb bytes_eqb (ac_final ac) (initial_arrays (app_tbl (ac_app ac) (ac_spare ac)))
  && negb (ac_aliased ac) && ac_other_intact ac.

(* ---- cases ----------------------------------------------------------------------------------------------- *)
Inductive ccase : Type := CPrim (p : pcase) | CApp (a : acase).

Definition case_corr_ok (c : ccase) : bool := match c with CPrim p => prim_corr_ok p | CApp a => app_corr_ok a end.
Definition case_mon_ok (c : ccase) : bool := match c with CPrim p => prim_mon_ok p | CApp a => app_mon_ok a end.
Definition case_mon_raw (c : ccase) : bool := match c with CPrim p => prim_mon_raw p | CApp a => app_mon_ok a end.

Definition slice_mismatches (cs : list ccase) : list N := bad_indices case_corr_ok cs.
Definition slice_violations (cs : list ccase) : list (N * N) := map (fun i => (i, 0)) (bad_indices case_mon_ok cs).

(* self-test (prelude of every case file): executions in which a session's buffer IS a resource slice —
   CPrim schedules with OpAdopt (the pre-repair CATCH) and CApp runs in which the harness seeded st.Code
   with the resource's slice.  Each must be flagged by the monitor, and for CPrim the model must agree with
   what Go did (it predicts the interference); otherwise index (length cases) is reported as a mismatch. *)
Definition selftest_ok (c : ccase) : bool :=
  negb (case_mon_raw c) && match c with CPrim p => prim_corr_ok p | CApp _ => true end.
Definition selftest_flagged (st : list ccase) : nat := List.length (filter (fun c => negb (case_mon_raw c)) st).
Definition slice_mismatches_st (st : list ccase) (cs : list ccase) : list N :=
  slice_mismatches cs ++ (if forallb selftest_ok st && negb (Nat.eqb (List.length st) 0) then [] else [len cs]).
