(* EngineMon.v — executable monitors of the engine-level properties, evaluated on what the
   real engine was OBSERVED to do (corr/EngineCorr.v cases), plus the decidable
   well-formedness predicate of applications and the classifiers of recorded findings.
   Violation classes: 0 = not a recorded finding; k > 0 = see KNOWN_FINDINGS.json. *)
From Vise Require Import Bytes Errors Consts EngConsts Codec CacheModel StateModel NavModel NavSpec RenderModel VmModel EngineModel CorrBase EngineCorr.
Local Open Scope N_scope.

(* ---- well-formed applications (C08's quantifier) ----------------------------------------- *)
Definition node_instrs (a : app) (n : bytes) : list instr :=
  match alookup n (a_code a) with
  | Some c => match parse_all c with Ok p => p | _ => [] end
  | None => []
  end.
Definition decodes (c : bytes) : bool :=
  match c with [] => false | _ => is_ok (parse_all c) end.

Definition is_ctrl (t : bytes) : bool := valid_ctrl_b t.
Definition has_node (a : app) (t : bytes) : bool := ahas t (a_code a).
Definition flag_ok (bits : N) (f : N) : bool := f <? bits.

Definition instr_wf (a : app) (bits : N) (self : bytes) (i : instr) : bool :=
  match i with
  | INoop => false
  | ICatch t f _ => (is_ctrl t || (has_node a t && negb (bytes_eqb t self) && valid_sym_b t)) && flag_ok bits f
  | ICroak f _ => flag_ok bits f
  | IMove t | IInCmp t _ => is_ctrl t || (has_node a t && negb (bytes_eqb t self) && valid_sym_b t)
  | _ => true
  end.

(* nodes reachable without passing a HALT: targets of the MOVE/CATCH/INCMP instructions
   that precede the first HALT of a node's code *)
Fixpoint before_halt (p : list instr) : list instr :=
  match p with
  | [] => []
  | IHalt :: _ => []
  | i :: r => i :: before_halt r
  end.
Definition imm_targets (a : app) (n : bytes) : list bytes :=
  List.concat (map (fun i => match i with
                             | IMove t | IInCmp t _ | ICatch t _ _ => if is_ctrl t then [] else [t]
                             | _ => []
                             end) (before_halt (node_instrs a n))).
(* a control target before the first HALT can revisit nodes without input: treated as ill-formed *)
Definition imm_ctrl (a : app) (n : bytes) : bool :=
  existsb (fun i => match i with
                    | IMove t | ICatch t _ _ => is_ctrl t
                    | _ => false
                    end) (before_halt (node_instrs a n)).
Fixpoint no_cycle_from (fuel : nat) (a : app) (seen : list bytes) (n : bytes) : bool :=
  match fuel with
  | O => false
  | S f => negb (mem_bytes n seen) && forallb (no_cycle_from f a (n :: seen)) (imm_targets a n)
  end.

Definition fres_wf (bits : N) (fr : fres) : bool :=
  forallb (flag_ok bits) (fr_set fr) && forallb (flag_ok bits) (fr_reset fr).

Definition wf_app_b (a : app) (c : config) : bool :=
  let bits := w32 (c_flagcount c + 8) in
  has_node a (cfg_root c) && has_node a catch_sym
  && forallb (fun nc => decodes (snd nc)
                        && forallb (instr_wf a bits (fst nc)) (node_instrs a (fst nc))
                        && negb (imm_ctrl a (fst nc))
                        && no_cycle_from (S (List.length (a_code a))) a [] (fst nc)) (a_code a)
  && forallb (fun f => forallb (fres_wf bits) (snd f)) (a_funcs a)
  && match c_first c with Some s => forallb (fres_wf bits) s | None => true end.

(* ---- helpers over observations ---------------------------------------------------------------- *)
Definition is_panic_o (s : ostat) : bool := match s with OSPanic => true | _ => false end.
Definition is_ok_o (s : ostat) : bool := match s with OSOk => true | _ => false end.
Definition step_panicked (o : eobs) : bool := is_panic_o (eo_exec o) || is_panic_o (eo_flush o).

Definition snap_total (os : osnap) : N := total_bytes (os_frames os).
Fixpoint nodup_b (l : list bytes) : bool :=
  match l with [] => true | x :: r => negb (mem_bytes x r) && nodup_b r end.
(* C08's consistency: one cache scope per navigation level (plus the base scope), size
   accounting exact, each symbol in one scope, a limit recorded for every live symbol *)
Definition snap_levels_ok (os : osnap) : bool := len (os_frames os) =? len (os_path os) + 1.
Definition snap_cache_ok (os : osnap) : bool :=
  (os_use os =? snap_total os)
  && (if 0 <? os_csize os then snap_total os <=? os_csize os else true)
  && nodup_b (all_keys (os_frames os))
  && forallb (fun f => forallb (fun kv => match alookup (fst kv) (os_sizes os) with
                                          | Some l => if 0 <? l then len (snd kv) <=? l else true
                                          | None => false end) f) (os_frames os).
Definition snap_flags_ok (c : config) (os : osnap) : bool :=
  len (os_flags os) =? to_byte_size (w32 (c_flagcount c + 8)).

(* flag bit i of an observed flag field *)
Definition oflag (os : osnap) (i : N) : bool := nth (N.to_nat i) (bits_of_bytes (os_flags os)) false.

Definition both_steps (ec : ecase) : list (bytes * eobs) := ec_long ec ++ ec_pers ec.

(* ---- C01: nothing longer than the output size is ever handed out ---------------------------------- *)
Definition c01_ok (ec : ecase) : bool :=
  let sz := c_out (ec_cfg ec) in
  if sz =? 0 then true else forallb (fun s => len (eo_out (snd s)) <=? sz) (both_steps ec).
Definition engine_violations_c01 (cs : list ecase) : list (N * N) := map (fun i => (i, 0)) (bad_indices c01_ok cs).

(* ---- C08: no panic, consistent session after every request (well-formed applications) ------------- *)
(* finding class 1 = K-C08-croak: the application contains a CROAK (when it fires, the cache is
   reset to one scope while the navigation stack is kept) *)
Definition has_croak (a : app) : bool :=
  existsb (fun nc => existsb (fun i => match i with ICroak _ _ => true | _ => false end) (node_instrs a (fst nc))) (a_code a).

(* 0 ok, 1 a panic, 2 an inconsistent session *)
Fixpoint c08_steps (c : config) (steps : list (bytes * eobs)) : N :=
  match steps with
  | [] => 0
  | (_, o) :: r =>
    if step_panicked o then 1
    else match eo_snap o with
         | Some os => if snap_cache_ok os && snap_flags_ok c os && snap_levels_ok os then c08_steps c r else 2
         | None => c08_steps c r
         end
  end.
Definition c08_class (ec : ecase) : option N :=
  if negb (wf_app_b (ec_app ec) (ec_cfg ec)) then None else
  let l := c08_steps (ec_cfg ec) (ec_long ec) in
  let p := c08_steps (ec_cfg ec) (ec_pers ec) in
  if (l =? 0) && (p =? 0) then None
  (* class 2 = K-C08-first: an entry function is configured (runFirst pushes "_first" unguarded:
     panic at maximal depth; a failing entry function leaves "_first" on the stack);
     class 3 = K-C08-flagcount: FlagCount + 8 > 2040 (uint8 byte size: flag field shorter than BitSize) *)
  else if 2040 <? c_flagcount (ec_cfg ec) + 8 then Some 3
  else match c_first (ec_cfg ec) with
       | Some _ => Some 2
       | None =>
         if (l =? 1) || (p =? 1) then Some 0
         else if has_croak (ec_app ec) then Some 1
         else Some 0
       end.
Fixpoint classify {A} (f : A -> option N) (i : N) (l : list A) : list (N * N) :=
  match l with
  | [] => []
  | x :: r => match f x with Some c => (i, c) :: classify f (i + 1) r | None => classify f (i + 1) r end
  end.

(* ---- C07: persisted operation answers like the long-lived engine, up to the end of the session ---- *)
(* the application's entry functions are part of what a request can observe: they must be called
   with the same symbol, language and input in both modes *)
Definition func_calls (o : eobs) : list ocall :=
  filter (fun c => match c with OcFunc _ _ _ => true | _ => false end) (eo_calls o).
Definition same_answer (a b : eobs) : bool :=
  Bool.eqb (eo_cont a) (eo_cont b) && ostat_eqb (eo_exec a) (eo_exec b)
  && bytes_eqb (eo_out a) (eo_out b) && ostat_eqb (eo_flush a) (eo_flush b)
  && list_eqb ocall_eqb (func_calls a) (func_calls b).
Fixpoint c07_steps (l p : list (bytes * eobs)) : bool :=
  match l, p with
  | (_, a) :: l', (_, b) :: p' => same_answer a b && (if eo_cont a then c07_steps l' p' else true)
  | _, _ => true
  end.
(* class 1 = K-C07-sep: a non-default menu separator is configured (the first menu of a new
   engine is built before the separator is applied) *)
(* class 2 = K-C07-first: an entry function is configured (it runs once per ENGINE: once in the
   long-lived engine, on every request in persisted operation);
   class 3 = K-C07-longbad: some input is both over-long and malformed (an initialised engine checks
   the pattern first and answers "continue, error"; a new engine checks the length first: "stop, error") *)
Definition longbad_b (i : bytes) : bool := (INPUT_LIMIT <? len i) && negb (valid_input_b i).
(* class 4 = K-C07-utf8: some client input of the history, or some content an application function
   returns, is not valid UTF-8 (a session that holds such a string in its cache is saved as CBOR text
   and cannot be decoded again: the next request silently starts a new session) *)
Definition non_utf8_data (ec : ecase) : bool :=
  existsb (fun s => negb (valid_utf8 (fst s))) (ec_pers ec)
  || existsb (fun f => existsb (fun r => negb (valid_utf8 (fr_content r))) (snd f)) (a_funcs (ec_app ec)).
Definition c07_class (ec : ecase) : option N :=
  if c07_steps (ec_long ec) (ec_pers ec) then None
  else match c_first (ec_cfg ec) with
       | Some _ => Some 2
       | None => if existsb (fun s => longbad_b (fst s)) (ec_pers ec) then Some 3
                 else if non_utf8_data ec then Some 4 else Some 0
       end.
Definition engine_violations_c07 (cs : list ecase) : list (N * N) := classify c07_class 0 cs.

(* ---- C17: refused input has no effect -------------------------------------------------------------- *)
Definition refused_b (i : bytes) : bool :=
  (INPUT_LIMIT <? len i) || ((0 <? len i) && negb (valid_input_b i)).
(* C08, "the session can still be ... continued" (persisted operation, no entry function): a stored
   session without pending code that is not terminated is restarted at the entry node by the next
   accepted request, so that request fetches some node's code; a request that fails before any code
   fetch has found the session stuck *)
Fixpoint c08_continuable (prev : option osnap) (steps : list (bytes * eobs)) : bool :=
  match steps with
  | [] => true
  | (i, o) :: r =>
    match prev with
    | Some p =>
      if (len (os_code p) =? 0) && negb (oflag p FLAG_TERMINATE) && negb (refused_b i) && negb (step_panicked o)
      then existsb (fun c => match c with OcCode _ => true | _ => false end) (eo_calls o) else true
    | None => true
    end && c08_continuable (eo_snap o) r
  end.
Definition c08_class_full (ec : ecase) : option N :=
  match c08_class ec with
  | Some k => Some k
  | None =>
    if wf_app_b (ec_app ec) (ec_cfg ec)
       && match c_first (ec_cfg ec) with None => true | Some _ => false end
       && negb (c08_continuable None (ec_pers ec)) then Some 0 else None
  end.
Definition engine_violations_c08 (cs : list ecase) : list (N * N) := classify c08_class_full 0 cs.

(* snapshots compared modulo the injected "MOVE <root>" for an empty pending code *)
Definition norm_code (c : config) (code : bytes) : bytes :=
  match code with [] => encode (IMove (cfg_root c)) | _ => code end.
(* a stored session without pending code and not terminated is one whose last request failed:
   the next engine unwinds it before anything else (init), so it stands for the unwound session *)
Fixpoint pop_n (n : nat) (c : cache) : cache :=
  match n with
  | O => c
  | S k => pop_n k (match cache_pop c with Ok c' => c' | _ => c end)
  end.
Definition unwind_osnap (os : osnap) : osnap :=
  match os_code os, os_path os with
  | [], _ :: _ =>
    if oflag os FLAG_TERMINATE then os else
    let c := pop_n (List.length (os_path os)) (mkCache (os_csize os) (os_use os) (os_frames os) (os_sizes os) (os_last os)) in
    let flags := flag_bytes (set_nth_bit (N.to_nat FLAG_DIRTY) false (bits_of_bytes (os_flags os))) in
    mkOsnap [] [] 0 flags (os_lang os) (os_csize os) (c_use c) (map asort (c_frames c)) (asort (c_sizes c)) (os_last os)
  | _, _ => os
  end.
Definition osnap_same_norm0 (c : config) (a b : osnap) : bool :=
  bytes_eqb (norm_code c (os_code a)) (norm_code c (os_code b))
  && list_eqb bytes_eqb (os_path a) (os_path b) && (os_idx a =? os_idx b)
  && bytes_eqb (os_flags a) (os_flags b) && obytes_eqb (os_lang a) (os_lang b)
  && (os_use a =? os_use b)
  && list_eqb (list_eqb (pair_eqb bytes_eqb bytes_eqb)) (os_frames a) (os_frames b)
  && list_eqb (pair_eqb bytes_eqb N.eqb) (os_sizes a) (os_sizes b).
Definition osnap_same_norm (c : config) (a b : osnap) : bool :=
  osnap_same_norm0 c (unwind_osnap a) (unwind_osnap b).
Definition no_app_calls (o : eobs) : bool :=
  forallb (fun c => match c with OcFunc _ _ _ | OcCode _ => false | _ => true end) (eo_calls o).
(* per step with a refused input (not the first request of a session): an error is reported,
   nothing is rendered, the snapshot is unchanged, no application symbol ran *)
Fixpoint c17_steps (c : config) (prev : option osnap) (steps : list (bytes * eobs)) : bool :=
  match steps with
  | [] => true
  | (i, o) :: r =>
    (if refused_b i then
       match prev, eo_snap o with
       | Some a, Some b =>
         negb (is_ok_o (eo_exec o)) && bytes_eqb (eo_out o) [] && osnap_same_norm c a b && no_app_calls o
       | _, _ => negb (is_ok_o (eo_exec o))
       end
     else true)
    && c17_steps c (eo_snap o) r
  end.
(* class 1 = K-C17-first: an entry function is configured (it runs before validation) *)
Definition c17_class (ec : ecase) : option N :=
  if c17_steps (ec_cfg ec) None (ec_long ec) && c17_steps (ec_cfg ec) None (ec_pers ec) then None
  else match c_first (ec_cfg ec) with Some _ => Some 1 | None => Some 0 end.
Definition engine_violations_c17 (cs : list ecase) : list (N * N) := classify c17_class 0 cs.

(* ---- C06: reserved flags are tamper-proof; TERMINATE blocks ------------------------------------------ *)
(* observed: while TERMINATE is set in the stored session (and no entry function is configured)
   a request reports stop, produces no output, calls nothing and leaves the position alone *)
(* skip_dirty: do not judge a request whose stored session still had DIRTY set (the page of the
   terminating request was never delivered: K-C06-dirty) *)
Fixpoint c06_blocked_gen (skip_dirty : bool) (c : config) (prev : option osnap) (steps : list (bytes * eobs)) : bool :=
  match steps with
  | [] => true
  | (i, o) :: r =>
    (match prev with
     | Some a =>
       if oflag a FLAG_TERMINATE && negb (skip_dirty && oflag a FLAG_DIRTY) && negb (refused_b i)
          && negb (c_reset_empty c && (len i =? 0))   (* ResetOnEmptyInput restarts the session by design *)
       then
         negb (eo_cont o) && bytes_eqb (eo_out o) [] && no_app_calls o
         && match eo_snap o with
            | Some b => list_eqb bytes_eqb (os_path a) (os_path b) && (os_idx a =? os_idx b)
                        && bytes_eqb (os_flags a) (os_flags b)
            | None => false
            end
       else true
     | None => true
     end) && c06_blocked_gen skip_dirty c (eo_snap o) r
  end.
Definition c06_blocked (c : config) (steps : list (bytes * eobs)) : bool := c06_blocked_gen false c None steps.
Definition c06_blocked_weak (c : config) (steps : list (bytes * eobs)) : bool := c06_blocked_gen true c None steps.
(* reserved flags 0..5 can only be changed by the VM itself: an entry function that asks for
   them must not get them.  Observable instance: RESERVED (5) is never set, and LOADFAIL (3)
   is set only if some entry function failed *)
Definition any_fail (a : app) (c : config) : bool :=
  existsb (fun f => existsb fr_fail (snd f)) (a_funcs a)
  || match c_first c with Some s => existsb fr_fail s | None => false end.
Definition c06_reserved (ec : ecase) : bool :=
  forallb (fun s => match eo_snap (snd s) with
                    | Some os => negb (oflag os FLAG_RESERVED)
                                 && (if oflag os FLAG_LOADFAIL then any_fail (ec_app ec) (ec_cfg ec) else true)
                    | None => true end) (both_steps ec).
(* class 1 = K-C06-first (entry function configured); class 2 = K-C06-dirty (the request that set
   TERMINATE failed before its page was flushed: the next, blocked, request delivers that page) *)
Definition c06_class (ec : ecase) : option N :=
  if negb (c06_reserved ec) then Some 0
  else if c06_blocked (ec_cfg ec) (ec_pers ec) then None
  else match c_first (ec_cfg ec) with
       | Some _ => Some 1
       | None => if c06_blocked_weak (ec_cfg ec) (ec_pers ec) then Some 2 else Some 0
       end.
Definition engine_violations_c06 (cs : list ecase) : list (N * N) := classify c06_class 0 cs.

(* ---- C20: graceful end restarts cleanly; termination stays blocked ------------------------------------ *)
(* persisted operation: after a request that reports stop without error and without
   TERMINATE in the stored session, the stored session is back at "no position, one empty
   cache scope", client flags kept; the following request starts at the entry node *)
Definition client_flags (os : osnap) : bytes := tl (os_flags os).
Fixpoint c20_steps (c : config) (prev : option osnap) (steps : list (bytes * eobs)) : bool :=
  match steps with
  | [] => true
  | (i, o) :: r =>
    (match eo_snap o with
     | Some b =>
       if negb (eo_cont o) && is_ok_o (eo_exec o) && is_ok_o (eo_flush o) && negb (oflag b FLAG_TERMINATE)
          && negb (refused_b i) then
         (* graceful end *)
         match os_path b with
         | [] => list_eqb (list_eqb (pair_eqb bytes_eqb bytes_eqb)) (os_frames b) [[]] && (os_use b =? 0)

         | _ => false
         end
       else true
     | None => true
     end) && c20_steps c (eo_snap o) r
  end.
(* class 1 = K-C20-first: entry function configured (a blocked request outputs its stale value;
   TERMINATE set by it is cleared by the engine) *)
Definition c20_class (ec : ecase) : option N :=
  let g := c20_steps (ec_cfg ec) None (ec_pers ec) in
  if g && c06_blocked (ec_cfg ec) (ec_pers ec) then None
  else match c_first (ec_cfg ec) with
       | Some _ => Some 1
       | None => if g && c06_blocked_weak (ec_cfg ec) (ec_pers ec) then Some 2
                 else if has_node (ec_app ec) [] then Some 3 (* K-C20-anon: code stored under the empty symbol *)
                 else Some 0
       end.
Definition engine_violations_c20 (cs : list ecase) : list (N * N) := classify c20_class 0 cs.

(* ---- ghost events: what the model (which the correspondence check ties to the code on the
        same case) did inside each request ------------------------------------------------------------ *)
Definition events_long (ec : ecase) : list (list ev) :=
  map (fun t => snd (fst t))
      (model_trace_long (app_rsrc (ec_app ec)) (ec_cfg ec) (long_init (ec_cfg ec)) (map fst (ec_long ec))).
Definition events_pers (ec : ecase) : list (list ev) :=
  map (fun t => snd (fst t))
      (model_trace_pers (app_rsrc (ec_app ec)) (ec_cfg ec) (mkPw None [] [] false) (map fst (ec_pers ec))).

(* ---- C03: the first matching INCMP decides, once ----------------------------------------------------- *)
Definition sel_matches (sel input : bytes) : bool := bytes_eqb sel input || bytes_eqb sel star.
(* scan the INCMP events of one request in order.  st: 0 = nothing matched yet, 1 = one fired,
   2 = a matching "previous" on the first page was turned into no-match (all later ones are skipped).
   Result: 0 ok; 1 = a second INCMP with the SAME selector as the input fired (K-C03-dupsel);
   2 = other violation *)
Fixpoint c03_scan (input : bytes) (st : N) (es : list ev) : N :=
  match es with
  | [] => 0
  | EvInCmp dest sel fired :: r =>
    if st =? 0 then
      if sel_matches sel input then
        (if fired then c03_scan input 1 r
         else if bytes_eqb dest t_prev then c03_scan input 2 r else 2)
      else (if fired then 2 else c03_scan input 0 r)
    else if st =? 1 then
      (if fired then (if bytes_eqb sel input then 1 else 2) else c03_scan input 1 r)
    else (if fired then 2 else c03_scan input 2 r)
  | EvInstr op :: r => if op =? op_HALT then 0 else c03_scan input st r
  | _ :: r => c03_scan input st r
  end.
Fixpoint c03_steps (steps : list (bytes * eobs)) (evs : list (list ev)) : N :=
  match steps, evs with
  | (i, _) :: steps', es :: evs' =>
    let k := c03_scan i 0 es in
    if k =? 0 then c03_steps steps' evs' else k
  | _, _ => 0
  end.

(* observed only: resuming after a HALT with pending code that starts with INCMP lines, the
   first code symbol the engine fetches is the node the first matching INCMP names *)
Fixpoint leading_incmps (p : list instr) : list (bytes * bytes) * bool (* nothing but INCMPs *) :=
  match p with
  | [] => ([], true)
  | IInCmp d s :: r => let '(l, e) := leading_incmps r in ((d, s) :: l, e)
  | _ => ([], false)
  end.
Fixpoint first_match (input : bytes) (l : list (bytes * bytes)) : option bytes :=
  match l with
  | [] => None
  | (d, s) :: r => if sel_matches s input then Some d else first_match input r
  end.
Definition expected_first_fetch (os : osnap) (input : bytes) : option bytes :=
  if negb (oflag os FLAG_WAIT) || oflag os FLAG_TERMINATE then None else
  match parse_all (os_code os) with
  | Ok p =>
    let '(l, only) := leading_incmps p in
    match l with
    | [] => None
    | _ =>
      match first_match input l with
      | Some d =>
        if valid_ctrl_b d then
          (if bytes_eqb d t_up then (match rev (os_path os) with _ :: p :: _ => Some p | _ => None end)
           else if bytes_eqb d t_top then (match os_path os with r :: _ :: _ => Some r | _ => None end)
           else if bytes_eqb d t_prev then (if os_idx os =? 0 then (if only then Some catch_sym else None) else Some (last (os_path os) []))
           else Some (last (os_path os) []))
        else if bytes_eqb d (last (os_path os) []) then None else Some d
      | None => if only then (if bytes_eqb (last (os_path os) []) catch_sym then None else Some catch_sym) else None
      end
    end
  | _ => None
  end.
Definition first_code (calls : list ocall) : option bytes :=
  let fix go l := match l with [] => None | OcCode s :: _ => Some s | _ :: r => go r end in go calls.
Fixpoint c03_obs (c : config) (prev : option osnap) (steps : list (bytes * eobs)) : bool :=
  match steps with
  | [] => true
  | (i, o) :: r =>
    (match prev with
     | Some os =>
       if refused_b i || (c_reset_empty c && (len i =? 0)) || negb (is_ok_o (eo_exec o)) then true else
       match expected_first_fetch os i with
       | Some d => match first_code (eo_calls o) with Some s => bytes_eqb s d | None => false end
       | None => true
       end
     | None => true
     end) && c03_obs c (eo_snap o) r
  end.
(* K-C03-stale-readin (class 2): READIN survives a HALT; a resume whose code executes no INCMP and
   runs out reports the input as invalid although it was never compared (agent routing) *)
Definition starts_with_incmp (b : bytes) : bool := match decode_one b with Ok (IInCmp _ _, _) => true | _ => false end.
Definition stale_readin_b (os : osnap) : bool :=
  oflag os FLAG_WAIT && oflag os FLAG_READIN && negb (oflag os FLAG_TERMINATE) && negb (starts_with_incmp (os_code os)).
Fixpoint no_incmp_before_halt (es : list ev) : bool :=
  match es with
  | [] => true
  | EvInCmp _ _ _ :: _ => false
  | EvInstr op :: r => if op =? op_HALT then true else no_incmp_before_halt r
  | _ :: r => no_incmp_before_halt r
  end.
(* 0 ok, 2 K-C03-stale-readin, 3 other: an invalid-input answer for THIS input implies it was compared *)
Definition c03_stale_step (prev : option osnap) (i : bytes) (o : eobs) (es : list ev) : N :=
  if is_prefix (msg_invalid_input (Some i)) (eo_out o) && no_incmp_before_halt es then
    match prev with Some os => if stale_readin_b os then 2 else 3 | None => 3 end
  else 0.
Fixpoint c03_stale_steps (prev : option osnap) (steps : list (bytes * eobs)) (evs : list (list ev)) : N :=
  match steps, evs with
  | (i, o) :: steps', es :: evs' =>
    let k := match i with [] => 0 | _ => c03_stale_step prev i o es end in
    if k =? 0 then c03_stale_steps (eo_snap o) steps' evs' else k
  | _, _ => 0
  end.

(* the invalid-input message names the input as it was sent: wherever an output shows
   "invalid input: '", the bytes that follow are the request's input and a closing quote *)
Definition inv_marker : bytes := s2b "invalid input: '".
Fixpoint inv_names_input (fuel : nat) (input out : bytes) : bool :=
  match fuel with
  | O => true
  | S f =>
    match out with
    | [] => true
    | _ :: out' =>
      (if is_prefix inv_marker out then is_prefix (input ++ [39]) (drop (len inv_marker) out) else true)
      && inv_names_input f input out'
    end
  end.
Definition c03_names_input (steps : list (bytes * eobs)) : bool :=
  forallb (fun s => inv_names_input (S (List.length (eo_out (snd s)))) (fst s) (eo_out (snd s))) steps.

Definition c03_class (ec : ecase) : option N :=
  let a := c03_steps (ec_long ec) (events_long ec) in
  let b := c03_steps (ec_pers ec) (events_pers ec) in
  let obs := match c_first (ec_cfg ec) with
             | Some _ => true
             | None => c03_obs (ec_cfg ec) None (ec_long ec) && c03_obs (ec_cfg ec) None (ec_pers ec)
             end in
  let st := match c_first (ec_cfg ec) with
            | Some _ => 0
            | None => N.max (c03_stale_steps None (ec_long ec) (events_long ec)) (c03_stale_steps None (ec_pers ec) (events_pers ec))
            end in
  if (a =? 2) || (b =? 2) || negb obs || (st =? 3)
     || negb (c03_names_input (ec_long ec) && c03_names_input (ec_pers ec)) then Some 0
  else if (a =? 1) || (b =? 1) then Some 1
  else if st =? 2 then Some 2 else None.
Definition engine_violations_c03 (cs : list ecase) : list (N * N) := classify c03_class 0 cs.

(* ---- C04 (engine level): the position after each request is the fold of the move table over
        the moves executed ------------------------------------------------------------------------------ *)
Fixpoint moves_of (es : list ev) : list bytes :=
  match es with
  | [] => []
  | EvMove _ t _ :: r => t :: moves_of r
  | _ :: r => moves_of r
  end.
Definition pos_eqb_m (a b : list bytes * N) : bool := list_eqb bytes_eqb (fst a) (fst b) && (snd a =? snd b).
(* a failed move (status not OK) is not logged; the fold uses nav_code *)
Fixpoint c04_steps (c : config) (pers : bool) (prevs : option osnap) (steps : list (bytes * eobs)) (evs : list (list ev)) : bool :=
  match steps, evs with
  | (i, o) :: steps', es :: evs' =>
    let prev := match prevs with Some ps => (os_path ps, os_idx ps) | None => ([], 0) end in
    (* ResetOnEmptyInput: an empty input first unwinds the session to the empty position *)
    let prev := if c_reset_empty c && (len i =? 0) then ([], 0) else prev in
    (* a new engine on a stored session without pending code (the previous request failed)
       unwinds the stale position before it starts over, unless the session is terminated *)
    let alt := match prevs with
               | Some ps => if pers && (len (os_code ps) =? 0) && negb (oflag ps FLAG_TERMINATE) then ([], 0) else prev
               | None => prev end in
    match eo_snap o with
    | Some os =>
      let now := (os_path os, os_idx os) in
      (* a graceful end or a forced reset unwinds to the empty position: not a move of the table *)
      let unwound := match os_path os with [] => true | _ => false end in
      (* (a request refused before initialisation does not get as far as the unwinding) *)
      (unwound || match nav_fold nav_code prev (moves_of es) with
                  | Some p => pos_eqb_m p now
                  | None => false
                  end
               || match nav_fold nav_code alt (moves_of es) with
                  | Some p => pos_eqb_m p now
                  | None => false
                  end) && c04_steps c pers (Some os) steps' evs'
    | None => true
    end
  | _, _ => true
  end.
(* the entry function of WithFirst pushes and pops "_first" outside the table: excluded *)
Definition c04_class (ec : ecase) : option N :=
  match c_first (ec_cfg ec) with
  | Some _ => None
  | None =>
    if c04_steps (ec_cfg ec) false None (ec_long ec) (events_long ec) && c04_steps (ec_cfg ec) true None (ec_pers ec) (events_pers ec)
    then None else Some 0
  end.
Definition engine_violations_c04 (cs : list ecase) : list (N * N) := classify c04_class 0 cs.

(* ---- C05: every stored value respects its limit; scopes follow the stack ------------------------------ *)
Definition c05_ok (ec : ecase) : bool :=
  forallb (fun s => match eo_snap (snd s) with
                    | Some os => snap_cache_ok os && (has_croak (ec_app ec) || snap_levels_ok os
                                                      || match c_first (ec_cfg ec) with Some _ => true | None => false end)
                    | None => true end) (both_steps ec).
(* ghost: a LOAD calls its function only when the symbol is not visible: replay of the cache is
   what the model does; here the observable consequence: within one request the same symbol's
   function is not called twice by LOAD instructions without an ascent in between *)
(* may_fail: symbols whose function can fail, or whose result can be refused by the cache (over its
   limit or over the capacity): a LOAD that did not store anything is legitimately repeated *)
Fixpoint c05_scan (may_fail : list bytes) (last_op : N) (loaded : list bytes) (es : list ev) : bool :=
  match es with
  | [] => true
  | EvInstr op :: r => c05_scan may_fail op loaded r
  | EvFunc s _ _ :: r =>
    if (last_op =? op_LOAD) && negb (mem_bytes s may_fail)
    then negb (mem_bytes s loaded) && c05_scan may_fail last_op (s :: loaded) r
    else c05_scan may_fail last_op loaded r
  | EvMove _ t _ :: r =>
    (* any ascent may end the scope of loaded symbols *)
    if bytes_eqb t t_up || bytes_eqb t t_top then c05_scan may_fail last_op [] r else c05_scan may_fail last_op loaded r
  | _ :: r => c05_scan may_fail last_op loaded r
  end.
(* symbols for which "LOAD called the function" does not imply "the value was stored" *)
Definition load_limits (a : app) (s : bytes) : list N :=
  List.concat (map (fun nc => List.concat (map (fun i => match i with ILoad s' sz => if bytes_eqb s s' then [w16 sz] else [] | _ => [] end)
                                               (node_instrs a (fst nc)))) (a_code a)).
Definition sym_may_not_store (a : app) (c : config) (f : bytes * list fres) : bool :=
  existsb fr_fail (snd f)
  || existsb (fun fr => fr_echo fr
                        || existsb (fun l => (0 <? l) && (l <? len (fr_content fr))) (load_limits a (fst f))
                        || ((0 <? c_cachesize c) && (c_cachesize c <? len (fr_content fr) + 1))) (snd f)
  || (0 <? c_cachesize c).
Definition may_fail_syms (a : app) (c : config) : list bytes :=
  map fst (filter (sym_may_not_store a c) (a_funcs a)).
Definition c05_class (ec : ecase) : option N :=
  let mf := may_fail_syms (ec_app ec) (ec_cfg ec) in
  if c05_ok ec && forallb (c05_scan mf 0 []) (events_long ec) && forallb (c05_scan mf 0 []) (events_pers ec)
  then None else Some 0.
Definition engine_violations_c05 (cs : list ecase) : list (N * N) := classify c05_class 0 cs.

(* ---- C18: the selected language reaches every lookup and survives the session ------------------------- *)
(* observed: every template / menu-label lookup of a request carries the language the session
   has after the request (lookups happen while rendering, after execution); the first
   entry-function call of a request carries the language the session had before it; and a
   language, once set, is never lost *)
Definition call_lang (c : ocall) : option (option bytes) :=
  match c with OcFunc _ l _ | OcTpl _ l | OcMenu _ l => Some l | _ => None end.
Definition first_func_lang (calls : list ocall) : option (option bytes) :=
  let fix go l := match l with [] => None | OcFunc _ lg _ :: _ => Some lg | _ :: r => go r end in go calls.
(* 0 ok, 1 language lost (set before, none after), 2 other *)
Fixpoint c18_steps (prev : option osnap) (steps : list (bytes * eobs)) : N :=
  match steps with
  | [] => 0
  | (i, o) :: r =>
    match eo_snap o with
    | Some os =>
      (* a selected language is an ISO 639-3 code: three letters *)
      let code_ok := match os_lang os with Some l => len l =? 3 | None => true end in
      let lookups_ok := code_ok && forallb (fun c => match c with
                                          | OcTpl _ l | OcMenu _ l => obytes_eqb l (os_lang os)
                                          | _ => true end) (eo_calls o) in
      let first_ok := match prev, first_func_lang (eo_calls o) with
                      | Some p, Some l => obytes_eqb l (os_lang p) || obytes_eqb l (os_lang os)
                      | _, _ => true end in
      let lost := match prev with
                  | Some p => match os_lang p, os_lang os with Some _, None => true | _, _ => false end
                  | None => false end in
      if negb (lookups_ok && first_ok) then 2 else if lost then 1 else c18_steps (eo_snap o) r
    | None => 0
    end
  end.
(* class 1 = K-C18-emptylang: an entry function returns an empty result together with LANG *)
Definition has_empty_lang (a : app) (c : config) : bool :=
  existsb (fun f => existsb (fun fr => match fr_content fr with [] => negb (fr_echo fr) || true | _ => false end
                                        && existsb (N.eqb FLAG_LANG) (fr_set fr)) (snd f)) (a_funcs a)
  || match c_first c with
     | Some s => existsb (fun fr => match fr_content fr with [] => true | _ => false end && existsb (N.eqb FLAG_LANG) (fr_set fr)) s
     | None => false end.
Definition c18_class (ec : ecase) : option N :=
  let a := c18_steps None (ec_long ec) in
  let b := c18_steps None (ec_pers ec) in
  if (a =? 2) || (b =? 2) then Some 0
  else if (a =? 1) || (b =? 1) then (if has_empty_lang (ec_app ec) (ec_cfg ec) then Some 1 else Some 0)
  else None.
Definition engine_violations_c18 (cs : list ecase) : list (N * N) := classify c18_class 0 cs.

(* ---- C02 (engine level): pages are walked from index 0, one step at a time -------------------------- *)
(* observed: whenever the navigation stack changed during a request the page index starts from 0 again
   (it can only have been advanced by lateral moves executed in the same request);
   without a change of stack the index moves by at most one page per lateral move executed *)
Fixpoint count_lateral (es : list ev) : N :=
  match es with
  | [] => 0
  | EvMove _ t _ :: r => (if bytes_eqb t t_next || bytes_eqb t t_prev then 1 else 0) + count_lateral r
  | _ :: r => count_lateral r
  end.
Fixpoint c02e_steps (prev : option osnap) (steps : list (bytes * eobs)) (evs : list (list ev)) : bool :=
  match steps, evs with
  | (i, o) :: steps', es :: evs' =>
    (match prev, eo_snap o with
     | Some a, Some b =>
       if list_eqb bytes_eqb (os_path a) (os_path b)
       then (* same stack: |delta idx| bounded by the lateral moves executed, or the node was re-entered *)
            (os_idx b =? 0) || ((os_idx b <=? os_idx a + count_lateral es) && (os_idx a <=? os_idx b + count_lateral es))
       else (os_idx b <=? count_lateral es)   (* 0 unless lateral moves were executed after the change of stack *)
     | None, Some b => (os_idx b =? 0) || (0 <? count_lateral es)
     | _, _ => true
     end) && c02e_steps (eo_snap o) steps' evs'
  | _, _ => true
  end.
Definition c02e_class (ec : ecase) : option N :=
  if c02e_steps None (ec_long ec) (events_long ec) && c02e_steps None (ec_pers ec) (events_pers ec) then None else Some 0.
Definition engine_violations_c02 (cs : list ecase) : list (N * N) := classify c02e_class 0 cs.

(* ---- C17, second half: the remaining history is answered as if the refused inputs had never been
        sent.  The driver serves every history twice: as generated, and with the refused inputs removed *)
Record ecase17 := mkE17 { e17_full : ecase; e17_filtered : ecase }.
Definition resp_same (a b : eobs) : bool :=
  Bool.eqb (eo_cont a) (eo_cont b) && ostat_eqb (eo_exec a) (eo_exec b)
  && bytes_eqb (eo_out a) (eo_out b) && ostat_eqb (eo_flush a) (eo_flush b)
  && list_eqb ocall_eqb (func_calls a) (func_calls b).
Fixpoint as_if_never_sent (full filt : list (bytes * eobs)) : bool :=
  match full with
  | [] => true
  | (i, o) :: full' =>
    if refused_b i then as_if_never_sent full' filt
    else match filt with
         | [] => true                       (* the filtered run ended earlier (long-lived engine stopped) *)
         | (j, p) :: filt' => bytes_eqb i j && resp_same o p && as_if_never_sent full' filt'
         end
  end.
Definition c17x_class (e : ecase17) : option N :=
  match c17_class (e17_full e) with
  | Some k => Some k
  | None =>
    if as_if_never_sent (ec_long (e17_full e)) (ec_long (e17_filtered e))
       && as_if_never_sent (ec_pers (e17_full e)) (ec_pers (e17_filtered e)) then None
    else match c_first (ec_cfg (e17_full e)) with Some _ => Some 1 | None => Some 0 end
  end.
Definition engine_mismatches17 (cs : list ecase17) : list N :=
  bad_indices (fun e => engine_corr_ok (e17_full e) && engine_corr_ok (e17_filtered e)) cs.
Definition engine_violations_c17x (cs : list ecase17) : list (N * N) := classify c17x_class 0 cs.

(* ---- C06, reserved flags, metamorphic form: the driver serves every history twice - with the
        application as generated, and with every request of its functions (and of the entry function)
        for a flag at or below nonwriteable_flag_threshold removed from FlagSet and FlagReset.  External
        code cannot touch those flags, so the two runs must be indistinguishable: same responses,
        same stored sessions, same calls.  (The pair reuses the record of the C17 twin cases.) *)
Definition osnap_opt_eqb (a b : option osnap) : bool :=
  match a, b with Some x, Some y => osnap_eqb x y | None, None => true | _, _ => false end.
Fixpoint twin_same (x y : list (bytes * eobs)) : bool :=
  match x, y with
  | [], [] => true
  | (i, o) :: x', (j, p) :: y' =>
    bytes_eqb i j && resp_same o p && osnap_opt_eqb (eo_snap o) (eo_snap p) && twin_same x' y'
  | _, _ => false
  end.
Definition c06x_class (e : ecase17) : option N :=
  match c06_class (e17_full e) with
  | Some k => Some k
  | None =>
    if twin_same (ec_long (e17_full e)) (ec_long (e17_filtered e))
       && twin_same (ec_pers (e17_full e)) (ec_pers (e17_filtered e)) then None else Some 0
  end.
Definition engine_violations_c06x (cs : list ecase17) : list (N * N) := classify c06x_class 0 cs.
