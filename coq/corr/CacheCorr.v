(* CacheCorr.v — correspondence cases and C09 monitors for cache/cache.go *)
From Vise Require Import Bytes Errors CacheModel CorrBase.
Local Open Scope N_scope.

(* observed exported fields after an operation; maps are sorted by key *)
Record cobs := mkCobs {
  o_res : cres;
  o_use : N;
  o_frames : list frame;
  o_sizes : list (bytes * N);
  o_last : bytes
}.

Definition cres_eqb (a b : cres) : bool :=
  match a, b with
  | ROk, ROk | RPanic, RPanic => true
  | RVal x, RVal y => bytes_eqb x y
  | RErr e, RErr f => err_eqb e f
  | _, _ => false
  end.

Definition frame_eqb : frame -> frame -> bool := list_eqb (pair_eqb bytes_eqb bytes_eqb).
Definition sizes_eqb : list (bytes * N) -> list (bytes * N) -> bool := list_eqb (pair_eqb bytes_eqb N.eqb).

Definition canon (c : cache) (r : cres) : cobs :=
  mkCobs r (c_use c) (map asort (c_frames c)) (asort (c_sizes c)) (c_last c).

Definition cobs_eqb (a b : cobs) : bool :=
  cres_eqb (o_res a) (o_res b) && (o_use a =? o_use b)
  && list_eqb frame_eqb (o_frames a) (o_frames b)
  && sizes_eqb (o_sizes a) (o_sizes b) && bytes_eqb (o_last a) (o_last b).

Record cachecase := mkCacheCase { cc_cap : N; cc_ops : list cop; cc_obs : list cobs }.

(* model vs implementation, step by step *)
Fixpoint corr_steps (c : cache) (ops : list cop) (obs : list cobs) : bool :=
  match ops, obs with
  | [], [] => true
  | o :: ops', ob :: obs' =>
    let '(c', r) := cache_step c o in
    cobs_eqb (canon c' r) ob && corr_steps c' ops' obs'
  | _, _ => false
  end.
Definition cache_corr_ok (cc : cachecase) : bool := corr_steps (new_cache (cc_cap cc)) (cc_ops cc) (cc_obs cc).

(* ---- C09 monitors on the observed history --------------------------------------- *)
Definition state_same (a b : cobs) : bool :=
  (o_use a =? o_use b) && list_eqb frame_eqb (o_frames a) (o_frames b)
  && sizes_eqb (o_sizes a) (o_sizes b) && bytes_eqb (o_last a) (o_last b).

Fixpoint nodup_bytes (l : list bytes) : bool :=
  match l with [] => true | x :: l' => negb (mem_bytes x l') && nodup_bytes l' end.

Definition limits_ok (ob : cobs) : bool :=
  forallb (fun f => forallb (fun kv =>
    match alookup (fst kv) (o_sizes ob) with
    | Some l => if 0 <? l then len (snd kv) <=? l else true
    | None => false (* a live symbol without a size entry *)
    end) f) (o_frames ob).

Definition state_inv (cap : N) (ob : cobs) : bool :=
  (o_use ob =? total_bytes (o_frames ob))
  && (if 0 <? cap then total_bytes (o_frames ob) <=? cap else true)
  && limits_ok ob
  && nodup_bytes (all_keys (o_frames ob))
  && (1 <=? len (o_frames ob)).

Definition is_rerr (r : cres) : bool := match r with RErr _ => true | _ => false end.

Definition removelast_frames (fs : list frame) : list frame :=
  match removelast fs with [] => [[]] | l => l end.

(* per step: invariant holds; rejected => unchanged; Get/Last change nothing but LastValue;
   successful Pop removes exactly the top frame *)
Definition step_ok (cap : N) (prev : cobs) (o : cop) (ob : cobs) : bool :=
  state_inv cap ob
  && negb (cres_eqb (o_res ob) RPanic)
  && (if is_rerr (o_res ob) then state_same prev ob else true)
  && match o, o_res ob with
     | OPop, ROk => list_eqb frame_eqb (o_frames ob) (removelast_frames (o_frames prev))
                    && forallb (fun k => negb (ahas k (o_sizes ob))) (map fst (last (o_frames prev) []))
     | OGet _, _ => state_same prev ob
     | OLast, RVal v => bytes_eqb v (o_last prev) && list_eqb frame_eqb (o_frames prev) (o_frames ob) && (o_use prev =? o_use ob)
     | OPush, _ => list_eqb frame_eqb (o_frames ob) (o_frames prev ++ [[]]) && (o_use prev =? o_use ob)
     | OAdd k v l, ROk => cres_eqb (RVal v) (RVal (frame_get (o_frames ob) (len (o_frames ob) - 1) k))
     | OUpdate k v, ROk => existsb (fun f => match alookup k f with Some v' => bytes_eqb v v' | None => false end) (o_frames ob)
     | _, _ => true
     end.

Fixpoint mon_steps (cap : N) (prev : cobs) (ops : list cop) (obs : list cobs) : bool :=
  match ops, obs with
  | [], [] => true
  | o :: ops', ob :: obs' => step_ok cap prev o ob && mon_steps cap ob ops' obs'
  | _, _ => false
  end.
Definition c09_ok (cc : cachecase) : bool :=
  mon_steps (cc_cap cc) (canon (new_cache (cc_cap cc)) ROk) (cc_ops cc) (cc_obs cc).

Definition cache_mismatches (cs : list cachecase) : list N := bad_indices cache_corr_ok cs.
Definition cache_violations (cs : list cachecase) : list (N * N) := map (fun i => (i, 0)) (bad_indices c09_ok cs).
