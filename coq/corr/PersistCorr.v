(* PersistCorr.v — correspondence cases for persist/persist.go (one REAL Persister over a mem store, driven
   through WithContent / WithFlush / WithSession / Save / Load / Invalidate) and the C11 monitor on what the
   real Persister was observed to do. *)
From Vise Require Import Bytes Errors Consts CacheModel StateModel DbKey PersistModel CorrBase.
Local Open Scope N_scope.

(* ---- observations --------------------------------------------------------------------------------------- *)
Record ost := mkOst {
  os_code : bytes; os_path : list bytes; os_bits : N; os_idx : N; os_flags : bytes; os_lang : option bytes;
  os_input : option bytes; os_inv : bool }.
Record omem := mkOmem {
  om_size : N; om_use : N; om_frames : list frame; om_sizes : list (bytes * N); om_last : bytes;
  om_spare : list (option frame); om_inv : bool }.
(* a stored record, decoded by a NEW persister: exported fields only *)
Record orec := mkOrec {
  or_code : bytes; or_path : list bytes; or_bits : N; or_idx : N; or_flags : bytes; or_lang : option bytes;
  or_size : N; or_use : N; or_frames : list frame; or_sizes : list (bytes * N); or_last : bytes }.

Record pobs := mkPobs {
  po_res : pres;
  po_st : option ost;
  po_mem : option omem;
  po_store : list (bytes * bytes * option orec)     (* (session, key, record) for every probed pair *)
}.

(* pc_init: what a new persister over the empty store looks like, before any operation *)
Record pcase := mkPcase { pc_init : pobs; pc_ops : list pop; pc_obs : list pobs }.

(* content handed to WithContent, as the driver prints it *)
Definition mk_content_st (code : bytes) (path : list bytes) (bits idx : N) (flags : bytes) (lang input : option bytes) : pstate :=
  mkPst (mkState code path bits idx (bits_of_bytes flags) lang input) false.
Definition mk_content_mem (size use : N) (frames : list frame) (sizes : list (bytes * N)) (last : bytes)
  (spare : list (option frame)) : pmem :=
  mkPmem (mkCache size use frames sizes last) spare false.

(* ---- projections of the model ------------------------------------------------------------------------------ *)
Definition obytes_eqb := option_eqb bytes_eqb.
Definition frame_eqb : frame -> frame -> bool := list_eqb (pair_eqb bytes_eqb bytes_eqb).
Definition sizes_eqb : list (bytes * N) -> list (bytes * N) -> bool := list_eqb (pair_eqb bytes_eqb N.eqb).
Definition oframe_eqb := option_eqb frame_eqb.
Definition pres_eqb (a b : pres) : bool :=
  match a, b with POk, POk | PNotFound, PNotFound | PPanic, PPanic => true | _, _ => false end.

Definition ost_of (s : pstate) : ost :=
  let st := ps_st s in
  mkOst (s_code st) (s_path st) (s_bitsize st) (s_idx st) (flag_bytes (s_flags st)) (s_lang st) (s_input st) (ps_invalid s).
Definition omem_of (m : pmem) : omem :=
  let c := pm_ca m in
  mkOmem (c_size c) (c_use c) (map asort (c_frames c)) (asort (c_sizes c)) (c_last c)
         (map (option_map asort) (pm_spare m)) (pm_invalid m).
Definition orec_of (r : rec) : orec :=
  let '(st, c) := r in
  mkOrec (s_code st) (s_path st) (s_bitsize st) (s_idx st) (flag_bytes (s_flags st)) (s_lang st)
         (c_size c) (c_use c) (map asort (c_frames c)) (asort (c_sizes c)) (c_last c).

(* a nil input and an empty input are both "no bytes" for GetInput's value; the driver reports
   None only when GetInput fails *)
Definition ost_eqb (a b : ost) : bool :=
  bytes_eqb (os_code a) (os_code b) && list_eqb bytes_eqb (os_path a) (os_path b) && (os_bits a =? os_bits b)
  && (os_idx a =? os_idx b) && bytes_eqb (os_flags a) (os_flags b) && obytes_eqb (os_lang a) (os_lang b)
  && obytes_eqb (os_input a) (os_input b) && Bool.eqb (os_inv a) (os_inv b).
Definition omem_eqb (a b : omem) : bool :=
  (om_size a =? om_size b) && (om_use a =? om_use b) && list_eqb frame_eqb (om_frames a) (om_frames b)
  && sizes_eqb (om_sizes a) (om_sizes b) && bytes_eqb (om_last a) (om_last b)
  && list_eqb oframe_eqb (om_spare a) (om_spare b) && Bool.eqb (om_inv a) (om_inv b).
Definition orec_eqb (a b : orec) : bool :=
  bytes_eqb (or_code a) (or_code b) && list_eqb bytes_eqb (or_path a) (or_path b) && (or_bits a =? or_bits b)
  && (or_idx a =? or_idx b) && bytes_eqb (or_flags a) (or_flags b) && obytes_eqb (or_lang a) (or_lang b)
  && (or_size a =? or_size b) && (or_use a =? or_use b) && list_eqb frame_eqb (or_frames a) (or_frames b)
  && sizes_eqb (or_sizes a) (or_sizes b) && bytes_eqb (or_last a) (or_last b).

Definition store_ok (p : persister) (probe : list (bytes * bytes * option orec)) : bool :=
  forallb (fun e => let '(s, k, r) := e in
                    option_eqb orec_eqb (option_map orec_of (alookup (rec_key s k) (p_store p))) r) probe.

Definition pobs_ok (p : persister) (r : pres) (ob : pobs) : bool :=
  pres_eqb r (po_res ob)
  && option_eqb ost_eqb (option_map ost_of (p_state p)) (po_st ob)
  && option_eqb omem_eqb (option_map omem_of (p_mem p)) (po_mem ob)
  && store_ok p (po_store ob).

(* first step (1-based) at which model and implementation disagree; 0 = none *)
Fixpoint corr_steps (p : persister) (ops : list pop) (obs : list pobs) (k : N) : N :=
  match ops, obs with
  | [], [] => 0
  | o :: ops', ob :: obs' =>
    let '(p', r) := p_step p o in
    if pobs_ok p' r ob then corr_steps p' ops' obs' (k + 1) else k
  | _, _ => k
  end.
Definition persist_corr_at (pc : pcase) : N :=
  if pobs_ok (new_persister []) POk (pc_init pc) then corr_steps (new_persister []) (pc_ops pc) (pc_obs pc) 1 else 1000.
Definition persist_corr_ok (pc : pcase) : bool := persist_corr_at pc =? 0.
Definition persist_mismatches (cs : list pcase) : list N := bad_indices persist_corr_ok cs.
Definition persist_first_bad (cs : list pcase) : list (N * N) :=
  List.concat (map (fun p => if persist_corr_ok (snd p) then [] else [(fst p, persist_corr_at (snd p))])
                   (combine (map N.of_nat (seq 0 (List.length cs))) cs)).

(* ---- C11 on observed behaviour ------------------------------------------------------------------------------ *)
(* "after Load(k) the persister holds exactly what the last Save(k) stored — nothing of any other key";
   Save(k) stores exactly what the persister holds and touches no other record; after a flushing Save the
   persister is empty; a failed Load changes nothing.
   Result per case: None = fine; Some 6 = K-C11-6 as it is after repair a037abb: a Load(k) found no record and
   the persister still holds the session of ANOTHER key (it came from a successful Load or a non-flushing Save of
   that key and neither a flushing Save nor a WithContent intervened) — the caller that asks GetState() next gets
   that session; Some 0 = anything else (in particular every leak the repair removed) *)
Definition probe_get (probe : list (bytes * bytes * option orec)) (s k : bytes) : option (option orec) :=
  let fix go l := match l with
                  | [] => None
                  | (s', k', r) :: l' => if bytes_eqb s s' && bytes_eqb k k' then Some r else go l'
                  end in go probe.

Definition holds_record (st : ost) (m : omem) (r : orec) : bool :=
  bytes_eqb (os_code st) (or_code r) && list_eqb bytes_eqb (os_path st) (or_path r) && (os_bits st =? or_bits r)
  && (os_idx st =? or_idx r) && bytes_eqb (os_flags st) (or_flags r) && obytes_eqb (os_lang st) (or_lang r)
  && (om_size m =? or_size r) && (om_use m =? or_use r) && list_eqb frame_eqb (om_frames m) (or_frames r)
  && sizes_eqb (om_sizes m) (or_sizes r) && bytes_eqb (om_last m) (or_last r).
(* nothing but the record: no input, not invalidated *)
Definition nothing_else (st : ost) (m : omem) : bool :=
  match os_input st with None => true | Some _ => false end && negb (os_inv st) && negb (om_inv m).

Definition is_empty_frame (f : frame) : bool := match f with [] => true | _ => false end.
(* no content and no marks (observed form of PersistProofs.leftover_clean) *)
Definition obs_clean (st : option ost) (m : option omem) : bool :=
  match st with
  | None => true
  | Some s => match os_input s with None => true | Some _ => false end && negb (os_inv s)
  end
  && match m with
     | None => true
     | Some c => negb (om_inv c) && match om_sizes c with [] => true | _ => false end
                 && forallb is_empty_frame (om_frames c)
                 && forallb (fun o => match o with None => true | Some f => is_empty_frame f end) (om_spare c)
     end.

Definition store_same (a b : list (bytes * bytes * option orec)) : bool :=
  forallb (fun e => let '(s', k', r) := e in
                    match probe_get b s' k' with Some r' => option_eqb orec_eqb r r' | None => false end) a.
Definition others_same (a b : list (bytes * bytes * option orec)) (s k : bytes) : bool :=
  forallb (fun e => let '(s', k', r) := e in
                    if bytes_eqb s s' && bytes_eqb k k' then true
                    else match probe_get b s' k' with Some r' => option_eqb orec_eqb r r' | None => false end) a.

(* "If save is successful and WithFlush() has been called, the state and memory will be empty when the method
   returns" (doc comment of Save): the exported fields of an empty state and an empty cache *)
Definition flushed_empty (st : ost) (m : omem) : bool :=
  is_nil (os_code st) && is_nil (os_path st) && (os_idx st =? 0) && forallb (N.eqb 0) (os_flags st)
  && match os_lang st with None => true | Some _ => false end
  && match os_input st with None => true | Some _ => false end
  && (om_use m =? 0) && list_eqb frame_eqb (om_frames m) [[]] && is_nil (om_sizes m) && is_nil (om_last m).

(* the session id and the flush mode in force, and the key whose session the persister holds (None: nothing, or
   content its caller handed over), are tracked from the operations *)
Definition key_eqb (a b : bytes * bytes) : bool := bytes_eqb (fst a) (fst b) && bytes_eqb (snd a) (snd b).
Fixpoint c11_steps (sess : bytes) (fl : bool) (origin : option (bytes * bytes)) (prev : pobs) (ops : list pop) (obs : list pobs)
  : option N :=
  match ops, obs with
  | o :: ops', ob :: obs' =>
    let sess' := match o with PWithSession s => s | _ => sess end in
    let fl' := match o with PWithFlush => true | _ => fl end in
    let origin' :=
      match o, po_res ob with
      | PWithContent _ _, _ => None
      | PLoad k, POk => Some (sess, k)
      | PSave k, POk => if fl then None else Some (sess, k)
      | _, _ => origin
      end in
    let verdict : option N :=
      match o, po_res ob with
      | PLoad k, POk =>
        match probe_get (po_store prev) sess k, po_st ob, po_mem ob with
        | Some (Some r), Some st, Some m =>
          if holds_record st m r && nothing_else st m && store_same (po_store prev) (po_store ob) then None else Some 0
        | _, _, _ => Some 0          (* loaded something that was never stored, or holds nothing *)
        end
      | PLoad k, PNotFound =>
        match probe_get (po_store prev) sess k with
        | Some None =>
          if option_eqb ost_eqb (po_st prev) (po_st ob) && option_eqb omem_eqb (po_mem prev) (po_mem ob)
             && store_same (po_store prev) (po_store ob)
          then match origin, po_st ob with
               | Some o', Some _ => if key_eqb o' (sess, k) then None else Some 6
               | _, _ => None
               end
          else Some 0
        | _ => Some 0
        end
      | PSave k, POk =>
        match probe_get (po_store ob) sess k, po_st prev, po_mem prev with
        | Some (Some r), Some st, Some m =>
          if holds_record st m r && others_same (po_store prev) (po_store ob) sess k then
            (if fl then match po_st ob, po_mem ob with
                        | Some st', Some m' => if flushed_empty st' m' then None else Some 0
                        | _, _ => Some 0
                        end
             else None)
          else Some 0
        | _, _, _ => Some 0
        end
      | _, _ => None
      end in
    match verdict with
    | Some c => Some c
    | None => c11_steps sess' fl' origin' ob ops' obs'
    end
  | _, _ => None
  end.
Definition c11_class (pc : pcase) : option N := c11_steps [] false None (pc_init pc) (pc_ops pc) (pc_obs pc).
Fixpoint classify {A} (f : A -> option N) (i : N) (l : list A) : list (N * N) :=
  match l with
  | [] => []
  | x :: r => match f x with Some c => (i, c) :: classify f (i + 1) r | None => classify f (i + 1) r end
  end.
Definition persist_violations (cs : list pcase) : list (N * N) := classify c11_class 0 cs.

(* ---- C09 on the same cases: a session that comes back from the store has the cache it was saved with
   (frames, per-symbol limits, usage, capacity).  The class-0 clauses of the C11 monitor say exactly that;
   K-C11-6 (class 6: no record found, leftover content of another key) is not a statement about the cache. *)
Definition persist_violations_c09 (cs : list pcase) : list (N * N) :=
  filter (fun p => snd p =? 0) (persist_violations cs).
