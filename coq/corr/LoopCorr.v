(* LoopCorr.v — correspondence cases and monitors for engine.Loop (model/LoopModel.v).

   A case records one run of the REAL engine.Loop (go/cmd/vh/loop.go): the application, the
   configuration, `initial`, the reader content, and what was OBSERVED: the bytes written, the class
   of the error returned, every Exec / Flush call Loop made on the engine (the harness wraps the
   engine in a recorder implementing engine.Engine), the number of Finish calls and the session
   afterwards.

   loop_corr_ok: the model (eng_loop from the long-lived harness engine long_init) predicts exactly
   that: written bytes, status, final session, and request by request (loop_prefix of long_resps, the
   specification side of LoopProofs.loop_output_is_requests) the calls.

   Monitors on the observation alone (no engine model; only loop_lines, i.e. the bufio/TrimSpace
   model, is used to say which inputs Loop had to pass):
   * loop_c01_ok (C01): with an output size, every Flush wrote at most that many bytes, and the
     total written is at most (#requests) * (size + 1);
   * loop_c20_ok (C06/C20 and the Loop contract): the written bytes are exactly the concatenation
     over the requests made of the Flush output followed by LF when non-empty (no LF after a failed
     Flush, nothing for a request whose Exec failed); every request but the last one reported
     cont = true without error — so nothing is executed or written after the first request that
     reports stop; the inputs are the prefix of initial :: trimmed lines; when the last request
     went on, the whole input was consumed; the returned error is the one of the last request
     (nil on stop and on EOF); Finish was called exactly once;
   * loop_c02_ok (C02, navigable): every input passed to Exec is the line typed without the white space
     around it (CR LF endings, blanks, tabs), and on the sessions observed after each request pages are
     walked one step at a time (EngineMon.c02e_steps);
   * loop_c12_ok (C12, stored content): in the persister modes (memory / filesystem store, plain /
     WithFlush) the record found in the store after Loop is the session observed after the last request. *)
From Vise Require Import Bytes Errors Consts EngConsts Codec CacheModel StateModel NavModel RenderModel VmModel EngineModel
  LoopModel CorrBase EngineCorr EngineMon.
Local Open Scope N_scope.

Inductive olstat : Type := OLOk | OLErr (e : err) | OLTerm | OLPanic.

Record lobs := mkLobs {
  lo_input : bytes;
  lo_cont : bool;
  lo_exec : ostat;
  lo_flush : option (bytes * N * ostat);    (* None: Flush was not called; bytes written by it, its l, its error *)
  lo_snap : option osnap                    (* the session after the request (after Flush, or after a failed Exec); None: not observable *)
}.

Record lcase := mkLcase {
  lc_app : app;
  lc_cfg : config;
  lc_initial : option bytes;
  lc_reader : bytes;
  lc_written : bytes;
  lc_stat : olstat;
  lc_calls : list lobs;
  lc_finishes : N;
  lc_stray : N;                  (* Flush calls not following an Exec / on another writer *)
  lc_snap : option osnap;        (* the session after Loop; None after a panic and in the persister modes *)
  lc_mode : N;                   (* 0 WithState/WithMemory; 1 mem persister; 2 mem persister WithFlush; 3 fs persister; 4 fs persister WithFlush *)
  lc_stored : option (option osnap)  (* persister modes: the record found in the store after Loop (Some None: no record) *)
}.

Definition olstat_of (s : lstat) : olstat :=
  match s with LOk => OLOk | LErr e => OLErr e | LTerm _ => OLTerm | LPanic _ => OLPanic | LFuel => OLPanic end.
Definition olstat_eqb (a b : olstat) : bool :=
  match a, b with
  | OLOk, OLOk | OLTerm, OLTerm | OLPanic, OLPanic => true
  | OLErr e, OLErr f => err_eqb e f
  | _, _ => false
  end.

(* ---- model against observation ------------------------------------------------------------------ *)
Definition call_matches (input : bytes) (r : response) (o : lobs) : bool :=
  bytes_eqb input (lo_input o) && Bool.eqb (r_cont r) (lo_cont o) && ostat_eqb (ostat_of (r_exec r)) (lo_exec o)
  && match r_exec r, lo_flush o with
     | SOk, Some (out, l, f) =>
       bytes_eqb (r_out r) out && ostat_eqb (ostat_of_f (r_flush r)) f
       && match f with OSOk => l =? len out | _ => true end
     | SOk, None => false
     | _, None => true
     | _, Some _ => false
     end.
Fixpoint calls_match (inputs : list bytes) (rs : list response) (os : list lobs) : bool :=
  match rs, os with
  | [], [] => true
  | r :: rs', o :: os' =>
    match inputs with
    | i :: inputs' => call_matches i r o && calls_match inputs' rs' os'
    | [] => false
    end
  | _, _ => false
  end.

(* the engine Loop is given: the long-lived harness engine, or a new engine over a persister whose
   store has no record yet *)
Definition loop_init (lc : lcase) : engine :=
  if lc_mode lc =? 0 then long_init (lc_cfg lc) else loop_persisted_init (lc_cfg lc).
Definition model_requests (lc : lcase) : list response :=
  loop_prefix true (long_resps efuel (app_rsrc (lc_app lc)) (lc_cfg lc) (loop_init lc)
                               (loop_inputs (lc_initial lc) (lc_reader lc))).

(* the session after every request Loop makes (after Flush; after Exec when it failed) *)
Fixpoint loop_snaps (first : bool) (fuel : nat) (rs : rsrc) (c : config) (e : engine) (inputs : list bytes) : list snapshot :=
  match inputs with
  | [] => []
  | i :: rest =>
    let '(e1, cont, s) := eng_exec fuel rs c e i in
    match s with
    | SOk =>
      let '(e2, _, f) := eng_flush fuel rs c e1 in
      snap_of (v_st (e_v e2)) (v_ca (e_v e2))
      :: (if cont && match f with FOk => true | FErr er => first && err_eqb er EFlushNoExec | _ => false end
          then loop_snaps false fuel rs c e2 rest else [])
    | _ => [snap_of (v_st (e_v e1)) (v_ca (e_v e1))]
    end
  end.
Fixpoint snaps_match (ms : list snapshot) (os : list lobs) : bool :=
  match ms, os with
  | m :: ms', o :: os' =>
    match lo_snap o with Some x => osnap_eqb (osnap_of m) x | None => true end && snaps_match ms' os'
  | _, _ => true
  end.

(* Taint (an error whose message text is not modelled became the page's error prefix) excuses only
   what is RENDERED afterwards.  When the taint arises in the very request whose Exec fails, Loop
   returns without rendering: such a case is compared in full.  loop_excused: the model ran out of
   fuel, or was tainted before its last request, or is tainted and the last request's Exec succeeded *)
Definition exec_failed (r : response) : bool := match r_exec r with SErr _ _ | SPanic _ => true | _ => false end.
Definition loop_excused (lc : lcase) (st : lstat) (e : engine) : bool :=
  match st with
  | LFuel => true
  | _ =>
    v_taint (e_v e)
    && (let reqs := model_requests lc in
        let n := List.length reqs in
        let e_pre := eng_after efuel (app_rsrc (lc_app lc)) (lc_cfg lc) (loop_init lc)
                               (firstn (n - 1) (loop_inputs (lc_initial lc) (lc_reader lc))) in
        v_taint (e_v e_pre) || negb (exec_failed (last reqs (mkResp true SOk [] FOk))))
  end.

Definition loop_corr_ok (lc : lcase) : bool :=
  let rs := app_rsrc (lc_app lc) in
  let '(w, st, e) := eng_loop rs (lc_cfg lc) efuel (loop_init lc) (lc_initial lc) (lc_reader lc) in
  if loop_excused lc st e then true else
  bytes_eqb w (lc_written lc)
  && olstat_eqb (olstat_of st) (lc_stat lc)
  && match lc_snap lc with
     | Some os => osnap_eqb (osnap_of (snap_of (v_st (e_v e)) (v_ca (e_v e)))) os
     | None => true
     end
  && calls_match (loop_inputs (lc_initial lc) (lc_reader lc)) (model_requests lc) (lc_calls lc)
  && snaps_match (loop_snaps true efuel rs (lc_cfg lc) (loop_init lc) (loop_inputs (lc_initial lc) (lc_reader lc))) (lc_calls lc)
  (* the record in the store: the session after the last request, saved by the ONE Finish *)
  && match lc_stored lc, st with
     | None, _ | _, LPanic _ => true
     | Some o, _ => option_eqb osnap_eqb (option_map osnap_of (loop_stored (lc_cfg lc) (w, st, e))) o
     end.
Definition loop_excused_count (cs : list lcase) : N :=
  len (filter (fun lc => let '(w, st, e) := eng_loop (app_rsrc (lc_app lc)) (lc_cfg lc) efuel (loop_init lc) (lc_initial lc) (lc_reader lc) in
                         loop_excused lc st e) cs).
Definition loop_mismatches (cs : list lcase) : list N := bad_indices loop_corr_ok cs.

(* debugging aid: what the model predicts *)
Definition loop_model (lc : lcase) : bytes * olstat * list (bytes * response) :=
  let rs := app_rsrc (lc_app lc) in
  let '(w, st, e) := eng_loop rs (lc_cfg lc) efuel (loop_init lc) (lc_initial lc) (lc_reader lc) in
  (w, olstat_of st, combine (loop_inputs (lc_initial lc) (lc_reader lc)) (model_requests lc)).

(* ---- monitors on the observation ----------------------------------------------------------------- *)
Definition flush_outs (lc : lcase) : list bytes :=
  List.concat (map (fun o => match lo_flush o with Some (out, _, _) => [out] | None => [] end) (lc_calls lc)).

(* C01 *)
Definition loop_c01_ok (lc : lcase) : bool :=
  let sz := c_out (lc_cfg lc) in
  if sz =? 0 then true else
  forallb (fun out => len out <=? sz) (flush_outs lc)
  && (len (lc_written lc) <=? len (lc_calls lc) * (sz + 1)).

(* what Loop writes for a request, from the observed call alone *)
Definition lobs_chunk (o : lobs) : bytes :=
  match lo_flush o with
  | Some (out, l, OSOk) => if 0 <? l then out ++ [LF] else out
  | Some (out, _, _) => out
  | None => []
  end.
Definition is_osok (s : ostat) : bool := match s with OSOk => true | _ => false end.
Definition lobs_goes_on (first : bool) (o : lobs) : bool :=
  lo_cont o && is_osok (lo_exec o)
  && match lo_flush o with
     | Some (_, _, OSOk) => true
     | Some (_, _, OSErr e) => first && err_eqb e EFlushNoExec
     | _ => false
     end.
(* the error Loop must return when this is its last request *)
Definition lobs_stat (first : bool) (o : lobs) : olstat :=
  match lo_exec o with
  | OSPanic => OLPanic
  | OSErr e => if first then OLErr e else OLTerm
  | OSOk =>
    match lo_flush o with
    | Some (_, _, OSOk) => OLOk
    | Some (_, _, OSErr e) => if first && err_eqb e EFlushNoExec then OLOk else OLErr e
    | Some (_, _, OSPanic) => OLPanic
    | None => OLPanic           (* Exec succeeded and Flush was not called: never *)
    end
  end.
(* every request but the last went on; the status is the last one's *)
Fixpoint calls_stat (first : bool) (os : list lobs) : option olstat :=
  match os with
  | [] => None
  | [o] => Some (lobs_stat first o)
  | o :: os' => if lobs_goes_on first o then calls_stat false os' else None
  end.
Definition flush_well_formed (o : lobs) : bool :=
  match lo_exec o, lo_flush o with
  | OSOk, Some (out, l, OSOk) => l =? len out
  | OSOk, Some _ => true
  | OSOk, None => false
  | _, None => true            (* no Flush after a failed Exec *)
  | _, Some _ => false
  end.

Definition loop_c20_ok (lc : lcase) : bool :=
  let inputs := loop_inputs (lc_initial lc) (lc_reader lc) in
  let calls := lc_calls lc in
  let n := List.length calls in
  (* written = the chunks of the requests made, in order *)
  bytes_eqb (lc_written lc) (List.concat (map lobs_chunk calls))
  && forallb flush_well_formed calls
  (* nothing after the first request that does not go on; the error returned *)
  && match calls_stat true calls with
     | Some s => olstat_eqb s (lc_stat lc)
     | None => false
     end
  (* the inputs: initial, then the trimmed complete lines, as far as Loop got *)
  && list_eqb bytes_eqb (map lo_input calls) (firstn n inputs)
  (* a last request that goes on means the input is exhausted (EOF) *)
  && (match rev calls with
      | o :: _ => if lobs_goes_on (Nat.eqb n 1) o then Nat.eqb n (List.length inputs) else true
      | [] => false
      end)
  && (lc_finishes lc =? 1) && (lc_stray lc =? 0).

(* C12 (stored content): over a persister, the record in the store after Loop is the session as it
   was observed after the last request Loop made — whatever the exit (stop, EOF, error), plain or
   WithFlush.  Not judged after a panic, nor when the last request's session was not observable, nor
   with an entry function configured (K-C20-first / K-C17-first: a request stopped by the entry
   function is not saved — the engine is not initialised and Finish does nothing; the model agrees) *)
Definition loop_c12_ok (lc : lcase) : bool :=
  match lc_stored lc with
  | None => true
  | Some o =>
    match c_first (lc_cfg lc) with Some _ => lc_finishes lc =? 1 | None =>
    (lc_finishes lc =? 1)
    && match lc_stat lc, rev (lc_calls lc) with
       | OLPanic, _ => true
       | _, last_call :: _ =>
         match lo_snap last_call with
         | Some x => match o with Some y => osnap_eqb x y | None => false end
         | None => true
         end
       | _, [] => false
       end
    end
  end.

(* C02 (navigable): what the client typed on a line, without the white space around it, is what the
   engine is asked — so an offered browse selector typed on a CR LF terminated or blank-padded line
   reaches INCMP > / INCMP < as offered — and, on the sessions observed after each request, pages are
   walked from index 0 one step at a time (EngineMon.c02e_steps, with the ghost moves of the model) *)
Definition lobs_step (o : lobs) : bytes * eobs :=
  (lo_input o,
   mkEobs (lo_cont o) (lo_exec o)
          (match lo_flush o with Some (out, _, _) => out | None => [] end)
          (match lo_flush o with Some (_, _, f) => f | None => OSOk end)
          (lo_snap o) []).
Definition loop_events (lc : lcase) : list (list ev) :=
  map (fun t => snd (fst t))
      (model_trace_long (app_rsrc (lc_app lc)) (lc_cfg lc) (loop_init lc) (map lo_input (lc_calls lc))).
Definition loop_c02_ok (lc : lcase) : bool :=
  let calls := lc_calls lc in
  list_eqb bytes_eqb (map lo_input calls) (firstn (List.length calls) (loop_inputs (lc_initial lc) (lc_reader lc)))
  && c02e_steps None (map lobs_step calls) (loop_events lc).

Definition loop_violations_c02 (cs : list lcase) : list (N * N) := map (fun i => (i, 0)) (bad_indices loop_c02_ok cs).
Definition loop_violations_c12 (cs : list lcase) : list (N * N) := map (fun i => (i, 0)) (bad_indices loop_c12_ok cs).
Definition loop_violations_c01 (cs : list lcase) : list (N * N) := map (fun i => (i, 0)) (bad_indices loop_c01_ok cs).
Definition loop_violations_c20 (cs : list lcase) : list (N * N) := map (fun i => (i, 0)) (bad_indices loop_c20_ok cs).
Definition loop_ok (lc : lcase) : bool := loop_c01_ok lc && loop_c20_ok lc && loop_c02_ok lc && loop_c12_ok lc.
Definition loop_violations (cs : list lcase) : list (N * N) := map (fun i => (i, 0)) (bad_indices loop_ok cs).

(* debugging aid *)
Definition loop_diag (lc : lcase) : list bool :=
  let inputs := loop_inputs (lc_initial lc) (lc_reader lc) in
  let calls := lc_calls lc in
  [ bytes_eqb (lc_written lc) (List.concat (map lobs_chunk calls));
    forallb flush_well_formed calls;
    match calls_stat true calls with Some s => olstat_eqb s (lc_stat lc) | None => false end;
    list_eqb bytes_eqb (map lo_input calls) (firstn (List.length calls) inputs);
    loop_c01_ok lc ].
