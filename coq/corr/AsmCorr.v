(* AsmCorr.v — correspondence cases and the C16 monitor for the assembler. *)
From Vise Require Import Bytes Errors Consts Codec CorrBase CodecCorr AsmModel AsmPreModel.
Local Open Scope N_scope.

(* One case: the token-level source the harness generated (and printed as text with its own
   choice of blanks, trailing comments and empty lines), the bytes asm.Parse wrote to its
   writer, and how it ended (Ok tt | Err EGen | Panic 0). *)
Inductive acase : Type :=
| ACase (src : list line) (written : bytes) (o : res unit)
(* the shipped dev/asm command run on a file holding the same text: standard output, exit status *)
| ACmd (src : list line) (out : bytes) (exit : N)
(* asm.MenuProcessor used directly: Add(code, choice, display, target) for each entry, then ToLines *)
| AMenu (adds : list (bytes * bytes * bytes * bytes)) (o : res bytes)
(* the command with its flag preprocessor: `asm -f table.csv file`; the table is given as its
   CSV records (lists of fields) *)
| APre (rows : list (list bytes)) (src : list line) (out : bytes) (exit : N).

Definition unit_eqb (_ _ : unit) : bool := true.

(* model agrees with what the implementation did: same ending, same bytes written (also the
   bytes written before an error or panic) *)
Definition asm_corr_ok (c : acase) : bool :=
  match c with
  | ACase src w o =>
    let (mw, mo) := asm_run src in
    outcome_eqb unit_eqb mo o && bytes_eqb mw w
  | ACmd src out ex =>
    (* dev/asm/main.go: asm.Parse writes to standard output; error => exit 1, panic => exit 2 *)
    let (mw, mo) := asm_run src in
    bytes_eqb mw out && (ex =? match mo with Ok _ => 0 | Err _ => 1 | Panic _ => 2 end)
  | APre rows src out ex =>
    (* load error, preprocess error, parse error => exit 1; panic => exit 2 *)
    let (mw, mx) := cmd_pre rows src in bytes_eqb mw out && (ex =? mx)
  | AMenu adds o =>
    outcome_eqb bytes_eqb
      (obind (fold_left (fun acc a => obind acc (fun its =>
                 let '(code, choice, display, target) := a in menu_proc_add its code choice display target)) adds (Ok []))
             (fun its => Ok (to_lines its))) o
  end.

(* what a menu block must decode to, from the Add arguments alone: the display/selector pairs in
   order, HALT, then one INCMP per entry with the selector bytes EXACTLY as they were given *)
Definition menu_entry_instrs (a : bytes * bytes * bytes * bytes) : option (instr * instr) :=
  let '(code, choice, display, target) := a in
  if bytes_eqb code (s2b "UP") then Some (IMOut display choice, IInCmp [95] choice)
  else if bytes_eqb code (s2b "NEXT") then Some (IMNext display choice, IInCmp [62] choice)
  else if bytes_eqb code (s2b "PREVIOUS") then Some (IMPrev display choice, IInCmp [60] choice)
  else if bytes_eqb code (s2b "DOWN") then Some (IMOut display choice, IInCmp target choice)
  else None.
Fixpoint menu_ref (adds : list (bytes * bytes * bytes * bytes)) : option (list instr * list instr) :=
  match adds with
  | [] => Some ([], [])
  | a :: r => match menu_entry_instrs a, menu_ref r with
              | Some (p, q), Some (ps, qs) => Some (p :: ps, q :: qs)
              | _, _ => None
              end
  end.
Definition menu_ok (adds : list (bytes * bytes * bytes * bytes)) (o : res bytes) : bool :=
  match menu_ref adds, o with
  | Some (ps, qs), Ok b =>
    if forallb wf_instrb (ps ++ qs) then outcome_eqb (list_eqb instr_eqb) (parse_all b) (Ok (ps ++ IHalt :: qs)) else true
  | _, _ => true
  end.

(* C16 on the implementation's observed behaviour: a valid source that was assembled must
   decode (model decoder) to exactly the instructions that were written.  Sources the
   assembler rejects (error or panic) produce no bytecode and are only counted. *)
Definition c16_ok (c : acase) : bool :=
  match c with
  | ACase src w o =>
    if valid_srcb src then
      match o with
      | Ok _ => outcome_eqb (list_eqb instr_eqb) (parse_all w) (Ok (expand src))
      | _ => true
      end
    else true
  | ACmd src out ex =>
    if valid_srcb src && (ex =? 0) then outcome_eqb (list_eqb instr_eqb) (parse_all out) (Ok (expand src)) else true
  | APre rows src out ex =>
    (* with a documented table: a source that has the documented form once every flag name is
       replaced by its number must, if it is assembled, decode to exactly those instructions
       ("the same ... signal ... arguments as written"); a source of documented form that uses
       a name the table does not define must be refused: exit 1 and no bytecode *)
    if valid_rows rows then
      match resolve (spec_lookup rows) src with
      | Some src1 =>
        if valid_srcb src1 && (ex =? 0)
        then outcome_eqb (list_eqb instr_eqb) (parse_all out) (Ok (expand src1)) else true
      | None =>
        match resolve (with_default (spec_lookup rows)) src with
        | Some srcd => if valid_srcb srcd then (ex =? 1) && (len out =? 0) else true
        | None => true
        end
      end
    else true
  | AMenu adds o => menu_ok adds o
  end.

(* class of a failing case: the first listed finding whose guard the source satisfies *)
Definition src_class (src : list line) : N :=
  if in_K_numnorm src then 1
  else if in_K_digitprefix src then 2
  else if in_K_longsym src then 3
  else if in_K_octal src then 4
  else 0.
Definition c16_class (c : acase) : N :=
  match c with
  | ACase src _ _ | ACmd src _ _ => src_class src
  (* the classes are those of the source the assembler proper receives: names replaced *)
  | APre rows src _ _ =>
    match resolve (spec_lookup rows) src with Some src1 => src_class src1 | None => 0 end
  | AMenu _ _ => 0
  end.

Definition asm_mismatches (cs : list acase) : list N := bad_indices asm_corr_ok cs.

Fixpoint viol_from (i : N) (cs : list acase) : list (N * N) :=
  match cs with
  | [] => []
  | c :: r => if c16_ok c then viol_from (i + 1) r else (i, c16_class c) :: viol_from (i + 1) r
  end.
Definition asm_violations (cs : list acase) : list (N * N) := viol_from 0 cs.

(* C14 judges the menu encoder used directly (asm/menu.go is one of its anchors): only AMenu cases *)
(* ... and the assembler proper wherever no finding class of C16 applies to the source: there the
   bytecode must decode to the instructions as written (C14: encoder and decoder agree) *)
Definition asm_violations_c14 (cs : list acase) : list (N * N) :=
  map (fun i => (i, 0))
      (bad_indices (fun c => match c with
                             | AMenu adds o => menu_ok adds o
                             | _ => c16_ok c || negb (c16_class c =? 0)
                             end) cs).
