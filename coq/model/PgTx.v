(* PgTx.v — model of db/postgres/pg.go (Put/Get/Start/Stop/Abort/Close and the private
   start/stop/stopSingle) over an abstract transactional store with a fault oracle (C13).
   Definitions only; lemmas live in proofs/PgProofs.v.

   The store is the model of the driver side (what go/fakepg implements):
     - one committed key/value map, one pending overlay per open transaction;
       a read inside a transaction sees the own overlay over the committed map;
     - Commit applies the overlay atomically and ends the transaction, Rollback drops it;
     - every primitive driver call (BeginTx, Exec, Query, Next, Scan, Commit, Rollback) consumes
       one boolean of the oracle (false once the oracle is exhausted); true = this call fails;
     - ASSUMPTION: a failing Commit or Rollback leaves the transaction ended with nothing applied;
       a failing Exec/Query has no effect; a failing Next returns false (as pgx does: the error is
       only available from Rows.Err(), which pg.go consults after the translated-key query only).
   dump.go: PDump k = Dump(k), then Dumper.Next until it returns nil, then Close. Dump runs in a
   transaction of its own next to pdb.tx; the iteration goes on after the deferred Commit (the fake
   materialises the result set at Query time; a real connection would behave differently there). *)
From Vise Require Import Bytes Errors Consts.
Local Open Scope N_scope.

Notation kv := (list (bytes * bytes)) (only parsing).

(* ---- driver call log ------------------------------------------------------------- *)
Inductive pkind : Set := KBegin | KExec | KQuery | KNext | KScan | KCommit | KRollback | KClose.
(* flag: 0 = succeeded, 1 = injected fault fired, 2 = pool closed, 3 = transaction already finished *)
Record pev : Set := mkEv { ev_kind : pkind; ev_tx : N; ev_flag : N }.

(* ---- the transactional store ------------------------------------------------------ *)
Record srv : Set := mkSrv {
  s_comm : kv;                  (* committed data *)
  s_open : list (N * kv);       (* open transactions: id, pending overlay *)
  s_next : N;                   (* id of the next BeginTx *)
  s_closed : bool;              (* pool closed *)
  s_log : list pev;             (* calls of the current operation, newest first *)
  s_orc : list bool             (* fault oracle *)
}.

Definition new_srv (init : kv) (orc : list bool) : srv := mkSrv init [] 1 false [] orc.

Fixpoint olookup (id : N) (l : list (N * kv)) : option kv :=
  match l with
  | [] => None
  | (i, p) :: l' => if i =? id then Some p else olookup id l'
  end.
Fixpoint oremove (id : N) (l : list (N * kv)) : list (N * kv) :=
  match l with
  | [] => []
  | (i, p) :: l' => if i =? id then l' else (i, p) :: oremove id l'   (* ids are unique *)
  end.
Fixpoint oset (id : N) (p : kv) (l : list (N * kv)) : list (N * kv) :=
  match l with
  | [] => []
  | (i, q) :: l' => if i =? id then (i, p) :: l' else (i, q) :: oset id p l'
  end.

(* overlay applied to a map. Overlays are built with aset and hold each key once, so the order of
   application is immaterial; fold_right makes the first entry of a key win, as alookup does *)
Definition apply_kv (pending base : kv) : kv :=
  fold_right (fun e acc => aset (fst e) (snd e) acc) base pending.
(* what a read of k sees given an overlay *)
Definition read_kv (pending base : kv) (k : bytes) : option bytes :=
  match alookup k pending with Some v => Some v | None => alookup k base end.

(* consume one oracle entry *)
Definition tick (s : srv) : bool * srv :=
  (hd false (s_orc s), mkSrv (s_comm s) (s_open s) (s_next s) (s_closed s) (s_log s) (tl (s_orc s))).
Definition emit (s : srv) (k : pkind) (id flag : N) : srv :=
  mkSrv (s_comm s) (s_open s) (s_next s) (s_closed s) (mkEv k id flag :: s_log s) (s_orc s).
Definition set_open (s : srv) (o : list (N * kv)) : srv :=
  mkSrv (s_comm s) o (s_next s) (s_closed s) (s_log s) (s_orc s).
Definition set_comm (s : srv) (c : kv) : srv :=
  mkSrv c (s_open s) (s_next s) (s_closed s) (s_log s) (s_orc s).
Definition clear_log (s : srv) : srv :=
  mkSrv (s_comm s) (s_open s) (s_next s) (s_closed s) [] (s_orc s).

(* PgInterface.BeginTx: every call takes a fresh id *)
Definition srv_begin (s : srv) : srv * outcome err N :=
  let '(f, s) := tick s in
  let id := s_next s in
  let s := mkSrv (s_comm s) (s_open s) (id + 1) (s_closed s) (s_log s) (s_orc s) in
  if f then (emit s KBegin id 1, Err EFault)
  else if s_closed s then (emit s KBegin id 2, Err EGen)
  else (emit (set_open s ((id, []) :: s_open s)) KBegin id 0, Ok id).

(* pgx.Tx.Exec with the upsert statement *)
Definition srv_exec (s : srv) (id : N) (k v : bytes) : srv * outcome err unit :=
  let '(f, s) := tick s in
  if f then (emit s KExec id 1, Err EFault)
  else match olookup id (s_open s) with
       | None => (emit s KExec id 3, Err EGen)
       | Some p => (emit (set_open s (oset id (aset k v p) (s_open s))) KExec id 0, Ok tt)
       end.

(* pgx.Tx.Query with SELECT value ... WHERE key = $1: the result set (at most one row) *)
Definition srv_query (s : srv) (id : N) (k : bytes) : srv * outcome err (option bytes) :=
  let '(f, s) := tick s in
  if f then (emit s KQuery id 1, Err EFault)
  else match olookup id (s_open s) with
       | None => (emit s KQuery id 3, Err EGen)
       | Some p => (emit s KQuery id 0, Ok (read_kv p (s_comm s) k))
       end.

(* pgx.Tx.Query with SELECT key, value ... WHERE key >= $1: every visible row from k on, in key order *)
Definition rows_from (k : bytes) (m : kv) : kv := filter (fun e => bytes_leb k (fst e)) (asort m).
Definition srv_dquery (s : srv) (id : N) (k : bytes) : srv * outcome err kv :=
  let '(f, s) := tick s in
  if f then (emit s KQuery id 1, Err EFault)
  else match olookup id (s_open s) with
       | None => (emit s KQuery id 3, Err EGen)
       | Some p => (emit s KQuery id 0, Ok (rows_from k (apply_kv p (s_comm s))))
       end.

(* pgx.Rows.Next (first call) together with what Rows.Err() reports afterwards: (is there a row,
   did the fetch fail). Next returns false also when the fetch fails; Err()/Close() are not
   driver calls of their own and consume no oracle entry *)
Definition srv_next (s : srv) (id : N) (row : option bytes) : srv * (bool * bool) :=
  let '(f, s) := tick s in
  if f then (emit s KNext id 1, (false, true))
  else (emit s KNext id 0, (match row with Some _ => true | None => false end, false)).

(* pgx.Rows.Scan *)
Definition srv_scan (s : srv) (id : N) : srv * outcome err unit :=
  let '(f, s) := tick s in
  if f then (emit s KScan id 1, Err EFault) else (emit s KScan id 0, Ok tt).

(* pgx.Tx.Commit / Rollback *)
Definition srv_commit (s : srv) (id : N) : srv * outcome err unit :=
  let '(f, s) := tick s in
  if f then (emit (set_open s (oremove id (s_open s))) KCommit id 1, Err EFault)
  else match olookup id (s_open s) with
       | None => (emit s KCommit id 3, Err EGen)
       | Some p => (emit (set_comm (set_open s (oremove id (s_open s))) (apply_kv p (s_comm s))) KCommit id 0, Ok tt)
       end.
Definition srv_rollback (s : srv) (id : N) : srv * outcome err unit :=
  let '(f, s) := tick s in
  if f then (emit (set_open s (oremove id (s_open s))) KRollback id 1, Err EFault)
  else match olookup id (s_open s) with
       | None => (emit s KRollback id 3, Err EGen)
       | Some _ => (emit (set_open s (oremove id (s_open s))) KRollback id 0, Ok tt)
       end.
(* PgInterface.Close: not a fallible primitive, no oracle entry *)
Definition srv_close (s : srv) : srv :=
  emit (mkSrv (s_comm s) (s_open s) (s_next s) true (s_log s) (s_orc s)) KClose 0 0.

(* ---- key context (db.DbBase: prefix, lock, session, language) ------------------------ *)
Record pcfg : Set := mkCfg {
  c_pfx : N;                (* SetPrefix *)
  c_lock : N;               (* lock bits after SetLock calls; safe_lock by default *)
  c_sid : bytes;            (* SetSession argument ("" = none) *)
  c_lang : option bytes     (* SetLanguage: language code *)
}.

Definition lang_types : N := N.lor DATATYPE_MENU (N.lor DATATYPE_TEMPLATE DATATYPE_STATICLOAD).

(* DbBase.ToKey: default key and optional translation key *)
Definition to_key (c : pcfg) (k : bytes) : outcome err (bytes * option bytes) :=
  if c_pfx c =? DATATYPE_UNKNOWN then Err EGen
  else
    let sid := match c_sid c with [] => [] | s => s ++ [46] end in
    let b := if sessioned_threshold <? c_pfx c then sid ++ k else k in
    let def := c_pfx c :: b in
    let tr := if N.land (c_pfx c) lang_types =? 0 then None
              else match c_lang c with
                   | None => None
                   | Some [] => Some def                       (* ToDbKey ignores an empty code *)
                   | Some code => Some (c_pfx c :: b ++ 95 :: code)
                   end in
    Ok (def, tr).

(* DbBase.CheckPut *)
Definition check_put (c : pcfg) : bool := N.land (c_pfx c) (c_lock c) =? 0.

Definition set_lang (c : pcfg) (l : option bytes) : pcfg := mkCfg (c_pfx c) (c_lock c) (c_sid c) l.

(* db.FromDbKey then DbBase.FromSessionKey (DbBase.DecodeKey); None = error. The session prefix is
   stripped whatever the type of the key *)
Definition decode_key (c : pcfg) (b : bytes) : option bytes :=
  match b with
  | [] | [_] => None
  | typ :: b' =>
    let n := len b' in
    let b1 := if negb (N.land typ lang_types =? 0) && (6 <? n) && (nth (N.to_nat (n - 4)) b' 0 =? 95)
              then take (n - 4) b' else b' in
    match c_sid c with
    | [] => Some b1
    | sid => let pre := sid ++ [46] in
             if is_prefix pre b1 then Some (drop (len pre) b1) else None
    end
  end.

(* ---- pgDb --------------------------------------------------------------------------- *)
Record pg : Set := mkPg {
  p_tx : option N;           (* pdb.tx *)
  p_multi : bool;            (* pdb.multi *)
  p_lang : option bytes;     (* the language of the DbBase: Dump resets it (pdb.SetLanguage(nil)) *)
  p_srv : srv
}.

Definition new_pg (c : pcfg) (init : kv) (orc : list bool) : pg := mkPg None false (c_lang c) (new_srv init orc).
Definition set_srv (st : pg) (s : srv) : pg := mkPg (p_tx st) (p_multi st) (p_lang st) s.
(* the key context in force: the configured one with the current language *)
Definition eff (c : pcfg) (st : pg) : pcfg := set_lang c (p_lang st).

Inductive pop : Set :=
| PPut (k v : bytes) | PGet (k : bytes) | PStart | PStop | PAbort | PClose
| PDump (k : bytes)    (* Dump(k), Dumper.Next until nil, Dumper.Close *)
| PConnect.            (* Connect on the already connected store: "consecutive calls should be ignored" *)

Inductive pres : Set := POk | PVal (v : bytes) | PErr (e : err) | PPanic
| PRows (rows : kv).   (* what a dump delivered: decoded key, value *)

(* Abort: rollback error ignored *)
Definition pg_abort (st : pg) : pg :=
  match p_tx st with
  | None => st
  | Some t => let '(s, _) := srv_rollback (p_srv st) t in mkPg None (p_multi st) (p_lang st) s
  end.

(* start: begin unless a transaction is already there; returns the current transaction *)
Definition pg_begin_if (st : pg) : pg * outcome err N :=
  match p_tx st with
  | Some t => (st, Ok t)
  | None =>
    let '(s, r) := srv_begin (p_srv st) in
    match r with
    | Ok id => (mkPg (Some id) (p_multi st) (p_lang st) s, Ok id)
    | Err e => (set_srv st s, Err e)
    | Panic p => (set_srv st s, Panic p)
    end
  end.

(* stopSingle: commit unless in an explicit transaction. pdb.tx is dereferenced: Panic site 1 *)
Definition pg_stop_single (st : pg) : pg * outcome err unit :=
  if p_multi st then (st, Ok tt)
  else match p_tx st with
       | None => (st, Panic 1)
       | Some t => let '(s, r) := srv_commit (p_srv st) t in (mkPg None (p_multi st) (p_lang st) s, r)
       end.

(* stop *)
Definition pg_stop_ (st : pg) : pg * outcome err unit :=
  match p_tx st with
  | None => (st, Err ENoTx)
  | Some t => let '(s, r) := srv_commit (p_srv st) t in (mkPg None (p_multi st) (p_lang st) s, r)
  end.

Definition res_unit (r : outcome err unit) : pres :=
  match r with Ok _ => POk | Err e => PErr e | Panic _ => PPanic end.
Definition res_val (r : outcome err unit) (v : bytes) : pres :=
  match r with Ok _ => PVal v | Err e => PErr e | Panic _ => PPanic end.

Definition pg_start (st : pg) : pg * pres :=
  match p_tx st with
  | Some _ => (st, PErr ETxExist)
  | None =>
    let '(st, r) := pg_begin_if st in
    match r with
    | Ok _ => (mkPg (p_tx st) true (p_lang st) (p_srv st), POk)
    | Err e => (st, PErr e)
    | Panic _ => (st, PPanic)
    end
  end.

Definition pg_stop (st : pg) : pg * pres :=
  if p_multi st then let '(st, r) := pg_stop_ st in (st, res_unit r)
  else (st, PErr ESingleTx).

Definition pg_put (c : pcfg) (st : pg) (k v : bytes) : pg * pres :=
  if negb (check_put c) then (st, PErr EGen) else
  match to_key c k with
  | Err e => (st, PErr e)
  | Panic _ => (st, PPanic)
  | Ok (def, tr) =>
    let '(st, r) := pg_begin_if st in
    match r with
    | Err e => (st, PErr e)
    | Panic _ => (st, PPanic)
    | Ok t =>
      let ak := match tr with Some x => x | None => def end in
      let '(s, r) := srv_exec (p_srv st) t ak v in
      let st := set_srv st s in
      match r with
      | Err e => (pg_abort st, PErr e)
      | Panic _ => (st, PPanic)
      | Ok _ => let '(st, r) := pg_stop_single st in (st, res_unit r)
      end
    end
  end.

(* the second half of Get: query the default key *)
Definition pg_get_default (st : pg) (t : N) (def : bytes) : pg * pres :=
  let '(s, q) := srv_query (p_srv st) t def in
  let st := set_srv st s in
  match q with
  | Err e => (pg_abort st, PErr e)
  | Panic _ => (st, PPanic)
  | Ok row =>
    let '(s, (more, _)) := srv_next (p_srv st) t row in   (* rs.Err() is not consulted here *)
    let st := set_srv st s in
    if negb more then (pg_abort st, PErr ENotFound)
    else
      let '(s, r) := srv_scan (p_srv st) t in
      let st := set_srv st s in
      match r with
      | Err e => (pg_abort st, PErr e)
      | Panic _ => (st, PPanic)
      | Ok _ =>
        let '(st, r) := pg_stop_single st in
        (st, res_val r (match row with Some v => v | None => [] end))
      end
  end.

Definition pg_get (c : pcfg) (st : pg) (k : bytes) : pg * pres :=
  match to_key c k with
  | Err e => (st, PErr e)
  | Panic _ => (st, PPanic)
  | Ok (def, tr) =>
    let '(st, r) := pg_begin_if st in
    match r with
    | Err e => (st, PErr e)
    | Panic _ => (st, PPanic)
    | Ok t =>
      match tr with
      | None => pg_get_default st t def
      | Some tk =>
        let '(s, q) := srv_query (p_srv st) t tk in
        let st := set_srv st s in
        match q with
        | Err e => (pg_abort st, PErr e)
        | Panic _ => (st, PPanic)
        | Ok row =>
          let '(s, (more, failed)) := srv_next (p_srv st) t row in
          let st := set_srv st s in
          if more then
            let '(s, r) := srv_scan (p_srv st) t in
            let st := set_srv st s in
            match r with
            | Err e => (pg_abort st, PErr e)
            | Panic _ => (st, PPanic)
            | Ok _ =>
              let '(st, r) := pg_stop_single st in
              (st, res_val r (match row with Some v => v | None => [] end))
            end
          else if failed then (pg_abort st, PErr EFault)   (* err = rs.Err(); rs.Close(); Abort *)
          else pg_get_default st t def
        end
      end
    end
  end.

(* Close: Stop, ErrNoTx forgiven, then the pool is closed whatever Stop returned *)
Definition pg_close (st : pg) : pg * pres :=
  let '(st, r) := pg_stop st in
  let r := match r with PErr ENoTx => POk | x => x end in
  (set_srv st (srv_close (p_srv st)), r).

(* dumpFunc, called by Dumper.Next to prefetch the following row, until it yields nil. It acts on the
   oracle and the call log only (the Dump transaction is already committed). A row outside the
   requested prefix (base = pdb.itBase) ends the listing; so do — silently — a failed fetch, a failed
   Scan and an undecodable key: Dumper.Next has no error result *)
Fixpoint dump_iter (c : pcfg) (id : N) (base : bytes) (rest : kv) (orc : list bool) : list pev * list bool * kv :=
  match rest with
  | [] => ([mkEv KNext id (if hd false orc then 1 else 0)], tl orc, [])
  | (kk, vv) :: rest' =>
    if hd false orc then ([mkEv KNext id 1], tl orc, [])
    else if hd false (tl orc) then ([mkEv KScan id 1; mkEv KNext id 0], tl (tl orc), [])
    else if negb (is_prefix base kk) then ([mkEv KScan id 0; mkEv KNext id 0], tl (tl orc), [])
    else match decode_key c kk with
         | None => ([mkEv KScan id 0; mkEv KNext id 0], tl (tl orc), [])
         | Some dk =>
           let '(evs, orc', l) := dump_iter c id base rest' (tl (tl orc)) in
           (evs ++ [mkEv KScan id 0; mkEv KNext id 0], orc', (dk, vv) :: l)
         end
  end.

(* Dump's deferred tx.Commit: its error is dropped *)
Definition dump_commit (st : pg) (id : N) : pg :=
  let '(s, _) := srv_commit (p_srv st) id in set_srv st s.

(* Dump + iteration + Close. The transaction is Dump's own (id), pdb.tx is not touched. *)
Definition pg_dump (c : pcfg) (st : pg) (k : bytes) : pg * pres :=
  let '(s, r) := srv_begin (p_srv st) in
  match r with
  | Err e => (set_srv st s, PErr e)
  | Panic _ => (set_srv st s, PPanic)
  | Ok id =>
    let st := mkPg (p_tx st) (p_multi st) None s in            (* pdb.SetLanguage(nil) *)
    match to_key (eff c st) k with
    | Err e => let '(s, _) := srv_rollback (p_srv st) id in (set_srv st s, PErr e)   (* tx.Rollback; return *)
    | Panic _ => (st, PPanic)
    | Ok (def, _) =>
      let '(s, q) := srv_dquery (p_srv st) id def in
      let st := set_srv st s in
      match q with
      | Err e => let '(s, _) := srv_rollback (p_srv st) id in (set_srv st s, PErr e)
      | Panic _ => (st, PPanic)
      | Ok rows =>
        let '(s, (more, _)) := srv_next (p_srv st) id (match rows with [] => None | e :: _ => Some (snd e) end) in
        let st := set_srv st s in
        if negb more then (dump_commit st id, PErr ENotFound)
        else
          let '(s, r) := srv_scan (p_srv st) id in
          let st := set_srv st s in
          match r with
          | Err e => (dump_commit st id, PErr e)
          | Panic _ => (st, PPanic)
          | Ok _ =>
            match rows with
            | [] => (st, PPanic)   (* unreachable: more = true *)
            | (kk, vv) :: rest =>
              if negb (is_prefix def kk) then (dump_commit st id, PErr ENotFound)   (* first row outside the prefix *)
              else
              match decode_key c kk with
              | None => (dump_commit st id, PErr EGen)
              | Some dk =>
                let st := dump_commit st id in
                let s := p_srv st in
                let '(evs, orc', l) := dump_iter c id def rest (s_orc s) in
                (set_srv st (mkSrv (s_comm s) (s_open s) (s_next s) (s_closed s) (evs ++ s_log s) orc'),
                 PRows ((dk, vv) :: l))
              end
            end
          end
      end
    end
  end.

(* one operation; the call log is per operation *)
Definition pg_step (c : pcfg) (st : pg) (o : pop) : pg * pres :=
  let st := set_srv st (clear_log (p_srv st)) in
  match o with
  | PPut k v => pg_put (eff c st) st k v
  | PGet k => pg_get (eff c st) st k
  | PStart => pg_start st
  | PStop => pg_stop st
  | PAbort => (pg_abort st, POk)
  | PClose => pg_close st
  | PDump k => pg_dump c st k
  | PConnect => (st, POk)   (* pdb.conn != nil: warning, return nil; no driver call, no oracle bit *)
  end.

(* ---- observable behaviour of a history -------------------------------------------------- *)
Record pobs : Set := mkPobs {
  o_res : pres;
  o_open : N;               (* transactions begun and not ended *)
  o_comm : kv;              (* committed data, sorted by key *)
  o_evs : list pev          (* driver calls of this operation, oldest first *)
}.

Definition obs_of (st : pg) (r : pres) : pobs :=
  mkPobs r (len (s_open (p_srv st))) (asort (s_comm (p_srv st))) (rev (s_log (p_srv st))).

Fixpoint pg_trace (c : pcfg) (st : pg) (ops : list pop) : list pobs :=
  match ops with
  | [] => []
  | o :: ops' => let '(st', r) := pg_step c st o in obs_of st' r :: pg_trace c st' ops'
  end.

(* ---- C13 as an executable monitor over (operations, observations) ----------------------- *)
(* the client's view of where it is *)
Inductive umode : Set :=
| MSingle                          (* no explicit transaction *)
| MExpl (doomed : bool) (ov : kv)  (* between a successful Start and the next Stop/Abort/Close;
                                      ov = writes acknowledged inside it; doomed = some operation
                                      inside it returned an error (the property is silent then) *)
| MClosed.

Record mstate : Set := mkM {
  m_mode : umode;
  m_abs : kv;          (* durable acknowledged writes, by storage key *)
  m_started : bool;    (* some Start has succeeded *)
  m_hit : bool;        (* guard of K-C13-stickymulti: a Put/Get was issued outside an explicit
                          transaction after some Start had succeeded *)
  m_lang : option bytes  (* the language in force: a Dump that got its transaction resets it *)
}.
Definition m_init (c : pcfg) (init : kv) : mstate := mkM MSingle init false false (c_lang c).

Definition is_perr (r : pres) : bool := match r with PErr _ => true | _ => false end.
Definition has_fault (evs : list pev) : bool := existsb (fun e => ev_flag e =? 1) evs.
Definition has_done (evs : list pev) : bool := existsb (fun e => ev_flag e =? 3) evs.

(* what a Get must return given the visible map *)
Definition spec_get (vis : bytes -> option bytes) (def : bytes) (tr : option bytes) : pres :=
  match match tr with Some tk => vis tk | None => None end with
  | Some v => PVal v
  | None => match vis def with Some v => PVal v | None => PErr ENotFound end
  end.

Fixpoint kv_eqb (a b : kv) : bool :=
  match a, b with
  | [], [] => true
  | (k, v) :: a', (k', v') :: b' => bytes_eqb k k' && bytes_eqb v v' && kv_eqb a' b'
  | _, _ => false
  end.
Definition pres_eqb (a b : pres) : bool :=
  match a, b with
  | POk, POk | PPanic, PPanic => true
  | PVal x, PVal y => bytes_eqb x y
  | PErr e, PErr f => err_eqb e f
  | PRows x, PRows y => kv_eqb x y
  | _, _ => false
  end.

Definition opt_bytes_eqb (a b : option bytes) : bool :=
  match a, b with
  | Some x, Some y => bytes_eqb x y
  | None, None => true
  | _, _ => false
  end.
(* two maps agree on every key of either *)
Definition kv_agree (a b : kv) : bool :=
  forallb (fun k => opt_bytes_eqb (alookup k a) (alookup k b)) (map fst a ++ map fst b).

(* k_hit / k_dsw: the step lies in the guard of finding K-C13-stickymulti / K-C13-dumpswallow; k_fault / k_hyg / k_rec: the three demands of the property hold at this step *)
Record mcheck : Set := mkChk { k_hit : bool; k_dsw : bool; k_fault : bool; k_hyg : bool; k_rec : bool }.

(* guard of K-C13-dumpswallow: a Dump in which a fault fired at or after its deferred Commit, i.e. in
   the Commit itself or in the iteration that follows (Dumper.Next / the deferred call have no error
   result) *)
Fixpoint from_commit (evs : list pev) : list pev :=
  match evs with
  | [] => []
  | e :: evs' => match ev_kind e with KCommit => evs | _ => from_commit evs' end
  end.
Definition dump_late_fault (o : pop) (evs : list pev) : bool :=
  match o with PDump _ => has_fault (from_commit evs) | _ => false end.
(* did Dump get its transaction (and therefore reset the language) *)
Definition dump_began (evs : list pev) : bool :=
  match evs with
  | e :: _ => match ev_kind e with KBegin => ev_flag e =? 0 | _ => false end
  | [] => false
  end.

Definition put_key (c : pcfg) (k : bytes) : option bytes :=
  match to_key c k with
  | Ok (def, Some tk) => Some tk
  | Ok (def, None) => Some def
  | _ => None
  end.

(* the end of an explicit transaction: Stop (commit = true iff it returned Ok) or Abort *)
Definition end_expl (m : mstate) (ob : pobs) (commit : bool) : kv * bool :=
  match m_mode m with
  | MExpl false ov =>
    let a := if commit then apply_kv ov (m_abs m) else m_abs m in
    (a, kv_agree a (o_comm ob))          (* all of its writes visible at Stop / none after Abort *)
  | MExpl true _ => (o_comm ob, true)    (* the property is silent: take what the store holds *)
  | _ => (m_abs m, true)
  end.

Definition doom (r : pres) (md : umode) : umode :=
  match md with MExpl _ ov => if is_perr r then MExpl true ov else md | _ => md end.

(* the client-side bookkeeping: next mode, next durable map, started flag, and the visibility
   check at the end of an explicit transaction *)
Definition mon_next (c : pcfg) (m : mstate) (o : pop) (ob : pobs) : umode * kv * bool * bool :=
  let r := o_res ob in
  match o with
  | PStart =>
    match r, m_mode m with
    | POk, MSingle => (MExpl false [], m_abs m, true, true)
    | _, _ => (doom r (m_mode m), m_abs m, m_started m, true)
    end
  | PPut k v =>
    match r, put_key c k, m_mode m with
    | POk, Some ak, MSingle => (MSingle, aset ak v (m_abs m), m_started m, true)
    | POk, Some ak, MExpl d ov => (MExpl d (aset ak v ov), m_abs m, m_started m, true)
    | _, _, _ => (doom r (m_mode m), m_abs m, m_started m, true)
    end
  | PGet _ => (doom r (m_mode m), m_abs m, m_started m, true)
  | PStop =>
    match m_mode m with
    | MExpl _ _ => let ae := end_expl m ob (pres_eqb r POk) in (MSingle, fst ae, m_started m, snd ae)
    | md => (md, m_abs m, m_started m, true)
    end
  | PAbort =>
    match m_mode m with
    | MExpl _ _ => let ae := end_expl m ob false in (MSingle, fst ae, m_started m, snd ae)
    | md => (md, m_abs m, m_started m, true)
    end
  | PClose =>
    let ae := end_expl m ob (pres_eqb r POk) in (MClosed, fst ae, m_started m, snd ae)
  | PDump _ => (m_mode m, m_abs m, m_started m, true)   (* a transaction of its own: pdb.tx untouched *)
  | PConnect => (m_mode m, m_abs m, m_started m, true)  (* nothing may change *)
  end.

(* 3. reads return exactly the acknowledged writes (not judged when a fault fired inside the Get,
   nor inside an explicit transaction in which an operation has failed) *)
Definition get_check (c : pcfg) (m : mstate) (o : pop) (ob : pobs) : bool :=
  match o with
  | PGet k =>
    if has_fault (o_evs ob) then true else
    match to_key c k, m_mode m with
    | Ok (def, tr), MSingle => pres_eqb (o_res ob) (spec_get (fun x => alookup x (m_abs m)) def tr)
    | Ok (def, tr), MExpl false ov => pres_eqb (o_res ob) (spec_get (read_kv ov (m_abs m)) def tr)
    | _, _ => true
    end
  | _ => true
  end.

(* 2. transaction hygiene, seen from the client *)
Definition hyg_check (mode' : umode) (ob : pobs) : bool :=
  negb (has_done (o_evs ob)) && (o_open ob <=? 1) &&
  match mode' with
  | MSingle | MClosed => o_open ob =? 0
  | MExpl false _ => o_open ob =? 1
  | MExpl true _ => true
  end.

(* 1. a fault inside the operation is reported (Abort has no error result) *)
Definition fault_check (o : pop) (ob : pobs) : bool :=
  match o with PAbort => true | _ => if has_fault (o_evs ob) then is_perr (o_res ob) else true end.

Definition lang_next (m : mstate) (o : pop) (ob : pobs) : option bytes :=
  match o with PDump _ => if dump_began (o_evs ob) then None else m_lang m | _ => m_lang m end.

Definition hit_now (m : mstate) (o : pop) : bool :=
  m_hit m || (match o, m_mode m with
              | PPut _ _, MSingle | PGet _, MSingle => m_started m
              | _, _ => false end).

(* the monitor judges Put/Get under the key context in force (configured context + current language) *)
Definition mon_step (c : pcfg) (m : mstate) (o : pop) (ob : pobs) : mstate * mcheck :=
  let ce := set_lang c (m_lang m) in
  let nx := mon_next ce m o ob in
  let mode' := fst (fst (fst nx)) in
  (mkM mode' (snd (fst (fst nx))) (snd (fst nx)) (hit_now m o) (lang_next m o ob),
   mkChk (hit_now m o) (dump_late_fault o (o_evs ob)) (fault_check o ob) (hyg_check mode' ob)
         (get_check ce m o ob && snd nx && negb (pres_eqb (o_res ob) PPanic))).

Fixpoint mon_run (c : pcfg) (m : mstate) (ops : list pop) (obs : list pobs) : list mcheck :=
  match ops, obs with
  | o :: ops', ob :: obs' => let '(m', k) := mon_step c m o ob in k :: mon_run c m' ops' obs'
  | _, _ => []
  end.

(* the property at full strength *)
Definition c13_full (ks : list mcheck) : bool := forallb (fun k => k_fault k && k_hyg k && k_rec k) ks.
(* its three parts, each outside the guards of the findings that break it *)
Definition c13_fault_guarded (ks : list mcheck) : bool := forallb (fun k => k_dsw k || k_fault k) ks.
Definition c13_hyg_guarded (ks : list mcheck) : bool := forallb (fun k => k_hit k || k_hyg k) ks.
Definition c13_rec_guarded (ks : list mcheck) : bool := forallb (fun k => k_hit k || k_rec k) ks.
Definition sticky_hit (ks : list mcheck) : bool := existsb k_hit ks.
Definition dsw_hit (ks : list mcheck) : bool := existsb k_dsw ks.

(* init = data committed before the history starts (e.g. default-language entries) *)
Definition pg_run (c : pcfg) (init : kv) (ops : list pop) (orc : list bool) : list pobs :=
  pg_trace c (new_pg c init orc) ops.
Definition pg_checks (c : pcfg) (init : kv) (ops : list pop) (orc : list bool) : list mcheck :=
  mon_run c (m_init c init) ops (pg_run c init ops orc).
