(* EngineModel.v — executable model of engine/db.go (DefaultEngine: prepare/ensure*/setupVm,
   runFirst, init, Exec, exec, setCode, Flush, Reset, reset, Finish) and of the exported
   snapshot that persist/persist.go saves and loads.  Definitions only. *)
From Vise Require Import Bytes Errors Consts EngConsts Codec CacheModel StateModel NavModel RenderModel VmModel.
Local Open Scope N_scope.

Record config := mkCfg {
  c_out : N;                 (* OutputSize *)
  c_root : bytes;            (* Root ("" is replaced by the default in NewEngine) *)
  c_flagcount : N;           (* FlagCount *)
  c_cachesize : N;           (* CacheSize *)
  c_lang : bytes;            (* Language *)
  c_sep : bytes;             (* MenuSeparator *)
  c_reset_empty : bool;      (* ResetOnEmptyInput *)
  c_first : option (list fres)  (* WithFirst: script of the entry function, if any *)
}.

Definition cfg_root (c : config) : bytes := match c_root c with [] => s2b default_root | r => r end.

Record engine := mkEng {
  e_v : vmst;                (* state, cache, the main VM's page, world, log *)
  e_initd : bool;
  e_exit : bytes;
  e_exiting : bool;
  e_execd : bool
}.
Definition eset_v (e : engine) (v : vmst) := mkEng v (e_initd e) (e_exit e) (e_exiting e) (e_execd e).

(* what Persister.Save writes: every exported field of State and Cache *)
Definition snapshot : Type := state * cache.
Definition snap_of (s : state) (c : cache) : snapshot := (set_input_raw s None, c).

(* ensureState on a nil state *)
Definition fresh_state (c : config) : state :=
  let s := st_set_language lang_lookup (new_state (c_flagcount c)) (c_lang c) in
  match s_lang s with Some _ => setf s FLAG_LANG | None => s end.
Definition fresh_cache (c : config) : cache := new_cache (c_cachesize c).

(* NewVm: page with a default-separator menu; the sizer is attached after the first Reset *)
Definition new_vm_page (out : N) (sep : bytes) : page :=
  let pg := page_with_menu (page_reset new_page) (vm_new_menu []) in
  let pg := if 0 <? out then page_with_sizer pg (new_sizer out) else pg in
  (* WithMenuSeparator: also applied to the menu NewVm has already built *)
  match sep with
  | [] => pg
  | _ => upd_menu (fun m => mkMenu (m_items m) (m_browse m) (m_page_count m) (m_can_next m) (m_can_prev m)
                                  (m_sink m) (m_keep m) sep (m_has_rs m)) pg
  end.

(* a new engine object around a loaded snapshot (persisted operation) or nothing *)
Definition new_engine (c : config) (snap : option snapshot) (w : list (bytes * N)) (lg : list ev) : engine :=
  let '(s, ca) := match snap with Some sc => sc | None => (fresh_state c, fresh_cache c) end in
  mkEng (mkVm s ca (new_vm_page (c_out c) (c_sep c)) w lg false) false [] false false.

(* reset: unwind every level including the entry node, then Restart (which then fails
   silently on the empty path), clear TERMINATE and DIRTY *)
Fixpoint unwind (fuel : nat) (st : state) (ca : cache) : state * cache * stat :=
  match fuel with
  | O => (st, ca, SOk)
  | S f =>
    match st_top st with
    | Err e => (st, ca, SErr e None)
    | Panic n => (st, ca, SPanic n)
    | Ok is_top =>
      match st_up st with
      | Err e => (st, ca, SErr e None)
      | Panic n => (st, ca, SPanic n)
      | Ok (_, st') =>
        let ca' := match cache_pop ca with Ok c => c | _ => ca end in
        if is_top then (st', ca', SOk) else unwind f st' ca'
      end
    end
  end.
Definition eng_reset_inner (v : vmst) : vmst * stat :=
  let '(st, ca, s) := unwind (S (List.length (s_path (v_st v)))) (v_st v) (v_ca v) in
  match s with
  | SOk =>
    let st := match st_restart st with Ok st' => st' | _ => st end in
    (vset_ca (vset_st v (resetf (resetf st FLAG_TERMINATE) FLAG_DIRTY)) ca, SOk)
  | _ => (vset_ca (vset_st v st) ca, s)
  end.

(* result of Flush: bytes written to the writer, and the status *)
Inductive fstat : Type :=
| FOk
| FErr (e : err)
| FPanic (site : N)
| FFuel.

Definition eng_flush (fuel : nat) (rs : rsrc) (c : config) (e : engine) : engine * bytes * fstat :=
  if negb (e_execd e) then (e, [], FErr EFlushNoExec) else
  let lang := s_lang (v_st (e_v e)) in
  let '(v, r) := vm_render fuel rs (c_sep c) lang (e_v e) in
  let e := eset_v e v in
  match r with
  | RRPanic n => (e, [], FPanic n)
  | RRFuel => (e, [], FFuel)
  | _ =>
    let rlen := match r with RROk out => len out | _ => 0 end in
    if (0 <? c_out c) && (0 <? len (e_exit e)) && (c_out c <? w32 (len (e_exit e) + rlen)) then
      if e_exiting e then
        let '(v', _) := eng_reset_inner (e_v e) in
        (mkEng v' (e_initd e) (e_exit e) false (e_execd e), [], FErr EGen)
      else (e, [], FErr EGen)
    else
    match r, e_exit e with
    | RRErr er, [] => (e, [], FErr er)
    | _, _ =>
      let out := (match r with RROk o => o | _ => [] end) ++ e_exit e in
      if e_exiting e then
        let '(v', s) := eng_reset_inner (e_v e) in
        let e' := mkEng v' (e_initd e) (e_exit e) false (e_execd e) in
        match s with
        | SOk => (e', out, FOk)
        | SErr er _ => (e', out, FErr er)
        | SPanic n => (e', out, FPanic n)
        | SFuel => (e', out, FFuel)
        end
      else
        (* the render error swallowed because an exit value exists is still what is returned *)
        (e, out, match r with RRErr er => FErr er | _ => FOk end)
    end
  end.

(* the private resource of runFirst *)
Definition first_sym : bytes := s2b "_first".
Definition first_rsrc (script : list fres) : rsrc :=
  mkRsrc (fun _ => Ok []) (fun _ _ => Ok []) (fun _ _ => Ok [])
         (fun sym => if bytes_eqb sym first_sym then Some script else None)
         (fun sym => s2b "unknown function: " ++ sym)
         false.
Definition first_code : bytes := encode (ILoad first_sym 0) ++ encode IHalt.

(* runFirst: (engine, r, status) *)
Definition run_first (fuel : nat) (c : config) (lang : option bytes) (e : engine) : engine * bool * stat :=
  match c_first c with
  | None => (e, true, SOk)
  | Some script =>
    let v := e_v e in
    let main_pg := v_pg v in
    match st_down (v_st v) first_sym with
    | Panic n => (e, false, SPanic n)
    | Err er => (e, false, SErr er None)
    | Ok st1 =>
      let v1 := mkVm st1 (cache_push (v_ca v)) (page_with_menu (page_reset new_page) (vm_new_menu [])) (v_w v) (v_log v) (v_taint v) in
      let '(v2, b, s) := run fuel (first_rsrc script) [] lang first_code v1 in
      (* decided before the deferred calls run *)
      let term := getf (v_st v2) FLAG_TERMINATE in
      let '(r, s', take_exit) :=
        match s with
        | SOk => match b with
                 | [] => if term then (false, SOk, true) else (true, SOk, false)
                 | _ => (false, SErr EGen None, false)
                 end
        | _ => (false, s, false)
        end in
      let '(exit, ca2) := if take_exit then cache_last (v_ca v2) else (e_exit e, v_ca v2) in
      (* deferred: ResetFlag(DIRTY), ResetFlag(TERMINATE), st.Up(), ca.Pop() *)
      let st3 := resetf (resetf (v_st v2) FLAG_DIRTY) FLAG_TERMINATE in
      let st4 := match st_up st3 with Ok (_, st') => st' | _ => st3 end in
      let ca3 := match cache_pop ca2 with Ok c' => c' | _ => ca2 end in
      let v3 := mkVm st4 ca3 main_pg (v_w v2) (v_log v2) (v_taint v2) in
      (mkEng v3 (e_initd e) exit (e_exiting e) (if take_exit then true else e_execd e), r, s')
    end
  end.

(* setCode: returns cont *)
Definition set_code_eng (e : engine) (code : bytes) : engine * bool :=
  let v := e_v e in
  let st := set_code (v_st v) code in
  match code with
  | [] =>
    if getf st FLAG_DIRTY then
      let '(last, ca') := cache_last (v_ca v) in
      (mkEng (vset_ca (vset_st v st) ca') (e_initd e) last true (e_execd e), false)
    else (eset_v e (vset_st v st), false)
  | _ => (eset_v e (vset_st v st), true)
  end.

Definition stat_of_f (f : fstat) : stat :=
  match f with FOk => SOk | FErr er => SErr er None | FPanic n => SPanic n | FFuel => SFuel end.

(* init: (engine, cont, status) *)
Definition eng_init (fuel : nat) (rs : rsrc) (c : config) (e : engine) (input : bytes) : engine * bool * stat :=
  (* prepare *)
  let '(e1, s1) :=
    if e_execd e then let '(e', _, f) := eng_flush fuel rs c e in (e', stat_of_f f) else (e, SOk) in
  match s1 with
  | SOk =>
    let e2 := mkEng (e_v e1) (e_initd e1) [] false false in
    if e_initd e2 then (e2, true, SOk) else
    (* preparePersist / ensureState / ensureMemory / ensurePersist / setupVm are in new_engine *)
    let lang := s_lang (v_st (e_v e2)) in
    let in_save := s_input (v_st (e_v e2)) in
    match set_input (v_st (e_v e2)) (Some input) with
    | Err er => (e2, false, SErr er None)
    | Panic n => (e2, false, SPanic n)
    | Ok st1 =>
      let e3 := eset_v e2 (vset_st (e_v e2) st1) in
      let '(e4, r, s) := run_first fuel c lang e3 in
      match s with
      | SOk =>
        if negb r then (e4, false, SOk) else
        (* no pending code: a stale position (the previous request failed) is unwound first,
           unless the session is terminated *)
        let '(e4', s4) :=
          match s_code (v_st (e_v e4)), s_path (v_st (e_v e4)) with
          | [], _ :: _ =>
            if getf (v_st (e_v e4)) FLAG_TERMINATE then (e4, SOk)
            else let '(v', s') := eng_reset_inner (e_v e4) in (eset_v e4 v', s')
          | _, _ => (e4, SOk)
          end in
        match s4 with
        | SOk =>
          let '(e5, cont) :=
            match s_code (v_st (e_v e4')) with
            | [] => set_code_eng e4' (encode (IMove (cfg_root c)))
            | _ => (e4', true)
            end in
          let st5 := set_input_raw (v_st (e_v e5)) in_save in
          (mkEng (vset_st (e_v e5) st5) true (e_exit e5) (e_exiting e5) (e_execd e5), cont, SOk)
        | _ => (e4', false, s4)
        end
      | _ => (e4, false, s)
      end
    end
  | _ => (e1, false, s1)
  end.

(* Reset(ctx, true) *)
Definition eng_reset_force (c : config) (e : engine) : engine * stat :=
  match s_path (v_st (e_v e)) with
  | [] => (e, SOk)
  | _ =>
    let v := vset_st (e_v e) (set_code (v_st (e_v e)) (encode (IMove (cfg_root c)))) in
    let '(v', s) := eng_reset_inner v in
    (eset_v e v', s)
  end.

(* exec *)
Definition eng_exec_inner (fuel : nat) (rs : rsrc) (c : config) (e : engine) : engine * bool * stat :=
  let v := e_v e in
  let code := s_code (v_st v) in
  let v := vset_st v (set_code (v_st v) []) in
  match code with
  | [] => (eset_v e v, false, SErr EGen None)
  | _ =>
    let lang := s_lang (v_st v) in
    let '(v1, b, s) := run fuel rs (c_sep c) lang code v in
    match s with
    | SOk =>
      let e1 := mkEng v1 (e_initd e) (e_exit e) (e_exiting e) true in
      if getf (v_st v1) FLAG_TERMINATE then (e1, false, SOk)
      else let '(e2, cont) := set_code_eng e1 b in (e2, cont, SOk)
    | _ => (eset_v e v1, false, s)
    end
  end.

(* Exec: (engine, cont, status) *)
Definition eng_exec (fuel : nat) (rs : rsrc) (c : config) (e : engine) (input : bytes) : engine * bool * stat :=
  let '(e1, cont, s) := eng_init fuel rs c e input in
  match s with
  | SOk =>
    if negb cont then (e1, false, SOk) else
    let '(e2, s2) := if c_reset_empty c && (len input =? 0) then eng_reset_force c e1 else (e1, SOk) in
    match s2 with
    | SOk =>
      if (0 <? len input) && negb (valid_input_b input) then (e2, true, SErr EGen None) else
      match set_input (v_st (e_v e2)) (Some input) with
      | Err er => (e2, false, SErr er None)
      | Panic n => (e2, false, SPanic n)
      | Ok st' => eng_exec_inner fuel rs c (eset_v e2 (vset_st (e_v e2) st'))
      end
    | _ => (e2, false, s2)
    end
  | _ => (e1, false, s)
  end.

(* Finish: the snapshot saved, if any *)
Definition eng_finish (e : engine) : option snapshot :=
  if e_initd e then Some (snap_of (v_st (e_v e)) (v_ca (e_v e))) else None.

(* ---- request drivers --------------------------------------------------------------- *)
Record response := mkResp {
  r_cont : bool;
  r_exec : stat;
  r_out : bytes;
  r_flush : fstat
}.

(* long-lived engine: Exec then Flush *)
Definition request_long (fuel : nat) (rs : rsrc) (c : config) (e : engine) (input : bytes) : engine * response :=
  let '(e1, cont, s) := eng_exec fuel rs c e input in
  match s with
  | SPanic n => (e1, mkResp cont s [] (FPanic n))      (* the panic unwinds the caller: no Flush *)
  | SFuel => (e1, mkResp cont s [] FFuel)
  | _ =>
    let '(e2, out, f) := eng_flush fuel rs c e1 in
    (e2, mkResp cont s out f)
  end.

(* persisted operation: the store holds the session record; every request builds a new
   engine around it (ensurePersist writes the fresh record when none can be loaded), runs
   Exec, Flush and Finish *)
Record pworld := mkPw {
  pw_store : option snapshot;
  pw_w : list (bytes * N);
  pw_log : list ev;
  pw_taint : bool
}.
Definition request_persisted (fuel : nat) (rs : rsrc) (c : config) (p : pworld) (input : bytes) : pworld * response :=
  let e := new_engine c (pw_store p) (pw_w p) (pw_log p) in
  let store0 := match pw_store p with Some s => Some s | None => Some (snap_of (v_st (e_v e)) (v_ca (e_v e))) end in
  let '(e1, cont, s) := eng_exec fuel rs c e input in
  match s with
  | SPanic n => (mkPw store0 (v_w (e_v e1)) (v_log (e_v e1)) (pw_taint p || v_taint (e_v e1)), mkResp cont s [] (FPanic n))
  | SFuel => (mkPw store0 (v_w (e_v e1)) (v_log (e_v e1)) (pw_taint p || v_taint (e_v e1)), mkResp cont s [] FFuel)
  | _ =>
    let '(e2, out, f) := eng_flush fuel rs c e1 in
    match f with
    | FPanic _ | FFuel =>   (* no Finish after a panic *)
      (mkPw store0 (v_w (e_v e2)) (v_log (e_v e2)) (pw_taint p || v_taint (e_v e2)), mkResp cont s out f)
    | _ =>
      let store1 := match eng_finish e2 with Some sn => Some sn | None => store0 end in
      (mkPw store1 (v_w (e_v e2)) (v_log (e_v e2)) (pw_taint p || v_taint (e_v e2)), mkResp cont s out f)
    end
  end.
