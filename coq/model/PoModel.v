(* PoModel.v — executable model of resource/gettext.go (PoResource: NewPoResource, WithLanguage,
   get, GetTemplate, GetMenu) over the part of gopkg.in/leonelquinteros/gotext.v1 it uses
   (Locale.AddDomain / Locale.GetD, Po.Parse / Po.GetN, translation.getN).  Definitions only.
   Written by agent `symbols`.

   What a .po file is here: the association list msgid -> msgstr that gotext's parser produces for
   it, INCLUDING the header entry (msgid "") when the file has one (Po.translations[""]).  The
   parser itself (line splitting, strconv.Unquote, multi-line strings) is third-party code: it is
   exercised by the correspondence driver `po`, which writes real files from generated tables, and
   not modelled.  Files are keyed by (language code, domain); a file that does not exist and a file
   without entries behave alike (AddDomain registers an empty Po).  Outside the model (the driver
   does not generate them): msgctxt, plural forms / a Plural-Forms header, duplicate msgids
   (last one wins in gotext), gotext's fallback from <path>/<lang> to the two-letter directory
   <path>/<lang[:2]> when a domain file is missing, and a "Language" context value that is not a
   lang.Language (the type assertion in lang.LanguageFromContext panics). *)
From Vise Require Import Bytes Errors.
Local Open Scope N_scope.

(* the three domains PoResource knows: PoDomain = "default", TemplateKeyPoDomain = "x-vise",
   MenuKeyPoDomain = "x-vise_menu" *)
Inductive pdom : Set := DDefault | DKeyTpl | DKeyMenu.
Definition pdom_eqb (a b : pdom) : bool :=
  match a, b with
  | DDefault, DDefault | DKeyTpl, DKeyTpl | DKeyMenu, DKeyMenu => true
  | _, _ => false
  end.

Notation potable := (list (list N * list N)) (only parsing).

(* the files under the locale path: (language directory, domain, parsed entries) *)
Definition potables : Type := list (bytes * pdom * list (bytes * bytes)).

Fixpoint po_table (t : potables) (l : bytes) (d : pdom) : list (bytes * bytes) :=
  match t with
  | [] => []
  | (l', d', tbl) :: t' => if bytes_eqb l l' && pdom_eqb d d' then tbl else po_table t' l d
  end.

(* Locale.GetD(dom, str) = GetND(dom, str, str, 1) with no Plural-Forms header (plural form 0) and
   no format arguments: the entry's msgstr when the msgid is present and its msgstr is NOT empty,
   else the string itself (translation.getN: "Return untranslated singular") *)
Definition po_getd (tbl : list (bytes * bytes)) (key : bytes) : bytes :=
  match alookup key tbl with
  | Some (x :: v) => x :: v
  | _ => key
  end.

(* the locales PoResource holds: the default language (NewPoResource) and every WithLanguage *)
Definition po_registered (dflt : bytes) (regs : list bytes) (l : bytes) : bool :=
  bytes_eqb l dflt || mem_bytes l regs.

Definition po_keydom (menu : bool) : pdom := if menu then DKeyMenu else DKeyTpl.

(* the source string: the symbol looked up in the KEY domain of the DEFAULT language (only the
   default language's locale has the key domains added) *)
Definition po_source (t : potables) (dflt : bytes) (sym : bytes) (menu : bool) : bytes :=
  po_getd (po_table t dflt (po_keydom menu)) sym.

(* PoResource.get.  ctx = the language of the context, None when the context carries none *)
Definition po_get (t : potables) (dflt : bytes) (regs : list bytes) (ctx : option bytes)
  (sym : bytes) (menu : bool) : bytes :=
  let ln := match ctx with Some l => l | None => dflt end in
  let s := po_source t dflt sym menu in
  if po_registered dflt regs ln then po_getd (po_table t ln DDefault) s else s.

(* the lookups as the VM's resource record wants them (VmModel.rs_tpl / rs_menu have the type
   option bytes -> bytes -> outcome err bytes): GetTemplate / GetMenu never fail *)
Definition po_tpl (t : potables) (dflt : bytes) (regs : list bytes) (lang : option bytes) (sym : bytes)
  : outcome err bytes := Ok (po_get t dflt regs lang sym false).
Definition po_menu (t : potables) (dflt : bytes) (regs : list bytes) (lang : option bytes) (sym : bytes)
  : outcome err bytes := Ok (po_get t dflt regs lang sym true).
