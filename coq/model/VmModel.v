(* VmModel.v — executable model of vm/runner.go and vm/input.go (applyTarget, Rewind, Run and
   the per-opcode handlers, runErrCheck, runDeadCheck, refresh, Render, Reset) over the models
   of state, cache, codec and renderer.  Definitions only.

   Go mutates *State, *Cache, *Page in place and may fail half-way; every function therefore
   returns the updated components together with a status. *)
From Vise Require Import Bytes Errors Consts EngConsts Codec CacheModel StateModel NavModel RenderModel.
Local Open Scope N_scope.

(* ---- resources ------------------------------------------------------------------- *)

(* one scripted answer of an external (entry) function *)
Record fres := mkFres {
  fr_content : bytes;
  fr_echo : bool;          (* append the client input to the content *)
  fr_status : N;
  fr_set : list N;         (* Result.FlagSet *)
  fr_reset : list N;       (* Result.FlagReset *)
  fr_fail : bool           (* the function returns an error *)
}.

(* application data, laid out like the key-value store behind resource.DbResource:
   templates under sym / sym_lang, menu labels under title_menu / title_menu_lang *)
Record app := mkApp {
  a_code : list (bytes * bytes);
  a_tpl : list (bytes * bytes);
  a_menu : list (bytes * bytes);
  a_funcs : list (bytes * list fres)
}.

Definition us : bytes := [95].  (* "_" *)
Definition lookup_lang (tbl : list (bytes * bytes)) (key : bytes) (lang : option bytes) : option bytes :=
  match lang with
  | Some l => match alookup (key ++ us ++ l) tbl with
              | Some v => Some v
              | None => alookup key tbl
              end
  | None => alookup key tbl
  end.

(* what the VM sees of a resource.Resource *)
Record rsrc := mkRsrc {
  rs_code : bytes -> res bytes;
  rs_tpl : option bytes -> bytes -> res bytes;
  rs_menu : option bytes -> bytes -> res bytes;
  rs_func : bytes -> option (list fres);
  rs_nofunc : bytes -> bytes;         (* message of FuncFor's error for an unknown symbol *)
  rs_observed : bool                  (* the application's resource (its code fetches are ghost-logged) *)
}.

Definition menu_suffix : bytes := s2b "_menu".
Definition app_rsrc (a : app) : rsrc :=
  mkRsrc
    (fun sym => match alookup sym (a_code a) with Some c => Ok c | None => Err ENotFound end)
    (fun lang sym => match lookup_lang (a_tpl a) sym lang with Some t => Ok t | None => Err ENotFound end)
    (fun lang title => match lookup_lang (a_menu a) (title ++ menu_suffix) lang with Some t => Ok t | None => Ok title end)
    (fun sym => alookup sym (a_funcs a))
    (fun _ => s2b "not a staticload getter")
    true.

(* ---- ghost events ---------------------------------------------------------------- *)
Inductive ev : Type :=
| EvFunc (sym : bytes) (lang : option bytes) (input : option bytes)   (* entry function called *)
| EvCode (sym : bytes)                                                 (* GetCode *)
| EvRender (sym : bytes) (idx : N) (lang : option bytes)               (* Page.Render with this language in the context *)
| EvMove (kind : N) (target sym : bytes)     (* kind 0 MOVE, 1 INCMP, 2 CATCH; target as written, sym = node arrived at *)
| EvInCmp (dest sel : bytes) (fired : bool)
| EvInstr (op : N).

(* ---- machine state --------------------------------------------------------------- *)
Record vmst := mkVm {
  v_st : state;
  v_ca : cache;
  v_pg : page;
  v_w : list (bytes * N);   (* world: how often each external function has been called *)
  v_log : list ev;          (* newest first *)
  v_taint : bool            (* an error whose message text is not modelled became the page's error prefix *)
}.
Definition vset_st (v : vmst) (s : state) := mkVm s (v_ca v) (v_pg v) (v_w v) (v_log v) (v_taint v).
Definition vset_ca (v : vmst) (c : cache) := mkVm (v_st v) c (v_pg v) (v_w v) (v_log v) (v_taint v).
Definition vset_pg (v : vmst) (p : page) := mkVm (v_st v) (v_ca v) p (v_w v) (v_log v) (v_taint v).
Definition vset_w (v : vmst) (w : list (bytes * N)) := mkVm (v_st v) (v_ca v) (v_pg v) w (v_log v) (v_taint v).
Definition vlog (v : vmst) (e : ev) := mkVm (v_st v) (v_ca v) (v_pg v) (v_w v) (e :: v_log v) (v_taint v).
Definition vtaint (v : vmst) := mkVm (v_st v) (v_ca v) (v_pg v) (v_w v) (v_log v) true.

(* ---- Vm.Reset ---------------------------------------------------------------------- *)
Definition vm_default_sep : bytes := s2b default_menu_separator.
Definition vm_new_menu (sep : bytes) : menu := new_menu (match sep with [] => vm_default_sep | _ => sep end).
Definition vm_reset (sep : bytes) (pg : page) : page := page_with_menu (page_reset pg) (vm_new_menu sep).

Definition upd_menu (f : menu -> menu) (pg : page) : page :=
  match p_menu pg with
  | Some m => mkPage (p_map pg) (p_sink pg) (Some (f m)) (p_sizer pg) (p_err pg) (p_extra pg)
  | None => pg
  end.

(* NewLine(nil, MOVE, ["_catch"], nil, nil) *)
Definition move_catch_code : bytes := encode (IMove catch_sym).

(* ---- refresh ------------------------------------------------------------------------ *)
Definition lang_lookup (code : bytes) : option bytes :=
  let fix go (tbl : list (string * option string)) :=
    match tbl with
    | [] => None
    | (c, r) :: tbl' => if bytes_eqb (s2b c) code then option_map s2b r else go tbl'
    end in go lang_table.

Definition msg_external (sym : bytes) (status : N) : bytes := s2b "error " ++ sym ++ [58] ++ dec status.

Fixpoint apply_flags (set : bool) (fl : list N) (st : state) : res state :=
  match fl with
  | [] => Ok st
  | f :: fl' =>
    if is_writeable_flag f then
      obind (if set then set_flag st f else reset_flag st f) (fun '(st', _) => apply_flags set fl' st')
    else apply_flags set fl' st
  end.

Definition nth_fres (script : list fres) (n : N) : option fres :=
  match script with
  | [] => None
  | _ => nth_error script (N.to_nat (n mod len script))
  end.

(* returns the content on success *)
Definition refresh (rs : rsrc) (lang : option bytes) (key : bytes) (v : vmst) : vmst * bytes * stat :=
  match rs_func rs key with
  | None => (v, [], SErr EGen (Some (rs_nofunc rs key)))
  | Some script =>
    let n := match alookup key (v_w v) with Some n => n | None => 0 end in
    match nth_fres script n with
    | None => (v, [], SErr EGen (Some (rs_nofunc rs key)))
    | Some fr =>
      let input := s_input (v_st v) in
      let v := vlog (vset_w v (aset key (n + 1) (v_w v))) (EvFunc key lang input) in
      if fr_fail fr then
        (vset_st v (setf (v_st v) FLAG_LOADFAIL), [], SErr EExternal (Some (msg_external key (fr_status fr))))
      else
        let content := fr_content fr ++ (if fr_echo fr then match input with Some i => i | None => [] end else []) in
        match apply_flags false (fr_reset fr) (v_st v) with
        | Ok st1 =>
          match apply_flags true (fr_set fr) st1 with
          | Ok st2 =>
            let st3 := if getf st2 FLAG_LANG then st_set_language lang_lookup st2 content else st2 in
            (vset_st v st3, content, SOk)
          | Err e => (v, [], SErr e None)
          | Panic s => (v, [], SPanic s)
          end
        | Err e => (v, [], SErr e None)
        | Panic s => (v, [], SPanic s)
        end
    end
  end.

(* ---- handlers: each returns the machine, the remaining code and a status -------------- *)
Definition hres : Type := vmst * bytes * stat.

Definition fetch_code (rs : rsrc) (sym : bytes) (v : vmst) : vmst * res bytes :=
  ((if rs_observed rs then vlog v (EvCode sym) else v), rs_code rs sym).

Definition run_catch (rs : rsrc) (sym : bytes) (sig : N) (mode : bool) (b : bytes) (v : vmst) : hres :=
  match match_flag (v_st v) sig mode with
  | Panic n => (v, b, SPanic n)
  | Err e => (v, b, SErr e None)
  | Ok false => (v, b, SOk)
  | Ok true =>
    let '(st', ca', nsym, s) := apply_target sym (v_st v) (v_ca v) in
    let v1 := vset_ca (vset_st v st') ca' in
    match s with
    | SOk =>
      let '(v2, c) := fetch_code rs nsym (vlog v1 (EvMove 2 sym nsym)) in
      match c with
      | Ok code => (v2, code, SOk)
      | Err e => (v2, b, SErr e None)
      | Panic n => (v2, b, SPanic n)
      end
    | _ => (v1, b, s)
    end
  end.

Definition run_croak (sep : bytes) (sig : N) (mode : bool) (b : bytes) (v : vmst) : hres :=
  match match_flag (v_st v) sig mode with
  | Panic n => (v, b, SPanic n)
  | Err e => (v, b, SErr e None)
  | Ok false => (v, b, SOk)
  | Ok true => (vset_ca (vset_pg v (vm_reset sep (v_pg v))) (cache_reset (v_ca v)), [], SOk)
  end.

Definition run_load (rs : rsrc) (lang : option bytes) (sym : bytes) (sz : N) (b : bytes) (v : vmst) : hres :=
  match cache_get (v_ca v) sym with
  | Ok _ => (v, b, SOk)
  | Panic n => (v, b, SPanic n)
  | Err _ =>
    let '(v1, content, s) := refresh rs lang sym v in
    match s with
    | SOk =>
      match cache_add (v_ca v1) sym content (w16 sz) with
      | Ok ca' => (vset_ca v1 ca', b, SOk)
      | Err EDup => (v1, b, SOk)
      | Err e => (v1, b, SErr e None)
      | Panic n => (v1, b, SPanic n)
      end
    | _ => (v1, b, s)
    end
  end.

Definition run_reload (rs : rsrc) (lang : option bytes) (sym : bytes) (b : bytes) (v : vmst) : hres :=
  let '(v1, content, s) := refresh rs lang sym v in
  match s with
  | SOk =>
    let '(ca', _) := cache_update_raw (v_ca v1) sym content in
    let v2 := vset_ca v1 ca' in
    match page_map (v_ca v2) (v_pg v2) sym with
    | Ok pg' => (vset_pg v2 pg', b, SOk)
    | Err e => (v2, b, SErr e None)
    | Panic n => (v2, b, SPanic n)
    end
  | _ => (v1, b, s)
  end.

Definition run_map (sym : bytes) (b : bytes) (v : vmst) : hres :=
  match page_map (v_ca v) (v_pg v) sym with
  | Ok pg' => (vset_pg v pg', b, SOk)
  | Err e => (v, b, SErr e None)
  | Panic n => (v, b, SPanic n)
  end.

Definition run_move (rs : rsrc) (sep : bytes) (sym : bytes) (b : bytes) (v : vmst) : hres :=
  let '(st', ca', nsym, s) := apply_target sym (v_st v) (v_ca v) in
  let v1 := vset_ca (vset_st v st') ca' in
  match s with
  | SOk =>
    let '(v2, c) := fetch_code rs nsym (vlog v1 (EvMove 0 sym nsym)) in
    match c with
    | Ok code => (vset_pg v2 (vm_reset sep (v_pg v2)), b ++ code, SOk)
    | Err e => (v2, b, SErr e None)
    | Panic n => (v2, b, SPanic n)
    end
  | _ => (v1, b, s)
  end.

Definition star : bytes := [42].

Definition run_incmp (rs : rsrc) (sep : bytes) (dest sel : bytes) (b : bytes) (v : vmst) : hres :=
  let st := v_st v in
  let reading := getf st FLAG_READIN in
  let have := getf st FLAG_INMATCH in
  if have && reading then (vlog v (EvInCmp dest sel false), b, SOk) else
  let st := if have then st else setf st FLAG_READIN in
  let v := vset_st v st in
  match s_input st with
  | None => (v, b, SErr EGen None)
  | Some input =>
    if (negb have && bytes_eqb sel star) || bytes_eqb sel input then
      let st := resetf (setf st FLAG_INMATCH) FLAG_READIN in
      let '(st', ca', nsym, s) := apply_target dest st (v_ca v) in
      let v1 := vset_ca (vset_st v st') ca' in
      match s with
      | SErr EIndex _ => (vlog (vset_st v1 (setf st' FLAG_READIN)) (EvInCmp dest sel false), b, SOk)
      | SOk =>
        let v2 := vlog (vlog (vset_pg v1 (vm_reset sep (v_pg v1))) (EvInCmp dest sel true)) (EvMove 1 dest nsym) in
        let '(v3, c) := fetch_code rs nsym v2 in
        match c with
        | Ok code => (v3, b ++ code, SOk)
        | Err e => (v3, b, SErr e None)
        | Panic n => (v3, b, SPanic n)
        end
      | _ => (v1, b, s)
      end
    else (vlog v (EvInCmp dest sel false), b, SOk)
  end.

Definition with_browse_next (title sel : bytes) (m : menu) : menu :=
  let c := m_browse m in
  menu_with_browse m (mkBrowse true sel title (b_prev_avail c) (b_prev_sel c) (b_prev_title c)).
Definition with_browse_prev (title sel : bytes) (m : menu) : menu :=
  let c := m_browse m in
  menu_with_browse m (mkBrowse (b_next_avail c) (b_next_sel c) (b_next_title c) true sel title).

(* runErrCheck *)
Definition set_page_err (v : vmst) (msg : option bytes) : vmst :=
  match msg with
  | Some m => vset_pg v (page_with_error (v_pg v) (Some m))
  | None => vtaint (vset_pg v (page_with_error (v_pg v) (Some [])))
  end.

Definition msg_invalid_input (input : option bytes) : bytes :=
  s2b "invalid input: '" ++ (match input with Some i => i | None => s2b "(no input)" end) ++ [39].

(* runDeadCheck (called with empty code) *)
Definition dead_check (v : vmst) : hres :=
  let st := v_st v in
  if negb (getf st FLAG_READIN) then (vset_st v (setf st FLAG_TERMINATE), [], SOk)
  else if getf st FLAG_TERMINATE then (v, [], SOk)
  else
    let loc := where_sym st in
    match loc with
    | [] => (v, [], SErr EGen None)
    | _ =>
      if bytes_eqb loc catch_sym then (v, [], SErr EGen None)
      else (vset_pg v (page_with_error (v_pg v) (Some (msg_invalid_input (s_input st)))), move_catch_code, SOk)
    end.

(* one instruction after decoding *)
Definition exec_instr (rs : rsrc) (sep : bytes) (lang : option bytes) (i : instr) (b : bytes) (v : vmst) : hres :=
  match i with
  | INoop => (v, b, SErr EGen None)        (* default: "Unhandled state" *)
  | ICatch sym sig mode => run_catch rs sym sig mode b v
  | ICroak sig mode => run_croak sep sig mode b v
  | ILoad sym sz => run_load rs lang sym sz b v
  | IReload sym => run_reload rs lang sym b v
  | IMap sym => run_map sym b v
  | IMove sym => run_move rs sep sym b v
  | IHalt => (vset_st v (setf (v_st v) FLAG_WAIT), b, SOk)
  | IInCmp dest sel => run_incmp rs sep dest sel b v
  | IMSink => (vset_pg v (upd_menu (fun m => menu_with_pages (menu_with_sink m)) (v_pg v)), b, SOk)
  | IMOut title sel => (vset_pg v (upd_menu (fun m => menu_put m sel title) (v_pg v)), b, SOk)
  | IMNext title sel => (vset_pg v (upd_menu (with_browse_next title sel) (v_pg v)), b, SOk)
  | IMPrev title sel => (vset_pg v (upd_menu (with_browse_prev title sel) (v_pg v)), b, SOk)
  end.

Definition is_halt (i : instr) : bool := match i with IHalt => true | _ => false end.

(* Run.  lang is the "Language" value of the context, which the loop itself updates. *)
Fixpoint run (fuel : nat) (rs : rsrc) (sep : bytes) (lang : option bytes) (b : bytes) (v : vmst) : hres :=
  match fuel with
  | O => (v, b, SFuel)
  | S fuel' =>
    let st := v_st v in
    if getf st FLAG_TERMINATE then (v, [], SOk) else
    let change := getf st FLAG_LANG in
    let st := resetf st FLAG_LANG in
    let lang := if change then match s_lang st with Some l => Some l | None => lang end else lang in
    let wait := getf st FLAG_WAIT in
    let st := resetf st FLAG_WAIT in
    let st := if wait then resetf st FLAG_INMATCH else st in
    let pg := if wait then upd_menu menu_reset (page_reset (page_with_error (v_pg v) None)) else v_pg v in
    let st := setf st FLAG_DIRTY in
    let v := vset_pg (vset_st v st) pg in
    match op_split b with
    | Err e => (v, b, SErr e None)
    | Panic n => (v, b, SPanic n)
    | Ok (op, b1) =>
      match parse_args op b1 with
      | Panic n => (v, b1, SPanic n)
      | parsed =>
        let '(v1, b2, s) :=
          match parsed with
          | Ok (i, b2) => exec_instr rs sep lang i b2 (vlog v (EvInstr op))
          | _ => (v, b1, SErr EGen None)
          end in
        if op =? op_HALT then (v1, b2, s) else
        (* runErrCheck *)
        let '(v2, b3, s2) :=
          match s with
          | SErr e msg =>
            let v2 := set_page_err v1 msg in
            if getf (v_st v2) FLAG_LOADFAIL && negb (bytes_eqb (where_sym (v_st v2)) catch_sym)
            then (v2, move_catch_code, SOk) else (v2, b2, s)
          | _ => (v1, b2, s)
          end in
        match s2 with
        | SOk =>
          match b3 with
          | [] =>
            let '(v3, b4, s3) := dead_check v2 in
            match s3 with
            | SOk => match b4 with [] => (v3, [], SOk) | _ => run fuel' rs sep lang b4 v3 end
            | _ => (v3, b4, s3)
            end
          | _ => run fuel' rs sep lang b3 v2
          end
        | _ => (v2, b3, s2)
        end
      end
    end
  end.

(* Vm.Render *)
Inductive rres : Type := RROk (out : bytes) | RRErr (e : err) | RRPanic (site : N) | RRFuel.
Definition rres_of (o : res bytes) : rres := match o with Ok b => RROk b | Err e => RRErr e | Panic n => RRPanic n end.
Definition vm_render (fuel : nat) (rs : rsrc) (sep : bytes) (lang : option bytes) (v : vmst) : vmst * rres :=
  let st := v_st v in
  if negb (getf st FLAG_DIRTY) then (v, RROk []) else
  let v := vset_st v (resetf st FLAG_DIRTY) in
  match where_sym (v_st v) with
  | [] => (v, RROk [])
  | sym =>
    let idx := s_idx (v_st v) in
    let '(r, pg') := page_render (v_ca v) (rs_tpl rs lang) (rs_menu rs lang) (v_pg v) sym idx in
    let v := vlog (vset_pg v pg') (EvRender sym idx lang) in
    match r with
    | Err EBrowse =>
      let v := vset_pg v (vm_reset sep (v_pg v)) in
      let '(v1, _, s) := run fuel rs sep lang move_catch_code v in
      match s with
      | SPanic n => (v1, RRPanic n)
      | SFuel => (v1, RRFuel)
      | _ =>
        let sym1 := where_sym (v_st v1) in
        let idx1 := s_idx (v_st v1) in
        let '(r1, pg1) := page_render (v_ca v1) (rs_tpl rs lang) (rs_menu rs lang) (v_pg v1) sym1 idx1 in
        (vlog (vset_pg v1 pg1) (EvRender sym1 idx1 lang), rres_of r1)
      end
    | _ => (v, rres_of r)
    end
  end.
