(* LoopModel.v — executable model of engine/loop.go (engine.Loop, the interactive driver):

     defer en.Finish(ctx)
     cont, err := en.Exec(ctx, initial)           // nil initial = empty input
     if err != nil { return err }
     l, err := en.Flush(ctx, writer)              // ErrFlushNoExec tolerated here only
     if l > 0 { writer.Write("\n") }
     if !cont { return nil }
     for running {
       in, err := bufReader.ReadString('\n')      // io.EOF => return nil (data read so far dropped)
       in = strings.TrimSpace(in)
       running, err = en.Exec(ctx, []byte(in))    // error => "unexpected termination: ..."
       l, err := en.Flush(ctx, writer)            // error => returned
       if l > 0 { writer.Write("\n") }
     }

   Built on eng_exec / eng_flush / eng_finish of EngineModel.v.  Difference to request_long: Loop
   does NOT Flush after an Exec error, and stops at the first error.  Definitions only.

   Trusted (modelled, exercised differentially by go/cmd/vh/loop.go):
   * bufio.Reader.ReadString('\n') over a reader that delivers its content and then io.EOF:
     the content is cut after every LF; what follows the last LF is returned TOGETHER with
     io.EOF and Loop drops it (split_lines);
   * strings.TrimSpace on arbitrary byte strings (trim_space): leading, then trailing, white space
     is removed, where white space is a byte 09..0D or 20, or the UTF-8 encoding of one of the
     other code points with the Unicode White_Space property (all of them, go1.23 tables):
     U+0085 U+00A0 (C2 85, C2 A0), U+1680 (E1 9A 80), U+2000..U+200A (E2 80 80..8A), U+2028 U+2029
     U+202F (E2 80 A8/A9/AF), U+205F (E2 81 9F), U+3000 (E3 80 80).  Anything else — including
     overlong or truncated encodings, which Go decodes as U+FFFD of width 1 — is not white space.
     From the right Go decodes backwards (utf8.DecodeLastRuneInString): a trailing byte < 80 is
     itself; otherwise the rune starts at the nearest non-continuation byte within four bytes and
     must end exactly at the end — for the sequences above (one start byte followed by
     continuation bytes only) this is "the string ends with that sequence".
   Not modelled: a reader that fails with an error other than io.EOF ("cannot read input"),
   a writer that fails, context cancellation (Loop never looks at ctx). *)
From Vise Require Import Bytes Errors Consts EngConsts Codec CacheModel StateModel NavModel RenderModel VmModel EngineModel.
Local Open Scope N_scope.

Definition LF : N := 10.

(* ---- strings.TrimSpace ------------------------------------------------------------------- *)
Definition ascii_space_b (b : N) : bool := ((9 <=? b) && (b <=? 13)) || (b =? 32).
(* two- and three-byte encodings of the non-ASCII White_Space code points, first byte first *)
Definition space2_b (b1 b2 : N) : bool := (b1 =? 194) && ((b2 =? 133) || (b2 =? 160)).
Definition space3_b (b1 b2 b3 : N) : bool :=
  ((b1 =? 225) && (b2 =? 154) && (b3 =? 128))
  || ((b1 =? 226) && (b2 =? 128) && (((128 <=? b3) && (b3 <=? 138)) || (b3 =? 168) || (b3 =? 169) || (b3 =? 175)))
  || ((b1 =? 226) && (b2 =? 129) && (b3 =? 159))
  || ((b1 =? 227) && (b2 =? 128) && (b3 =? 128)).

(* strip white space from the front of s; rv: s is a REVERSED string (the sequences are then
   met last byte first) *)
Fixpoint trim_front (rv : bool) (s : bytes) : bytes :=
  match s with
  | [] => []
  | b :: r =>
    if ascii_space_b b then trim_front rv r else
    match r with
    | [] => s
    | b2 :: r2 =>
      if (if rv then space2_b b2 b else space2_b b b2) then trim_front rv r2 else
      match r2 with
      | [] => s
      | b3 :: r3 => if (if rv then space3_b b3 b2 b else space3_b b b2 b3) then trim_front rv r3 else s
      end
    end
  end.
Definition trim_left (s : bytes) : bytes := trim_front false s.
Definition trim_right (s : bytes) : bytes := rev (trim_front true (rev s)).
(* TrimFunc = TrimRightFunc (TrimLeftFunc s) *)
Definition trim_space (s : bytes) : bytes := trim_right (trim_left s).

(* ---- bufio ReadString('\n') until io.EOF ---------------------------------------------------- *)
(* the complete lines, each INCLUDING its LF, and what follows the last LF *)
Fixpoint split_lines (r : bytes) : list bytes * bytes :=
  match r with
  | [] => ([], [])
  | b :: r' =>
    let '(ls, t) := split_lines r' in
    if b =? LF then ([LF] :: ls, t)
    else match ls with
         | [] => ([], b :: t)
         | l :: ls' => ((b :: l) :: ls', t)
         end
  end.

(* the inputs Loop hands to Exec after the first request, in order, and whether an unterminated
   tail was dropped *)
Definition loop_lines (reader : bytes) : list bytes * bool :=
  let '(ls, t) := split_lines reader in
  (map trim_space ls, match t with [] => false | _ => true end).

(* ---- Loop ---------------------------------------------------------------------------------------- *)
Inductive lstat : Type :=
| LOk                      (* nil *)
| LErr (e : err)           (* an error returned as it is: the first Exec's, or any Flush's *)
| LTerm (e : err)          (* "unexpected termination: <e>": Exec failed on a line (class of the cause) *)
| LPanic (site : N)        (* a panic unwound Loop (the deferred Finish still runs) *)
| LFuel.                   (* the model's run loop ran out of fuel: nothing is claimed *)

(* "if l > 0 { writer.Write(LF) }" after a Flush without error *)
Definition nl_after (out : bytes) : bytes := match out with [] => [] | _ => out ++ [LF] end.

(* the for loop: one request per line.  Result: bytes written, status, engine *)
Fixpoint loop_rest (fuel : nat) (rs : rsrc) (c : config) (e : engine) (lines : list bytes) : bytes * lstat * engine :=
  match lines with
  | [] => ([], LOk, e)                                   (* io.EOF *)
  | ln :: rest =>
    let '(e1, cont, s) := eng_exec fuel rs c e ln in
    match s with
    | SPanic n => ([], LPanic n, e1)
    | SFuel => ([], LFuel, e1)
    | SErr er _ => ([], LTerm er, e1)                    (* no Flush *)
    | SOk =>
      let '(e2, out, f) := eng_flush fuel rs c e1 in
      match f with
      | FOk =>
        if cont then let '(w, st, e3) := loop_rest fuel rs c e2 rest in (nl_after out ++ w, st, e3)
        else (nl_after out, LOk, e2)
      | FErr er => (out, LErr er, e2)                    (* what Flush wrote before it failed stays written *)
      | FPanic n => (out, LPanic n, e2)
      | FFuel => (out, LFuel, e2)
      end
    end
  end.

Definition loop_initial (initial : option bytes) : bytes := match initial with Some b => b | None => [] end.

Definition eng_loop (rs : rsrc) (c : config) (fuel : nat) (e : engine) (initial : option bytes) (reader : bytes)
  : bytes * lstat * engine :=
  let '(e1, cont, s) := eng_exec fuel rs c e (loop_initial initial) in
  match s with
  | SPanic n => ([], LPanic n, e1)
  | SFuel => ([], LFuel, e1)
  | SErr er _ => ([], LErr er, e1)
  | SOk =>
    let '(e2, out, f) := eng_flush fuel rs c e1 in
    let go_on (w0 : bytes) :=
      if cont then let '(w, st, e3) := loop_rest fuel rs c e2 (fst (loop_lines reader)) in (w0 ++ w, st, e3)
      else (w0, LOk, e2) in
    match f with
    | FOk => go_on (nl_after out)
    | FErr er => if err_eqb er EFlushNoExec then go_on out else (out, LErr er, e2)
    | FPanic n => (out, LPanic n, e2)
    | FFuel => (out, LFuel, e2)
    end
  end.

(* the deferred Finish: what a persister would save *)
Definition loop_saved (res : bytes * lstat * engine) : option snapshot := eng_finish (snd res).

(* ---- the same, request by request (specification side of LoopProofs.loop_output_is_requests) ---- *)
(* responses of the long-lived request driver along a list of inputs, one fuel *)
Fixpoint long_resps (fuel : nat) (rs : rsrc) (c : config) (e : engine) (inputs : list bytes) : list response :=
  match inputs with
  | [] => []
  | i :: r => let '(e', resp) := request_long fuel rs c e i in resp :: long_resps fuel rs c e' r
  end.

(* what Loop writes for one request *)
Definition resp_chunk (r : response) : bytes :=
  match r_exec r with
  | SOk => match r_flush r with FOk => nl_after (r_out r) | _ => r_out r end
  | _ => []                      (* Exec failed: Loop returns before Flush *)
  end.
(* what Loop would return if it stopped at this request *)
Definition resp_lstat (first : bool) (r : response) : lstat :=
  match r_exec r with
  | SPanic n => LPanic n
  | SFuel => LFuel
  | SErr er _ => if first then LErr er else LTerm er
  | SOk =>
    match r_flush r with
    | FOk => LOk
    | FErr er => if first && err_eqb er EFlushNoExec then LOk else LErr er
    | FPanic n => LPanic n
    | FFuel => LFuel
    end
  end.
Definition resp_goes_on (first : bool) (r : response) : bool :=
  r_cont r && match resp_lstat first r with LOk => true | _ => false end.
(* the requests Loop makes: up to and including the first that does not go on *)
Fixpoint loop_prefix (first : bool) (rs : list response) : list response :=
  match rs with
  | [] => []
  | r :: rest => r :: (if resp_goes_on first r then loop_prefix false rest else [])
  end.
Fixpoint prefix_stat (first : bool) (rs : list response) : lstat :=
  match rs with
  | [] => LOk
  | r :: rest => if resp_goes_on first r then prefix_stat false rest else resp_lstat first r
  end.
Definition loop_inputs (initial : option bytes) (reader : bytes) : list bytes :=
  loop_initial initial :: fst (loop_lines reader).
(* every request goes on: Loop reaches the end of its input *)
Fixpoint all_go_on (first : bool) (rs : list response) : bool :=
  match rs with
  | [] => true
  | r :: rest => resp_goes_on first r && all_go_on false rest
  end.
(* the engine after serving the inputs with the request driver *)
Definition eng_after (fuel : nat) (rs : rsrc) (c : config) (e : engine) (inputs : list bytes) : engine :=
  fold_left (fun e i => fst (request_long fuel rs c e i)) inputs e.

(* ---- Loop over a persister (engine.WithPersister) ------------------------------------------------- *)
(* the engine starts from a store without a record for the session: ensurePersist writes the fresh
   record during the first Exec; the deferred Finish — exactly ONE call on every exit — saves the
   session as it is after the last request when the engine got initialised, and nothing otherwise.
   A persister created WithFlush empties ITS copies after each successful save; the record is the same *)
Definition loop_persisted_init (c : config) : engine := new_engine c None [] [].
Definition loop_stored (c : config) (res : bytes * lstat * engine) : option snapshot :=
  match loop_saved res with
  | Some sn => Some sn
  | None => let e0 := loop_persisted_init c in Some (snap_of (v_st (e_v e0)) (v_ca (e_v e0)))
  end.
