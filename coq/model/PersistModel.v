(* PersistModel.v — executable model of persist/persist.go (Persister: WithContent, WithSession, WithFlush,
   Invalid, Serialize/Deserialize, Save, Load) over the models of state, cache and the db key layout.
   Definitions only.

   As repaired by a037abb ("a reused persister leaked the previous session into the next one"):
   * a Persister holds POINTERS to a State and a Cache (nil until WithContent / the first Load), which it shares
     with its caller.  Load decodes the stored record into NEW objects and copies their values over the objects
     it points to (`*p.State = *np.State`, `*p.Memory = *np.Memory`): every field, exported or not (input,
     invalid marks), is replaced; nothing of the previous content survives.  (Before the repair cbor.Unmarshal
     decoded INTO the old objects: non-nil maps were reused and merged, and Cache.Cache was decoded element-wise
     into the maps left in its backing array.)
   * Save's flush: Memory = NewCache().WithCacheSize(old CacheSize); State = State.CloneEmpty().
   * a failed Load (no record) leaves the persister exactly as it is — also when it still holds another session.
   * the model of the Cache object keeps the part of Cache.Cache's backing array beyond its length (`pm_spare`):
     it no longer influences anything, but the correspondence driver still observes it (content handed over by
     WithContent may have one; a decoded or flushed cache has none).
   * State.Moves is persisted but not part of the state model (nothing in the models reads it; it is overwritten
     by every decode and zeroed by CloneEmpty).
   Go maps are association lists (compared sorted); nil maps inside a Cache are not modelled. *)
From Vise Require Import Bytes Errors Consts CacheModel StateModel DbKey.
Local Open Scope N_scope.

(* ---- the stored form of a session ------------------------------------------------------------------------- *)
(* the exported fields of State and Cache; the CBOR encoding itself is outside the model (the harness checks on
   every stored record that decoding it into a NEW persister gives back exactly these fields) *)
Definition rec : Type := state * cache.
Definition ser (sc : state * cache) : rec := (set_input_raw (fst sc) None, snd sc).
(* decoding into a new (nil) object *)
Definition deser (r : rec) : state * cache := r.

(* ---- the objects a persister points to ----------------------------------------------------------------------- *)
Record pstate := mkPst {
  ps_st : state;
  ps_invalid : bool          (* State.invalid *)
}.
Record pmem := mkPmem {
  pm_ca : cache;
  pm_spare : list (option frame);   (* backing array of Cache.Cache beyond its length, up to its capacity; None = nil map *)
  pm_invalid : bool          (* Cache.invalid *)
}.

(* Deserialize: new objects, copied over whatever the persister points to; the leftovers only keep their identity *)
Definition decode_state (rs : state) (left : option pstate) : pstate := mkPst (set_input_raw rs None) false.
Definition decode_mem (rc : cache) (left : option pmem) : pmem := mkPmem rc [] false.

(* Deserialize(record) *)
Definition decode_into (r : rec) (left : option pstate * option pmem) : pstate * pmem :=
  (decode_state (fst r) (fst left), decode_mem (snd r) (snd left)).

(* ---- the persister ------------------------------------------------------------------------------------------------ *)
Record persister := mkPers {
  p_state : option pstate;
  p_mem : option pmem;
  p_flush : bool;
  p_sess : bytes;                    (* db.SetSession: the handle's session id *)
  p_store : list (bytes * rec)       (* the db, by storage key *)
}.

Definition new_persister (store : list (bytes * rec)) : persister := mkPers None None false [] store.
Definition with_content (p : persister) (st : pstate) (m : pmem) : persister :=
  mkPers (Some st) (Some m) (p_flush p) (p_sess p) (p_store p).
Definition with_flush (p : persister) : persister := mkPers (p_state p) (p_mem p) true (p_sess p) (p_store p).
Definition with_session (p : persister) (s : bytes) : persister := mkPers (p_state p) (p_mem p) (p_flush p) s (p_store p).

(* the storage key of the session record: SetPrefix(DATATYPE_STATE), ToKey *)
Definition rec_key (sess key : bytes) : bytes := skey DATATYPE_STATE sess None key.

(* Invalid: nil pointers are dereferenced *)
Definition p_invalid (p : persister) : res bool :=
  match p_state p, p_mem p with
  | Some s, Some m => Ok (ps_invalid s || pm_invalid m)
  | _, _ => Panic 40
  end.

(* State.CloneEmpty: NewState(BitSize - 8) in uint32 arithmetic *)
Definition clone_empty (st : state) : state := new_state (sub32 (s_bitsize st) 8).

(* the flush: cache.NewCache().WithCacheSize(p.Memory.CacheSize) *)
Definition flush_mem (m : pmem) : pmem := mkPmem (new_cache (c_size (pm_ca m))) [] false.

Inductive pres : Type := POk | PNotFound | PPanic.

(* Save *)
Definition p_save (p : persister) (key : bytes) : persister * pres :=
  match p_state p, p_mem p with
  | Some s, Some m =>
    if ps_invalid s || pm_invalid m then (p, PPanic) else
    let store' := aset (rec_key (p_sess p) key) (ser (ps_st s, pm_ca m)) (p_store p) in
    if p_flush p
    then (mkPers (Some (mkPst (clone_empty (ps_st s)) false)) (Some (flush_mem m)) true (p_sess p) store', POk)
    else (mkPers (p_state p) (p_mem p) false (p_sess p) store', POk)
  | _, _ => (p, PPanic)
  end.

(* Load *)
Definition p_load (p : persister) (key : bytes) : persister * pres :=
  match alookup (rec_key (p_sess p) key) (p_store p) with
  | None => (p, PNotFound)
  | Some r =>
    let '(s, m) := decode_into r (p_state p, p_mem p) in
    (mkPers (Some s) (Some m) (p_flush p) (p_sess p) (p_store p), POk)
  end.

(* ---- operation language for histories --------------------------------------------------------------------------- *)
Inductive pop : Type :=
| PWithContent (st : pstate) (m : pmem)
| PWithFlush
| PWithSession (s : bytes)
| PSave (key : bytes)
| PLoad (key : bytes)
| PInvalidateState        (* p.State.Invalidate() *)
| PInvalidateMemory.      (* p.Memory.Invalidate() *)

Definition p_step (p : persister) (o : pop) : persister * pres :=
  match o with
  | PWithContent st m => (with_content p st m, POk)
  | PWithFlush => (with_flush p, POk)
  | PWithSession s => (with_session p s, POk)
  | PSave k => p_save p k
  | PLoad k => p_load p k
  | PInvalidateState =>
    match p_state p with
    | Some s => (mkPers (Some (mkPst (ps_st s) true)) (p_mem p) (p_flush p) (p_sess p) (p_store p), POk)
    | None => (p, PPanic)
    end
  | PInvalidateMemory =>
    match p_mem p with
    | Some m => (mkPers (p_state p) (Some (mkPmem (pm_ca m) (pm_spare m) true)) (p_flush p) (p_sess p) (p_store p), POk)
    | None => (p, PPanic)
    end
  end.
