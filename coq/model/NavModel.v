(* NavModel.v — executable model of vm/input.go: input/symbol/control patterns, applyTarget,
   and vm/runner.go:Rewind, over the models of state and cache.  Definitions only. *)
From Vise Require Import Bytes Errors Consts CacheModel StateModel.
Local Open Scope N_scope.

(* status of a handler / run: Go's (…, err) with panics and fuel made explicit.
   The error carries its message text when the model knows it (it may become the page's
   error prefix); None = text not modelled. *)
Inductive stat : Type :=
| SOk
| SErr (e : err) (msg : option bytes)
| SPanic (site : N)
| SFuel.

Definition stat_of {A} (o : res A) : stat :=
  match o with Ok _ => SOk | Err e => SErr e None | Panic n => SPanic n end.

(* ---- vm/input.go ------------------------------------------------------------------ *)
Definition is_alnum (c : N) : bool :=
  ((48 <=? c) && (c <=? 57)) || ((65 <=? c) && (c <=? 90)) || ((97 <=? c) && (c <=? 122)).
Definition is_symchar (c : N) : bool := is_alnum c || (c =? 95).

(* inputRegex ^\+?[a-zA-Z0-9].*$ : "." does not match LF *)
Definition valid_input_b (i : bytes) : bool :=
  let r := match i with 43 :: r => r | _ => i end in
  match r with
  | c :: r' => is_alnum c && forallb (fun x => negb (x =? 10)) r'
  | [] => false
  end.
(* symRegex ^[a-zA-Z0-9][a-zA-Z0-9_]+$ , or the literal _catch *)
Definition catch_sym : bytes := s2b "_catch".
Definition valid_sym_b (s : bytes) : bool :=
  bytes_eqb s catch_sym ||
  match s with
  | c :: ((_ :: _) as r) => is_alnum c && forallb is_symchar r
  | _ => false
  end.
(* ctrlRegex ^[><_^.]$ *)
Definition valid_ctrl_b (s : bytes) : bool :=
  match s with
  | [c] => (c =? 62) || (c =? 60) || (c =? 95) || (c =? 94) || (c =? 46)
  | _ => false
  end.
Definition valid_target_b (t : bytes) : bool :=
  match t with [] => false | _ => valid_sym_b t || valid_ctrl_b t end.

Definition msg_index : bytes := s2b "already at first index".

(* Rewind: pop until the entry node is on top *)
Fixpoint rewind (fuel : nat) (sym : bytes) (st : state) (ca : cache) : state * cache * bytes * stat :=
  match fuel with
  | O => (st, ca, sym, SOk)
  | S f =>
    match st_top st with
    | Ok true => (st, ca, sym, SOk)
    | Ok false =>
      match st_up st with
      | Ok (sym', st') =>
        match cache_pop ca with
        | Ok ca' => rewind f sym' st' ca'
        | Err e => (st', ca, sym', SOk)   (* Pop's error is assigned to the shadowing err too *)
        | Panic n => (st', ca, sym', SPanic n)
        end
      | Err e => (st, ca, sym, SOk)      (* "err" of the loop is shadowed: Up's error ends the loop silently *)
      | Panic n => (st, ca, sym, SPanic n)
      end
    | Err e => (st, ca, sym, SOk)        (* Top's error (empty path) is shadowed as well: break, return nil *)
    | Panic n => (st, ca, sym, SPanic n)
    end
  end.

(* applyTarget: returns the node symbol now current *)
Definition apply_target (target : bytes) (st : state) (ca : cache) : state * cache * bytes * stat :=
  let sym := where_sym st in
  if negb (valid_target_b target) then (st, ca, sym, SErr EGen None)
  else match target with
  | [95] => (* "_" *)
    match st_up st with
    | Ok (sym', st') =>
      match cache_pop ca with
      | Ok ca' => (st', ca', sym', SOk)
      | Err e => (st', ca, sym', SErr e None)
      | Panic n => (st', ca, sym', SPanic n)
      end
    | Err e => (st, ca, [], SErr e None)
    | Panic n => (st, ca, sym, SPanic n)
    end
  | [62] => (* ">" *)
    match st_next st with
    | Ok st' => (st', ca, sym, SOk)
    | Err e => (st, ca, sym, SErr e None)
    | Panic n => (st, ca, sym, SPanic n)
    end
  | [60] => (* "<" *)
    match st_previous st with
    | Ok st' => (st', ca, sym, SOk)
    | Err EIndex => (st, ca, sym, SErr EIndex (Some msg_index))
    | Err e => (st, ca, sym, SErr e None)
    | Panic n => (st, ca, sym, SPanic n)
    end
  | [94] => (* "^" *)
    rewind (S (List.length (s_path st))) sym st ca
  | [46] => (* "." *)
    (st, ca, sym, SOk)
  | _ =>
    (* st.Depth() >= MaxLevel, Depth() = len(ExecPath) - 1 as a Go int *)
    if MaxLevel + 1 <=? len (s_path st) then (st, ca, target, SErr EGen None)
    (* current, _ := st.Where(); current == sym: refused *)
    else if bytes_eqb (where_sym st) target then (st, ca, target, SErr EGen None)
    else match st_down st target with
         | Ok st' => (st', cache_push ca, target, SOk)
         | Err e => (st, ca, target, SErr e None)
         | Panic n => (st, ca, target, SPanic n)
         end
  end.

