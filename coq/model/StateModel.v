(* StateModel.v — executable model of state/state.go and state/flag.go.  Definitions only.
   Flags are a list of bits (least significant bit of byte 0 first); `flag_bytes` gives the
   exported byte field.  The LAST element of s_path is the current node (Go: ExecPath[l-1]). *)
From Vise Require Import Bytes Errors Consts.
Local Open Scope N_scope.

Notation res := (outcome err).

Record state := mkState {
  s_code : bytes;             (* Code: pending bytecode *)
  s_path : list bytes;        (* ExecPath *)
  s_bitsize : N;              (* BitSize (uint32) = configured flag count + 8 *)
  s_idx : N;                  (* SizeIdx (uint16) *)
  s_flags : list bool;        (* Flags, as bits; length = 8 * len(Flags) *)
  s_lang : option bytes;      (* Language: the ISO 639-3 code, None = nil *)
  s_input : option bytes      (* input (unexported, not persisted); None = nil *)
}.

Definition set_code (s : state) (b : bytes) : state :=
  mkState b (s_path s) (s_bitsize s) (s_idx s) (s_flags s) (s_lang s) (s_input s).
Definition set_path_idx (s : state) (p : list bytes) (i : N) : state :=
  mkState (s_code s) p (s_bitsize s) i (s_flags s) (s_lang s) (s_input s).
Definition set_flags (s : state) (f : list bool) : state :=
  mkState (s_code s) (s_path s) (s_bitsize s) (s_idx s) f (s_lang s) (s_input s).
Definition set_lang (s : state) (l : option bytes) : state :=
  mkState (s_code s) (s_path s) (s_bitsize s) (s_idx s) (s_flags s) l (s_input s).
Definition set_input_raw (s : state) (i : option bytes) : state :=
  mkState (s_code s) (s_path s) (s_bitsize s) (s_idx s) (s_flags s) (s_lang s) i.

(* toByteSize: uint8(ceil(bitsize / 8)) *)
Definition to_byte_size (bitsize : N) : N :=
  if bitsize =? 0 then 0 else w8 ((w32 (bitsize + (if bitsize mod 8 =? 0 then 0 else 8 - bitsize mod 8))) / 8).

Fixpoint falses (n : nat) : list bool := match n with O => [] | S n' => false :: falses n' end.

(* NewState(flagCount) *)
Definition new_state (flag_count : N) : state :=
  let bs := w32 (flag_count + 8) in
  mkState [] [] bs 0 (falses (N.to_nat (8 * to_byte_size bs))) None None.

Fixpoint set_nth_bit (n : nat) (v : bool) (l : list bool) : list bool :=
  match l, n with
  | [], _ => []
  | _ :: l', O => v :: l'
  | x :: l', S n' => x :: set_nth_bit n' v l'
  end.

Definition flag_in_range (s : state) (i : N) : bool :=
  (* Go: bitIndex+1 > BitSize panics (uint32 arithmetic); then the byte is indexed *)
  (w32 (i + 1) <=? s_bitsize s) && (i <? len (s_flags s)).

(* GetFlag *)
Definition get_flag (s : state) (i : N) : res bool :=
  if flag_in_range s i then Ok (nth (N.to_nat i) (s_flags s) false) else Panic 20.
(* SetFlag / ResetFlag: new state and whether the bit changed *)
Definition set_flag (s : state) (i : N) : res (state * bool) :=
  if flag_in_range s i then
    let cur := nth (N.to_nat i) (s_flags s) false in
    Ok (set_flags s (set_nth_bit (N.to_nat i) true (s_flags s)), negb cur)
  else Panic 21.
Definition reset_flag (s : state) (i : N) : res (state * bool) :=
  if flag_in_range s i then
    let cur := nth (N.to_nat i) (s_flags s) false in
    Ok (set_flags s (set_nth_bit (N.to_nat i) false (s_flags s)), cur)
  else Panic 22.
(* MatchFlag *)
Definition match_flag (s : state) (i : N) (mode : bool) : res bool :=
  obind (get_flag s i) (fun r => Ok (Bool.eqb mode r)).

(* the built-in flags are always in range (bitsize >= 8): total versions used by the VM *)
Definition getf (s : state) (i : N) : bool := nth (N.to_nat i) (s_flags s) false.
Definition setf (s : state) (i : N) : state := set_flags s (set_nth_bit (N.to_nat i) true (s_flags s)).
Definition resetf (s : state) (i : N) : state := set_flags s (set_nth_bit (N.to_nat i) false (s_flags s)).

(* IsWriteableFlag *)
Definition is_writeable_flag (i : N) : bool := nonwriteable_flag_threshold <? i.

(* exported byte field *)
Fixpoint bits_val (l : list bool) (w : N) : N :=
  match l with [] => 0 | b :: l' => (if b then w else 0) + bits_val l' (2 * w) end.
Fixpoint flag_bytes_fuel (fuel : nat) (l : list bool) : bytes :=
  match fuel with
  | O => []
  | S f => match l with
           | [] => []
           | _ => bits_val (firstn 8 l) 1 :: flag_bytes_fuel f (skipn 8 l)
           end
  end.
Definition flag_bytes (l : list bool) : bytes := flag_bytes_fuel (S (List.length l)) l.
Fixpoint byte_bits (k : nat) (b : N) : list bool :=
  match k with O => [] | S k' => N.odd b :: byte_bits k' (b / 2) end.
Definition bits_of_bytes (bs : bytes) : list bool := List.concat (map (byte_bits 8) bs).

(* Where *)
Definition where_sym (s : state) : bytes := last (s_path s) [].
Definition depth_plus1 (s : state) : N := len (s_path s).

(* Next: SizeIdx is uint16 *)
Definition st_next (s : state) : res state :=
  match s_path s with
  | [] => Err EGen
  | _ => Ok (set_path_idx s (s_path s) (w16 (s_idx s + 1)))
  end.
(* Previous *)
Definition st_previous (s : state) : res state :=
  match s_path s with
  | [] => Err EGen
  | _ => if s_idx s =? 0 then Err EIndex else Ok (set_path_idx s (s_path s) (s_idx s - 1))
  end.
(* Top *)
Definition st_top (s : state) : res bool :=
  match s_path s with
  | [] => Err EGen
  | [_] => Ok true
  | _ => Ok false
  end.
(* Down: panics past MaxLevel and on re-entering the current node *)
Definition st_down (s : state) (sym : bytes) : res state :=
  if MaxLevel <? len (s_path s) then Panic 23
  else match s_path s with
       | [] => Ok (set_path_idx s [sym] 0)
       | _ => if bytes_eqb (last (s_path s) []) sym then Panic 24
              else Ok (set_path_idx s (s_path s ++ [sym]) 0)
       end.
(* Up: returns the new current symbol ("" when the path became empty) *)
Definition st_up (s : state) : res (bytes * state) :=
  match s_path s with
  | [] => Err EGen
  | _ => let p := removelast (s_path s) in Ok (last p [], set_path_idx s p 0)
  end.

(* GetInput / SetInput *)
Definition get_input (s : state) : res bytes :=
  match s_input s with Some i => Ok i | None => Err EGen end.
Definition set_input (s : state) (i : option bytes) : res state :=
  match i with
  | Some b => if INPUT_LIMIT <? len b then Err EGen else Ok (set_input_raw s i)
  | None => Ok (set_input_raw s None)
  end.

(* Restart: clears the first flag byte, index, input; keeps only the entry node *)
Definition st_restart (s : state) : res state :=
  match s_path s with
  | [] => Err EGen
  | r :: _ =>
    Ok (mkState (s_code s) [r] (s_bitsize s) 0 (falses 8 ++ skipn 8 (s_flags s)) (s_lang s) (Some []))
  end.

(* SetLanguage: lang_lookup is the ISO-639 resolution (a table in Consts.v, see LangModel) *)
Definition st_set_language (lookup : bytes -> option bytes) (s : state) (code : bytes) : state :=
  let s1 := match code with [] => set_lang s None | _ => s end in
  match lookup code with
  | Some c3 => set_lang s1 (Some c3)
  | None => s1
  end.
