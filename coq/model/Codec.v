(* Codec.v — executable model of vm/vm.go (NewLine, opSplit, instructionSplit, intSplit,
   Parse<Op>), vm/debug.go (ParseAll, ToString) and the assembler's primitive encoders
   (asm/asm.go: writeSym, writeSize, numSize).  Definitions only. *)
From Vise Require Import Bytes Errors Consts.
Local Open Scope N_scope.

Notation res := (outcome err).

(* ---- decoder -------------------------------------------------------------------- *)

(* Go slice primitives with their run-time checks made explicit.  A failed check is a
   Panic, exactly where the Go runtime would raise "index out of range" or "slice bounds
   out of range".  The decoder below is written in terms of these only. *)
Definition go_index (b : bytes) (i : N) : res byte :=
  match nth_error b (N.to_nat i) with Some x => Ok x | None => Panic 1 end.
Definition go_slice (b : bytes) (lo hi : N) : res bytes :=
  if (hi <? lo) || (len b <? hi) then Panic 2 else Ok (take (hi - lo) (drop lo b)).
Definition go_slice_from (b : bytes) (lo : N) : res bytes :=
  if len b <? lo then Panic 3 else Ok (drop lo b).

(* vm.opSplit: len(b) < 2 => error; binary.BigEndian.Uint16(b); op > _MAX => error; b[2:] *)
Definition op_split (b : bytes) : res (N * bytes) :=
  if len b <? 2 then Err EGen else
  obind (go_index b 0) (fun h =>
  obind (go_index b 1) (fun l =>
  let op := h * 256 + l in
  if max_opcode <? op then Err EGen else
  obind (go_slice_from b 2) (fun r => Ok (op, r)))).

(* vm.instructionSplit *)
Definition sym_split (b : bytes) : res (bytes * bytes) :=
  if len b =? 0 then Err EGen else
  obind (go_index b 0) (fun sz =>
  if sz =? 0 then Err EGen else
  if len b <? sz + 1 then Err EGen else
  obind (go_slice b 1 (1 + sz)) (fun s =>
  obind (go_slice_from b (1 + sz)) (fun r => Ok (s, r)))).

(* vm.intSplit: width byte l, then l big-endian bytes (l <= 4) *)
Definition int_split (b : bytes) : res (N * bytes) :=
  if len b =? 0 then Err EGen else
  obind (go_index b 0) (fun l =>
  obind (go_slice_from b 1) (fun r =>
  if 4 <? l then Err EGen else
  if len r <? l then Err EGen else
  obind (go_slice r 0 l) (fun d =>
  obind (go_slice_from r l) (fun r' => Ok (unbe d, r'))))).

Definition parse_sym (b : bytes) : res (bytes * bytes) := sym_split b.

Definition parse_two_sym (b : bytes) : res (bytes * bytes * bytes) :=
  obind (sym_split b) (fun '(s1, b1) =>
  obind (sym_split b1) (fun '(s2, b2) => Ok (s1, s2, b2))).

Definition parse_sym_len (b : bytes) : res (bytes * N * bytes) :=
  obind (sym_split b) (fun '(s, b1) =>
  obind (int_split b1) (fun '(n, b2) => Ok (s, n, b2))).

(* the match-mode byte of CATCH/CROAK: len(b) == 0 => error; b[0] > 0; b[1:] *)
Definition parse_mode (b : bytes) : res (bool * bytes) :=
  if len b =? 0 then Err EGen else
  obind (go_index b 0) (fun m =>
  obind (go_slice_from b 1) (fun r => Ok (0 <? m, r))).

Definition parse_sym_sig (b : bytes) : res (bytes * N * bool * bytes) :=
  obind (sym_split b) (fun '(s, b1) =>
  obind (int_split b1) (fun '(n, b2) =>
  obind (parse_mode b2) (fun '(m, b3) => Ok (s, n, m, b3)))).

Definition parse_sig (b : bytes) : res (N * bool * bytes) :=
  obind (int_split b) (fun '(n, b2) =>
  obind (parse_mode b2) (fun '(m, b3) => Ok (n, m, b3))).

Inductive instr : Type :=
| INoop
| ICatch (sym : bytes) (sig : N) (mode : bool)
| ICroak (sig : N) (mode : bool)
| ILoad (sym : bytes) (sz : N)
| IReload (sym : bytes)
| IMap (sym : bytes)
| IMove (sym : bytes)
| IHalt
| IInCmp (target sel : bytes)
| IMSink
| IMOut (title sel : bytes)
| IMNext (title sel : bytes)
| IMPrev (title sel : bytes).

(* argument part of one instruction, by opcode (the per-opcode Parse functions) *)
Definition parse_args (op : N) (b : bytes) : res (instr * bytes) :=
  if op =? op_CATCH then obind (parse_sym_sig b) (fun '(s, n, m, r) => Ok (ICatch s n m, r))
  else if op =? op_CROAK then obind (parse_sig b) (fun '(n, m, r) => Ok (ICroak n m, r))
  else if op =? op_LOAD then obind (parse_sym_len b) (fun '(s, n, r) => Ok (ILoad s n, r))
  else if op =? op_RELOAD then obind (parse_sym b) (fun '(s, r) => Ok (IReload s, r))
  else if op =? op_MAP then obind (parse_sym b) (fun '(s, r) => Ok (IMap s, r))
  else if op =? op_MOVE then obind (parse_sym b) (fun '(s, r) => Ok (IMove s, r))
  else if op =? op_HALT then Ok (IHalt, b)
  else if op =? op_INCMP then obind (parse_two_sym b) (fun '(s, t, r) => Ok (IInCmp s t, r))
  else if op =? op_MSINK then Ok (IMSink, b)
  else if op =? op_MOUT then obind (parse_two_sym b) (fun '(s, t, r) => Ok (IMOut s t, r))
  else if op =? op_MNEXT then obind (parse_two_sym b) (fun '(s, t, r) => Ok (IMNext s t, r))
  else if op =? op_MPREV then obind (parse_two_sym b) (fun '(s, t, r) => Ok (IMPrev s t, r))
  else Ok (INoop, b).

Definition decode_one (b : bytes) : res (instr * bytes) :=
  obind (op_split b) (fun '(op, r) => parse_args op r).

(* ParseAll: at least one instruction; stop when nothing is left. Fuel = length of input
   (each instruction consumes >= 2 bytes). *)
Fixpoint parse_all_fuel (fuel : nat) (b : bytes) (acc : list instr) : res (list instr) :=
  match fuel with
  | O => Err EGen (* unreachable: fuel = S (length b) *)
  | S f =>
    match decode_one b with
    | Ok (i, r) =>
      match r with
      | [] => Ok (rev (i :: acc))
      | _ => parse_all_fuel f r (i :: acc)
      end
    | Err e => Err e
    | Panic s => Panic s
    end
  end.
Definition parse_all (b : bytes) : res (list instr) := parse_all_fuel (S (List.length b)) b [].

(* ---- disassembler text (vm/debug.go default handlers) ---------------------------- *)
Definition sp : bytes := [32].
Fixpoint opname_in (op : N) (tbl : list (N * string)) : bytes :=
  match tbl with
  | [] => []
  | (o, s) :: t => if o =? op then s2b s else opname_in op t
  end.
(* OpcodeString[op], from the generated table *)
Definition opname (op : N) : bytes := opname_in op opcode_string.
Definition mode_txt (m : bool) : bytes := if m then [49] else [48].
Definition print_instr (i : instr) : bytes :=
  match i with
  | INoop => []
  | ICatch s n m => opname op_CATCH ++ sp ++ s ++ sp ++ dec n ++ sp ++ mode_txt m ++ [nl]
  | ICroak n m => opname op_CROAK ++ sp ++ dec n ++ sp ++ mode_txt m ++ [nl]
  | ILoad s n => opname op_LOAD ++ sp ++ s ++ sp ++ dec n ++ [nl]
  | IReload s => opname op_RELOAD ++ sp ++ s ++ [nl]
  | IMap s => opname op_MAP ++ sp ++ s ++ [nl]
  | IMove s => opname op_MOVE ++ sp ++ s ++ [nl]
  | IHalt => opname op_HALT ++ [nl]
  | IInCmp s t => opname op_INCMP ++ sp ++ s ++ sp ++ t ++ [nl]
  | IMSink => opname op_MSINK ++ [nl]
  | IMOut s t => opname op_MOUT ++ sp ++ s ++ sp ++ t ++ [nl]
  | IMNext s t => opname op_MNEXT ++ sp ++ s ++ sp ++ t ++ [nl]
  | IMPrev s t => opname op_MPREV ++ sp ++ s ++ sp ++ t ++ [nl]
  end.
Definition print_prog (p : list instr) : bytes := List.concat (map print_instr p).

Definition to_string (b : bytes) : res bytes :=
  obind (parse_all b) (fun p => Ok (print_prog p)).

(* ---- encoders ------------------------------------------------------------------- *)

(* vm.NewLine (appended to an instruction list by the caller) *)
Definition new_line (op : N) (strargs : list bytes) (byteargs numargs : option bytes) : bytes :=
  [(op / 256) mod 256; op mod 256]
  ++ List.concat (map (fun a => w8 (len a) :: a) strargs)
  ++ match byteargs with Some ba => w8 (len ba) :: ba | None => [] end
  ++ match numargs with Some na => na | None => [] end.

(* asm.numSize: int(math.Log2(float64(n))/8 + 1), modelled on integers (n > 0) *)
Definition num_size (n : N) : N := N.log2 n / 8 + 1.

(* asm.writeSym *)
Definition write_sym (s : bytes) : res bytes :=
  if 255 <? len s then Err EGen else Ok (len s :: s).

(* asm.writeSize *)
Definition write_size (n : N) : res bytes :=
  if n =? 0 then Ok [1; 0]
  else let sz := num_size n in
       if 4 <? sz then Err EGen else Ok (sz :: be (N.to_nat sz) n).

(* minimal big-endian integer bytes: the convention callers of NewLine use for byteargs *)
Definition min_be (n : N) : bytes := if n =? 0 then [0] else be (N.to_nat (num_size n)) n.

Definition mode_byte (m : bool) : bytes := if m then [1] else [0].

(* encoding through vm.NewLine *)
Definition encode (i : instr) : bytes :=
  match i with
  | INoop => new_line op_NOOP [] None None
  | ICatch s n m => new_line op_CATCH [s] (Some (min_be n)) (Some (mode_byte m))
  | ICroak n m => new_line op_CROAK [] (Some (min_be n)) (Some (mode_byte m))
  | ILoad s n => new_line op_LOAD [s] (Some (min_be n)) None
  | IReload s => new_line op_RELOAD [s] None None
  | IMap s => new_line op_MAP [s] None None
  | IMove s => new_line op_MOVE [s] None None
  | IHalt => new_line op_HALT [] None None
  | IInCmp s t => new_line op_INCMP [s; t] None None
  | IMSink => new_line op_MSINK [] None None
  | IMOut s t => new_line op_MOUT [s; t] None None
  | IMNext s t => new_line op_MNEXT [s; t] None None
  | IMPrev s t => new_line op_MPREV [s; t] None None
  end.
Definition encode_prog (p : list instr) : bytes := List.concat (map encode p).

(* encoding through the assembler's writers (asm.writeOpcode/writeSym/writeSize + flag byte) *)
Definition opcode_bytes (op : N) : bytes := [(op / 256) mod 256; op mod 256].
Definition wsyms (l : list bytes) : res bytes :=
  fold_left (fun acc s => obind acc (fun a => obind (write_sym s) (fun b => Ok (a ++ b)))) l (Ok []).
Definition encode_asm (i : instr) : res bytes :=
  match i with
  | INoop => Ok (opcode_bytes op_NOOP)
  | ICatch s n m =>
    obind (write_sym s) (fun a => obind (write_size n) (fun b => Ok (opcode_bytes op_CATCH ++ a ++ b ++ mode_byte m)))
  | ICroak n m => obind (write_size n) (fun b => Ok (opcode_bytes op_CROAK ++ b ++ mode_byte m))
  | ILoad s n => obind (write_sym s) (fun a => obind (write_size n) (fun b => Ok (opcode_bytes op_LOAD ++ a ++ b)))
  | IReload s => obind (write_sym s) (fun a => Ok (opcode_bytes op_RELOAD ++ a))
  | IMap s => obind (write_sym s) (fun a => Ok (opcode_bytes op_MAP ++ a))
  | IMove s => obind (write_sym s) (fun a => Ok (opcode_bytes op_MOVE ++ a))
  | IHalt => Ok (opcode_bytes op_HALT)
  | IInCmp s t => obind (wsyms [s; t]) (fun a => Ok (opcode_bytes op_INCMP ++ a))
  | IMSink => Ok (opcode_bytes op_MSINK)
  | IMOut s t => obind (wsyms [s; t]) (fun a => Ok (opcode_bytes op_MOUT ++ a))
  | IMNext s t => obind (wsyms [s; t]) (fun a => Ok (opcode_bytes op_MNEXT ++ a))
  | IMPrev s t => obind (wsyms [s; t]) (fun a => Ok (opcode_bytes op_MPREV ++ a))
  end.

(* ---- well-formedness (the domain of the round-trip theorems) --------------------- *)
Definition bytes_ok (b : bytes) : Prop := Forall (fun x => x < 256) b.
Definition wf_sym (s : bytes) : Prop := bytes_ok s /\ 1 <= len s /\ len s <= 255.
Definition wf_num (n : N) : Prop := n < 4294967296.
Definition wf_instr (i : instr) : Prop :=
  match i with
  | INoop => False
  | ICatch s n _ => wf_sym s /\ wf_num n
  | ICroak n _ => wf_num n
  | ILoad s n => wf_sym s /\ wf_num n
  | IReload s | IMap s | IMove s => wf_sym s
  | IHalt | IMSink => True
  | IInCmp s t | IMOut s t | IMNext s t | IMPrev s t => wf_sym s /\ wf_sym t
  end.

(* boolean versions, used by harness-side checks and non-vacuity examples *)
Definition bytes_okb (b : bytes) : bool := forallb (fun x => x <? 256) b.
Definition wf_symb (s : bytes) : bool := bytes_okb s && (1 <=? len s) && (len s <=? 255).
Definition wf_numb (n : N) : bool := n <? 4294967296.
Definition wf_instrb (i : instr) : bool :=
  match i with
  | INoop => false
  | ICatch s n _ => wf_symb s && wf_numb n
  | ICroak n _ => wf_numb n
  | ILoad s n => wf_symb s && wf_numb n
  | IReload s | IMap s | IMove s => wf_symb s
  | IHalt | IMSink => true
  | IInCmp s t | IMOut s t | IMNext s t | IMPrev s t => wf_symb s && wf_symb t
  end.

(* strict reference grammar for C15: complete instructions only, opcode <= max, integer
   width <= 4, symbol length >= 1, nothing left over.  Written independently of the
   decoder above (no shared helper except arithmetic). *)
Fixpoint strict_sym (b : bytes) : option (bytes * bytes) :=
  match b with
  | [] => None
  | sz :: r => if (sz =? 0) || (len r <? sz) then None else Some (take sz r, drop sz r)
  end.
Definition strict_int (b : bytes) : option (N * bytes) :=
  match b with
  | [] => None
  | l :: r => if (4 <? l) || (len r <? l) then None else Some (unbe (take l r), drop l r)
  end.
Definition strict_mode (b : bytes) : option (bool * bytes) :=
  match b with [] => None | m :: r => Some (0 <? m, r) end.
Definition strict_one (b : bytes) : option (instr * bytes) :=
  match b with
  | h :: l :: r =>
    let op := h * 256 + l in
    if max_opcode <? op then None
    else if op =? op_CATCH then
      match strict_sym r with Some (s, r1) =>
        match strict_int r1 with Some (n, r2) =>
          match strict_mode r2 with Some (m, r3) => Some (ICatch s n m, r3) | None => None end
        | None => None end
      | None => None end
    else if op =? op_CROAK then
      match strict_int r with Some (n, r2) =>
        match strict_mode r2 with Some (m, r3) => Some (ICroak n m, r3) | None => None end
      | None => None end
    else if op =? op_LOAD then
      match strict_sym r with Some (s, r1) =>
        match strict_int r1 with Some (n, r2) => Some (ILoad s n, r2) | None => None end
      | None => None end
    else if op =? op_RELOAD then match strict_sym r with Some (s, r1) => Some (IReload s, r1) | None => None end
    else if op =? op_MAP then match strict_sym r with Some (s, r1) => Some (IMap s, r1) | None => None end
    else if op =? op_MOVE then match strict_sym r with Some (s, r1) => Some (IMove s, r1) | None => None end
    else if op =? op_HALT then Some (IHalt, r)
    else if op =? op_MSINK then Some (IMSink, r)
    else
      let two (mk : bytes -> bytes -> instr) :=
        match strict_sym r with Some (s, r1) =>
          match strict_sym r1 with Some (t, r2) => Some (mk s t, r2) | None => None end
        | None => None end in
      if op =? op_INCMP then two IInCmp
      else if op =? op_MOUT then two IMOut
      else if op =? op_MNEXT then two IMNext
      else if op =? op_MPREV then two IMPrev
      else Some (INoop, r)
  | _ => None
  end.
Fixpoint strict_all_fuel (fuel : nat) (b : bytes) : option (list instr) :=
  match fuel with
  | O => None
  | S f =>
    match strict_one b with
    | Some (i, []) => Some [i]
    | Some (i, r) => match strict_all_fuel f r with Some p => Some (i :: p) | None => None end
    | None => None
    end
  end.
Definition strict_all (b : bytes) : option (list instr) := strict_all_fuel (S (List.length b)) b.
