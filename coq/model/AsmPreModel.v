(* AsmPreModel.v — the flag preprocessor of the assembler command: asm/flag.go
   (FlagParser.Load, GetAsString) and dev/asm/main.go (processor.run, processFlag, pass, main),
   on top of AsmModel's token-level lines, and the specification side (resolve: the source
   with every flag name replaced by its number).  Definitions only.

   `asm -f table.csv file`: the table is loaded; the source is lexed and parsed with the
   preprocessor's OWN participle grammar (Ident ^[A-Z]+, NumFirst [0-9][a-zA-Z0-9]*, Sym
   [a-zA-Z_*.^<>][a-zA-Z0-9_]*, at most three argument tokens, comments and blanks elided);
   `CATCH sym flag mode` and `CROAK flag mode` get the flag translated when strconv.Atoi fails
   on it; every line is printed again as its tokens joined by one blank, LF; the result is
   given to asm.Parse (AsmModel.asm_run), which writes to standard output.

   Domain: the CSV reader itself (quoting, separators) is outside — the model starts from the
   records (lists of fields); argument texts as in AsmModel (no blank, CR, LF, '#'). *)
From Vise Require Import Bytes Errors Consts Codec AsmModel.
Local Open Scope N_scope.

(* ---- strconv.Atoi -------------------------------------------------------------------- *)

(* (negative, magnitude) for [+-]?[0-9]+ within int64; None = *NumError *)
Definition atoi (s : bytes) : option (bool * N) :=
  let body (neg : bool) (d : bytes) :=
    if negb (len d =? 0) && forallb is_digit d then
      let v := digs_val 10 d in
      if v <? 2 ^ 63 + (if neg then 1 else 0) then Some (neg, v) else None
    else None in
  match s with
  | c :: d => if c =? 43 then body false d else if c =? 45 then body true d else body false s
  | [] => None
  end.

(* ---- FlagParser.Load ------------------------------------------------------------------ *)

(* the map flag name -> number text; newest binding first (a later row overwrites) *)
Notation flagtable := (list (list N * list N)) (only parsing).

Definition flag_word : bytes := s2b "flag".

Fixpoint load_rows (rows : list (list bytes)) (acc : flagtable) : res flagtable :=
  match rows with
  | [] => Ok acc
  | r :: rest =>
    match r with
    | f0 :: tl =>
      if bytes_eqb f0 flag_word then
        match tl with
        | name :: v :: _ =>
          match atoi v with
          | None => Err EGen                         (* "Flag translation value must be numeric" *)
          | Some (neg, n) =>
            if neg || (n <? FLAG_USERSTART) then Err EGen   (* "Minimum flag value is FLAG_USERSTART" *)
            else load_rows rest ((name, v) :: acc)
          end
        | _ => Err EGen                              (* "Not enough fields for flag setting" *)
        end
      else load_rows rest acc
    | [] => load_rows rest acc                       (* encoding/csv never returns an empty record *)
    end
  end.
Definition load_table (rows : list (list bytes)) : res flagtable := load_rows rows [].

(* ---- the preprocessor's lexer and grammar --------------------------------------------- *)

(* tokens (their texts) of one argument text; rule order Comment, Ident, NumFirst, Sym, ...;
   an Ident or Quote token in argument position and any other character are errors *)
Fixpoint pp_lex_fuel (f : nat) (s : bytes) : option (list bytes) :=
  match s with
  | [] => Some []
  | c :: r =>
    match f with
    | O => None
    | S f' =>
      if is_upper c then None
      else if is_digit c then
        let (d, r') := span is_alnum r in option_map (cons (c :: d)) (pp_lex_fuel f' r')
      else if is_sym_start c then
        let (w, r') := span is_word r in option_map (cons (c :: w)) (pp_lex_fuel f' r')
      else None
    end
  end.
Definition pp_lex (s : bytes) : option (list bytes) := pp_lex_fuel (List.length s) s.

Fixpoint pp_lex_args (args : list bytes) : option (list bytes) :=
  match args with
  | [] => Some []
  | a :: r =>
    match pp_lex a with
    | None => None
    | Some t => match pp_lex_args r with None => None | Some t' => Some (t ++ t')%list end
    end
  end.

(* `@Ident (Whitespace @@)? Comment? EOL` with arg = One, Two?, Three? *)
Definition pp_front_line (l : line) : option (bytes * list bytes) :=
  if opword_ok (l_op l) then
    match pp_lex_args (l_args l) with
    | None => None
    | Some t => if 3 <? len t then None else Some (l_op l, t)
    end
  else None.

Fixpoint pp_front (src : list line) : option (list (bytes * list bytes)) :=
  match src with
  | [] => Some []
  | l :: r =>
    match pp_front_line l with
    | None => None
    | Some x => match pp_front r with None => None | Some xs => Some (x :: xs) end
    end
  end.

(* ---- processor.processFlag / pass / run ------------------------------------------------ *)

(* processFlag(s, one, two): *one is dereferenced first (Atoi), the lookup error is returned
   before *two is dereferenced *)
Definition process_flag (tbl : flagtable) (one two : option bytes) (s : list bytes) : res (list bytes) :=
  deref one (fun o =>
    let k (x : bytes) := deref two (fun t => Ok (s ++ [x; t])%list) in
    match atoi o with
    | Some _ => k o
    | None => match alookup o tbl with Some v => k v | None => Err EGen end
    end).

Definition pp_line (tbl : flagtable) (x : bytes * list bytes) : res line :=
  let (op, toks) := x in
  match toks with
  | [] => Ok (L op [])
  | one :: rest =>
    let two := nth_error rest 0 in
    let three := nth_error rest 1 in
    if bytes_eqb op (s2b "CATCH") then
      obind (process_flag tbl two three [one]) (fun a => Ok (L op a))
    else if bytes_eqb op (s2b "CROAK") then
      obind (process_flag tbl (Some one) two []) (fun a => Ok (L op a))
    else Ok (L op toks)
  end.

Fixpoint pp_lines (tbl : flagtable) (xs : list (bytes * list bytes)) : res (list line) :=
  match xs with
  | [] => Ok []
  | x :: r => obind (pp_line tbl x) (fun l => obind (pp_lines tbl r) (fun ls => Ok (l :: ls)))
  end.

(* the whole source is parsed before any line is processed *)
Definition pp_run (tbl : flagtable) (src : list line) : res (list line) :=
  match pp_front src with
  | None => Err EGen
  | Some xs => pp_lines tbl xs
  end.

(* ---- main: standard output and exit status --------------------------------------------- *)

Definition exit_code (o : res unit) : N := match o with Ok _ => 0 | Err _ => 1 | Panic _ => 2 end.

(* asm file *)
Definition cmd_plain (src : list line) : bytes * N :=
  let (w, o) := asm_run src in (w, exit_code o).

(* asm -f table file *)
Definition cmd_pre (rows : list (list bytes)) (src : list line) : bytes * N :=
  match load_table rows with
  | Ok tbl =>
    match pp_run tbl src with
    | Ok src' => cmd_plain src'
    | Err _ => ([], 1)
    | Panic _ => ([], 2)
    end
  | Err _ => ([], 1)
  | Panic _ => ([], 2)
  end.

(* ---- specification ----------------------------------------------------------------------- *)

(* a table as documented in flag.go: rows `flag,<name>,<number>[,description]`, the name a
   symbol, the number a numeral of value FLAG_USERSTART or more (and a uint32, as flags are) *)
Definition valid_row (r : list bytes) : bool :=
  match r with
  | [f; n; v] | [f; n; v; _] =>
    bytes_eqb f flag_word && is_sym_text n && is_num_text v
    && (FLAG_USERSTART <=? dec_value v) && (dec_value v <? 2 ^ 32)
  | _ => false
  end.
Definition valid_rows (rows : list (list bytes)) : bool := forallb valid_row rows.

(* the number a name stands for: the last row that defines it *)
Fixpoint spec_lookup (rows : list (list bytes)) (name : bytes) : option bytes :=
  match rows with
  | [] => None
  | r :: rest =>
    match spec_lookup rest name with
    | Some v => Some v
    | None =>
      match r with
      | f :: n :: v :: _ => if bytes_eqb f flag_word && bytes_eqb n name then Some v else None
      | _ => None
      end
    end
  end.

(* the flag argument of a line and the line with another text in its place *)
Definition flag_pos (l : line) : option (bytes * (bytes -> line)) :=
  match l_args l with
  | [a; b; c] => if opis "CATCH" (l_op l) then Some (b, fun v => L (l_op l) [a; v; c]) else None
  | [b; c] => if opis "CROAK" (l_op l) then Some (b, fun v => L (l_op l) [v; c]) else None
  | _ => None
  end.

(* the line with its flag name replaced by the number the table gives; numerals stay *)
Definition resolve_line (look : bytes -> option bytes) (l : line) : option line :=
  match flag_pos l with
  | Some (b, mk) =>
    if is_num_text b then Some l
    else match look b with Some v => Some (mk v) | None => None end
  | None => Some l
  end.

Fixpoint resolve (look : bytes -> option bytes) (src : list line) : option (list line) :=
  match src with
  | [] => Some []
  | l :: r =>
    match resolve_line look l with
    | None => None
    | Some l' => match resolve look r with None => None | Some r' => Some (l' :: r') end
    end
  end.

(* the same with an arbitrary numeral for undefined names that are symbols: tells whether a
   source has the documented form apart from using names the table does not define *)
Definition with_default (look : bytes -> option bytes) (b : bytes) : option bytes :=
  match look b with
  | Some v => Some v
  | None => if is_sym_text b then Some [56] else None
  end.

Definition names_are_symbols (tbl : flagtable) : Prop :=
  forall k v, alookup k tbl = Some v -> is_sym_text k = true.
