(* Bytes.v — byte strings as lists of N, fixed-width wrap helpers, decimal printing.
   Definitions only (model layer); lemmas live in proofs/. *)
From Coq Require Export List NArith Bool Ascii String.
Export ListNotations.
Local Open Scope N_scope.

Notation byte := N (only parsing).
Notation bytes := (list N) (only parsing).

(* Go partiality made explicit. *)
Inductive outcome (E A : Type) : Type :=
| Ok (a : A)
| Err (e : E)
| Panic (site : N).
Arguments Ok {E A} a.
Arguments Err {E A} e.
Arguments Panic {E A} site.

Definition obind {E A B} (o : outcome E A) (f : A -> outcome E B) : outcome E B :=
  match o with Ok a => f a | Err e => Err e | Panic s => Panic s end.

Definition is_panic {E A} (o : outcome E A) : bool :=
  match o with Panic _ => true | _ => false end.
Definition is_ok {E A} (o : outcome E A) : bool :=
  match o with Ok _ => true | _ => false end.
Definition is_err {E A} (o : outcome E A) : bool :=
  match o with Err _ => true | _ => false end.

(* fixed-width wraps *)
Definition w8  (n : N) : N := n mod 256.
Definition w16 (n : N) : N := n mod 65536.
Definition w32 (n : N) : N := n mod 4294967296.
(* a - b in uint32 arithmetic *)
Definition sub32 (a b : N) : N := (a + 4294967296 - (b mod 4294967296)) mod 4294967296.
Definition sub8 (a b : N) : N := (a + 256 - (b mod 256)) mod 256.
Definition sub16 (a b : N) : N := (a + 65536 - (b mod 65536)) mod 65536.

Definition len {A} (l : list A) : N := N.of_nat (List.length l).

Definition take {A} (n : N) (l : list A) : list A := firstn (N.to_nat n) l.
Definition drop {A} (n : N) (l : list A) : list A := skipn (N.to_nat n) l.

Fixpoint bytes_eqb (a b : bytes) : bool :=
  match a, b with
  | [], [] => true
  | x :: a', y :: b' => (x =? y) && bytes_eqb a' b'
  | _, _ => false
  end.

Definition s2b (s : string) : bytes :=
  List.map (fun c => N_of_ascii c) (list_ascii_of_string s).

(* big-endian of exactly k bytes (truncating) *)
Fixpoint be (k : nat) (n : N) : bytes :=
  match k with
  | O => []
  | S k' => be k' (n / 256) ++ [n mod 256]
  end.

Definition unbe (bs : bytes) : N := fold_left (fun acc b => acc * 256 + b) bs 0.

(* decimal printing, as Go's %v / strconv.FormatUint *)
Fixpoint dec_digits (fuel : nat) (n : N) (acc : bytes) : bytes :=
  match fuel with
  | O => acc
  | S f =>
    let acc' := (48 + n mod 10) :: acc in
    if n / 10 =? 0 then acc' else dec_digits f (n / 10) acc'
  end.
Definition dec (n : N) : bytes := dec_digits (S (N.to_nat (N.log2 n))) n [].

Fixpoint is_prefix (p l : bytes) : bool :=
  match p, l with
  | [], _ => true
  | x :: p', y :: l' => (x =? y) && is_prefix p' l'
  | _ :: _, [] => false
  end.

Fixpoint mem_bytes (x : bytes) (l : list bytes) : bool :=
  match l with [] => false | y :: l' => bytes_eqb x y || mem_bytes x l' end.

Fixpoint repeat_b (b : byte) (n : nat) : bytes :=
  match n with O => [] | S n' => b :: repeat_b b n' end.
(* long values are built without nat literals *)
Definition rep (b : byte) (n : N) : bytes := repeat_b b (N.to_nat n).

(* association lists keyed by byte strings *)
Fixpoint alookup {V} (k : bytes) (l : list (bytes * V)) : option V :=
  match l with
  | [] => None
  | (k', v) :: l' => if bytes_eqb k k' then Some v else alookup k l'
  end.
Fixpoint aremove {V} (k : bytes) (l : list (bytes * V)) : list (bytes * V) :=
  match l with
  | [] => []
  | (k', v) :: l' => if bytes_eqb k k' then aremove k l' else (k', v) :: aremove k l'
  end.
(* set: replace in place if present, else append (order is not observable; we canonicalise by sorting) *)
Fixpoint aset {V} (k : bytes) (v : V) (l : list (bytes * V)) : list (bytes * V) :=
  match l with
  | [] => [(k, v)]
  | (k', v') :: l' => if bytes_eqb k k' then (k, v) :: l' else (k', v') :: aset k v l'
  end.
Definition ahas {V} (k : bytes) (l : list (bytes * V)) : bool :=
  match alookup k l with Some _ => true | None => false end.

(* lexicographic order on byte strings, and insertion sort for canonical form *)
Fixpoint bytes_leb (a b : bytes) : bool :=
  match a, b with
  | [], _ => true
  | _ :: _, [] => false
  | x :: a', y :: b' => if x <? y then true else if y <? x then false else bytes_leb a' b'
  end.
Fixpoint ainsert {V} (k : bytes) (v : V) (l : list (bytes * V)) : list (bytes * V) :=
  match l with
  | [] => [(k, v)]
  | (k', v') :: l' => if bytes_leb k k' then (k, v) :: l else (k', v') :: ainsert k v l'
  end.
Definition asort {V} (l : list (bytes * V)) : list (bytes * V) :=
  fold_right (fun kv acc => ainsert (fst kv) (snd kv) acc) [] l.

Fixpoint index_of (b : byte) (l : bytes) : option N :=
  match l with
  | [] => None
  | x :: l' => if x =? b then Some 0 else
               match index_of b l' with Some i => Some (i + 1) | None => None end
  end.

(* split on a separator byte, like strings.Split(s, sep) for a one-byte sep: always >= 1 element *)
Fixpoint split_on (sep : byte) (l : bytes) : list bytes :=
  match l with
  | [] => [[]]
  | x :: l' =>
    if x =? sep then [] :: split_on sep l'
    else match split_on sep l' with
         | [] => [[x]] (* unreachable *)
         | h :: t => (x :: h) :: t
         end
  end.

Fixpoint join_with (sep : bytes) (ls : list bytes) : bytes :=
  match ls with
  | [] => []
  | [x] => x
  | x :: ls' => x ++ sep ++ join_with sep ls'
  end.

Definition nl : byte := 10.

(* hex string to bytes, for compact case files: h2b "0aff" = [10; 255] *)
Definition hexval (c : ascii) : N :=
  let n := N_of_ascii c in
  if (48 <=? n) && (n <=? 57) then n - 48
  else if (97 <=? n) && (n <=? 102) then n - 87
  else 0.
Fixpoint h2b (s : string) : bytes :=
  match s with
  | String a (String b r) => (hexval a * 16 + hexval b) :: h2b r
  | _ => []
  end.

(* cyclic repetition of a seed up to n bytes: compact literals for long values *)
Fixpoint cyc_fuel (seed cur : bytes) (n : nat) : bytes :=
  match n with
  | O => []
  | S n' =>
    match cur with
    | [] => match seed with [] => [] | x :: r => x :: cyc_fuel seed r n' end
    | x :: r => x :: cyc_fuel seed r n'
    end
  end.
Definition cyc (seed : bytes) (n : N) : bytes := cyc_fuel seed seed (N.to_nat n).
