(* AsmModel.v — executable model of the assembler: asm/asm.go (asmLexer, Arg, Instruction,
   parseOne, parseTwoSym, parseTwoSymReverse, parseSig, parseSized, parseFlagged, Batcher,
   Parse) and asm/menu.go (MenuProcessor.Add, ToLines), plus the specification side of C16
   (valid_src, expand, the guards of the finding classes).  Definitions only.

   The model starts from the token-level source: a list of lines, a line being an opcode word
   and the argument texts (maximal runs of non-blank characters before the comment).  The
   printed text (whitespace, trailing comments, empty lines) is chosen by the harness; the
   participle lexer and grammar are modelled (section "front end"), not verified.

   Domain of the front-end model: argument texts contain no blank, CR, LF or '#'
   (they are what the printer separates by blanks); flag-name preprocessing (asm/flag.go,
   dev/asm/main.go:processor) happens before asm.Parse and is not modelled. *)
From Vise Require Import Bytes Errors Consts Codec.
Local Open Scope N_scope.

(* ---- front end: lexer ------------------------------------------------------------ *)

Definition is_digit (c : N) : bool := (48 <=? c) && (c <=? 57).
Definition is_upper (c : N) : bool := (65 <=? c) && (c <=? 90).
Definition is_lower (c : N) : bool := (97 <=? c) && (c <=? 122).
Definition is_alpha (c : N) : bool := is_upper c || is_lower c.
(* [a-zA-Z0-9_] *)
Definition is_word (c : N) : bool := is_alpha c || is_digit c || (c =? 95).
(* [a-zA-Z_\*\.\^\<\>] *)
Definition is_sym_start (c : N) : bool :=
  is_alpha c || (c =? 95) || (c =? 42) || (c =? 46) || (c =? 94) || (c =? 60) || (c =? 62).

Inductive tok : Type :=
| TSym (s : bytes)      (* lexer rule Sym *)
| TSize (d : bytes).    (* lexer rule Size: a digit run, not yet converted *)

(* longest prefix whose characters satisfy p, and the rest *)
Fixpoint span (p : N -> bool) (s : bytes) : bytes * bytes :=
  match s with
  | [] => ([], [])
  | c :: r => if p c then let (a, b) := span p r in (c :: a, b) else ([], s)
  end.

(* Tokens of one argument text.  The stateful lexer tries its rules in order at every position
   and takes the first that matches: Comment, Ident (^[A-Z]+ — the anchor refers to the rest of
   the input, so an upper-case run is an Ident token anywhere), Size, Sym, Whitespace, EOL,
   Quote.  An Ident or Quote token in argument position is a grammar error, any other
   character is a lexer error: both are None here. *)
Fixpoint lex_fuel (f : nat) (s : bytes) : option (list tok) :=
  match s with
  | [] => Some []
  | c :: r =>
    match f with
    | O => None (* unreachable: fuel = length s *)
    | S f' =>
      if is_upper c then None
      else if is_digit c then
        let (d, r') := span is_digit r in option_map (cons (TSize (c :: d))) (lex_fuel f' r')
      else if is_sym_start c then
        let (w, r') := span is_word r in option_map (cons (TSym (c :: w))) (lex_fuel f' r')
      else None
    end
  end.
Definition lex (s : bytes) : option (list tok) := lex_fuel (List.length s) s.

Fixpoint lex_args (args : list bytes) : option (list tok) :=
  match args with
  | [] => Some []
  | a :: r =>
    match lex a with
    | None => None
    | Some t => match lex_args r with None => None | Some t' => Some (t ++ t')%list end
    end
  end.

(* ---- front end: grammar and field conversion -------------------------------------- *)

Definition digs_val (base : N) (d : bytes) : N := fold_left (fun a c => a * base + (c - 48)) d 0.

(* participle converts a captured Size token with strconv.ParseUint(s, 0, bits): base 0, so a
   leading 0 followed by more digits selects octal (digits 8, 9 are then a syntax error);
   a value that does not fit the field is a range error. *)
Definition parse_uint0 (bits : N) (d : bytes) : option N :=
  match d with
  | [] => None
  | c :: r =>
    let chk (n : N) := if n <? 2 ^ bits then Some n else None in
    if (c =? 48) && negb (len r =? 0) then
      if forallb (fun x => x <? 56) r then chk (digs_val 8 r) else None
    else chk (digs_val 10 d)
  end.

(* asm.Arg: Sym *string, Size *uint32, Flag *uint8, Selector *string, Desc *string *)
Record arg : Type := mkArg {
  a_sym : option bytes; a_size : option N; a_flag : option N;
  a_sel : option bytes; a_desc : option bytes }.

Definition take_sym (t : list tok) : option bytes * list tok :=
  match t with TSym s :: r => (Some s, r) | _ => (None, t) end.
Definition take_num (bits : N) (t : list tok) : option (option N * list tok) :=
  match t with
  | TSize d :: r => match parse_uint0 bits d with Some n => Some (Some n, r) | None => None end
  | _ => Some (None, t)
  end.

(* `(@Sym Whitespace?)? (@Size Whitespace?)? (@Size Whitespace?)? (@Sym Whitespace?)? (@Sym Whitespace?)?`:
   five optional slots filled greedily in order; whatever is left must be `Comment? EOL`. *)
Definition fill (t : list tok) : option arg :=
  let (sy, t1) := take_sym t in
  match take_num 32 t1 with
  | None => None
  | Some (sz, t2) =>
    match take_num 8 t2 with
    | None => None
    | Some (fl, t3) =>
      let (se, t4) := take_sym t3 in
      let (de, t5) := take_sym t4 in
      match t5 with [] => Some (mkArg sy sz fl se de) | _ => None end
    end
  end.

Record line : Type := L { l_op : bytes; l_args : list bytes }.
Notation source := (list line) (only parsing).

Definition opword_ok (op : bytes) : bool := negb (len op =? 0) && forallb is_upper op.

Definition front_line (l : line) : option (bytes * arg) :=
  if opword_ok (l_op l) then
    match lex_args (l_args l) with
    | None => None
    | Some t => match fill t with None => None | Some a => Some (l_op l, a) end
    end
  else None.

(* asmParser.Parse builds the whole AST before anything is emitted *)
Fixpoint front (src : source) : option (list (bytes * arg)) :=
  match src with
  | [] => Some []
  | l :: r =>
    match front_line l with
    | None => None
    | Some x => match front r with None => None | Some xs => Some (x :: xs) end
    end
  end.

(* ---- back end: parseOne ----------------------------------------------------------- *)

(* dereference of a possibly nil pointer *)
Definition deref {A B} (o : option A) (k : A -> res B) : res B :=
  match o with Some a => k a | None => Panic 10 end.

Definition two_syms (a b : bytes) : res bytes :=
  obind (write_sym a) (fun x => obind (write_sym b) (fun y => Ok (x ++ y)%list)).

(* parseTwoSym *)
Definition asm_two_sym (a : arg) : res bytes :=
  match a_size a with
  | Some n => deref (a_sym a) (fun s => two_syms s (dec n))
  | None =>
    match a_sel a with
    | Some sel => deref (a_sym a) (fun s => if bytes_eqb s [42] then two_syms sel s else two_syms s sel)
    | None => two_syms [] []
    end
  end.

(* parseTwoSymReverse *)
Definition asm_two_sym_rev (a : arg) : res bytes :=
  deref (a_sel a) (fun sel => deref (a_sym a) (fun s => two_syms s sel)).

(* parseSig *)
Definition asm_sig (a : arg) : res bytes :=
  deref (a_sym a) (fun s => obind (write_sym s) (fun x =>
  deref (a_size a) (fun n => obind (write_size n) (fun y =>
  deref (a_flag a) (fun f => Ok (x ++ y ++ [w8 f])%list))))).

(* parseSized *)
Definition asm_sized (a : arg) : res bytes :=
  deref (a_sym a) (fun s => obind (write_sym s) (fun x =>
  deref (a_size a) (fun n => obind (write_size n) (fun y => Ok (x ++ y)%list)))).

(* parseFlagged *)
Definition asm_flagged (a : arg) : res bytes :=
  deref (a_size a) (fun n => obind (write_size n) (fun y =>
  deref (a_flag a) (fun f => Ok (y ++ [w8 f])%list))).

(* parseOne: the instruction is assembled in a private buffer and written with one Write at
   the end, so an error or panic leaves nothing of it in the output.  In the last case the
   error of writeSym is dropped (`n, err = writeSym(b, *a.Sym); return flush(b, w)`). *)
Definition asm_one (op : N) (a : arg) : res bytes :=
  let oc := opcode_bytes op in
  match a_sel a with
  | Some _ =>
    obind (if op =? op_MOUT then asm_two_sym_rev a else asm_two_sym a) (fun b => Ok (oc ++ b)%list)
  | None =>
    match a_size a with
    | Some _ =>
      match a_sym a with
      | None => obind (asm_flagged a) (fun b => Ok (oc ++ b)%list)
      | Some _ =>
        match a_flag a with
        | Some _ => obind (asm_sig a) (fun b => Ok (oc ++ b)%list)
        | None =>
          if op =? op_LOAD then obind (asm_sized a) (fun b => Ok (oc ++ b)%list)
          else obind (asm_two_sym a) (fun b => Ok (oc ++ b)%list)
        end
      end
    | None =>
      match a_sym a with
      | None => Ok oc
      | Some s =>
        match write_sym s with
        | Ok b => Ok (oc ++ b)%list
        | Err _ => Ok oc
        | Panic p => Panic p
        end
      end
    end
  end.

(* ---- back end: Batcher and MenuProcessor ------------------------------------------ *)

Record item : Type := mkItem { it_code : N; it_choice : bytes; it_display : bytes; it_target : bytes }.
(* Batcher{menuProcessor{items}, inMenu}; items is never cleared *)
Record batcher : Type := mkB { b_items : list item; b_in : bool }.

Fixpoint lookup_name (op : bytes) (tbl : list (string * N)) : option N :=
  match tbl with
  | [] => None
  | (s, n) :: t => if bytes_eqb (s2b s) op then Some n else lookup_name op t
  end.

(* MenuProcessor.Add *)
Definition menu_proc_add (items : list item) (code : bytes) (choice display target : bytes) : res (list item) :=
  match lookup_name code batch_codes with
  | None => Err EGen
  | Some bc =>
    if bc =? 0 then Err EGen
    else if (0 <? len target) && negb (bc =? batch_DOWN) then Err EGen
    else Ok (items ++ [mkItem bc choice display target])%list
  end.

(* Batcher.MenuAdd *)
Definition menu_add (bt : batcher) (code : bytes) (a : arg) : res batcher :=
  obind
    (match a_desc a with
     | Some d => deref (a_sym a) (fun s => deref (a_sel a) (fun sel => Ok (sel, d, s)))
     | None =>
       match a_size a with
       | Some n =>
         deref (a_sel a) (fun disp => Ok (dec n, disp, match a_sym a with Some s => s | None => [] end))
       | None => deref (a_sym a) (fun sel => deref (a_sel a) (fun disp => Ok (sel, disp, [])))
       end
     end)
    (fun '(choice, display, target) =>
       obind (menu_proc_add (b_items bt) code choice display target) (fun its => Ok (mkB its true))).

(* MenuProcessor.ToLines *)
Definition item_pre (v : item) : bytes :=
  if it_code v =? batch_UP then new_line op_MOUT [it_display v; it_choice v] None None
  else if it_code v =? batch_NEXT then new_line op_MNEXT [it_display v; it_choice v] None None
  else if it_code v =? batch_PREVIOUS then new_line op_MPREV [it_display v; it_choice v] None None
  else new_line op_MOUT [it_display v; it_choice v] None None.
Definition item_post (v : item) : bytes :=
  if it_code v =? batch_UP then new_line op_INCMP [[95]; it_choice v] None None
  else if it_code v =? batch_NEXT then new_line op_INCMP [[62]; it_choice v] None None
  else if it_code v =? batch_PREVIOUS then new_line op_INCMP [[60]; it_choice v] None None
  else new_line op_INCMP [it_target v; it_choice v] None None.
Definition to_lines (items : list item) : bytes :=
  (List.concat (map item_pre items) ++ new_line op_HALT [] None None
   ++ List.concat (map item_post items))%list.

(* Batcher.MenuExit: bytes written, new state *)
Definition menu_exit (bt : batcher) : bytes * batcher :=
  if b_in bt then (to_lines (b_items bt), mkB (b_items bt) false) else ([], bt).

(* ---- asm.Parse --------------------------------------------------------------------- *)

(* bytes written to w, and how Parse ended *)
Fixpoint asm_loop (ls : list (bytes * arg)) (bt : batcher) : bytes * res unit :=
  match ls with
  | [] => (fst (menu_exit bt), Ok tt)
  | (op, a) :: r =>
    match lookup_name op opcode_index with
    | None =>
      match menu_add bt op a with
      | Ok bt' => asm_loop r bt'
      | Err e => ([], Err e)
      | Panic p => ([], Panic p)
      end
    | Some opc =>
      let (mb, bt') := menu_exit bt in
      match asm_one opc a with
      | Ok b => let (o, st) := asm_loop r bt' in ((mb ++ b ++ o)%list, st)
      | Err e => (mb, Err e)
      | Panic p => (mb, Panic p)
      end
    end
  end.

Definition asm_run (src : source) : bytes * res unit :=
  match front src with
  | None => ([], Err EGen)
  | Some ls => asm_loop ls (mkB [] false)
  end.

Definition asm (src : source) : res bytes :=
  match asm_run src with
  | (b, Ok _) => Ok b
  | (_, Err e) => Err e
  | (_, Panic p) => Panic p
  end.

(* ---- specification: the documented grammar (doc/texinfo/instructions.texi) --------- *)

Definition opis (name : string) (op : bytes) : bool := bytes_eqb op (s2b name).

(* symbol, label, regular node: [a-zA-Z][a-zA-Z0-9_]* *)
Definition is_sym_text (s : bytes) : bool :=
  match s with c :: r => is_alpha c && forallb is_word r | [] => false end.
(* special nodes . _ > < ^ (navigation.texi) *)
Definition is_special_node (s : bytes) : bool :=
  match s with
  | [c] => (c =? 46) || (c =? 95) || (c =? 62) || (c =? 60) || (c =? 94)
  | _ => false
  end.
Definition is_node_text (s : bytes) : bool := is_sym_text s || is_special_node s.
Definition is_alnum (c : N) : bool := is_alpha c || is_digit c.
(* selector: `*` or a string of 7-bit alphanumeric characters *)
Definition is_selector_text (s : bytes) : bool :=
  bytes_eqb s [42] || (negb (len s =? 0) && forallb is_alnum s).
Definition is_num_text (s : bytes) : bool := negb (len s =? 0) && forallb is_digit s.
(* the number a digit string denotes *)
Definition dec_value (s : bytes) : N := digs_val 10 s.
(* matchmode: 0 or 1 *)
Definition is_mode_text (s : bytes) : bool := is_num_text s && (dec_value s <=? 1).

(* the instruction a non-batch line denotes, if the line follows the documented form *)
Definition plain_instr (l : line) : option instr :=
  let op := l_op l in
  match l_args l with
  | [] =>
    if opis "HALT" op then Some IHalt
    else if opis "MSINK" op then Some IMSink
    else None
  | [a] =>
    if opis "MOVE" op then (if is_node_text a then Some (IMove a) else None)
    else if opis "MAP" op then (if is_sym_text a then Some (IMap a) else None)
    else if opis "RELOAD" op then (if is_sym_text a then Some (IReload a) else None)
    else None
  | [a; b] =>
    if opis "CROAK" op then
      (if is_num_text a && is_mode_text b then Some (ICroak (dec_value a) (dec_value b =? 1)) else None)
    else if opis "LOAD" op then
      (if is_sym_text a && is_num_text b then Some (ILoad a (dec_value b)) else None)
    else if opis "INCMP" op then
      (if is_node_text a && is_selector_text b then Some (IInCmp a b) else None)
    else if opis "MOUT" op then
      (if is_sym_text a && is_selector_text b then Some (IMOut a b) else None)
    else if opis "MNEXT" op then
      (if is_sym_text a && is_selector_text b then Some (IMNext a b) else None)
    else if opis "MPREV" op then
      (if is_sym_text a && is_selector_text b then Some (IMPrev a b) else None)
    else None
  | [a; b; c] =>
    if opis "CATCH" op then
      (if is_node_text a && is_num_text b && is_mode_text c
       then Some (ICatch a (dec_value b) (dec_value c =? 1)) else None)
    else None
  | _ => None
  end.

(* a batch line: the instruction it contributes before the HALT and the one after it *)
Definition batch_instrs (l : line) : option (instr * instr) :=
  let op := l_op l in
  match l_args l with
  | [sel; lab] =>
    if is_selector_text sel && is_sym_text lab then
      if opis "UP" op then Some (IMOut lab sel, IInCmp [95] sel)
      else if opis "NEXT" op then Some (IMNext lab sel, IInCmp [62] sel)
      else if opis "PREVIOUS" op then Some (IMPrev lab sel, IInCmp [60] sel)
      else None
    else None
  | [sym; sel; lab] =>
    if opis "DOWN" op && is_sym_text sym && is_selector_text sel && is_sym_text lab
    then Some (IMOut lab sel, IInCmp sym sel) else None
  | _ => None
  end.

Fixpoint batch_all (ls : list line) : option (list instr * list instr) :=
  match ls with
  | [] => Some ([], [])
  | l :: r =>
    match batch_instrs l with
    | None => None
    | Some (p, q) =>
      match batch_all r with None => None | Some (ps, qs) => Some (p :: ps, q :: qs) end
    end
  end.

(* One instruction per line; the batch lines, which "MUST be used at the end of the node's
   assembly code", expand to their MOUT/MNEXT/MPREV lines, HALT, their INCMP lines. *)
Fixpoint expand_opt (src : source) : option (list instr) :=
  match src with
  | [] => Some []
  | l :: r =>
    match plain_instr l with
    | Some i => option_map (cons i) (expand_opt r)
    | None =>
      match batch_all (l :: r) with
      | Some (pre, post) => Some (pre ++ IHalt :: post)%list
      | None => None
      end
    end
  end.

Definition valid_srcb (src : source) : bool :=
  match src with [] => false | _ => match expand_opt src with Some _ => true | None => false end end.
Definition valid_src (src : source) : Prop := valid_srcb src = true.
Definition expand (src : source) : list instr :=
  match expand_opt src with Some p => p | None => [] end.

(* ---- guards of the finding classes (decidable) ------------------------------------- *)

Definition starts_with (p : N -> bool) (s : bytes) : bool :=
  match s with c :: _ => p c | [] => false end.

(* K-C16-numnorm: all digits, more than one, leading zero *)
Definition numnorm_text (s : bytes) : bool :=
  is_num_text s && (1 <? len s) && starts_with (N.eqb 48) s.
(* K-C16-digitprefix: starts with a digit, not all digits *)
Definition digitprefix_text (s : bytes) : bool :=
  starts_with is_digit s && negb (forallb is_digit s).

(* the selector argument of a line, by opcode word and argument count *)
Definition line_selector (l : line) : option bytes :=
  let op := l_op l in
  match l_args l with
  | [a; b] =>
    if opis "INCMP" op || opis "MOUT" op || opis "MNEXT" op || opis "MPREV" op then Some b
    else if opis "UP" op || opis "NEXT" op || opis "PREVIOUS" op then Some a
    else None
  | [_; b; _] => if opis "DOWN" op then Some b else None
  | _ => None
  end.

Definition line_sel_is (p : bytes -> bool) (l : line) : bool :=
  match line_selector l with Some s => p s | None => false end.
Definition in_K_numnorm (src : source) : bool := existsb (line_sel_is numnorm_text) src.
Definition in_K_digitprefix (src : source) : bool := existsb (line_sel_is digitprefix_text) src.
Definition lossless_selectors (src : source) : bool :=
  negb (in_K_numnorm src) && negb (in_K_digitprefix src).

(* K-C16-longsym: an argument of more than 255 bytes on a line whose emitter has no length
   check that is honoured (single-symbol instructions: error dropped; batch lines: vm.NewLine
   truncates the length byte) *)
Definition longsym_line (l : line) : bool :=
  let op := l_op l in
  (opis "MOVE" op || opis "MAP" op || opis "RELOAD" op
   || opis "DOWN" op || opis "UP" op || opis "NEXT" op || opis "PREVIOUS" op)
  && existsb (fun a => 255 <? len a) (l_args l).
Definition in_K_longsym (src : source) : bool := existsb longsym_line src.
Definition short_syms (src : source) : bool := negb (in_K_longsym src).

(* K-C16-octal: a size or signal written with a leading zero whose decimal value is 8 or more
   (read as octal, or rejected when it contains 8 or 9) *)
Definition octal_text (s : bytes) : bool :=
  is_num_text s && starts_with (N.eqb 48) s && (8 <=? dec_value s).
Definition line_sizes (l : line) : list bytes :=
  let op := l_op l in
  match l_args l with
  | [a; b] => if opis "CROAK" op then [a] else if opis "LOAD" op then [b] else []
  | [_; b; _] => if opis "CATCH" op then [b] else []
  | _ => []
  end.
Definition octal_line (l : line) : bool := existsb octal_text (line_sizes l).
Definition in_K_octal (src : source) : bool := existsb octal_line src.
Definition decimal_sizes (src : source) : bool := negb (in_K_octal src).
