(* FsCrash.v — crash model of the filesystem backend's record write (db/fs/fs.go Put /
   writeFileAtomic), of what a later start finds (persist.Persister.Load, engine/db.go
   ensurePersist) and of the directory scan (db/fs/dump.go).  Definitions only.

   Scope of the crash model: PROCESS DEATH.  The file system is the kernel's view (page
   cache included), which survives the death of the process; every system call is atomic with
   respect to a crash except write(2), which may have transferred any prefix of its buffer.
   Power loss / kernel crash is NOT modelled: the code issues no fsync and nothing is claimed
   about what reaches the disk.  POSIX semantics assumed (not verified): rename(2) within one
   directory replaces the target atomically; open(O_CREAT|O_EXCL) creates an empty file under a
   name that did not exist; open(O_TRUNC) empties the file at once. *)
From Vise Require Import Bytes Errors Consts.
Local Open Scope N_scope.

(* one directory: file name -> content *)
Notation fname := (list N) (only parsing).
Notation fsys := (list (list N * list N)) (only parsing).

Inductive fsop : Type :=
| CreateTemp (t : fname)            (* os.CreateTemp(dir, ".tmp-*"): openat O_RDWR|O_CREAT|O_EXCL *)
| Write (t : fname) (b : bytes)     (* one write(2) on the descriptor of t, appending b *)
| Chmod (t : fname)                 (* fchmod 0600: contents unchanged *)
| Close (t : fname)
| Rename (t p : fname)              (* rename(2) t -> p, same directory *)
| Remove (t : fname)                (* unlink(2) *)
| OpenTrunc (p : fname)             (* open O_WRONLY|O_CREAT|O_TRUNC (what ioutil.WriteFile does) *)
(* The remaining operations are NOT performed by the code under study.  They exist so that an
   OBSERVED system-call sequence that deviates from put_ops (a regression) can still be given
   its crash states, which the harness then materialises and the C12 monitor judges. *)
| OpenWrite (p : fname)             (* open an existing file for writing, no truncation, offset 0 *)
| OpenCreate (p : fname)            (* open O_CREAT without O_EXCL/O_TRUNC: created empty if absent, else kept *)
| WriteAt (p : fname) (off : N) (b : bytes).  (* write(2)/pwrite(2) of b at offset off, overwriting in place *)

(* content after writing b at offset off (a hole is filled with zero bytes) *)
Definition overwrite (c : bytes) (off : N) (b : bytes) : bytes :=
  take off c ++ rep 0 (off - len c) ++ b ++ drop (off + len b) c.

Definition apply_op (fs : fsys) (o : fsop) : fsys :=
  match o with
  | CreateTemp t => aset t [] fs
  | Write t b => match alookup t fs with Some c => aset t (c ++ b) fs | None => fs end
  | Chmod _ => fs
  | Close _ => fs
  | Rename t p => match alookup t fs with Some c => aset p c (aremove t fs) | None => fs end
  | Remove t => aremove t fs
  | OpenTrunc p => aset p [] fs
  | OpenWrite _ => fs
  | OpenCreate p => match alookup p fs with Some _ => fs | None => aset p [] fs end
  | WriteAt p off b => match alookup p fs with Some c => aset p (overwrite c off b) fs | None => fs end
  end.

Definition run_ops (fs : fsys) (ops : list fsop) : fsys := fold_left apply_op ops fs.

(* every prefix of a buffer, shortest first: [] ... b *)
Fixpoint prefixes (b : bytes) : list bytes :=
  match b with
  | [] => [[]]
  | x :: b' => [] :: map (cons x) (prefixes b')
  end.

(* the file-system states a crash can leave behind: before the first operation, after each
   operation, and — inside a Write or WriteAt — after every partial transfer of 0..len bytes *)
Fixpoint crash_states (fs : fsys) (ops : list fsop) : list fsys :=
  match ops with
  | [] => [fs]
  | o :: ops' =>
    fs :: (match o with
           | Write t b => map (fun pre => apply_op fs (Write t pre)) (prefixes b)
           | WriteAt t off b => map (fun pre => apply_op fs (WriteAt t off pre)) (prefixes b)
           | _ => []
           end) ++ crash_states (apply_op fs o) ops'
  end.

(* one named crash point: the first i operations completed and, if the next one is a Write,
   k bytes of it transferred (used by the harness to materialise sampled crash states) *)
Definition crash_state_at (fs : fsys) (ops : list fsop) (i : nat) (k : N) : fsys :=
  let fs_i := run_ops fs (firstn i ops) in
  match nth_error ops i with
  | Some (Write t b) => apply_op fs_i (Write t (take k b))
  | Some (WriteAt t off b) => apply_op fs_i (WriteAt t off (take k b))
  | _ => fs_i
  end.

(* ---- what Put does ----------------------------------------------------------------- *)

(* writeFileAtomic as it is now; os.File.Write may need several write(2) calls (chunks) *)
Definition put_ops_chunked (tmp p : fname) (chunks : list bytes) : list fsop :=
  CreateTemp tmp :: map (Write tmp) chunks ++ [Chmod tmp; Close tmp; Rename tmp p].
Definition put_ops (tmp p : fname) (new : bytes) : list fsop := put_ops_chunked tmp p [new].

(* the error paths of writeFileAtomic: a failed Write/Chmod/Close/Rename has no effect of its
   own (a failed Write may have appended a prefix: 'written'), then the temp file is removed *)
Definition put_ops_failed (tmp : fname) (written : list bytes) (chmodded : bool) : list fsop :=
  CreateTemp tmp :: map (Write tmp) written ++ (if chmodded then [Chmod tmp] else []) ++ [Close tmp; Remove tmp].

(* before commit 23e710e: ioutil.WriteFile(path, val, 0600) *)
Definition put_ops_old (p : fname) (new : bytes) : list fsop := [OpenTrunc p; Write p new; Close p].

(* ---- names (pathFor / altPathFor / CreateTemp pattern), within the store directory -- *)

Definition tmp_prefix : bytes := s2b ".tmp-".
Definition tmp_name (suffix : bytes) : fname := tmp_prefix ++ suffix.

(* DbBase.ToSessionKey *)
Definition session_key (typ : N) (sid key : bytes) : bytes :=
  if sessioned_threshold <? typ then (if len sid =? 0 then key else sid ++ [46] ++ key) else key.

(* pathFor: lk.Default[0] += 0x30 in uint8 *)
Definition record_name (typ : N) (sk : bytes) : fname := w8 (typ + fs_type_offset) :: sk.
(* altPathFor: legacy name without the type character *)
Definition alt_name (typ : N) (sk : bytes) : fname :=
  sk ++ (if typ =? DATATYPE_BIN then s2b fs_bin_suffix else []).

(* ---- what a later start finds -------------------------------------------------------- *)

(* fsDb.Get for a type without translations: the record name, then the legacy name *)
Definition fs_get (fs : fsys) (p alt : fname) : option bytes :=
  match alookup p fs with
  | Some b => Some b
  | None => alookup alt fs
  end.

(* Persister.Load: Get then cbor.Unmarshal.  The record format is abstract: 'valid' says
   whether Deserialize accepts the bytes. *)
Definition load (valid : bytes -> bool) (fs : fsys) (p alt : fname) : outcome err bytes :=
  match fs_get fs p alt with
  | None => Err ENotFound
  | Some b => if valid b then Ok b else Err EGen
  end.

Inductive recovered : Type :=
| Continued (record : bytes)   (* the engine runs on the state decoded from this record *)
| FreshStarted.                (* load failed: a fresh state was saved over the record and used *)

(* ensurePersist: ANY load error is taken to mean "new session" *)
Definition recover (valid : bytes -> bool) (fs : fsys) (p alt : fname) : recovered :=
  match load valid fs p alt with
  | Ok b => Continued b
  | _ => FreshStarted
  end.

(* the store after ensurePersist: on FreshStarted the fresh record has been Put over p *)
Definition recover_store (valid : bytes -> bool) (freshrec : bytes) (tmp' : fname)
           (fs : fsys) (p alt : fname) : fsys :=
  match recover valid fs p alt with
  | Continued _ => fs
  | FreshStarted => run_ops fs (put_ops tmp' p freshrec)
  end.

(* ---- directory scan (dump.go) -------------------------------------------------------- *)

(* nextElement: k[0] -= 0x30 (uint8).  os.ReadDir never returns an empty name. *)
Definition entry_key (name : fname) : bytes :=
  match name with [] => [] | c :: r => sub8 c fs_type_offset :: r end.

(* db.FromDbKey *)
Definition from_db_key (k : bytes) : option bytes :=
  match k with
  | [] => None
  | typ :: b =>
    if len b =? 0 then None
    else if (0 <? N.land typ 14) && (6 <? len b) && (nth (N.to_nat (len b - 4)) b 0 =? 95)
         then Some (take (len b - 4) b) else Some b
  end.

(* DbBase.FromSessionKey; sidp = session id followed by '.', or [] *)
Definition from_session_key (sidp k : bytes) : option bytes :=
  if len sidp =? 0 then Some k
  else if is_prefix sidp k then Some (drop (len sidp) k) else None.

(* one directory entry against Dump's match prefix (type byte :: key prefix):
   Some key = listed, None = skipped (Dump) / end of listing (dumpFunc) *)
Definition dump_entry (typ : N) (sidp pfx : bytes) (name : fname) : option bytes :=
  let k := entry_key name in
  match from_db_key k with
  | None => None
  | Some k1 =>
    match from_session_key sidp k1 with
    | None => None
    | Some kk => if is_prefix (typ :: pfx) (nth 0 k 0 :: kk) then Some kk else None
    end
  end.

Fixpoint dump_rest (typ : N) (sidp pfx : bytes) (names : list fname) : list bytes :=
  match names with
  | [] => []
  | n :: names' =>
    match dump_entry typ sidp pfx n with
    | Some kk => kk :: dump_rest typ sidp pfx names'
    | None => []
    end
  end.

(* Dump + Next until nil, over the sorted directory listing: entries are skipped up to the
   first match (Dump also skips entries shorter than the match prefix); after the first match
   the listing stops at the first entry that does not match (dumpFunc). *)
Fixpoint dump_keys (typ : N) (sidp pfx : bytes) (names : list fname) : list bytes :=
  match names with
  | [] => []
  | n :: names' =>
    if len (entry_key n) <? len (typ :: pfx) then dump_keys typ sidp pfx names'
    else match dump_entry typ sidp pfx n with
         | Some kk => kk :: dump_rest typ sidp pfx names'
         | None => dump_keys typ sidp pfx names'
         end
  end.
