(* NavSpec.v — the move table of doc/texinfo/navigation.texi as a specification (nav_spec), the
   table the code implements (nav_code), history folds and the invariants used by the C04
   theorems.  Definitions only (cut out of proofs/NavProofs.v, written by agent nav). *)
From Vise Require Import Bytes Errors Consts CacheModel StateModel NavModel.
Local Open Scope N_scope.

(* ================================================================================== *)
(* Part 1 — specification                                                             *)
(* ================================================================================== *)

(* a position: navigation stack (entry node first, current node last) and page index *)
Notation pos := (list bytes * N)%type (only parsing).

Definition t_up : bytes := [95].     (* "_" *)
Definition t_next : bytes := [62].   (* ">" *)
Definition t_prev : bytes := [60].   (* "<" *)
Definition t_top : bytes := [94].    (* "^" *)
Definition t_same : bytes := [46].   (* "." *)

(* The documented move table (navigation.texi, "Special node names" + "Navigation stack" +
   "Entry point").
     named node  push, page index 0
     _           pop one level, page index 0; "Attempting to navigate up from the entry point
                 node will fail": None on a one-element stack (and on an empty one)
     ^           "Go to the topmost node": stack cut down to the entry node, page index 0.  The
                 text does not say what happens to the index when the entry node is already
                 current; DESIGN.md section 6 reads it as "stay" (no move happens), which is
                 what is written here.  On the empty stack (no entry point yet: outside the
                 text, "All VM executions require an entry point") it is the identity as well.
     .           "Repeat the same node": identity
     >           page index + 1 (SizeIdx is a uint16: 65535 + 1 = 0; the text gives no bound at
                 this level, the page bound is the renderer's, C02); needs a current node
     <           page index - 1; "Will fail if used on the first (or single) page"
   "named node" is decided by the code's own symbol pattern valid_sym_b; the text's grammar of
   node names differs from it (doc_name_b below, lemmas doc_name_differs). *)
Definition nav_spec (p : pos) (t : bytes) : option pos :=
  let '(path, idx) := p in
  if bytes_eqb t t_up then
    (if len path <=? 1 then None else Some (removelast path, 0))
  else if bytes_eqb t t_top then
    (if len path <=? 1 then Some (path, idx) else Some (firstn 1 path, 0))
  else if bytes_eqb t t_same then Some (path, idx)
  else if bytes_eqb t t_next then
    (match path with [] => None | _ => Some (path, w16 (idx + 1)) end)
  else if bytes_eqb t t_prev then
    (match path with [] => None | _ => if idx =? 0 then None else Some (path, idx - 1) end)
  else if valid_sym_b t then Some (path ++ [t], 0)
  else None.

(* The one place where applyTarget departs from the table: "_" at the entry node succeeds and
   leaves an EMPTY stack (finding candidate K-C04-up-at-entry). *)
Definition up_at_entry (p : pos) (t : bytes) : bool := bytes_eqb t t_up && (len (fst p) =? 1).

(* the table the code implements: nav_spec with that one row changed *)
Definition nav_code (p : pos) (t : bytes) : option pos :=
  if up_at_entry p t then Some ([], 0) else nav_spec p t.

(* history forms *)
Fixpoint nav_fold (step : pos -> bytes -> option pos) (p : pos) (ms : list bytes) : option pos :=
  match ms with
  | [] => Some p
  | m :: ms' => match step p m with Some p' => nav_fold step p' ms' | None => None end
  end.

(* no executed move of the list is a "_" at the entry node *)
Fixpoint up_free (p : pos) (ms : list bytes) : bool :=
  match ms with
  | [] => true
  | m :: ms' => negb (up_at_entry p m) &&
                match nav_code p m with Some p' => up_free p' ms' | None => true end
  end.

Definition pos_of (st : state) : pos := (s_path st, s_idx st).

(* the node grammar of the text: "must start with an alphabetical character. The rest of the
   string may contain alphanumeric characters and underscore"; "_catch" is the builtin *)
Definition is_alpha (c : N) : bool := ((65 <=? c) && (c <=? 90)) || ((97 <=? c) && (c <=? 122)).
Definition doc_name_b (s : bytes) : bool :=
  bytes_eqb s catch_sym ||
  match s with c :: r => is_alpha c && forallb is_symchar r | [] => false end.

(* invariants *)
Definition nav_inv (st : state) (ca : cache) : Prop := cache_levels ca = len (s_path st) + 1.
Definition wf_nav (st : state) (ca : cache) : Prop :=
  nav_inv st ca /\ len (s_path st) <= MaxLevel + 1 /\ s_idx st < 65536.

(* running a list of targets on the model, as the VM would on successive moves: the state and
   cache are whatever applyTarget left (also after a failure); the log collects the targets
   that returned without error, i.e. the moves executed *)
Fixpoint nav_run (st : state) (ca : cache) (ts : list bytes) : state * cache * list bytes :=
  match ts with
  | [] => (st, ca, [])
  | t :: ts' =>
    let '(st', ca', _, r) := apply_target t st ca in
    let '(st2, ca2, log) := nav_run st' ca' ts' in
    (st2, ca2, match r with SOk => t :: log | _ => log end)
  end.

(* n successful pops *)
Fixpoint pops (n : nat) (ca : cache) : cache :=
  match n with
  | O => ca
  | S k => match cache_pop ca with Ok ca' => pops k ca' | _ => ca end
  end.

Definition is_spanic (r : stat) : bool := match r with SPanic _ => true | _ => false end.
Definition status_of (x : state * cache * bytes * stat) : stat := snd x.

