(* CacheModel.v — executable model of cache/cache.go.  Definitions only.
   Frames are association lists (Go: map[string]string); the LAST element of c_frames is the
   current frame (Go: ca.Cache[len(ca.Cache)-1]). Fixed-width arithmetic is explicit. *)
From Vise Require Import Bytes Errors.
Local Open Scope N_scope.

Notation res := (outcome err).

Notation frame := (list (list N * list N)) (only parsing).

Record cache := mkCache {
  c_size : N;                 (* CacheSize, uint32; 0 = unlimited *)
  c_use : N;                  (* CacheUseSize, uint32 *)
  c_frames : list frame;      (* Cache *)
  c_sizes : list (bytes * N); (* Sizes: limit per symbol (uint16) *)
  c_last : bytes              (* LastValue *)
}.

Definition new_cache (cap : N) : cache := mkCache cap 0 [[]] [] [].

(* frameOf: index of the first frame that defines key *)
Fixpoint frame_of_from (i : N) (fs : list frame) (k : bytes) : option N :=
  match fs with
  | [] => None
  | f :: fs' => if ahas k f then Some i else frame_of_from (i + 1) fs' k
  end.
Definition frame_of (c : cache) (k : bytes) : option N := frame_of_from 0 (c_frames c) k.

(* checkCapacity with the usage counter passed explicitly *)
Definition check_capacity (cap use : N) (v : bytes) : N :=
  let sz := w32 (len v) in
  if cap =? 0 then sz
  else if cap <? w32 (use + sz) then 0 else sz.

Fixpoint update_nth {A} (n : nat) (f : A -> A) (l : list A) : list A :=
  match l, n with
  | [], _ => []
  | x :: l', O => f x :: l'
  | x :: l', S n' => x :: update_nth n' f l'
  end.

Definition top_index (c : cache) : N := len (c_frames c) - 1.

(* Add *)
Definition cache_add (c : cache) (k v : bytes) (limit : N) : res cache :=
  if (0 <? limit) && (limit <? len v) then Err EGen else
  match frame_of c k with
  | Some i => if i =? top_index c then Err EDup else Err EGen
  | None =>
    let sz := if 0 <? len v then check_capacity (c_size c) (c_use c) v else 0 in
    if (0 <? len v) && (sz =? 0) then Err EGen else
    match c_frames c with
    | [] => Panic 10 (* index -1 *)
    | _ =>
      Ok (mkCache (c_size c) (w32 (c_use c + sz))
            (update_nth (N.to_nat (top_index c)) (aset k v) (c_frames c))
            (aset k limit (c_sizes c)) v)
    end
  end.

(* ReservedSize *)
Definition cache_reserved (c : cache) (k : bytes) : res N :=
  match alookup k (c_sizes c) with Some l => Ok l | None => Err EGen end.

Definition frame_get (fs : list frame) (i : N) (k : bytes) : bytes :=
  match nth_error fs (N.to_nat i) with
  | Some f => match alookup k f with Some v => v | None => [] end
  | None => []
  end.

(* Update, as the code does it: the old value is blanked and its bytes released BEFORE the
   capacity check; on failure both are put back.  Returns the state in either case. *)
Definition cache_update_raw (c : cache) (k v : bytes) : cache * option err :=
  let limit := match alookup k (c_sizes c) with Some l => l | None => 0 end in
  if (0 <? limit) && (limit <? len v) then (c, Some EGen) else
  match frame_of c k with
  | None => (c, Some EGen)
  | Some i =>
    let old := frame_get (c_frames c) i k in
    let l := w32 (len old) in
    (* ca.Cache[checkFrame][key] = ""; ca.CacheUseSize -= l *)
    let c1 := mkCache (c_size c) (sub32 (c_use c) l)
                (update_nth (N.to_nat i) (aset k []) (c_frames c)) (c_sizes c) (c_last c) in
    let sz := check_capacity (c_size c1) (c_use c1) v in
    if (sz =? 0) && (0 <? len v) then
      (* roll back: ca.Cache[checkFrame][key] = r; ca.CacheUseSize += l *)
      (mkCache (c_size c1) (w32 (c_use c1 + l))
         (update_nth (N.to_nat i) (aset k old) (c_frames c1)) (c_sizes c1) (c_last c1), Some EGen)
    else
      (mkCache (c_size c1) (w32 (c_use c1 + w32 (len v)))
         (update_nth (N.to_nat i) (aset k v) (c_frames c1)) (c_sizes c1) (c_last c1), None)
  end.

(* Get *)
Definition cache_get (c : cache) (k : bytes) : res bytes :=
  match frame_of c k with
  | None => Err EGen
  | Some i => Ok (frame_get (c_frames c) i k)
  end.

Definition frame_bytes (f : frame) : N := fold_right (fun kv acc => len (snd kv) + acc) 0 f.
Definition total_bytes (fs : list frame) : N := fold_right (fun f acc => frame_bytes f + acc) 0 fs.

(* Reset *)
Definition cache_reset (c : cache) : cache :=
  match c_frames c with
  | [] => c
  | f0 :: _ => mkCache (c_size c) (w32 (frame_bytes f0)) [f0] (c_sizes c) (c_last c)
  end.

(* Push *)
Definition cache_push (c : cache) : cache :=
  mkCache (c_size c) (c_use c) (c_frames c ++ [[]]) (c_sizes c) (c_last c).

Definition remove_keys (f : frame) (sizes : list (bytes * N)) : list (bytes * N) :=
  fold_left (fun s kv => aremove (fst kv) s) f sizes.

(* Pop *)
Definition cache_pop (c : cache) : res cache :=
  match rev (c_frames c) with
  | [] => Err EGen
  | top :: rest_rev =>
    let use' := fold_left (fun u kv => sub32 u (w32 (len (snd kv)))) top (c_use c) in
    let sizes' := remove_keys top (c_sizes c) in
    let fs := rev rest_rev in
    Ok (mkCache (c_size c) use' (match fs with [] => [[]] | _ => fs end) sizes' (c_last c))
  end.

(* Last *)
Definition cache_last (c : cache) : bytes * cache :=
  (c_last c, mkCache (c_size c) (c_use c) (c_frames c) (c_sizes c) []).

Definition cache_levels (c : cache) : N := len (c_frames c).

(* Keys(level): Go indexes ca.Cache[level] *)
Definition cache_keys (c : cache) (level : N) : res (list bytes) :=
  match nth_error (c_frames c) (N.to_nat level) with
  | Some f => Ok (map fst f)
  | None => Panic 11
  end.

(* ---- operation language for histories ------------------------------------------- *)
Inductive cop : Type :=
| OAdd (k v : bytes) (limit : N)
| OUpdate (k v : bytes)
| OGet (k : bytes)
| OPush
| OPop
| OReset
| OLast.

(* result of one operation as the caller sees it *)
Inductive cres : Type :=
| ROk
| RVal (v : bytes)
| RErr (e : err)
| RPanic.

Definition cache_step (c : cache) (o : cop) : cache * cres :=
  match o with
  | OAdd k v l => match cache_add c k v l with Ok c' => (c', ROk) | Err e => (c, RErr e) | Panic _ => (c, RPanic) end
  | OUpdate k v => match cache_update_raw c k v with (c', None) => (c', ROk) | (c', Some e) => (c', RErr e) end
  | OGet k => match cache_get c k with Ok v => (c, RVal v) | Err e => (c, RErr e) | Panic _ => (c, RPanic) end
  | OPush => (cache_push c, ROk)
  | OPop => match cache_pop c with Ok c' => (c', ROk) | Err e => (c, RErr e) | Panic _ => (c, RPanic) end
  | OReset => (cache_reset c, ROk)
  | OLast => let '(v, c') := cache_last c in (c', RVal v)
  end.

Definition cache_run (c : cache) (ops : list cop) : cache := fold_left (fun c o => fst (cache_step c o)) ops c.

(* all keys defined in any frame, with multiplicity *)
Definition all_keys (fs : list frame) : list bytes := List.concat (map (map fst) fs).
