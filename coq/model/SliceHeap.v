(* SliceHeap.v — Go slice semantics for the ONE object property C19 names: the pending-code
   buffer `b` of vm/runner.go (Run and its handlers), engine/db.go (setCode, exec, init) and
   state/state.go (SetCode / GetCode).  Definitions only.

   A Go slice is (backing array, offset, len, cap); `append` writes IN PLACE when the capacity
   allows and otherwise allocates a new array (how much larger is up to the runtime: the growth
   function is an oracle here, theorems quantify over it).  Arrays carry a ghost owner tag:

     OShared    the arrays behind the resource's code slices (db/mem returns the stored slice
                itself, so every session that shares the application data shares these arrays,
                including their spare capacity)
     OOwned s   arrays allocated by session s (NewLine, append growth, append([]byte{}, x...),
                the CBOR decoder)
     OZero      the zero-size allocation behind `[]byte{}` (cap 0: never read, never written)

   Array ids are (owner, k); a session numbers its own allocations (ss_next), which makes
   freshness local to the session.  Addresses are not observable in the Go code (no pointer
   comparison on the buffer), so the numbering carries no information.

   What Run does to `b`, as an abstract trace language (op):
     OpConsume n             b = b[n:]           opSplit, every Parse* (instructionSplit, intSplit, ...)
     OpAppendFromResource k  b = append(b, code...)   runMove, runInCmp (fired), code = rs.GetCode(node k)
     OpReplaceFromResource k b = append([]byte{}, bh...)   runCatch (fired) after fix 800b081
     OpAdopt k               b = bh              runCatch BEFORE the fix (kept for the refutation)
     OpReplaceFresh d        b = NewLine(nil, MOVE, ["_catch"]..) in runErrCheck / runDeadCheck,
                             b = []byte{} in runCroak and at the end of Run, NewLine(MOVE root) in
                             engine init, the local buffer of Vm.Render's MOVE _catch run
     OpStore                 en.st.SetCode(b) (engine setCode); the local b dies with Run's frame
     OpTake                  b = st.GetCode()   (st.Code = []byte{})
     OpDecodeFresh           persisted operation: the next engine's st.Code is re-created by the CBOR decoder
   Mapping from coq/model/VmModel.v (value semantics): op_split + parse_args => OpConsume (length of
   the instruction); run_move / run_incmp returning `b ++ code` => OpAppendFromResource; run_catch
   returning `code` => OpReplaceFromResource; run_croak `[]`, runErrCheck / dead_check
   `move_catch_code` => OpReplaceFresh; every other handler returns b unchanged
   (proofs/SliceHeapProofs.v: exec_instr_buf, run_buf_reach). *)
From Vise Require Import Bytes.
Local Open Scope N_scope.

(* ---- arrays and the heap -------------------------------------------------------------- *)
Inductive owner : Type := OShared | OOwned (s : N) | OZero.
Notation aid := (owner * N)%type (only parsing).

Definition owner_eqb (a b : owner) : bool :=
  match a, b with
  | OShared, OShared => true
  | OOwned s, OOwned t => s =? t
  | OZero, OZero => true
  | _, _ => false
  end.
Definition aid_eqb (a b : aid) : bool := owner_eqb (fst a) (fst b) && (snd a =? snd b).

(* array id -> the whole backing array (its length is its capacity); [] = not allocated *)
Notation heap := (owner * N -> list N) (only parsing).
Definition h_empty : heap := fun _ => [].
Definition h_set (h : heap) (a : aid) (v : bytes) : heap := fun a' => if aid_eqb a' a then v else h a'.

(* ---- slices ------------------------------------------------------------------------------ *)
Record slice := mkSl { sl_arr : aid; sl_off : N; sl_len : N; sl_cap : N }.

Definition sl_nil : slice := mkSl (OZero, 0) 0 0 0.      (* []byte{} and nil *)

Definition sl_read (h : heap) (s : slice) : bytes := take (sl_len s) (drop (sl_off s) (h (sl_arr s))).

(* b[n:] ; Go panics for n > len, the decoder checks lengths first (fix 30c862f, cdab134):
   total here, n is cut at len *)
Definition sl_reslice (n : N) (s : slice) : slice :=
  let n := N.min n (sl_len s) in
  mkSl (sl_arr s) (sl_off s + n) (sl_len s - n) (sl_cap s - n).

(* overwrite arr[pos .. pos+|data|) *)
Definition write_at (pos : N) (data arr : bytes) : bytes :=
  take pos arr ++ data ++ drop (pos + len data) arr.

(* append(s, data...): result heap, result slice, arrays written, whether `fresh` was used.
   grow oldcap need = capacity the runtime would give the new array (at least `need` is forced) *)
Definition sl_append (grow : N -> N -> N) (fresh : aid) (h : heap) (s : slice) (data : bytes)
  : heap * slice * list aid * bool :=
  match data with
  | [] => (h, s, [], false)
  | _ =>
    if sl_len s + len data <=? sl_cap s then
      (h_set h (sl_arr s) (write_at (sl_off s + sl_len s) data (h (sl_arr s))),
       mkSl (sl_arr s) (sl_off s) (sl_len s + len data) (sl_cap s), [sl_arr s], false)
    else
      let need := sl_len s + len data in
      let ncap := N.max need (grow (sl_cap s) need) in
      (h_set h fresh (sl_read h s ++ data ++ rep 0 (ncap - need)), mkSl fresh 0 need ncap, [fresh], true)
  end.

(* append([]byte{}, x...) *)
Definition sl_copy_fresh (grow : N -> N -> N) (fresh : aid) (h : heap) (data : bytes) :=
  sl_append grow fresh h sl_nil data.

(* ---- resources ----------------------------------------------------------------------------- *)
(* node k's code lives in the shared array (OShared, k) = code ++ spare: arbitrary spare capacity *)
Notation restbl := (list (list N * list N)) (only parsing).

Definition res_entry (tbl : restbl) (k : N) : option (bytes * bytes) := nth_error tbl (N.to_nat k).
Definition res_slice (tbl : restbl) (k : N) : option slice :=
  match res_entry tbl k with
  | Some (code, spare) => Some (mkSl (OShared, k) 0 (len code) (len code + len spare))
  | None => None
  end.
Definition res_code (tbl : restbl) (k : N) : option bytes :=
  match res_entry tbl k with Some (code, _) => Some code | None => None end.
Definition res_heap (tbl : restbl) : heap :=
  fun a => match fst a with
           | OShared => match res_entry tbl (snd a) with Some (code, spare) => code ++ spare | None => [] end
           | _ => []
           end.

(* ---- the code-buffer machine ------------------------------------------------------------------ *)
Inductive op : Type :=
| OpConsume (n : N)
| OpAppendFromResource (node : N)
| OpReplaceFromResource (node : N)
| OpAdopt (node : N)
| OpReplaceFresh (data : bytes)
| OpStore
| OpTake
| OpDecodeFresh.

Definition op_repaired (o : op) : bool := match o with OpAdopt _ => false | _ => true end.

Record sess := mkSess {
  ss_buf : slice;     (* Run's local b *)
  ss_code : slice;    (* st.Code *)
  ss_next : N         (* number of arrays this session has allocated *)
}.
Definition sess_init : sess := mkSess sl_nil sl_nil 0.

Record scfg := mkScfg {
  sc_grow : N -> N -> N -> N -> N;   (* session, allocation number, old cap, needed -> new cap *)
  sc_res : restbl
}.

(* result of one step: heap, session, arrays written *)
Definition session_step (c : scfg) (sid : N) (h : heap) (ss : sess) (o : op) : heap * sess * list aid :=
  let fresh := (OOwned sid, ss_next ss) in
  let grow := sc_grow c sid (ss_next ss) in
  let bump (used : bool) := if used then ss_next ss + 1 else ss_next ss in
  match o with
  | OpConsume n => (h, mkSess (sl_reslice n (ss_buf ss)) (ss_code ss) (ss_next ss), [])
  | OpAppendFromResource k =>
    match res_slice (sc_res c) k with
    | None => (h, ss, [])                                   (* GetCode failed: return b, err *)
    | Some rsl =>
      let '(h', b', wr, used) := sl_append grow fresh h (ss_buf ss) (sl_read h rsl) in
      (h', mkSess b' (ss_code ss) (bump used), wr)
    end
  | OpReplaceFromResource k =>
    match res_slice (sc_res c) k with
    | None => (h, ss, [])
    | Some rsl =>
      let '(h', b', wr, used) := sl_copy_fresh grow fresh h (sl_read h rsl) in
      (h', mkSess b' (ss_code ss) (bump used), wr)
    end
  | OpAdopt k =>
    match res_slice (sc_res c) k with
    | None => (h, ss, [])
    | Some rsl => (h, mkSess rsl (ss_code ss) (ss_next ss), [])
    end
  | OpReplaceFresh data =>
    let '(h', b', wr, used) := sl_copy_fresh grow fresh h data in
    (h', mkSess b' (ss_code ss) (bump used), wr)
  | OpStore => (h, mkSess sl_nil (ss_buf ss) (ss_next ss), [])
  | OpTake => (h, mkSess (ss_code ss) sl_nil (ss_next ss), [])
  | OpDecodeFresh =>
    let '(h', c', wr, used) := sl_copy_fresh grow fresh h (sl_read h (ss_code ss)) in
    (h', mkSess sl_nil c' (bump used), wr)
  end.

(* what a session can read of its buffers: their complete contents *)
Notation obs := (list N * list N)%type (only parsing).
Definition sess_obs (h : heap) (ss : sess) : obs := (sl_read h (ss_buf ss), sl_read h (ss_code ss)).

Record world := mkWorld { w_heap : heap; w_sess : N -> sess }.
Definition sess_set (f : N -> sess) (sid : N) (ss : sess) : N -> sess :=
  fun t => if t =? sid then ss else f t.

Definition world_init (tbl : restbl) : world := mkWorld (res_heap tbl) (fun _ => sess_init).

(* one trace entry per step: who, what it can read afterwards, which arrays the step wrote *)
Record tev := mkTev { te_sid : N; te_obs : obs; te_writes : list aid }.

Definition world_step (c : scfg) (w : world) (sid : N) (o : op) : world * tev :=
  let '(h', ss', wr) := session_step c sid (w_heap w) (w_sess w sid) o in
  (mkWorld h' (sess_set (w_sess w) sid ss'), mkTev sid (sess_obs h' ss') wr).

(* a schedule = any interleaving of the sessions' operations *)
Fixpoint run_sched (c : scfg) (w : world) (sched : list (N * op)) : world * list tev :=
  match sched with
  | [] => (w, [])
  | (sid, o) :: r =>
    let '(w1, e) := world_step c w sid o in
    let '(w2, es) := run_sched c w1 r in
    (w2, e :: es)
  end.

Definition sched_of (sid : N) (sched : list (N * op)) : list (N * op) :=
  filter (fun p => fst p =? sid) sched.
Definition obs_of (sid : N) (tr : list tev) : list obs :=
  map te_obs (filter (fun e => te_sid e =? sid) tr).
Definition sched_repaired (sched : list (N * op)) : bool := forallb (fun p => op_repaired (snd p)) sched.

(* ---- value semantics (what coq/model/VmModel.v and EngineModel.v use for the code) --------------- *)
Definition pure_step (tbl : restbl) (p : obs) (o : op) : obs :=
  let '(b, code) := p in
  match o with
  | OpConsume n => (drop n b, code)
  | OpAppendFromResource k => match res_code tbl k with Some c => (b ++ c, code) | None => p end
  | OpReplaceFromResource k | OpAdopt k => match res_code tbl k with Some c => (c, code) | None => p end
  | OpReplaceFresh d => (d, code)
  | OpStore => ([], b)
  | OpTake => (code, [])
  | OpDecodeFresh => ([], code)
  end.
Fixpoint pure_run (tbl : restbl) (p : obs) (ops : list op) : list obs :=
  match ops with
  | [] => []
  | o :: r => let p' := pure_step tbl p o in p' :: pure_run tbl p' r
  end.

(* ---- request-level interleaving (generic) ---------------------------------------------------------
   a server holding one private state per session and a request function f that sees only the state
   of the session it serves (plus whatever is closed over: the immutable application data).
   EngineModel.request_long / request_persisted have exactly this shape. *)
Fixpoint serve {S I O : Type} (f : S -> I -> S * O) (w : N -> S) (sched : list (N * I)) : (N -> S) * list (N * O) :=
  match sched with
  | [] => (w, [])
  | (sid, i) :: r =>
    let '(s', o) := f (w sid) i in
    let '(w2, os) := serve f (fun t => if t =? sid then s' else w t) r in
    (w2, (sid, o) :: os)
  end.
Fixpoint serve_solo {S I O : Type} (f : S -> I -> S * O) (s : S) (ins : list I) : S * list O :=
  match ins with
  | [] => (s, [])
  | i :: r =>
    let '(s', o) := f s i in
    let '(s2, os) := serve_solo f s' r in
    (s2, o :: os)
  end.
Definition of_sid {A : Type} (sid : N) (l : list (N * A)) : list A :=
  map snd (filter (fun p => fst p =? sid) l).
