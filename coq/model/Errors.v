(* Errors.v — error classes. Go errors are compared by class, never by message text:
   a class exists only where the Go code has a distinguishable type or sentinel value;
   everything else is EGen. *)
Inductive err : Set :=
| EGen            (* fmt.Errorf / errors.New without a type *)
| EBrowse         (* *render.BrowseError *)
| EInvalidInput   (* vm.InvalidInputError *)
| EExternal       (* *vm.ExternalCodeError *)
| EIndex          (* state.IndexError *)
| ENotFound       (* db.ErrNotFound *)
| EDup            (* cache.ErrDup *)
| EFlushNoExec    (* engine.ErrFlushNoExec *)
| ECodeRemaining  (* engine.ErrCodeRemaining *)
| ETxExist | ENoTx | ESingleTx  (* db.ErrTxExist, db.ErrNoTx, db.ErrSingleTx *)
| EFault.         (* error injected by the fake driver / oracle *)

Definition err_eqb (a b : err) : bool :=
  match a, b with
  | EGen, EGen | EBrowse, EBrowse | EInvalidInput, EInvalidInput | EExternal, EExternal
  | EIndex, EIndex | ENotFound, ENotFound | EDup, EDup | EFlushNoExec, EFlushNoExec
  | ECodeRemaining, ECodeRemaining | ETxExist, ETxExist | ENoTx, ENoTx
  | ESingleTx, ESingleTx | EFault, EFault => true
  | _, _ => false
  end.
