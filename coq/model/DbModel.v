(* DbModel.v — executable model of the three storage backends (db/mem/mem.go, db/postgres/pg.go:
   Get/Put key handling, db/fs/fs.go + db/fs/dump.go) and the reference map they are compared
   with.  Definitions only.

   mem : association list over hex(storage key)      (Go: map[string][]byte keyed by hex string)
   pg  : association list over the raw storage key   (Go: table kv_vise, key BYTEA UNIQUE)
   fs  : association list over cleaned PATHS, relative to a model root R under which the store
         directory d_dir lies (the harness puts the store at R/p/q/s and never lets a name
         climb above R).  The only directories are the prefixes of d_dir: the code creates the
         store directory with MkdirAll and never creates another one.
   Modelled, not verified (stdlib / kernel): path.Join/Clean (clean_join), os.Open / CreateTemp /
   Rename error classes (fs_open, fs_put), os.ReadDir order (sorted by name), base64.StdEncoding
   (b64_enc, b64_dec; the decoder's skipping of CR/LF is not modelled). *)
From Vise Require Import Bytes Errors Consts DbKey.
Local Open Scope N_scope.

(* ---- encodings ----------------------------------------------------------------------- *)
Definition hexdigit (d : N) : N := if d <? 10 then 48 + d else 87 + d.
(* hex.EncodeToString *)
Fixpoint hex_enc (l : bytes) : bytes :=
  match l with [] => [] | b :: r => hexdigit (b / 16) :: hexdigit (b mod 16) :: hex_enc r end.

(* base64.StdEncoding alphabet *)
Definition b64c (n : N) : N :=
  if n <? 26 then 65 + n else if n <? 52 then 71 + n else if n <? 62 then n - 4
  else if n =? 62 then 43 else 47.
Definition ch_pad : N := 61.
Fixpoint b64_enc (l : bytes) : bytes :=
  match l with
  | [] => []
  | [a] => [b64c (a / 4); b64c ((a mod 4) * 16); ch_pad; ch_pad]
  | [a; b] => [b64c (a / 4); b64c ((a mod 4) * 16 + b / 16); b64c ((b mod 16) * 4); ch_pad]
  | a :: b :: c :: r =>
    b64c (a / 4) :: b64c ((a mod 4) * 16 + b / 16) :: b64c ((b mod 16) * 4 + c / 64) :: b64c (c mod 64)
    :: b64_enc r
  end.
Definition b64v (c : N) : option N :=
  if (65 <=? c) && (c <=? 90) then Some (c - 65)
  else if (97 <=? c) && (c <=? 122) then Some (c - 71)
  else if (48 <=? c) && (c <=? 57) then Some (c + 4)
  else if c =? 43 then Some 62 else if c =? 47 then Some 63 else None.
(* DecodeString, non-strict (trailing bits of a padded quantum are ignored, as Go does) *)
Fixpoint b64_dec (l : bytes) : option bytes :=
  match l with
  | [] => Some []
  | a :: b :: c :: d :: r =>
    match b64v a, b64v b with
    | Some x, Some y =>
      if c =? ch_pad then
        if (d =? ch_pad) && is_nil r then Some [x * 4 + y / 16] else None
      else match b64v c with
      | Some z =>
        if d =? ch_pad then
          if is_nil r then Some [x * 4 + y / 16; (y mod 16) * 16 + z / 4] else None
        else match b64v d with
        | Some w =>
          match b64_dec r with
          | Some t => Some ((x * 4 + y / 16) :: ((y mod 16) * 16 + z / 4) :: ((z mod 4) * 64 + w) :: t)
          | None => None
          end
        | None => None
        end
      | None => None
      end
    | _, _ => None
    end
  | _ => None
  end.

(* ---- states, operations, results ------------------------------------------------------ *)
Inductive backend := BMem | BPg | BFs (binary : bool).

Record dbstate := mkDb {
  d_base : base;
  d_store : list (bytes * bytes);
  d_dir : list bytes       (* fs only: components of the store directory below the model root *)
}.
Definition db_init (dir : list bytes) : dbstate := mkDb new_base [] dir.
Definition with_base (st : dbstate) (b : base) : dbstate := mkDb b (d_store st) (d_dir st).
Definition with_store (st : dbstate) (s : list (bytes * bytes)) : dbstate := mkDb (d_base st) s (d_dir st).

Inductive dbop :=
| OPut (k v : bytes)
| OGet (k : bytes)
| OSetPrefix (p : N)
| OSetSession (s : bytes)
| OSetLanguage (l : option bytes)
| OSetLock (p : N) (lk : bool)
| ODump (k : bytes)          (* Dump + Next until exhausted *)
| OPaths (k : bytes)         (* verification hook VerifPaths (fs) *)
| ODecode (k : bytes).       (* DecodeKey of a storage key (no store access) *)

Inductive dbres :=
| DOk                                  (* nil error, no value *)
| DVal (v : bytes)
| DErr (e : err)                       (* ENotFound or EGen *)
| DRefused                             (* "unsafe put and safety set" *)
| DPanic
| DDump (l : list (bytes * bytes))
| DPaths (l : list (option bytes))
| DSkip.                               (* operation not run on this backend *)

(* ---- mem and pg ------------------------------------------------------------------------ *)
Definition kv_get (enc : bytes -> bytes) (st : dbstate) (k : bytes) : dbres :=
  match to_key (d_base st) k with
  | Ok lk =>
    match match lk_translation lk with Some t => alookup (enc t) (d_store st) | None => None end with
    | Some v => DVal v
    | None => match alookup (enc (lk_default lk)) (d_store st) with
              | Some v => DVal v
              | None => DErr ENotFound
              end
    end
  | _ => DErr EGen
  end.

Definition kv_put (enc : bytes -> bytes) (st : dbstate) (k v : bytes) : dbstate * dbres :=
  if negb (check_put (d_base st)) then (st, DRefused) else
  match to_key (d_base st) k with
  | Ok lk =>
    let sk := match lk_translation lk with Some t => t | None => lk_default lk end in
    (with_store st (aset (enc sk) v (d_store st)), DOk)
  | _ => (st, DErr EGen)
  end.

(* ---- fs: names and paths ----------------------------------------------------------------- *)
(* pathFor: the first byte of the storage key moved by 0x30 in uint8 arithmetic *)
Definition fs_name (sk : bytes) : bytes :=
  match sk with [] => [] | t :: r => w8 (t + fs_type_offset) :: r end.
(* altPathFor: the storage key without its first byte, ".bin" appended for DATATYPE_BIN *)
Definition fs_alt_name (p : N) (sk : bytes) : bytes :=
  match sk with [] => [] | _ :: r => if p =? DATATYPE_BIN then r ++ s2b fs_bin_suffix else r end.

(* path.Join(dir, name) for a clean dir: Clean(dir + "/" + name), lexically; climbing above the
   model root is cut off (as Clean does at "/") *)
Definition clean_step (stack : list bytes) (c : bytes) : list bytes :=
  if is_nil c || bytes_eqb c [ch_dot] then stack
  else if bytes_eqb c [ch_dot; ch_dot] then tl stack
  else c :: stack.
Definition clean_join (dir : list bytes) (name : bytes) : list bytes :=
  rev (fold_left clean_step (split_on ch_slash name) (rev dir)).
Definition path_str (comps : list bytes) : bytes := join_with [ch_slash] comps.

Fixpoint comps_prefix (a b : list bytes) : bool :=
  match a, b with
  | [], _ => true
  | x :: a', y :: b' => bytes_eqb x y && comps_prefix a' b'
  | _ :: _, [] => false
  end.
Definition is_dir (st : dbstate) (comps : list bytes) : bool := comps_prefix comps (d_dir st).

Inductive fopen := FOk (v : bytes) | FNoEnt | FIsDir | FErr.

(* kernel path walk over a lexically clean path *)
Fixpoint fs_walk (st : dbstate) (cur rest : list bytes) : fopen :=
  match rest with
  | [] => FIsDir
  | c :: rest' =>
    if 255 <? len c then FErr (* ENAMETOOLONG *) else
    let cur' := cur ++ [c] in
    match rest' with
    | [] => if is_dir st cur' then FIsDir
            else match alookup (path_str cur') (d_store st) with Some v => FOk v | None => FNoEnt end
    | _ => if is_dir st cur' then fs_walk st cur' rest'
           else if ahas (path_str cur') (d_store st) then FErr (* ENOTDIR *) else FNoEnt
    end
  end.
Definition has_nul (comps : list bytes) : bool := existsb (has_byte 0) comps.
Definition fs_open (st : dbstate) (comps : list bytes) : fopen :=
  if has_nul comps then FErr (* EINVAL before the system call *) else fs_walk st [] comps.

(* ToKey override: base64 of the key in binary mode *)
Definition fs_to_key (bin : bool) (b : base) (k : bytes) : outcome err lookup_key :=
  to_key b (if bin then b64_enc k else k).

(* the four candidates of Get, in order: translation, legacy translation, default, legacy default *)
Definition fs_candidates (st : dbstate) (lk : lookup_key) : list (option (list bytes)) :=
  let p := b_pfx (d_base st) in
  let j := fun n => clean_join (d_dir st) n in
  [ option_map (fun t => j (fs_name t)) (lk_translation lk);
    option_map (fun t => j (fs_alt_name p t)) (lk_translation lk);
    Some (j (fs_name (lk_default lk)));
    Some (j (fs_alt_name p (lk_default lk))) ].

Fixpoint fs_try (st : dbstate) (cands : list (option (list bytes))) : dbres :=
  match cands with
  | [] => DErr ENotFound
  | None :: r => fs_try st r
  | Some c :: r =>
    match fs_open st c with
    | FOk v => DVal v
    | FIsDir => DErr EGen      (* Open succeeds, ReadAll fails *)
    | FNoEnt => fs_try st r
    | FErr => DErr EGen
    end
  end.

Definition fs_get (bin : bool) (st : dbstate) (k : bytes) : dbres :=
  match fs_to_key bin (d_base st) k with
  | Ok lk => fs_try st (fs_candidates st lk)
  | _ => DErr EGen
  end.

(* writeFileAtomic: CreateTemp in path.Dir(target), write, rename over the target *)
Definition fs_write (st : dbstate) (comps : list bytes) (v : bytes) : dbstate * dbres :=
  if has_nul comps then (st, DErr EGen)
  else if negb (is_dir st (removelast comps)) then (st, DErr EGen)   (* temp file cannot be created *)
  else if is_nil comps || is_dir st comps then (st, DErr EGen)       (* rename onto a directory *)
  else if 255 <? len (last comps []) then (st, DErr EGen)
  else (with_store st (aset (path_str comps) v (d_store st)), DOk).

Definition fs_put (bin : bool) (st : dbstate) (k v : bytes) : dbstate * dbres :=
  if negb (check_put (d_base st)) then (st, DRefused) else
  match fs_to_key bin (d_base st) k with
  | Ok lk =>
    let sk := match lk_translation lk with Some t => t | None => lk_default lk end in
    fs_write st (clean_join (d_dir st) (fs_name sk)) v
  | _ => (st, DErr EGen)
  end.

Definition fs_paths (bin : bool) (st : dbstate) (k : bytes) : dbres :=
  match fs_to_key bin (d_base st) k with
  | Ok lk => DPaths (map (option_map path_str) (fs_candidates st lk))
  | _ => DErr EGen
  end.

(* ---- fs: Dump ------------------------------------------------------------------------------ *)
(* os.ReadDir(store): names of the files directly inside the store directory, sorted *)
Definition child_name (dirstr : bytes) (p : bytes) : option bytes :=
  if is_prefix dirstr p then
    let r := drop (len dirstr) p in
    if is_nil r || has_byte ch_slash r then None else Some r
  else None.
Definition fs_readdir (st : dbstate) : list bytes :=
  let dirstr := path_str (d_dir st) ++ [ch_slash] in
  map fst (asort (fold_right (fun kv acc =>
     match child_name dirstr (fst kv) with Some n => (n, tt) :: acc | None => acc end) [] (d_store st))).

(* nextElement: k[0] -= 0x30 *)
Definition elem_key (name : bytes) : bytes :=
  match name with [] => [] | c :: r => sub8 c fs_type_offset :: r end.
(* fsDb.DecodeKey *)
Definition fs_decode_key (bin : bool) (b : base) (k : bytes) : option bytes :=
  match decode_key b k with
  | Ok kk => if bin then b64_dec kk else Some kk
  | _ => None
  end.

(* dumpFunc: stop at the first element that does not decode, does not match or cannot be read *)
Fixpoint fs_dump_rest (bin : bool) (st : dbstate) (pk : bytes) (names : list bytes) : list (bytes * bytes) :=
  match names with
  | [] => []
  | n :: r =>
    let k := elem_key n in
    match fs_decode_key bin (d_base st) k with
    | Some kk =>
      if is_prefix pk (hd 0 k :: kk) then
        match fs_get bin st kk with
        | DVal v => (kk, v) :: fs_dump_rest bin st pk r
        | _ => []
        end
      else []
    | None => []
    end
  end.
(* Dump: skip until the first match *)
Fixpoint fs_dump_first (bin : bool) (st : dbstate) (pk : bytes) (names : list bytes) : dbres :=
  match names with
  | [] => DErr ENotFound
  | n :: r =>
    let k := elem_key n in
    if len k <? len pk then fs_dump_first bin st pk r else
    match fs_decode_key bin (d_base st) k with
    | Some kk =>
      if is_prefix pk (hd 0 k :: kk) then
        match fs_get bin st kk with
        | DVal v => DDump ((kk, v) :: fs_dump_rest bin st pk r)
        | e => e
        end
      else fs_dump_first bin st pk r
    | None => fs_dump_first bin st pk r
    end
  end.
Definition fs_dump (bin : bool) (st : dbstate) (k : bytes) : dbres :=
  fs_dump_first bin st (b_pfx (d_base st) :: k) (fs_readdir st).

(* ---- pg: Dump (db/postgres/dump.go) ------------------------------------------------------------ *)
(* SELECT key, value ... WHERE key >= k, in bytewise key order (BYTEA comparison) *)
Definition pg_rows_from (st : dbstate) (k : bytes) : list (bytes * bytes) :=
  filter (fun kv => bytes_leb k (fst kv)) (asort (d_store st)).
(* dumpFunc: a row whose raw key does not begin with the lower bound k (itBase) ends the listing;
   every other row is decoded, and the listing also stops at the first row that does not decode *)
Fixpoint pg_dump_rest (b : base) (k : bytes) (rows : list (bytes * bytes)) : list (bytes * bytes) :=
  match rows with
  | [] => []
  | (rk, v) :: r =>
    if is_prefix k rk then
      match decode_key b rk with
      | Ok kk => (kk, v) :: pg_dump_rest b k r
      | _ => []
      end
    else []
  end.
(* Dump: SetLanguage(nil) on the handle, ToKey, the default storage key k is the lower bound and the
   prefix every listed row must have; a first row without it => not found; the first row is decoded
   (error => generic error) and handed to WithFirst.
   b is the context AFTER the language has been cleared. *)
Definition pg_dump (st : dbstate) (b : base) (key : bytes) : dbres :=
  match to_key b key with
  | Ok lk =>
    let k := lk_default lk in
    match pg_rows_from st k with
    | [] => DErr ENotFound
    | (rk, v) :: r =>
      if negb (is_prefix k rk) then DErr ENotFound else
      match decode_key b rk with
      | Ok kk => DDump ((kk, v) :: pg_dump_rest b k r)
      | _ => DErr EGen
      end
    end
  | _ => DErr EGen
  end.

(* ---- one operation on one backend ---------------------------------------------------------- *)
Definition lock_res (ok : bool) : dbres := if ok then DOk else DErr EGen.

Definition db_step (be : backend) (st : dbstate) (o : dbop) : dbstate * dbres :=
  match o with
  | OSetPrefix p => (with_base st (set_prefix (d_base st) p), DOk)
  | OSetSession s => (with_base st (set_session (d_base st) s), DOk)
  | OSetLanguage l => (with_base st (set_language (d_base st) l), DOk)
  | OSetLock p lk => let '(b, ok) := set_lock (d_base st) p lk in (with_base st b, lock_res ok)
  | OPut k v =>
    match be with
    | BMem => kv_put hex_enc st k v
    | BPg => kv_put (fun x => x) st k v
    | BFs bin => fs_put bin st k v
    end
  | OGet k =>
    (st, match be with
         | BMem => kv_get hex_enc st k
         | BPg => kv_get (fun x => x) st k
         | BFs bin => fs_get bin st k
         end)
  | ODump k =>
    match be with
    | BMem => (st, DErr EGen)       (* "unimplemented" *)
    | BPg => let b := set_language (d_base st) None in (with_base st b, pg_dump st b k)
    | BFs bin => (st, fs_dump bin st k)
    end
  | OPaths k =>
    (st, match be with BFs bin => fs_paths bin st k | _ => DSkip end)
  | ODecode k =>
    (st, match match be with
               | BFs bin => fs_decode_key bin (d_base st) k
               | _ => match decode_key (d_base st) k with Ok kk => Some kk | _ => None end
               end with
         | Some kk => DVal kk
         | None => DErr EGen
         end)
  end.

Fixpoint db_run (be : backend) (st : dbstate) (ops : list dbop) : dbstate * list dbres :=
  match ops with
  | [] => (st, [])
  | o :: r => let '(st', x) := db_step be st o in
              let '(st'', xs) := db_run be st' r in (st'', x :: xs)
  end.
Definition db_results (be : backend) (dir : list bytes) (ops : list dbop) : list dbres :=
  snd (db_run be (db_init dir) ops).

(* ---- the reference map ------------------------------------------------------------------------ *)
(* (type, session-or-none, language-or-default, key) -> value; the newest entry is first *)
Record akey := mkAkey { a_typ : N; a_sess : option bytes; a_lang : option bytes; a_key : bytes }.
Definition obytes_eqb (a b : option bytes) : bool :=
  match a, b with Some x, Some y => bytes_eqb x y | None, None => true | _, _ => false end.
Definition akey_eqb (a b : akey) : bool :=
  (a_typ a =? a_typ b) && obytes_eqb (a_sess a) (a_sess b) && obytes_eqb (a_lang a) (a_lang b)
  && bytes_eqb (a_key a) (a_key b).
Fixpoint slookup (a : akey) (m : list (akey * bytes)) : option bytes :=
  match m with
  | [] => None
  | (a', v) :: m' => if akey_eqb a a' then Some v else slookup a m'
  end.

(* the context of the reference map is a `base` whose b_sid holds the RAW session id *)
Record spec := mkSpec { sp_base : base; sp_map : list (akey * bytes) }.
Definition spec_init : spec := mkSpec new_base [].

Definition raw_session (b : base) (s : bytes) : base := mkBase (b_pfx b) s (b_lang b) (b_lock b) (b_seal b).

(* the language that applies: none for types that are not language-scoped or an empty code *)
Definition eff_lang (b : base) : option bytes :=
  if lang_type (b_pfx b) then
    match b_lang b with Some (c :: r) => Some (c :: r) | _ => None end
  else None.
Definition ctx_akey (b : base) (l : option bytes) (k : bytes) : akey :=
  mkAkey (b_pfx b) (if sessioned (b_pfx b) then Some (b_sid b) else None) l k.

Definition spec_get (sp : spec) (k : bytes) : dbres :=
  let b := sp_base sp in
  if b_pfx b =? DATATYPE_UNKNOWN then DErr EGen else
  match match eff_lang b with Some c => slookup (ctx_akey b (Some c) k) (sp_map sp) | None => None end with
  | Some v => DVal v
  | None => match slookup (ctx_akey b None k) (sp_map sp) with
            | Some v => DVal v
            | None => DErr ENotFound
            end
  end.

Definition spec_put (sp : spec) (k v : bytes) : spec * dbres :=
  let b := sp_base sp in
  if negb (check_put b) then (sp, DRefused)
  else if b_pfx b =? DATATYPE_UNKNOWN then (sp, DErr EGen)
  else (mkSpec b ((ctx_akey b (eff_lang b) k, v) :: sp_map sp), DOk).

(* listing by prefix: every key of the current (type, session) that a Get would find, once, with
   the value the Get returns, sorted by key *)
Definition same_space (b : base) (a : akey) : bool :=
  (a_typ a =? b_pfx b) && obytes_eqb (a_sess a) (if sessioned (b_pfx b) then Some (b_sid b) else None).
Definition spec_keys (sp : spec) (p : bytes) : list bytes :=
  map fst (asort (fold_right (fun (e : akey * bytes) acc =>
     if same_space (sp_base sp) (fst e) && is_prefix p (a_key (fst e))
     then aset (a_key (fst e)) tt acc else acc) [] (sp_map sp))).
Definition spec_listing (sp : spec) (p : bytes) : list (bytes * bytes) :=
  fold_right (fun k acc => match spec_get sp k with DVal v => (k, v) :: acc | _ => acc end) []
             (spec_keys sp p).
Definition spec_dump (sp : spec) (p : bytes) : dbres :=
  match spec_listing sp p with [] => DErr ENotFound | l => DDump l end.

Definition spec_step (sp : spec) (o : dbop) : spec * dbres :=
  let b := sp_base sp in
  match o with
  | OSetPrefix p => (mkSpec (set_prefix b p) (sp_map sp), DOk)
  | OSetSession s => (mkSpec (raw_session b s) (sp_map sp), DOk)
  | OSetLanguage l => (mkSpec (set_language b l) (sp_map sp), DOk)
  | OSetLock p lk => let '(b', ok) := set_lock b p lk in (mkSpec b' (sp_map sp), lock_res ok)
  | OPut k v => spec_put sp k v
  | OGet k => (sp, spec_get sp k)
  | ODump k => (sp, spec_dump sp k)
  | OPaths _ | ODecode _ => (sp, DSkip)
  end.
Fixpoint spec_run (sp : spec) (ops : list dbop) : spec * list dbres :=
  match ops with
  | [] => (sp, [])
  | o :: r => let '(sp', x) := spec_step sp o in
              let '(sp'', xs) := spec_run sp' r in (sp'', x :: xs)
  end.
Definition spec_results (ops : list dbop) : list dbres := snd (spec_run spec_init ops).

(* ---- guards on operations ------------------------------------------------------------------------ *)
(* the model context that corresponds to a reference context *)
Definition model_base (b : base) : base := mkBase (b_pfx b) (sid_enc (b_sid b)) (b_lang b) (b_lock b) (b_seal b).

(* mem / pg: the weakest guards under which the encoding is injective.
   b is the REFERENCE context (raw session id). *)
Definition key_ok (b : base) (k : bytes) : bool :=
  (if sessioned (b_pfx b) && is_nil (b_sid b) then dot_free k else true)
  && (if lang_type (b_pfx b) then no_lang_suffix (to_session_key (model_base b) (b_pfx b) k) else true).
Definition op_ok (b : base) (o : dbop) : bool :=
  match o with
  | OSetSession s => dot_free s
  | OSetLanguage (Some c) => len c =? 3
  | OPut k _ | OGet k => key_ok b k
  | ODump _ | OPaths _ | ODecode _ => false
  | _ => true
  end.
Fixpoint hist_ok (sp : spec) (ops : list dbop) : bool :=
  match ops with
  | [] => true
  | o :: r => op_ok (sp_base sp) o && hist_ok (fst (spec_step sp o)) r
  end.

(* fs: additionally the documented types only, names that are plain directory entries, and no
   legacy fallback name that could be another entry's name *)
Definition type_char (c : N) : bool :=
  existsb (fun t => c =? w8 (t + fs_type_offset))
    [DATATYPE_BIN; DATATYPE_MENU; DATATYPE_TEMPLATE; DATATYPE_STATICLOAD; DATATYPE_STATE; DATATYPE_USERDATA].
(* a plain directory entry: non-empty, no '/', no NUL, not "." or "..", at most 255 bytes *)
Definition name_plain (n : bytes) : bool :=
  negb (is_nil n) && slash_free n && negb (has_byte 0 n)
  && negb (bytes_eqb n [ch_dot]) && negb (bytes_eqb n [ch_dot; ch_dot]) && (len n <=? 255).
Definition no_legacy_clash (alt : bytes) : bool :=
  match alt with [] => false | c :: _ => negb (type_char c) end.
(* in binary mode: the base64 form of the key has no '/' *)
Definition b64_slash_free (k : bytes) : bool := slash_free (b64_enc k).

Definition fs_lk_ok (p : N) (lk : lookup_key) : bool :=
  let ok := fun sk => name_plain (fs_name sk) && name_plain (fs_alt_name p sk) && no_legacy_clash (fs_alt_name p sk) in
  ok (lk_default lk) && match lk_translation lk with Some t => ok t | None => true end.
Definition fs_key_ok (bin : bool) (b : base) (k : bytes) : bool :=
  match fs_to_key bin (model_base b) k with
  | Ok lk => fs_lk_ok (b_pfx b) lk
  | _ => true
  end.
Definition bytes_ok (l : bytes) : bool := forallb (fun x => x <? 256) l.
Definition fs_op_ok (bin : bool) (b : base) (o : dbop) : bool :=
  match o with
  | OSetPrefix p => documented_type p
  | OSetSession s => dot_free s
  | OSetLanguage (Some c) => len c =? 3
  | OPut k _ | OGet k =>
    (if bin then bytes_ok k else true) && key_ok b (if bin then b64_enc k else k) && fs_key_ok bin b k
  | ODump _ | OPaths _ | ODecode _ => false
  | _ => true
  end.
Fixpoint fs_hist_ok (bin : bool) (sp : spec) (ops : list dbop) : bool :=
  match ops with
  | [] => true
  | o :: r => fs_op_ok bin (sp_base sp) o && fs_hist_ok bin (fst (spec_step sp o)) r
  end.
Definition dir_ok (dir : list bytes) : bool :=
  forallb (fun c => (len c <=? 255) && negb (has_byte 0 c)) dir.
