(* DbKey.v — executable model of the key derivation and the sticky lookup context of db/db.go
   (ToDbKey, FromDbKey, ToSessionKey, FromSessionKey, ToKey, DecodeKey, SetPrefix, SetSession,
   SetLanguage, SetLock, CheckPut, Safe).  Definitions only.
   A *lang.Language is modelled by its Code: None = nil pointer, Some [] = a Language with an empty
   code.  The "Language" value of the context.Context (second source in ToKey) is not modelled:
   the harness always passes a context without it. *)
From Vise Require Import Bytes Errors Consts.
Local Open Scope N_scope.

Definition ch_dot : N := 46.
Definition ch_us : N := 95.
Definition ch_slash : N := 47.

Definition is_nil {A} (l : list A) : bool := match l with [] => true | _ => false end.
Definition has_byte (b : N) (l : bytes) : bool := existsb (N.eqb b) l.

(* DATATYPE_MENU|DATATYPE_TEMPLATE|DATATYPE_STATICLOAD *)
Definition lang_mask : N := N.lor (N.lor DATATYPE_MENU DATATYPE_TEMPLATE) DATATYPE_STATICLOAD.
(* typ&(MENU|TEMPLATE|STATICLOAD) > 0 *)
Definition lang_type (t : N) : bool := negb (N.land t lang_mask =? 0).
(* pfx > datatype_sessioned_threshold *)
Definition sessioned (t : N) : bool := sessioned_threshold <? t.

(* "_"+l.Code, appended iff l != nil && l.Code != "" && the type is language-scoped *)
Definition lang_suffix (t : N) (l : option bytes) : bytes :=
  match l with
  | Some (c :: code) => if lang_type t then ch_us :: c :: code else []
  | _ => []
  end.

(* ToDbKey *)
Definition to_db_key (t : N) (b : bytes) (l : option bytes) : bytes := t :: b ++ lang_suffix t l.

(* FromDbKey: strips a 4-byte "_xyz" tail from language-scoped keys longer than 6 bytes *)
Definition from_db_key (b : bytes) : outcome err bytes :=
  match b with
  | t :: ((_ :: _) as r) =>
    if lang_type t && (6 <? len r) && (nth (N.to_nat (len r - 4)) r 0 =? ch_us)
    then Ok (take (len r - 4) r) else Ok r
  | _ => Err EGen  (* len(b) < 2 *)
  end.

(* baseDb *)
Record base := mkBase {
  b_pfx : N;              (* uint8 *)
  b_sid : bytes;          (* session id with the trailing '.', or empty *)
  b_lang : option bytes;  (* *lang.Language, by code *)
  b_lock : N;             (* uint8 *)
  b_seal : bool
}.

(* NewDbBase: defaultLock on a zero value *)
Definition new_base : base := mkBase 0 [] None (N.lor 0 safe_lock) false.

Definition set_prefix (b : base) (p : N) : base := mkBase p (b_sid b) (b_lang b) (b_lock b) (b_seal b).
Definition set_language (b : base) (l : option bytes) : base := mkBase (b_pfx b) (b_sid b) l (b_lock b) (b_seal b).

(* SetSession: "" clears, otherwise id ++ "." *)
Definition sid_enc (s : bytes) : bytes := match s with [] => [] | _ => s ++ [ch_dot] end.
Definition set_session (b : base) (s : bytes) : base := mkBase (b_pfx b) (sid_enc s) (b_lang b) (b_lock b) (b_seal b).

(* SetLock on uint8 masks: lock |= pfx;  lock &= ^pfx  (^pfx = 255 - pfx on a uint8) *)
Definition set_lock (b : base) (p : N) (lk : bool) : base * bool :=
  if b_seal b then (b, false)
  else if p =? 0 then (mkBase (b_pfx b) (b_sid b) (b_lang b) (N.lor (b_lock b) safe_lock) true, true)
  else if lk then (mkBase (b_pfx b) (b_sid b) (b_lang b) (N.lor (b_lock b) p) false, true)
  else (mkBase (b_pfx b) (b_sid b) (b_lang b) (N.land (b_lock b) (255 - p mod 256)) false, true).

Definition check_put (b : base) : bool := N.land (b_pfx b) (b_lock b) =? 0.
Definition safe (b : base) : bool := N.land (b_lock b) safe_lock =? safe_lock.

(* ToSessionKey *)
Definition to_session_key (b : base) (p : N) (key : bytes) : bytes :=
  if sessioned p then b_sid b ++ key else key.

(* FromSessionKey *)
Definition from_session_key (b : base) (key : bytes) : outcome err bytes :=
  match b_sid b with
  | [] => Ok key
  | sid => if is_prefix sid key then Ok (drop (len sid) key) else Err EGen
  end.

Record lookup_key := mkLk { lk_default : bytes; lk_translation : option bytes }.

(* ToKey *)
Definition to_key (b : base) (key : bytes) : outcome err lookup_key :=
  if b_pfx b =? DATATYPE_UNKNOWN then Err EGen else
  let sk := to_session_key b (b_pfx b) key in
  Ok (mkLk (to_db_key (b_pfx b) sk None)
           (if lang_type (b_pfx b) then
              match b_lang b with Some c => Some (to_db_key (b_pfx b) sk (Some c)) | None => None end
            else None)).

(* DecodeKey *)
Definition decode_key (b : base) (key : bytes) : outcome err bytes :=
  obind (from_db_key key) (from_session_key b).

(* the storage key of (type, raw session id, language, key) — what ToKey computes once the
   context has been set with SetPrefix/SetSession/SetLanguage *)
Definition skey (t : N) (s : bytes) (l : option bytes) (k : bytes) : bytes :=
  to_db_key t (if sessioned t then sid_enc s ++ k else k) l.

(* ---- well-formedness guards (decidable) ---------------------------------------------- *)
Definition dot_free (l : bytes) : bool := negb (has_byte ch_dot l).
Definition slash_free (l : bytes) : bool := negb (has_byte ch_slash l).
(* the strongest guard under which session prefixing is injective *)
Definition wf_sid (s : bytes) : bool := negb (is_nil s) && dot_free s.

(* does not end in "_" + three bytes (what FromDbKey and ToDbKey take for a language suffix) *)
Definition no_lang_suffix (k : bytes) : bool :=
  negb ((4 <=? len k) && (nth (N.to_nat (len k - 4)) k 0 =? ch_us)).

Definition is_alnum (c : N) : bool :=
  ((48 <=? c) && (c <=? 57)) || ((65 <=? c) && (c <=? 90)) || ((97 <=? c) && (c <=? 122)).
(* vm/input.go symRegex: ^[a-zA-Z0-9][a-zA-Z0-9_]+$ *)
Definition sym_grammar (k : bytes) : bool :=
  match k with
  | c :: ((_ :: _) as r) => is_alnum c && forallb (fun x => is_alnum x || (x =? ch_us)) r
  | _ => false
  end.
Definition wf_key (k : bytes) : bool := sym_grammar k && no_lang_suffix k.

Definition is_lower (c : N) : bool := (97 <=? c) && (c <=? 122).
(* ISO 639-3 codes as produced by lang.LanguageFromCode: three lower-case letters *)
Definition wf_lang (c : bytes) : bool := (len c =? 3) && forallb is_lower c.

Definition documented_type (t : N) : bool :=
  (t =? DATATYPE_BIN) || (t =? DATATYPE_MENU) || (t =? DATATYPE_TEMPLATE)
  || (t =? DATATYPE_STATICLOAD) || (t =? DATATYPE_STATE) || (t =? DATATYPE_USERDATA).
