(* ResModel.v — executable model of resource/db.go (DbResource: DbGetTemplate, DbGetMenu, DbGetCode
   and the STATICLOAD fallback of DbFuncFor) over the memory backend of DbModel.v, and the store the
   engine harness builds from an application (go/cmd/vh/engine.go buildResource).  Definitions only.

   The handle's own language is nil in this use; db.ToKey then takes the language from the
   context (ctx.Value("Language")).  ctx_base puts that choice into the model context: the handle's
   language if it has one, else the context's — exactly the `if db.lang != nil … else ctx` of ToKey. *)
From Vise Require Import Bytes Errors Consts VmModel DbKey DbModel.
Local Open Scope N_scope.

Notation res := (outcome err) (only parsing).

(* the language ToKey uses: the handle's, else the context's *)
Definition ctx_base (b : base) (cl : option bytes) : base :=
  match b_lang b with Some _ => b | None => set_language b cl end.

(* DbResource.fn: mustSafe (panics on an unsafe store), then Get *)
Definition res_fn (st : dbstate) (cl : option bytes) (key : bytes) : res bytes :=
  if negb (safe (d_base st)) then Panic 30 else
  match kv_get hex_enc (with_base st (ctx_base (d_base st) cl)) key with
  | DVal v => Ok v
  | DErr e => Err e
  | _ => Err EGen
  end.

(* NewDbResource: typs = TEMPLATE | MENU | BIN *)
Definition res_default_typs : N := N.lor (N.lor DATATYPE_TEMPLATE DATATYPE_MENU) DATATYPE_BIN.

Definition res_prefix (st : dbstate) (t : N) : dbstate := with_base st (set_prefix (d_base st) t).

(* DbGetTemplate *)
Definition db_get_template (st : dbstate) (typs : N) (cl : option bytes) (sym : bytes) : dbstate * res bytes :=
  if N.land typs DATATYPE_TEMPLATE =? 0 then (st, Err EGen) else
  let st' := res_prefix st DATATYPE_TEMPLATE in (st', res_fn st' cl sym).

(* DbGetMenu: key sym+"_menu"; not found => the symbol itself; any other error => "" and nil *)
Definition db_get_menu (st : dbstate) (typs : N) (cl : option bytes) (sym : bytes) : dbstate * res bytes :=
  if N.land typs DATATYPE_MENU =? 0 then (st, Err EGen) else
  let st' := res_prefix st DATATYPE_MENU in
  (st', match res_fn st' cl (sym ++ menu_suffix) with
        | Ok v => Ok v
        | Err ENotFound => Ok sym
        | Err _ => Ok []
        | Panic s => Panic s
        end).

(* DbGetCode (BIN is not language-scoped: ToKey ignores the language) *)
Definition db_get_code (st : dbstate) (typs : N) (cl : option bytes) (sym : bytes) : dbstate * res bytes :=
  if N.land typs DATATYPE_BIN =? 0 then (st, Err EGen) else
  let st' := res_prefix st DATATYPE_BIN in (st', res_fn st' cl sym).

(* DbFuncFor after FallbackFunc found no local function: the STATICLOAD lookup, with the ".txt"
   retry on not-found (content only; the returned closure is not modelled) *)
Definition db_staticload (st : dbstate) (typs : N) (cl : option bytes) (sym : bytes) : dbstate * res bytes :=
  if N.land typs DATATYPE_STATICLOAD =? 0 then (st, Err EGen) (* "not a staticload getter" *) else
  let st' := res_prefix st DATATYPE_STATICLOAD in
  (st', match res_fn st' cl sym with
        | Err ENotFound => res_fn st' cl (sym ++ s2b ".txt")
        | r => r
        end).

(* ---- the store buildResource loads ---------------------------------------------------------------- *)
Definition unlock4 : list dbop :=
  [OSetLock DATATYPE_BIN false; OSetLock DATATYPE_TEMPLATE false; OSetLock DATATYPE_MENU false;
   OSetLock DATATYPE_STATICLOAD false].
Definition put_op (kv : bytes * bytes) : dbop := OPut (fst kv) (snd kv).

(* Put under BIN / TEMPLATE / MENU with the raw table keys (sym, sym_lang, title_menu,
   title_menu_lang), then SetLock(0, true) *)
Definition load_ops (a : app) : list dbop :=
  unlock4
  ++ OSetPrefix DATATYPE_BIN :: map put_op (a_code a)
  ++ OSetPrefix DATATYPE_TEMPLATE :: map put_op (a_tpl a)
  ++ OSetPrefix DATATYPE_MENU :: map put_op (a_menu a)
  ++ [OSetLock 0 true].
Definition load_app (a : app) : dbstate := fst (db_run BMem (db_init []) (load_ops a)).

(* ---- the same store, written through the language-scoped API ---------------------------------------- *)
(* a raw table key read as (symbol, language): "sym_xyz" = symbol sym in language xyz *)
Definition split_key (k : bytes) : bytes * option bytes :=
  if (4 <=? len k) && (nth (N.to_nat (len k - 4)) k 0 =? ch_us)
  then (take (len k - 4) k, Some (drop (len k - 3) k))
  else (k, None).
Definition put_tr (kv : bytes * bytes) : list dbop :=
  [OSetLanguage (snd (split_key (fst kv))); OPut (fst (split_key (fst kv))) (snd kv)].
Definition load_ops_tr (a : app) : list dbop :=
  unlock4
  ++ OSetPrefix DATATYPE_BIN :: map put_op (a_code a)
  ++ OSetPrefix DATATYPE_TEMPLATE :: flat_map put_tr (a_tpl a)
  ++ OSetPrefix DATATYPE_MENU :: flat_map put_tr (a_menu a)
  ++ [OSetLanguage None; OSetLock 0 true].

(* one resource lookup as a history on the handle *)
Definition lookup_hist (a : app) (t : N) (lang : option bytes) (key : bytes) : list dbop :=
  load_ops_tr a ++ [OSetPrefix t; OSetLanguage lang; OGet key].

Definition res_of (r : dbres) : res bytes :=
  match r with DVal v => Ok v | DErr e => Err e | _ => Err EGen end.

(* ---- guards ------------------------------------------------------------------------------------------- *)
Fixpoint nodup_keys (l : list bytes) : bool :=
  match l with [] => true | x :: r => negb (mem_bytes x r) && nodup_keys r end.
(* no table holds a key twice (the tables are association lists read first-match, the store keeps
   the last write) *)
Definition wf_res_keys (a : app) : bool :=
  nodup_keys (map fst (a_code a)) && nodup_keys (map fst (a_tpl a)) && nodup_keys (map fst (a_menu a)).
(* a language of the engine: a code of three bytes *)
Definition res_lang_ok (l : option bytes) : bool := match l with Some c => len c =? 3 | None => true end.
