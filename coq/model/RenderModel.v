(* RenderModel.v — executable model of render/page.go, render/size.go, render/menu.go as they
   are NOW in /repo (GetAt has its bounds check, Sizer.Reset clears the sink).  Definitions only.

   render/split.go (bookmark/paginate/explode) is dead code for the engine: its functions are
   private and referenced only from split.go itself and split_test.go.  Not modelled.
   Page.Usage, Page.Val and Page.Sizes are not called by vm/ or engine/.  Not modelled.

   State-passing records mirror the Go objects one to one.  In Go, Vm.mn and Page.menu are the
   same pointer and so are Vm.sizer and Page.sizer: the page record OWNS the menu and the sizer.
   Every Go method that mutates its receiver returns the new record; where Go mutates and THEN
   fails, the model returns the mutated record together with the error (`res X * state`).

   Go maps are association lists.  Iteration order of a Go map is random; the two loops whose
   RESULT depends on it are Page.split (which zero-size symbol becomes "the" sink when there are
   several) and nothing else (GetAt touches only the one key equal to the sizer's sink name; all
   errors have class EGen).  The model iterates in list order (left to right, last zero-size key
   wins, as Go does for that order) and is order-independent under the guard
   `single_sink` = "at most one key of the map has reserved size 0" — which Page.Map enforces
   for maps built through it, and which the driver monitors.

   Templates: Go text/template restricted to literal text and {{.name}} placeholders
   (name = [A-Za-z_][A-Za-z0-9_] repeated), option missingkey=error.  Everything else containing "{{"
   is outside the fragment: tpl_parse returns None and the model answers Err EGen. *)
From Vise Require Import Bytes Errors CacheModel.
Local Open Scope N_scope.

Notation alist := (list (list N * list N)) (only parsing).

(* ================================================================== templates ===== *)
Inductive tpl_item : Type :=
| TLit (b : bytes)
| TVar (name : bytes).

Definition is_alpha_ (c : N) : bool :=
  ((65 <=? c) && (c <=? 90)) || ((97 <=? c) && (c <=? 122)) || (c =? 95).
Definition is_alnum_ (c : N) : bool := is_alpha_ c || ((48 <=? c) && (c <=? 57)).

Inductive tmode : Set := MText | MBrace | MDot | MName0 | MName | MClose.

Definition flush_lit (lit : bytes) (k : list tpl_item) : list tpl_item :=
  match lit with [] => k | _ => TLit (rev lit) :: k end.

(* lit and name are reversed accumulators.  123 = "{", 125 = "}", 46 = "." *)
Fixpoint tpl_scan (m : tmode) (lit name : bytes) (l : bytes) : option (list tpl_item) :=
  match l with
  | [] =>
    match m with
    | MText => Some (flush_lit lit [])
    | MBrace => Some (flush_lit (123 :: lit) [])
    | _ => None
    end
  | x :: r =>
    match m with
    | MText => if x =? 123 then tpl_scan MBrace lit [] r else tpl_scan MText (x :: lit) [] r
    | MBrace =>
      if x =? 123 then
        match tpl_scan MDot [] [] r with Some k => Some (flush_lit lit k) | None => None end
      else tpl_scan MText (x :: 123 :: lit) [] r
    | MDot => if x =? 46 then tpl_scan MName0 [] [] r else None
    | MName0 => if is_alpha_ x then tpl_scan MName [] [x] r else None
    | MName =>
      if is_alnum_ x then tpl_scan MName [] (x :: name) r
      else if x =? 125 then tpl_scan MClose [] name r else None
    | MClose =>
      if x =? 125 then
        match tpl_scan MText [] [] r with Some k => Some (TVar (rev name) :: k) | None => None end
      else None
    end
  end.

Definition tpl_parse (src : bytes) : option (list tpl_item) := tpl_scan MText [] [] src.

(* Execute with missingkey=error *)
Fixpoint tpl_exec (items : list tpl_item) (vals : alist) : res bytes :=
  match items with
  | [] => Ok []
  | TLit b :: r => obind (tpl_exec r vals) (fun s => Ok (b ++ s))
  | TVar n :: r =>
    match alookup n vals with
    | Some v => obind (tpl_exec r vals) (fun s => Ok (v ++ s))
    | None => Err EGen
    end
  end.

(* ======================================================================= menu ===== *)
Record browse := mkBrowse {
  b_next_avail : bool; b_next_sel : bytes; b_next_title : bytes;
  b_prev_avail : bool; b_prev_sel : bytes; b_prev_title : bytes }.

Record menu := mkMenu {
  m_items : list (bytes * bytes); (* selector, title *)
  m_browse : browse;
  m_page_count : N;               (* uint16 *)
  m_can_next : bool;
  m_can_prev : bool;
  m_sink : bool;
  m_keep : bool;
  m_sep : bytes;
  m_has_rs : bool                 (* m.rs != nil *)
}.

(* NewMenu does NOT install DefaultBrowseConfig: the zero value *)
Definition browse_zero : browse := mkBrowse false [] [] false [] [].

Definition set_items (m : menu) (x : list (bytes * bytes)) : menu :=
  mkMenu x (m_browse m) (m_page_count m) (m_can_next m) (m_can_prev m) (m_sink m) (m_keep m) (m_sep m) (m_has_rs m).
Definition set_can (m : menu) (cn cp : bool) : menu :=
  mkMenu (m_items m) (m_browse m) (m_page_count m) cn cp (m_sink m) (m_keep m) (m_sep m) (m_has_rs m).

(* NewMenu() followed by WithSeparator(sep); the caller passes ":" for the default *)
Definition new_menu (sep : bytes) : menu := mkMenu [] browse_zero 0 false false false true sep false.
Definition default_sep : bytes := [58].

Definition menu_put (m : menu) (sel title : bytes) : menu := set_items m (m_items m ++ [(sel, title)]).
Definition menu_with_sink (m : menu) : menu :=
  mkMenu (m_items m) (m_browse m) (m_page_count m) (m_can_next m) (m_can_prev m) true (m_keep m) (m_sep m) (m_has_rs m).
Definition menu_with_page_count (m : menu) (n : N) : menu :=
  mkMenu (m_items m) (m_browse m) n (m_can_next m) (m_can_prev m) (m_sink m) (m_keep m) (m_sep m) (m_has_rs m).
Definition menu_with_pages (m : menu) : menu :=
  if m_page_count m =? 0 then menu_with_page_count m 1 else m.
Definition menu_with_browse (m : menu) (b : browse) : menu :=
  mkMenu (m_items m) b (m_page_count m) (m_can_next m) (m_can_prev m) (m_sink m) (m_keep m) (m_sep m) (m_has_rs m).
Definition menu_with_dispose (m : menu) : menu :=
  mkMenu (m_items m) (m_browse m) (m_page_count m) (m_can_next m) (m_can_prev m) (m_sink m) false (m_sep m) (m_has_rs m).
Definition menu_with_resource (m : menu) : menu :=
  mkMenu (m_items m) (m_browse m) (m_page_count m) (m_can_next m) (m_can_prev m) (m_sink m) (m_keep m) (m_sep m) true.

(* Menu.reset (private): only ever sets the flags to true *)
Definition menu_reset_flags (m : menu) : menu :=
  set_can m (if b_next_avail (m_browse m) then true else m_can_next m)
            (if b_prev_avail (m_browse m) then true else m_can_prev m).

(* Menu.Reset: items, sink, browse configuration and marks cleared, keep restored, page count
   zeroed; the separator (and the resource) stay *)
Definition menu_reset (m : menu) : menu :=
  mkMenu [] browse_zero 0 false false false true (m_sep m) (m_has_rs m).

(* applyPage *)
Definition menu_apply_page (m : menu) (idx : N) : res menu :=
  if m_page_count m =? 0 then (if 0 <? idx then Err EGen else Ok m)
  else if m_page_count m <=? idx then Err EBrowse
  else
    let m1 := menu_reset_flags m in
    let cn := if idx =? m_page_count m - 1 then false else m_can_next m1 in
    let cp := if idx =? 0 then false else m_can_prev m1 in
    let b := m_browse m in
    Ok (set_items (set_can m1 cn cp)
          (m_items m ++ (if cn then [(b_next_sel b, b_next_title b)] else [])
                     ++ (if cp then [(b_prev_sel b, b_prev_title b)] else []))).

(* the shift loop of Menu.Render: returns what is left of the menu when a title lookup fails *)
Fixpoint menu_loop (title_for : bytes -> res bytes) (sep : bytes) (items : list (bytes * bytes)) (r : bytes)
  : res bytes * list (bytes * bytes) :=
  match items with
  | [] => (Ok r, [])
  | (sel, title) :: rest =>
    match title_for title with
    | Ok t => menu_loop title_for sep rest (r ++ (if 0 <? len r then [nl] else []) ++ sel ++ sep ++ t)
    | Err e => (Err e, rest)
    | Panic s => (Panic s, rest)
    end
  end.

(* Menu.Render, always returning the menu as Go leaves it *)
Definition menu_render_st (get_menu : bytes -> res bytes) (m : menu) (idx : N) : res bytes * menu :=
  let copy := m_items m in
  match menu_apply_page m idx with
  | Err e => (Err e, m)
  | Panic s => (Panic s, m)
  | Ok m1 =>
    let title_for := if m_has_rs m1 then get_menu else (fun t => Ok t) in
    match menu_loop title_for (m_sep m1) (m_items m1) [] with
    | (Ok r, rest) => (Ok r, set_items m1 (if m_keep m1 then copy else rest))
    | (Err e, rest) => (Err e, set_items m1 rest)
    | (Panic s, rest) => (Panic s, set_items m1 rest)
    end
  end.

Definition menu_render (get_menu : bytes -> res bytes) (m : menu) (idx : N) : res (bytes * menu) :=
  match menu_render_st get_menu m idx with
  | (Ok s, m') => Ok (s, m')
  | (Err e, _) => Err e
  | (Panic s, _) => Panic s
  end.

Notation msizes := (N * N * N * N)%type (only parsing).
Definition ms_main (s : msizes) : N := let '(a, _, _, _) := s in a.
Definition ms_next (s : msizes) : N := let '(_, b, _, _) := s in b.
Definition ms_prev (s : msizes) : N := let '(_, _, c, _) := s in c.
Definition ms_zero : msizes := (0, 0, 0, 0).

(* Menu.Sizes: a FRESH menu (no resource, default separator ":") with the browse config *)
Definition menu_sizes (m : menu) : res msizes :=
  let t0 := menu_with_browse (new_menu default_sep) (m_browse m) in
  match menu_render_st (fun t => Ok t) t0 0 with
  | (Ok v0, t1) =>
    let s0 := w32 (len v0) in
    let t2 := menu_with_page_count t1 2 in
    match menu_render_st (fun t => Ok t) t2 0 with
    | (Ok v1, t3) =>
      let s1 := sub32 (w32 (len v1)) s0 in
      match menu_render_st (fun t => Ok t) t3 1 with
      | (Ok v2, _) =>
        let s2 := sub32 (w32 (len v2)) s0 in
        Ok (s0, s1, s2, w32 (s1 + s2))
      | (Err e, _) => Err e | (Panic s, _) => Panic s
      end
    | (Err e, _) => Err e | (Panic s, _) => Panic s
    end
  | (Err e, _) => Err e | (Panic s, _) => Panic s
  end.

(* ====================================================================== sizer ===== *)
Record sizer := mkSizer {
  z_out : N;                      (* outputSize, uint32; 0 = unlimited *)
  z_members : list (bytes * N);   (* memberSizes *)
  z_total : N;                    (* totalMemberSize, uint32 *)
  z_crsrs : list N;               (* crsrs *)
  z_sink : bytes                  (* sink symbol, "" = none *)
}.

Definition new_sizer (out : N) : sizer := mkSizer out [] 0 [] [].

Definition sizer_set (z : sizer) (key : bytes) (size : N) : sizer :=
  mkSizer (z_out z) (aset key size (z_members z)) (w32 (z_total z + size)) (z_crsrs z)
          (if size =? 0 then key else z_sink z).

(* Check: (remaining, ok).  With outputSize 0 the "remaining" is the length itself. *)
Definition sizer_check (z : sizer) (s : bytes) : N * bool :=
  let l := w32 (len s) in
  if 0 <? z_out z then
    if z_out z <? l then (0, false) else (z_out z - l, true)
  else (l, true).

Definition sizer_add_cursor (z : sizer) (c : N) : sizer :=
  mkSizer (z_out z) (z_members z) (z_total z) (z_crsrs z ++ [c]) (z_sink z).
Definition sizer_set_crsrs (z : sizer) (cs : list N) : sizer :=
  mkSizer (z_out z) (z_members z) (z_total z) cs (z_sink z).
Definition sizer_set_sink (z : sizer) (s : bytes) : sizer :=
  mkSizer (z_out z) (z_members z) (z_total z) (z_crsrs z) s.

Definition nul_to_lf (v : bytes) : bytes := map (fun x => if x =? 0 then nl else x) v.

(* the sink branch of GetAt: the rows of page idx inside the flattened sink string v *)
Definition sink_page (v : bytes) (crs : list N) (idx : N) : res bytes :=
  if w16 (len crs) <=? idx then Err EGen else
  match nth_error crs (N.to_nat idx) with
  | None => Panic 30 (* crsrs[idx]; unreachable: idx < uint16(len) <= len *)
  | Some c =>
    if w32 (len v) <? c then Err EGen else
    let v1 := drop c v in
    let v2 := match index_of nl v1 with
              | Some i => if 0 <? i then take i v1 else v1
              | None => v1
              end in
    Ok (nul_to_lf v2)
  end.

Fixpoint get_at_loop (sink : bytes) (crs : list N) (idx : N) (vals : alist) : res alist :=
  match vals with
  | [] => Ok []
  | (k, v) :: r =>
    if bytes_eqb sink k then
      obind (sink_page v crs idx) (fun v' => obind (get_at_loop sink crs idx r) (fun r' => Ok ((k, v') :: r')))
    else obind (get_at_loop sink crs idx r) (fun r' => Ok ((k, v) :: r'))
  end.

(* GetAt *)
Definition sizer_get_at (z : sizer) (vals : alist) (idx : N) : res alist :=
  match z_sink z with
  | [] => Ok vals
  | _ => get_at_loop (z_sink z) (z_crsrs z) idx vals
  end.

(* Reset: memberSizes and totalMemberSize are NOT cleared *)
Definition sizer_reset (z : sizer) : sizer := mkSizer (z_out z) (z_members z) (z_total z) [] [].

(* ======================================================================= page ===== *)
Record page := mkPage {
  p_map : list (bytes * bytes);   (* cacheMap *)
  p_sink : option bytes;
  p_menu : option menu;
  p_sizer : option sizer;
  p_err : option bytes;           (* the error's message text *)
  p_extra : bytes
}.

Definition new_page : page := mkPage [] None None None None [].
Definition page_set_map (pg : page) (m : alist) : page :=
  mkPage m (p_sink pg) (p_menu pg) (p_sizer pg) (p_err pg) (p_extra pg).
Definition page_set_menu (pg : page) (m : option menu) : page :=
  mkPage (p_map pg) (p_sink pg) m (p_sizer pg) (p_err pg) (p_extra pg).
Definition page_set_sizer (pg : page) (z : option sizer) : page :=
  mkPage (p_map pg) (p_sink pg) (p_menu pg) z (p_err pg) (p_extra pg).
Definition page_set_extra (pg : page) (x : bytes) : page :=
  mkPage (p_map pg) (p_sink pg) (p_menu pg) (p_sizer pg) (p_err pg) x.

Definition page_with_menu (pg : page) (m : menu) : page := page_set_menu pg (Some (menu_with_resource m)).
Definition page_with_sizer (pg : page) (z : sizer) : page := page_set_sizer pg (Some z).
Definition page_with_error (pg : page) (e : option bytes) : page :=
  mkPage (p_map pg) (p_sink pg) (p_menu pg) (p_sizer pg) e (p_extra pg).

(* Reset: the error is NOT cleared here *)
Definition page_reset (pg : page) : page :=
  mkPage [] None (option_map menu_reset (p_menu pg)) (option_map sizer_reset (p_sizer pg)) (p_err pg) [].

(* Map *)
Definition page_map (c : cache) (pg : page) (key : bytes) : res page :=
  obind (cache_get c key) (fun v =>
  obind (cache_reserved c key) (fun l =>
    let conflict := if l =? 0 then match p_sink pg with Some s => negb (bytes_eqb s key) | None => false end
                    else false in
    if conflict then Err EGen else
    Ok (mkPage (aset key v (p_map pg))
               (if l =? 0 then Some key else p_sink pg)
               (p_menu pg)
               (option_map (fun z => sizer_set z key l) (p_sizer pg))
               (p_err pg) (p_extra pg)))).

(* split: returns (noSinkValues, sink, sinkValues).  When no sink is found ("" counts as
   none) Go returns the map it was given — the caller then writes into the cacheMap itself. *)
Fixpoint page_split_loop (c : cache) (vals acc : alist) (sink : bytes) (svs : list bytes)
  : res (alist * bytes * list bytes) :=
  match vals with
  | [] => Ok (acc, sink, svs)
  | (k, v) :: r =>
    match cache_reserved c k with
    | Ok sz =>
      if sz =? 0 then page_split_loop c r (acc ++ [(k, [])]) k (split_on nl v)
      else page_split_loop c r (acc ++ [(k, v)]) sink svs
    | Err e => Err e
    | Panic s => Panic s
    end
  end.

Definition page_split (c : cache) (vals : alist) : res (alist * bytes * list bytes) :=
  match page_split_loop c vals [] [] [] with
  | Ok (nsv, sink, svs) =>
    match sink with
    | [] => Ok (vals, [], [])
    | _ => Ok (nsv, sink, svs)
    end
  | Err e => Err e
  | Panic s => Panic s
  end.

(* joinSink.  State of the loop. *)
Record jstate := mkJ {
  j_tb : bytes; j_rb : bytes; j_l : N (* int *); j_count : N (* uint16 *);
  j_net : N (* uint32 *); j_crs : list N }.

(* one iteration; None = "capacity insufficient for sink field" *)
Definition js_step (prevsz : N) (s : jstate) (v : bytes) : option jstate :=
  let l1 := j_l s + len v in
  if sub32 (j_net s) 1 <? w32 l1 then
    if len (j_tb s) =? 0 then None else
    let rb' := j_rb s ++ j_tb s ++ [nl] in
    let net' := if j_count s =? 0 then sub32 (j_net s) (w32 (prevsz + 1)) else j_net s in
    (* tb.Reset(); l = len(v); then "if tb.Len() > 0" is false; tb.WriteString(v) *)
    Some (mkJ v rb' (len v) (w16 (j_count s + 1)) net' (j_crs s ++ [w32 (len rb')]))
  else
    if 0 <? len (j_tb s) then
      Some (mkJ (j_tb s ++ [0] ++ v) (j_rb s) (l1 + 1) (j_count s) (j_net s) (j_crs s))
    else
      Some (mkJ (j_tb s ++ v) (j_rb s) l1 (j_count s) (j_net s) (j_crs s)).

Fixpoint js_loop (prevsz : N) (s : jstate) (vs : list bytes) : bool * jstate :=
  match vs with
  | [] => (true, s)
  | v :: r =>
    match js_step prevsz s v with
    | Some s' => js_loop prevsz s' r
    | None => (false, s)
    end
  end.

(* strings.TrimRight(r, "\n") *)
Fixpoint trim_lf_rev (r : bytes) : bytes :=
  match r with
  | x :: t => if x =? nl then trim_lf_rev t else r
  | [] => []
  end.
Definition trim_right_lf (b : bytes) : bytes := rev (trim_lf_rev (rev b)).

Definition js_init (vs : list bytes) (remaining : N) (ms : msizes) (crs : list N) : jstate :=
  let n0 := sub32 remaining 1 in
  let n1 := if 1 <? len vs then sub32 n0 (w32 (ms_next ms + 1)) else n0 in
  mkJ [] [] 0 0 n1 crs.

(* joinSink: cursors are appended to the sizer as the loop goes, so they are returned even
   when the function fails *)
Definition join_sink (vs : list bytes) (remaining : N) (ms : msizes) (crs : list N)
  : res (bytes * N) * list N :=
  match js_loop (ms_prev ms) (js_init vs remaining ms crs) vs with
  | (true, s) =>
    let rb' := if 0 <? len (j_tb s) then j_rb s ++ j_tb s else j_rb s in
    let cnt := if 0 <? len (j_tb s) then w16 (j_count s + 1) else j_count s in
    (Ok (trim_right_lf rb', cnt), j_crs s)
  | (false, s) => (Err EGen, j_crs s)
  end.

(* text of the template as RenderTemplate assembles it: source ++ extra, error prefix in front *)
Definition tpl_source (err : option bytes) (extra src : bytes) : bytes :=
  let t := src ++ extra in
  match err with
  | Some d => if len t =? 0 then d else d ++ [nl] ++ t
  | None => t
  end.

(* RenderTemplate (no mutation: GetAt builds a new map) *)
Definition render_template (get_template : bytes -> res bytes) (pg : page) (sym : bytes) (vals : alist) (idx : N)
  : res bytes :=
  obind (get_template sym) (fun src =>
    let t := tpl_source (p_err pg) (p_extra pg) src in
    obind (match p_sizer pg with
           | Some z => sizer_get_at z vals idx
           | None => if 0 <? idx then Err EGen else Ok vals
           end) (fun vals' =>
      match tpl_parse t with
      | None => Err EGen
      | Some items => tpl_exec items vals'
      end)).

Definition menu_sink_key : bytes := [95; 109; 101; 110; 117].                               (* "_menu" *)
Definition menu_sink_extra : bytes := [10; 123; 123; 46; 95; 109; 101; 110; 117; 125; 125]. (* "\n{{._menu}}" *)

(* Page.render (private): template, menu, final size check.  The menu is mutated. *)
Definition page_render_inner (get_template get_menu : bytes -> res bytes) (pg : page) (sym : bytes)
  (vals : alist) (idx : N) : res bytes * page :=
  match render_template get_template pg sym vals idx with
  | Err e => (Err e, pg)
  | Panic s => (Panic s, pg)
  | Ok s =>
    let '(r, pg1) :=
      match p_menu pg with
      | None => (Ok s, pg)
      | Some m =>
        match menu_render_st get_menu m idx with
        | (Ok ms, m') => (Ok (s ++ (if 0 <? len ms then nl :: ms else [])), page_set_menu pg (Some m'))
        | (Err e, m') => (Err e, page_set_menu pg (Some m'))
        | (Panic p, m') => (Panic p, page_set_menu pg (Some m'))
        end
      end in
    match r with
    | Ok out =>
      match p_sizer pg1 with
      | Some z => if snd (sizer_check z out) then (Ok out, pg1) else (Err EGen, pg1)
      | None => (Ok out, pg1)
      end
    | _ => (r, pg1)
    end
  end.

(* writes into the value map handed to prepare; `aliased` = that map IS pg.cacheMap
   (exactly when split found no sink, which includes the menu-sink path) *)
Definition prep_write (aliased : bool) (pg : page) (vals : alist) (k v : bytes) : alist * page :=
  let vals' := aset k v vals in
  (vals', if aliased then page_set_map pg vals' else pg).

(* Page.prepare: returns the value map for the final render *)
Definition page_prepare (c : cache) (get_template get_menu : bytes -> res bytes) (pg : page) (sym : bytes) (idx : N)
  : res alist * page :=
  match p_sizer pg with
  | None => (Ok (p_map pg), pg)
  | Some _ =>
    match page_split c (p_map pg) with
    | Err e => (Err e, pg)
    | Panic s => (Panic s, pg)
    | Ok (nsv0, sink0, svs0) =>
      let aliased := match sink0 with [] => true | _ => false end in
      (* menu as sink *)
      let step1 : res (alist * bytes * list bytes) * page :=
        match p_menu pg with
        | Some m =>
          if m_sink m then
            if negb aliased then (Err EGen, pg)
            else
              let m1 := menu_with_pages (menu_with_dispose m) in
              match menu_render_st get_menu m1 0 with
              | (Ok s, m2) =>
                let pg1 := page_set_extra (page_set_menu pg (Some m2)) menu_sink_extra in
                let pg2 := page_set_sizer pg1 (option_map (fun z => sizer_set_sink z menu_sink_key) (p_sizer pg1)) in
                let '(nsv1, pg3) := prep_write aliased pg2 nsv0 menu_sink_key [] in
                (Ok (nsv1, menu_sink_key, split_on nl s), pg3)
              | (Err e, m2) => (Err e, page_set_menu pg (Some m2))
              | (Panic p, m2) => (Panic p, page_set_menu pg (Some m2))
              end
          else (Ok (nsv0, sink0, svs0), pg)
        | None => (Ok (nsv0, sink0, svs0), pg)
        end in
      match step1 with
      | (Err e, pg') => (Err e, pg')
      | (Panic s, pg') => (Panic s, pg')
      | (Ok (nsv, sink, svs), pg1) =>
        (* pg.sizer.AddCursor(0); pre-render without sink *)
        let pg2 := page_set_sizer pg1 (option_map (fun z => sizer_add_cursor z 0) (p_sizer pg1)) in
        match page_render_inner get_template get_menu pg2 sym nsv 0 with
        | (Err e, pg3) => (Err e, pg3)
        | (Panic s, pg3) => (Panic s, pg3)
        | (Ok s, pg3) =>
          match p_sizer pg3 with
          | None => (Panic 31, pg3) (* unreachable: the sizer is present on this path *)
          | Some z =>
            let '(remaining, ok) := sizer_check z s in
            if negb ok then (Err EGen, pg3) else
            match (match p_menu pg3 with Some m => menu_sizes m | None => Ok ms_zero end) with
            | Err e => (Err e, pg3)
            | Panic p => (Panic p, pg3)
            | Ok ms =>
              let '(jr, crs') := join_sink svs remaining ms (z_crsrs z) in
              let pg4 := page_set_sizer pg3 (Some (sizer_set_crsrs z crs')) in
              match jr with
              | Err e => (Err e, pg4)
              | Panic p => (Panic p, pg4)
              | Ok (sink_string, count) =>
                let '(nsv', pg5) := prep_write aliased pg4 nsv sink sink_string in
                let pg6 := page_set_menu pg5 (option_map (fun m => menu_with_page_count m count) (p_menu pg5)) in
                (Ok nsv', pg6)
              end
            end
          end
        end
      end
    end
  end.

(* Page.Render *)
Definition page_render (c : cache) (get_template get_menu : bytes -> res bytes) (pg : page) (sym : bytes) (idx : N)
  : res bytes * page :=
  match page_prepare c get_template get_menu pg sym idx with
  | (Err e, pg') => (Err e, pg')
  | (Panic s, pg') => (Panic s, pg')
  | (Ok vals, pg') => page_render_inner get_template get_menu pg' sym vals idx
  end.
