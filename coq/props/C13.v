(* C13 — A storage error on Postgres never wedges the store or loses acknowledged writes.

   Model: model/PgTx.v (pg.go over an abstract transactional store; every primitive driver call
   consumes one bit of a fault oracle).  pg_checks c init ops orc runs the history ops from the
   committed contents init under the oracle orc and judges every step with the executable monitor
   of PgTx.v (the same monitor is applied to the observed behaviour of the real code in
   corr/PgCorr.v); per step:
     k_fault : a fault that fired inside the operation made it return an error (Abort excepted: it
               has no error result);
     k_hyg   : no call on a finished transaction, at most one open transaction, none after an
               operation outside an explicit transaction, exactly one inside a healthy one;
     k_rec   : a Get in which no fault fired returns exactly the acknowledged writes (single
               operations: Put returned nil; explicit transactions: Put returned nil and Stop
               returned nil; inside a transaction its own writes are visible); at Stop of a
               transaction in which every operation succeeded the committed data is exactly the
               previous data plus its writes, after Abort exactly the previous data; no panic;
     k_hit   : the step is in the guard of finding K-C13-stickymulti: a Put/Get issued outside an
               explicit transaction after some Start has succeeded (pgDb.multi is never cleared);
     k_dsw   : ... of finding K-C13-dumpswallow: a Dump in which a fault fired at or after its
               deferred Commit (in the Commit or in the iteration that follows it).
   PDump k = Dump(k), Dumper.Next until nil, Close: a transaction of its own next to pdb.tx, which
   it must end exactly once (k_hyg: the count of open transactions after the operation is what the
   client's mode demands) and which must leave pdb.tx alone (k_rec at the next Stop). Dump resets
   the language of the store; the monitor judges Put/Get under the language in force.
   All theorems quantify over every key context c, every initial content, every operation
   sequence (Put/Get/Start/Stop/Abort/Close/Dump/Connect-again) and EVERY fault oracle (any number of faults). *)
From Vise Require Import Bytes Errors Consts PgTx PgProofs.
Local Open Scope N_scope.

(* FULL STATEMENT (false, see C13_refuted_dumpswallow):
     forall c init ops orc, forallb k_fault (pg_checks c init ops orc) = true.
   Proved for every step outside the guard of K-C13-dumpswallow: every operation other than Abort
   (no error result) in which a fault fired returns an error — including Dump when BeginTx, the
   query, the first fetch or the first Scan fails. The row-fetch fault on the DEFAULT key of a Get
   and on the first row of a Dump is reported as ErrNotFound (rs.Err() not consulted) — an error. *)
Theorem C13_fault_reports_error_partial : forall c init ops orc,
  forallb (fun k => k_dsw k || k_fault k) (pg_checks c init ops orc) = true.
Proof. exact fault_guarded_run. Qed.

Theorem C13_refuted_dumpswallow :
  exists c init ops orc,
    dsw_hit (pg_checks c init ops orc) = true
    /\ sticky_hit (pg_checks c init ops orc) = false
    /\ forallb k_fault (pg_checks c init ops orc) = false
    /\ map o_res (pg_run c init ops orc) = [POk; POk; PRows [(s2b "a", s2b "1")]]
    /\ map o_res (pg_run c init ops []) = [POk; POk; PRows [(s2b "a", s2b "1"); (s2b "ab", s2b "2")]].
Proof. exact refuted_dumpswallow_lemma. Qed.

(* regression for the repaired finding K-C13-trfetch: the failed row fetch on the translated key is
   now reported instead of silently answering with the default-language row *)
Example C13_trfetch_reported :
  let c := wit_trans in
  let init := [(4 :: s2b "a", s2b "D")] in
  let ops := [PPut (s2b "a") (s2b "T"); PGet (s2b "a"); PGet (s2b "a")] in
  let orc := [false; false; false; false; false; true] in
  c13_full (pg_checks c init ops orc) = true
  /\ map o_res (pg_run c init ops orc) = [POk; PErr EFault; PVal (s2b "T")]
  /\ map o_open (pg_run c init ops orc) = [0; 0; 0].
Proof. exact trfetch_reported_lemma. Qed.

(* FULL STATEMENT (false, see C13_refuted_stickymulti):
     forall c init ops orc, forallb k_hyg (pg_checks c init ops orc) = true.
   Proved for every step up to the first one inside the guard of K-C13-stickymulti (k_hit is
   monotone along a history). Covers Dump: on every path the transaction Dump began is committed or
   rolled back exactly once before it returns. *)
Theorem C13_tx_hygiene_partial : forall c init ops orc,
  forallb (fun k => k_hit k || k_hyg k) (pg_checks c init ops orc) = true.
Proof. exact hyg_guarded_all. Qed.

(* regression for the repaired finding K-C13-dumpleak (f3dc6ab): prefix UNKNOWN, no fault; Dump fails
   in ToKey and now rolls its transaction back (it used to stay open: OpenTx 1; 2; 1) *)
Example C13_dumpleak_fixed :
  let c := mkCfg DATATYPE_UNKNOWN safe_lock (s2b "s") None in
  let ops := [PDump (s2b "a"); PStart; PStop] in
  c13_full (pg_checks c [] ops []) = true
  /\ map o_res (pg_run c [] ops []) = [PErr EGen; POk; POk]
  /\ map o_open (pg_run c [] ops []) = [0; 1; 0]
  /\ map o_evs (pg_run c [] ops []) =
     [[mkEv KBegin 1 0; mkEv KRollback 1 0]; [mkEv KBegin 2 0]; [mkEv KCommit 2 0]].
Proof. exact dumpleak_fixed_lemma. Qed.

(* without any guard, sticky or not: never two open transactions when an operation returns, never a call on a finished transaction (every transaction is ended at
   most once), never a nil dereference *)
Theorem C13_tx_hygiene_unconditional : forall c init ops orc,
  forallb (fun ob => (o_open ob <=? 1) && negb (pres_eqb (o_res ob) PPanic) && negb (has_done (o_evs ob)))
          (pg_run c init ops orc) = true.
Proof. exact sane_run. Qed.

(* FULL STATEMENT (false, see C13_refuted_stickymulti):
     forall c init ops orc, forallb k_rec (pg_checks c init ops orc) = true.
   This is the refinement to the abstract map m_abs that only acknowledged writes update: a Put
   whose Commit failed is neither acknowledged nor visible. *)
Theorem C13_recovers_partial : forall c init ops orc,
  forallb (fun k => k_hit k || k_rec k) (pg_checks c init ops orc) = true.
Proof. exact rec_guarded_all. Qed.

(* no fault is needed: Start, Stop, Put a 1, Get b, Get a *)
Theorem C13_refuted_stickymulti :
  exists c init ops orc,
    sticky_hit (pg_checks c init ops orc) = true
    /\ existsb (fun b => b) orc = false
    /\ forallb k_hyg (pg_checks c init ops orc) = false
    /\ forallb k_rec (pg_checks c init ops orc) = false
    /\ map o_res (pg_run c init ops orc) = [POk; POk; POk; PErr ENotFound; PErr ENotFound].
Proof. exact refuted_stickymulti_lemma. Qed.

(* explicit transactions, fault-free, from any idle state (no transaction open, pool not closed,
   oracle exhausted — pgDb.multi may even be stuck at true): if every operation of
   Start; body; Stop (body over Put/Get/Dump) succeeds, the committed data afterwards is the previous
   data with all writes of the body applied, and nothing is left open *)
Theorem C13_multi_commit_at_stop : forall c st body,
  idle st -> forallb data_op body = true ->
  forallb (fun ob => negb (is_perr (o_res ob))) (pg_trace c st (PStart :: body ++ [PStop])) = true ->
  let st' := pg_final c st (PStart :: body ++ [PStop]) in
  s_comm (p_srv st') = apply_kv (body_writes c (p_lang st) body) (s_comm (p_srv st)) /\ s_open (p_srv st') = [].
Proof. exact multi_commit_at_stop_lemma. Qed.

(* ... and after Abort the committed data is exactly what it was *)
Theorem C13_multi_none_after_abort : forall c st body,
  idle st -> forallb data_op body = true ->
  forallb (fun ob => negb (is_perr (o_res ob))) (pg_trace c st (PStart :: body ++ [PAbort])) = true ->
  let st' := pg_final c st (PStart :: body ++ [PAbort]) in
  s_comm (p_srv st') = s_comm (p_srv st) /\ s_open (p_srv st') = [].
Proof. exact multi_none_after_abort_lemma. Qed.

(* a failing Dump leaves an explicit transaction alone (the seeded change C13-m3 breaks exactly this):
   the Dump query fails, Dump rolls back its own transaction, Stop commits both writes *)
Example C13_dump_fault_in_tx :
  let ops := [PStart; PPut (s2b "a") (s2b "1"); PDump (s2b "a"); PPut (s2b "b") (s2b "1"); PStop] in
  let orc := [false; false; false; true] in
  c13_full (pg_checks wit_user [] ops orc) = true
  /\ map o_res (pg_run wit_user [] ops orc) = [POk; POk; PErr EFault; POk; POk]
  /\ map o_open (pg_run wit_user [] ops orc) = [1; 1; 1; 1; 0]
  /\ o_comm (last (pg_run wit_user [] ops orc) (mkPobs POk 0 [] [])) =
     [(32 :: s2b "s.a", s2b "1"); (32 :: s2b "s.b", s2b "1")].
Proof. exact dump_fault_in_tx_lemma. Qed.

(* non-vacuity: a history outside the guard with three faults (Commit of the second Put, the row
   fetch of the first Get, BeginTx of the third Put; then an explicit transaction) satisfies the
   whole monitor, every faulted operation reports an error, and the final data is a = "3" only:
   "2" (Commit failed) and b (BeginTx failed) were never acknowledged *)
Example C13_nonvacuous :
  let a := s2b "a" in let b := s2b "b" in
  let ops := [PPut a (s2b "1"); PPut a (s2b "2"); PGet a; PPut b (s2b "1"); PGet b;
              PStart; PPut a (s2b "3"); PGet a; PStop] in
  let orc := [false; false; false;  false; false; true;  false; false; true;  false; true] in
  let ks := pg_checks wit_user [] ops orc in
  c13_full ks = true /\ sticky_hit ks = false
  /\ map o_res (pg_run wit_user [] ops orc) =
     [POk; PErr EFault; PErr ENotFound; PErr EFault; PErr ENotFound; POk; POk; PVal (s2b "3"); POk]
  /\ map o_open (pg_run wit_user [] ops orc) = [0; 0; 0; 0; 0; 1; 1; 1; 0]
  /\ o_comm (last (pg_run wit_user [] ops orc) (mkPobs POk 0 [] [])) = [(32 :: s2b "s.a", s2b "3")].
Proof. vm_compute. repeat split. Qed.

Print Assumptions C13_fault_reports_error_partial.
Print Assumptions C13_refuted_dumpswallow.
Print Assumptions C13_tx_hygiene_partial.
Print Assumptions C13_tx_hygiene_unconditional.
Print Assumptions C13_recovers_partial.
Print Assumptions C13_refuted_stickymulti.
Print Assumptions C13_multi_commit_at_stop.
Print Assumptions C13_multi_none_after_abort.
