(* C08, last clause — "... and the session can still be saved, loaded and CONTINUED"
   (lemmas in proofs/ContinueProofs.v; safety and consistency are in props/C08safe.v).

   FULL STATEMENT: persisted operation, no entry function.  For every application a and
   configuration c with wf_app_b a c, every history h of a new session, if the stored session
   afterwards has no pending code and TERMINATE clear (the previous request failed, or the session
   is new), then every ACCEPTED input (not refused_b: at most 255 bytes, empty or matching the
   input pattern) makes the next request restart the session at the entry node: init unwinds the
   stale position, injects MOVE <root>, the move succeeds on the empty stack and the first code
   fetched is the root's — so the request's events start with
       EvInstr MOVE, EvMove 0 root root, EvCode root          (restart_events, newest first)
   which is what corr/EngineMon.v c08_continuable observes as "some code was fetched".

   Proved for every fuel: with fuel S f the events are logged and the request does not panic; with
   fuel 0 the request answers SFuel.  Guards (decidable): wf_app_b a c (the root node exists),
   cfg_okb c (Root encodable), c_first c = None, root_ok c := valid_sym_b (cfg_root c) (Root is a node
   name of the VM's symbol pattern; C08_continuable_needs_root_ok shows the guard is needed: a
   one-letter Root is accepted by wf_app_b and never reached).  No CROAK / value-size guard.
   C08_request_continuable is the stronger per-request form: it holds for ANY stored session without
   pending code and with TERMINATE clear (reachable or not, whatever its stack and cache are).
   NOT claimed: where the session stands after the request (the root's own code runs after the move
   and may do anything, including an ascent out of the entry node, finding K-C04-up-at-entry). *)
From Vise Require Import Bytes Errors Consts EngConsts Codec CacheModel StateModel NavModel NavSpec RenderModel
  VmModel EngineModel CorrBase EngineCorr EngineMon SafetyProofs ContinueProofs.
Local Open Scope N_scope.

Theorem C08_request_continuable : forall a c f p st ca i,
  c_first c = None -> cfg_okb c = true -> root_ok c = true -> has_node a (cfg_root c) = true ->
  pw_store p = Some (st, ca) -> s_code st = [] -> getf st FLAG_TERMINATE = false -> refused_b i = false ->
  exists l, pw_log (fst (request_persisted (S f) (app_rsrc a) c p i)) = l ++ restart_events c ++ pw_log p.
Proof. exact continuable_request. Qed.

Theorem C08_request_continuable_no_fuel : forall a c p st ca i,
  c_first c = None -> pw_store p = Some (st, ca) -> s_code st = [] -> refused_b i = false ->
  r_exec (snd (request_persisted O (app_rsrc a) c p i)) = SFuel.
Proof. exact continuable_no_fuel. Qed.

Theorem C08_session_continuable : forall a c h f i st ca,
  wf_app_b a c = true -> cfg_okb c = true -> c_first c = None -> root_ok c = true ->
  pw_store (fst (hist_pers (app_rsrc a) c (mkPw None [] [] false) h)) = Some (st, ca) ->
  s_code st = [] -> getf st FLAG_TERMINATE = false -> refused_b i = false ->
  (exists l, pw_log (fst (request_persisted (S f) (app_rsrc a) c (fst (hist_pers (app_rsrc a) c (mkPw None [] [] false) h)) i))
             = l ++ restart_events c ++ pw_log (fst (hist_pers (app_rsrc a) c (mkPw None [] [] false) h)))
  /\ resp_no_panic (snd (request_persisted (S f) (app_rsrc a) c (fst (hist_pers (app_rsrc a) c (mkPw None [] [] false) h)) i))
  /\ r_exec (snd (request_persisted O (app_rsrc a) c (fst (hist_pers (app_rsrc a) c (mkPw None [] [] false) h)) i)) = SFuel.
Proof. exact session_continuable. Qed.

Theorem C08_continuable_needs_root_ok :
  wf_app_b badroot_app badroot_cfg = true /\ cfg_okb badroot_cfg = true /\ root_ok badroot_cfg = false
  /\ pw_log (fst (hist_pers (app_rsrc badroot_app) badroot_cfg (mkPw None [] [] false) [(100%nat, []); (100%nat, [])]))
     = [EvInstr op_MOVE; EvInstr op_MOVE].
Proof. exact continuable_needs_root_ok. Qed.

(* non-vacuity: the corpus application restart-after-error.  Request 1 fails at the entry node and
   leaves exactly the premises (stored at [root], no pending code, TERMINATE clear); request 2 is the
   theorem's request: it restarts and shows "root ok"; request 3 moves on to foo *)
Example C08_continuable_restart_after_error :
  wf_app_b rae_app rae_cfg = true /\ cfg_okb rae_cfg = true /\ c_first rae_cfg = None /\ root_ok rae_cfg = true
  /\ match pw_store rae_after1 with
     | Some (st, ca) => s_code st = [] /\ s_path st = [s2b "root"] /\ getf st FLAG_TERMINATE = false
     | None => False
     end
  /\ refused_b (s2b "1") = false
  /\ map resp_view (snd (hist_pers (app_rsrc rae_app) rae_cfg (mkPw None [] [] false)
                           [(100%nat, []); (100%nat, s2b "1"); (100%nat, s2b "1")]))
     = [(false, SErr EGen None, [], FErr EFlushNoExec); (true, SOk, s2b "root ok", FOk); (true, SOk, s2b "foo", FOk)]
  /\ pw_log (fst (request_persisted 100 (app_rsrc rae_app) rae_cfg rae_after1 (s2b "1")))
     = [EvRender (s2b "root") 0 None; EvInstr op_HALT; EvInstr op_MAP; EvFunc (s2b "aa") None (Some (s2b "1")); EvInstr op_LOAD]
       ++ restart_events rae_cfg ++ pw_log rae_after1.
Proof. vm_compute. repeat split. Qed.

Print Assumptions C08_request_continuable.
Print Assumptions C08_request_continuable_no_fuel.
Print Assumptions C08_session_continuable.
Print Assumptions C08_continuable_needs_root_ok.
