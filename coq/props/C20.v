(* C20 — Session end restarts cleanly; termination stays blocked.

   Property (properties.jsonl): When a session runs out of bytecode right after a HALT it ends
   gracefully: the final output is delivered, and the next request with the same session id starts
   again at the entry node with an empty symbol cache and the client-defined flags kept.  When it
   runs out of bytecode otherwise, or external code sets TERMINATE, the request reports stop and
   every later request of that session stays blocked - producing no output and running nothing -
   until the flag is cleared.  Quantifier: all programs with end nodes of both kinds at arbitrary
   depth, all histories that continue past the end of a session, persisted operation.

   What is stated below, over the executable model (VmModel/EngineModel), for ALL resources,
   configurations WITHOUT an entry function (c_first = None; with one the property is false, see the
   refutation), stored sessions, inputs and fuel.  Common request hypotheses: the input is accepted
   (accepted_b = not refused_b), ResetOnEmptyInput does not apply (reset_req = false, or the stored
   position is empty), the stored session is not "stale" (no code + a position + no TERMINATE: init
   unwinds it first).  Under them Exec runs `prep_code` (the stored code, or `MOVE <root>` for an
   empty one) on the stored session (eng_exec_prepared).

   C20_end_of_run_cases      a `run` that returns status OK with NO code left either has TERMINATE
                             set or ended on a HALT (WAIT set, HALT newest in the instruction log):
                             "runs out of bytecode right after a HALT" is exactly "no code left,
                             OK, TERMINATE clear".
   C20_graceful_end          if the run of the request ends that way (then DIRTY is set), the
                             final page renders (vm_render = RROk page) at a non-empty position:
                             the response is cont = false, status OK, output = page ++ exit value
                             where exit value = the cache's last value - unless the exit-size check
                             of Flush fires (size_overflow: 0 < OutputSize, 0 < len exit,
                             OutputSize < uint32(len exit + len page)): then output is empty and
                             Flush fails, the session is reset all the same; the stored session is
                             `ended v'`: C20_graceful_end_state (path [], index 0, no pending code,
                             TERMINATE and DIRTY clear, EVERY other flag - in particular every
                             client flag >= 8 - and the language kept), C20_graceful_end_cache
                             (under end_inv = one scope per level plus the base scope, CInv, base
                             scope empty: exactly ONE EMPTY scope, use size 0).
                             Building blocks in the engine's own terms: C20_graceful_exec_inner
                             (cont = false, e_exiting, exit = last value), C20_graceful_flush.
   C20_restart_at_entry      a stored session without code and position (what a graceful end
                             leaves): the next request runs `MOVE <root>` from the empty position;
                             C20_restart_runs_root: that is, the root's code in a fresh cache scope
                             at position [root]; C20_restart_halting_root: when the root halts at
                             once Exec ends at [root] with the rest of its code pending.
   C20_abnormal_end_sets_terminate  an instruction other than HALT that leaves no code while READIN
                             is clear makes the loop set TERMINATE;
   C20_abnormal_end_request  whenever the run of a request returns OK with TERMINATE set (set by
                             runDeadCheck or by external code) the request reports cont = false,
                             status OK, and (unless rendering panics) the stored session keeps
                             position and cache, has TERMINATE set, DIRTY clear, no code;
   C20_abnormal_end_then_blocked  and every later accepted request is blocked: cont = false, OK,
                             empty output, nothing logged, store unchanged (C06_blocked_until_cleared).
   Note on "stays blocked": the strict form needs DIRTY clear in the stored session, which
   C20_abnormal_end_request establishes when the request that set TERMINATE was flushed.  If that
   request FAILED in Exec after TERMINATE had been set, the session is saved with DIRTY and the next
   request renders the page once (finding K-C06-dirty, props/C06.v: C06_blocked_refuted_dirty,
   C06_blocked_request_weak, C06_terminated_stays_blocked).
   FOLLOW-UP (proofs/FlagProofs2.v, composing SafetyProofs): the invariant end_inv is no longer a
   hypothesis.  C20_history_store_invariant: every stored session reachable by ANY history from a
   new session (persisted driver, per-request fuel) satisfies end_inv, and has no pending code other
   than a single MOVE while its position is empty; C20_graceful_end_history_partial: after any
   history, a request that is a graceful end answers as C20_graceful_end says and stores path [],
   index 0, no code, exactly ONE EMPTY cache scope, use size 0, TERMINATE/DIRTY clear, every other
   flag and the language kept, and every next accepted request runs MOVE <root> from the empty
   position in that cache - with NO invariant hypothesis.  Guards (one decidable predicate
   c20_guards a c, plus c_first c = None): SafetyProofs' wf_app_b, cfg_okb, no CROAK (K-C08-croak),
   vals_small, and two more the new invariant "nothing is stored while the position is empty"
   needs: has_node a [] = false (no node with the empty name; necessary: refuted side by side,
   C20_graceful_end_history_refuted_anon - "_" at the entry node empties the position,
   GetCode("") succeeds, the anonymous node's LOAD lands in the base scope and the next graceful end
   leaves it there) and quiet_catch_b a (the _catch node reaches a HALT before any MOVE / INCMP /
   CATCH, as every catch node of the corpus and the documentation does; used to show that the
   recovery run of Render after a browse error cannot leave the session without a position while
   code is pending - I found no history violating the theorem without this guard, so it is a
   proof guard, possibly removable).
   FOLLOW-UP 2 (proofs/FlagProofs3.v): quiet_catch_b CANNOT be dropped.  The BrowseError branch of
   Vm.Render is reachable - on the real engine too (witness in notes/integration_flags.md: a sink of
   65538 rows makes joinSink's uint16 page counter wrap to 1, "next" renders page 1 and the menu
   raises BrowseError; with a catch node that navigates before it halts the recovery run then
   empties the position while code is pending, the next request LOADs at the empty position into
   the base scope, and a later graceful end leaves two symbols there).  What is proved is the
   sharp boundary: C20_browse_only_after_wrap - for fewer than 65535 sink rows (and less than
   4 GiB of them) GetAt fails for EVERY idx >= page count, so (C20_sizer_error_before_menu) the
   final render of a page whose sizer names the sink fails with the sizer's error before the menu
   is consulted: never a BrowseError.  An alternative guard "every entry function returns fewer
   than 65535 rows" could replace quiet_catch_b only together with a page/sizer consistency
   invariant through run (not proved).
   Long-lived engine: C20_graceful_end_long (initialised engine whose last output was delivered;
   entry function or not).
   FALSE with an entry function (K-C20-first): C20_terminated_refuted_first - an entry function that
   sets TERMINATE makes its request report stop with its text, the session is not saved, and the
   next request is served normally; a session terminated otherwise outputs a stale value when
   blocked (C06_blocked_refuted_first). *)
From Vise Require Import Bytes Errors Consts EngConsts Codec CacheModel StateModel NavModel NavSpec RenderModel
  VmModel EngineModel CorrBase EngineCorr EngineMon CacheProofs RenderProofs VmProofs SafetyProofs FlagProofs FlagProofs2 FlagProofs3.
Local Open Scope N_scope.

Theorem C20_end_of_run_cases : forall fuel rs sep lang b v v',
  run fuel rs sep lang b v = (v', [], SOk) -> flag_in_range (v_st v) FLAG_TERMINATE = true ->
  getf (v_st v') FLAG_TERMINATE = true
  \/ (getf (v_st v') FLAG_WAIT = true /\ exists l, v_log v' = EvInstr op_HALT :: l).
Proof. exact run_end_cases. Qed.

(* ---- graceful end ------------------------------------------------------------------------------- *)
Theorem C20_graceful_exec_inner : forall fuel rs c e x code v1,
  s_code (v_st (e_v e)) = x :: code ->
  run fuel rs (c_sep c) (s_lang (v_st (e_v e))) (x :: code) (vset_st (e_v e) (set_code (v_st (e_v e)) [])) = (v1, [], SOk) ->
  getf (v_st v1) FLAG_TERMINATE = false -> flag_in_range (v_st (e_v e)) FLAG_DIRTY = true ->
  eng_exec_inner fuel rs c e
  = (mkEng (vset_ca (vset_st v1 (set_code (v_st v1) [])) (snd (cache_last (v_ca v1))))
           (e_initd e) (c_last (v_ca v1)) true true, false, SOk)
  /\ getf (v_st v1) FLAG_DIRTY = true.
Proof. exact graceful_exec_inner. Qed.

Theorem C20_graceful_flush : forall fuel rs c e v' page,
  e_execd e = true -> e_exiting e = true ->
  vm_render fuel rs (c_sep c) (s_lang (v_st (e_v e))) (e_v e) = (v', RROk page) ->
  s_path (v_st v') <> [] ->
  eng_flush fuel rs c e =
    if (0 <? c_out c) && (0 <? len (e_exit e)) && (c_out c <? w32 (len (e_exit e) + len page))
    then (mkEng (ended v') (e_initd e) (e_exit e) false true, [], FErr EGen)
    else (mkEng (ended v') (e_initd e) (e_exit e) false true, page ++ e_exit e, FOk).
Proof. exact graceful_flush. Qed.

Theorem C20_graceful_end : forall fuel rs c p input st ca v1 v' page,
  c_first c = None -> pw_store p = Some (st, ca) -> accepted_b input = true ->
  (reset_req c input = false \/ s_path st = []) -> stale st = false ->
  builtin_flags_ok st ->
  run fuel rs (c_sep c) (s_lang st) (prep_code c st)
      (mkVm (set_code (prep_state c st input) []) ca (new_vm_page (c_out c) (c_sep c)) (pw_w p) (pw_log p) false) = (v1, [], SOk) ->
  getf (v_st v1) FLAG_TERMINATE = false ->
  vm_render fuel rs (c_sep c) (s_lang (v_st v1)) (exiting_vm v1) = (v', RROk page) ->
  s_path (v_st v') <> [] ->
  ended_on_halt v1 /\ getf (v_st v1) FLAG_DIRTY = true /\
  request_persisted fuel rs c p input =
    (mkPw (Some (snap_of (v_st (ended v')) (v_ca (ended v')))) (v_w v') (v_log v') (pw_taint p || v_taint v'),
     if size_overflow c (c_last (v_ca v1)) page
     then mkResp false SOk [] (FErr EGen)
     else mkResp false SOk (page ++ c_last (v_ca v1)) FOk).
Proof. exact graceful_end_request. Qed.

Theorem C20_graceful_end_state : forall v,
  s_path (v_st (ended v)) = [] /\ s_idx (v_st (ended v)) = 0
  /\ s_code (v_st (ended v)) = s_code (v_st v) /\ s_lang (v_st (ended v)) = s_lang (v_st v)
  /\ getf (v_st (ended v)) FLAG_TERMINATE = false /\ getf (v_st (ended v)) FLAG_DIRTY = false
  /\ (forall i, i <> FLAG_TERMINATE -> i <> FLAG_DIRTY -> getf (v_st (ended v)) i = getf (v_st v) i).
Proof. exact ended_state. Qed.

Theorem C20_graceful_end_code : forall fuel rs sep lang v1 v' r,
  vm_render fuel rs sep lang (exiting_vm v1) = (v', r) -> s_code (v_st (ended v')) = [].
Proof. exact graceful_end_stored_code. Qed.

Theorem C20_graceful_end_cache : forall v,
  nav_inv (v_st v) (v_ca v) /\ CInv (v_ca v) /\ hd_error (c_frames (v_ca v)) = Some [] ->
  c_frames (v_ca (ended v)) = [[]] /\ c_use (v_ca (ended v)) = 0
  /\ cache_levels (v_ca (ended v)) = 1 /\ c_size (v_ca (ended v)) = c_size (v_ca v) /\ CInv (v_ca (ended v)).
Proof. exact ended_cache. Qed.

(* ---- restart ------------------------------------------------------------------------------------ *)
Theorem C20_restart_at_entry : forall fuel rs c st ca w lg input,
  c_first c = None -> accepted_b input = true -> s_code st = [] -> s_path st = [] ->
  eng_exec fuel rs c (new_engine c (Some (st, ca)) w lg) input
  = eng_exec_inner fuel rs c (prep_engine c st ca w lg input)
  /\ s_code (v_st (e_v (prep_engine c st ca w lg input))) = encode (IMove (cfg_root c))
  /\ s_path (v_st (e_v (prep_engine c st ca w lg input))) = []
  /\ v_ca (e_v (prep_engine c st ca w lg input)) = ca
  /\ s_flags (v_st (e_v (prep_engine c st ca w lg input))) = s_flags st.
Proof. exact restart_at_entry. Qed.

Theorem C20_restart_runs_root : forall fuel rs sep lang root v x code,
  wf_sym root -> valid_sym_b root = true ->
  getf (v_st v) FLAG_TERMINATE = false -> s_path (v_st v) = [] ->
  rs_code rs root = Ok (x :: code) ->
  run (S fuel) rs sep lang (encode (IMove root)) v
  = run fuel rs sep (pre_lang lang (v_st v)) (x :: code) (at_root rs sep root v)
  /\ s_path (v_st (at_root rs sep root v)) = [root] /\ s_idx (v_st (at_root rs sep root v)) = 0
  /\ v_ca (at_root rs sep root v) = cache_push (v_ca v).
Proof. exact run_move_root_full. Qed.

Theorem C20_restart_halting_root : forall fuel rs c st ca w lg input rest,
  c_first c = None -> accepted_b input = true -> s_code st = [] -> s_path st = [] ->
  getf st FLAG_TERMINATE = false ->
  wf_sym (cfg_root c) -> valid_sym_b (cfg_root c) = true ->
  rs_code rs (cfg_root c) = Ok (encode IHalt ++ rest) ->
  exists e', eng_exec (S (S fuel)) rs c (new_engine c (Some (st, ca)) w lg) input
             = (e', match rest with [] => false | _ => true end, SOk)
    /\ s_path (v_st (e_v e')) = [cfg_root c] /\ s_idx (v_st (e_v e')) = 0
    /\ s_code (v_st (e_v e')) = rest
    /\ c_frames (v_ca (e_v e')) = c_frames ca ++ [[]].
Proof. exact restart_at_entry_halting_root. Qed.

(* ---- abnormal end -------------------------------------------------------------------------------- *)
Theorem C20_abnormal_end_sets_terminate : forall fuel rs sep lang i v v1,
  wf_instr i -> opcode_of i <> op_HALT -> getf (v_st v) FLAG_TERMINATE = false ->
  exec_instr rs sep (pre_lang lang (v_st v)) i [] (vlog (pre_vm v) (EvInstr (opcode_of i))) = (v1, [], SOk) ->
  getf (v_st v1) FLAG_READIN = false ->
  run (S fuel) rs sep lang (encode i) v = (vset_st v1 (setf (v_st v1) FLAG_TERMINATE), [], SOk).
Proof. exact run_out_of_code_terminates. Qed.

Theorem C20_abnormal_end_request : forall fuel rs c p input st ca v1 b,
  c_first c = None -> pw_store p = Some (st, ca) -> accepted_b input = true ->
  (reset_req c input = false \/ s_path st = []) -> stale st = false ->
  run fuel rs (c_sep c) (s_lang st) (prep_code c st)
      (mkVm (set_code (prep_state c st input) []) ca (new_vm_page (c_out c) (c_sep c)) (pw_w p) (pw_log p) false) = (v1, b, SOk) ->
  getf (v_st v1) FLAG_TERMINATE = true ->
  exists p' resp, request_persisted fuel rs c p input = (p', resp)
    /\ r_cont resp = false /\ r_exec resp = SOk
    /\ ((exists n, r_flush resp = FPanic n) \/
        (pw_store p' = Some (snap_of (resetf (v_st v1) FLAG_DIRTY) (v_ca v1))
         /\ s_code (v_st v1) = [] /\ r_flush resp <> FFuel)).
Proof. exact abnormal_end_request. Qed.

Theorem C20_abnormal_end_then_blocked : forall fuel rs c p input st ca v1 b p' resp inputs,
  c_first c = None -> pw_store p = Some (st, ca) -> accepted_b input = true ->
  (reset_req c input = false \/ s_path st = []) -> stale st = false ->
  run fuel rs (c_sep c) (s_lang st) (prep_code c st)
      (mkVm (set_code (prep_state c st input) []) ca (new_vm_page (c_out c) (c_sep c)) (pw_w p) (pw_log p) false) = (v1, b, SOk) ->
  getf (v_st v1) FLAG_TERMINATE = true ->
  request_persisted fuel rs c p input = (p', resp) ->
  (forall n, r_flush resp <> FPanic n) ->
  Forall (fun i => accepted_b i = true /\ reset_req c i = false) inputs -> inputs <> [] ->
  r_cont resp = false /\
  exists st', pw_store p' = Some (st', v_ca v1) /\ getf st' FLAG_TERMINATE = true /\
  requests fuel rs c p' inputs
  = (mkPw (Some (blocked_snap st' (v_ca v1))) (pw_w p') (pw_log p') (pw_taint p'),
     map (fun _ => mkResp false SOk [] FOk) inputs).
Proof. exact abnormal_end_then_blocked. Qed.

Theorem C20_blocked_until_cleared : forall fuel rs c inputs p st ca,
  c_first c = None -> pw_store p = Some (st, ca) ->
  getf st FLAG_TERMINATE = true -> getf st FLAG_DIRTY = false ->
  Forall (fun i => accepted_b i = true /\ (reset_req c i = false \/ s_path st = [])) inputs ->
  inputs <> [] ->
  requests (S fuel) rs c p inputs
  = (mkPw (Some (blocked_snap st ca)) (pw_w p) (pw_log p) (pw_taint p),
     map (fun _ => mkResp false SOk [] FOk) inputs).
Proof. exact blocked_until_cleared. Qed.

(* ---- follow-up: the session invariant over all histories ------------------------------------------- *)
Theorem C20_history_store_invariant : forall a c w lg h st ca,
  c20_guards a c = true -> c_first c = None ->
  pw_store (fst (hist_pers (app_rsrc a) c (mkPw None w lg false) h)) = Some (st, ca) ->
  (nav_inv st ca /\ CInv ca /\ hd_error (c_frames ca) = Some [])
  /\ (s_path st = [] -> s_code st = [] \/ exists t, wf_sym t /\ s_code st = encode (IMove t)).
Proof. exact history_store_end_inv. Qed.

Theorem C20_graceful_end_history_partial : forall a c w lg h fuel input st ca v1 v' page,
  c20_guards a c = true -> c_first c = None ->
  let rs := app_rsrc a in
  let p := fst (hist_pers rs c (mkPw None w lg false) h) in
  pw_store p = Some (st, ca) ->
  accepted_b input = true -> (reset_req c input = false \/ s_path st = []) -> stale st = false ->
  run fuel rs (c_sep c) (s_lang st) (prep_code c st)
      (mkVm (set_code (prep_state c st input) []) ca (new_vm_page (c_out c) (c_sep c)) (pw_w p) (pw_log p) false) = (v1, [], SOk) ->
  getf (v_st v1) FLAG_TERMINATE = false ->
  vm_render fuel rs (c_sep c) (s_lang (v_st v1)) (exiting_vm v1) = (v', RROk page) ->
  s_path (v_st v') <> [] ->
  exists st' ca',
    request_persisted fuel rs c p input
    = (mkPw (Some (st', ca')) (v_w v') (v_log v') (pw_taint p || v_taint v'),
       if size_overflow c (c_last (v_ca v1)) page
       then mkResp false SOk [] (FErr EGen)
       else mkResp false SOk (page ++ c_last (v_ca v1)) FOk)
    /\ s_path st' = [] /\ s_idx st' = 0 /\ s_code st' = []
    /\ c_frames ca' = [[]] /\ c_use ca' = 0
    /\ s_lang st' = s_lang (v_st v')
    /\ getf st' FLAG_TERMINATE = false /\ getf st' FLAG_DIRTY = false
    /\ (forall i, i <> FLAG_TERMINATE -> i <> FLAG_DIRTY -> getf st' i = getf (v_st v') i)
    /\ (forall fuel2 w2 lg2 input2, accepted_b input2 = true ->
          eng_exec fuel2 rs c (new_engine c (Some (st', ca')) w2 lg2) input2
          = eng_exec_inner fuel2 rs c (prep_engine c st' ca' w2 lg2 input2)
          /\ s_code (v_st (e_v (prep_engine c st' ca' w2 lg2 input2))) = encode (IMove (cfg_root c))
          /\ s_path (v_st (e_v (prep_engine c st' ca' w2 lg2 input2))) = []
          /\ v_ca (e_v (prep_engine c st' ca' w2 lg2 input2)) = ca').
Proof. exact graceful_end_history. Qed.

Theorem C20_graceful_end_history_refuted_anon :
  wf_app_b app_anon cfg_term = true /\ cfg_okb cfg_term = true /\ c_first cfg_term = None
  /\ has_croak app_anon = false /\ vals_small (c_cachesize cfg_term) app_anon = true /\ quiet_catch_b app_anon = true
  /\ has_node app_anon [] = true
  /\ (let '(p, resps) := hist_pers (app_rsrc app_anon) cfg_term (mkPw None [] [] false) hist_anon in
      last resps (mkResp true SOk [] FOk) = mkResp false SOk (s2b "the endv") FOk
      /\ option_map (fun sc => (s_path (fst sc), c_frames (snd sc), c_use (snd sc))) (pw_store p)
         = Some ([], [[(s2b "aa", s2b "v")]], 1)).
Proof. exact graceful_end_history_refuted_anon. Qed.

Theorem C20_graceful_end_long : forall fuel rs c e input x code v1 v' page,
  e_initd e = true -> delivered_l e -> accepted_b input = true ->
  (reset_req c input = false \/ s_path (v_st (e_v e)) = []) ->
  s_code (v_st (e_v e)) = x :: code -> builtin_flags_ok (v_st (e_v e)) ->
  run fuel rs (c_sep c) (s_lang (v_st (e_v e))) (x :: code)
      (vset_st (e_v e) (set_code (set_input_raw (v_st (e_v e)) (Some input)) [])) = (v1, [], SOk) ->
  getf (v_st v1) FLAG_TERMINATE = false ->
  vm_render fuel rs (c_sep c) (s_lang (v_st v1)) (exiting_vm v1) = (v', RROk page) ->
  s_path (v_st v') <> [] ->
  ended_on_halt v1 /\
  request_long fuel rs c e input =
    (mkEng (ended v') true (c_last (v_ca v1)) false true,
     if size_overflow c (c_last (v_ca v1)) page
     then mkResp false SOk [] (FErr EGen)
     else mkResp false SOk (page ++ c_last (v_ca v1)) FOk).
Proof. exact graceful_end_request_long. Qed.

(* the guards and hypotheses of C20_graceful_end_history_partial are met by corpus graceful-end *)
Example C20_graceful_history_nonvacuous :
  c20_guards app_graceful cfg_graceful = true /\ c_first cfg_graceful = None
  /\ fst (hist_pers rs_graceful cfg_graceful (mkPw None [] [] false) hist_graceful) = p_graceful
  /\ pw_store p_graceful = Some (g_st, g_ca)
  /\ accepted_b (s2b "1") = true /\ reset_req cfg_graceful (s2b "1") = false /\ stale g_st = false
  /\ g_run = (g_v1, [], SOk) /\ getf (v_st g_v1) FLAG_TERMINATE = false
  /\ g_render = (g_v', RROk (s2b "the end")) /\ s_path (v_st g_v') <> [].
Proof. exact graceful_history_witness. Qed.

(* long-lived engine on the same corpus: third request *)
Example C20_graceful_long_nonvacuous :
  let e := fst (requests_long 100 rs_graceful cfg_graceful (new_engine cfg_graceful None [] []) [[]; s2b "1"]) in
  e_initd e = true /\ e_execd e = true /\ getf (v_st (e_v e)) FLAG_DIRTY = false /\ e_exiting e = false /\ e_exit e = []
  /\ s_code (v_st (e_v e)) <> []
  /\ (let '(e', r) := request_long 100 rs_graceful cfg_graceful e (s2b "1") in
      r = mkResp false SOk (s2b "the end bye") FOk /\ s_path (v_st (e_v e')) = [] /\ c_frames (v_ca (e_v e')) = [[]]
      /\ e_exit e' = s2b " bye").
Proof. vm_compute. repeat split; try reflexivity. discriminate. Qed.

(* ---- follow-up 2: when Render can see a BrowseError ------------------------------------------------- *)
Theorem C20_browse_only_after_wrap : forall vs remaining ms r n crs idx,
  len vs < 65535 -> rows_size vs < 4294967296 ->
  join_sink vs remaining ms [0] = (Ok (r, n), crs) ->
  0 < n -> n <= idx -> sink_page r crs idx = Err EGen.
Proof. exact join_sink_past_end. Qed.

Theorem C20_sizer_error_before_menu : forall gt gm pg sym vals idx z sink r,
  p_sizer pg = Some z -> z_sink z = sink -> sink <> [] ->
  alookup sink vals = Some r -> sink_page r (z_crsrs z) idx = Err EGen ->
  (forall e, gt sym = Err e -> e <> EBrowse) ->
  fst (page_render_inner gt gm pg sym vals idx) <> Err EBrowse.
Proof. exact inner_past_end_not_browse. Qed.

Example C20_trailing_empty_row_nonvacuous :
  let bb := rep 98 40 in
  let r0 := s2b "a" ++ [nl] ++ bb in
  let '(res, crs) := join_sink [s2b "a"; bb; []] 40 (5, 6, 7, 13) [0] in
  res = Ok (r0, 2) /\ crs = [0; 2; 43]
  /\ sink_page r0 crs 2 = Err EGen /\ sink_page r0 crs 1 = Ok bb.
Proof. exact join_sink_trailing_empty_row. Qed.

(* ---- the entry-function class (K-C20-first) ------------------------------------------------------- *)
(* corpus "first-terminate": on the second request the entry function returns "blocked" with
   TERMINATE: the request reports stop and outputs "blocked", the session is not saved, and the
   next request is served as if nothing had happened *)
Theorem C20_terminated_refuted_first :
  exists rs c p i1 i2,
    c_first c <> None /\ accepted_b i1 = true /\ accepted_b i2 = true
    /\ reset_req c i1 = false /\ reset_req c i2 = false
    /\ (let '(p1, r1) := request_persisted 100 rs c p i1 in
        let '(p2, r2) := request_persisted 100 rs c p1 i2 in
        r_cont r1 = false /\ r_exec r1 = SOk /\ r_out r1 = s2b "blocked"
        /\ pw_store p1 = pw_store p
        /\ r_cont r2 = true /\ r_out r2 <> []
        (* instructions ran during the second request *)
        /\ existsb (fun e => match e with EvInstr op => op =? op_INCMP | _ => false end)
                   (firstn (List.length (pw_log p2) - List.length (pw_log p1)) (pw_log p2)) = true).
Proof. exact terminated_refuted_first. Qed.

(* ---- witnesses -------------------------------------------------------------------------------------- *)
(* corpus "graceful-end", third request ("1" at root/foo): every hypothesis of C20_graceful_end holds *)

Example C20_graceful_nonvacuous :
  c_first cfg_graceful = None /\ pw_store p_graceful = Some (g_st, g_ca)
  /\ accepted_b (s2b "1") = true /\ reset_req cfg_graceful (s2b "1") = false /\ stale g_st = false
  /\ flag_in_range g_st FLAG_LANG = true
  /\ g_run = (g_v1, [], SOk) /\ getf (v_st g_v1) FLAG_TERMINATE = false
  /\ g_render = (g_v', RROk (s2b "the end"))
  /\ s_path (v_st g_v') = [s2b "root"; s2b "foo"; s2b "end1"]
  /\ size_overflow cfg_graceful (c_last (v_ca g_v1)) (s2b "the end") = false
  /\ getf (v_st g_v') 8 = true
  /\ cache_levels (v_ca g_v') = len (s_path (v_st g_v')) + 1 /\ hd_error (c_frames (v_ca g_v')) = Some []
  /\ v_ca g_v' = cache_run (new_cache 100)
                   [OPush; OPush; OAdd (s2b "aa") (s2b "v") 10; OPush; OAdd (s2b "bb") (s2b " bye") 0; OLast]
  /\ request_persisted 100 rs_graceful cfg_graceful p_graceful (s2b "1")
     = (mkPw (Some (snap_of (v_st (ended g_v')) (v_ca (ended g_v')))) (v_w g_v') (v_log g_v') false,
        mkResp false SOk (s2b "the end bye") FOk)
  /\ snap_of (v_st (ended g_v')) (v_ca (ended g_v'))
     = (mkState [] [] 10 0 [false; true; true; false; false; false; false; false; true; false; false; false; false; false; false; false] None None,
        mkCache 100 0 [[]] [] []).
Proof. vm_compute. repeat split; reflexivity. Qed.

Example C20_graceful_inv_nonvacuous : end_inv (v_st g_v') (v_ca g_v').
Proof.
  assert (H : v_ca g_v' = cache_run (new_cache 100)
                [OPush; OPush; OAdd (s2b "aa") (s2b "v") 10; OPush; OAdd (s2b "bb") (s2b " bye") 0; OLast])
    by (vm_compute; reflexivity).
  split; [vm_compute; reflexivity|]. split; [|vm_compute; reflexivity].
  rewrite H. apply cache_run_inv; [vm_compute; reflexivity|].
  repeat constructor; vm_compute; reflexivity.
Qed.

(* the next requests of that session: starts at root again, client flag 8 kept *)
Example C20_restart_nonvacuous :
  let p3 := fst (request_persisted 100 rs_graceful cfg_graceful p_graceful (s2b "1")) in
  s_code (store_st p3) = [] /\ s_path (store_st p3) = [] /\ getf (store_st p3) 8 = true
  /\ wf_symb (cfg_root cfg_graceful) = true /\ valid_sym_b (cfg_root cfg_graceful) = true
  /\ (exists rest, rs_code rs_graceful (cfg_root cfg_graceful) = Ok (encode IHalt ++ rest) /\ rest <> [])
  /\ (let '(p4, r4) := request_persisted 100 rs_graceful cfg_graceful p3 [] in
      r4 = mkResp true SOk (s2b "root") FOk /\ s_path (store_st p4) = [s2b "root"]
      /\ c_frames (store_ca p4) = [[]; []] /\ getf (store_st p4) 8 = true).
Proof.
  vm_compute. repeat split; try reflexivity. eexists. split; [reflexivity|discriminate].
Qed.

(* corpus "abnormal-end", second request ("1" at root): foo's code ends after LOAD, READIN clear *)
Example C20_abnormal_nonvacuous :
  c_first cfg_term = None /\ pw_store p_abn = Some (a_st, a_ca)
  /\ accepted_b (s2b "1") = true /\ reset_req cfg_term (s2b "1") = false /\ stale a_st = false
  /\ snd a_run = SOk /\ getf (v_st (fst (fst a_run))) FLAG_TERMINATE = true
  /\ getf (v_st (fst (fst a_run))) FLAG_WAIT = false
  /\ (let '(p2, r2) := request_persisted 100 rs_abn cfg_term p_abn (s2b "1") in
      r2 = mkResp false SOk (s2b "foo") FOk
      /\ getf (store_st p2) FLAG_TERMINATE = true /\ getf (store_st p2) FLAG_DIRTY = false
      /\ s_path (store_st p2) = [s2b "root"; s2b "foo"]
      /\ snd (requests 100 rs_abn cfg_term p2 [[]; s2b "1"; s2b "0"])
         = [mkResp false SOk [] FOk; mkResp false SOk [] FOk; mkResp false SOk [] FOk]
      /\ pw_log (fst (requests 100 rs_abn cfg_term p2 [[]; s2b "1"; s2b "0"])) = pw_log p2).
Proof. vm_compute. repeat split; reflexivity. Qed.

(* the exit-size check: same session, OutputSize 8 < len "the end" + len " bye" *)
Example C20_exit_overflow_nonvacuous :
  let '(p3, r3) := request_persisted 100 rs_graceful cfg_graceful_small p_graceful (s2b "1") in
  r3 = mkResp false SOk [] (FErr EGen) /\ s_path (store_st p3) = [] /\ c_frames (store_ca p3) = [[]].
Proof. vm_compute. repeat split; reflexivity. Qed.

Print Assumptions C20_end_of_run_cases.
Print Assumptions C20_graceful_exec_inner.
Print Assumptions C20_graceful_flush.
Print Assumptions C20_graceful_end.
Print Assumptions C20_graceful_end_state.
Print Assumptions C20_graceful_end_code.
Print Assumptions C20_graceful_end_cache.
Print Assumptions C20_restart_at_entry.
Print Assumptions C20_restart_runs_root.
Print Assumptions C20_restart_halting_root.
Print Assumptions C20_abnormal_end_sets_terminate.
Print Assumptions C20_abnormal_end_request.
Print Assumptions C20_abnormal_end_then_blocked.
Print Assumptions C20_blocked_until_cleared.
Print Assumptions C20_terminated_refuted_first.
Print Assumptions C20_history_store_invariant.
Print Assumptions C20_graceful_end_history_partial.
Print Assumptions C20_graceful_end_history_refuted_anon.
Print Assumptions C20_graceful_end_long.
Print Assumptions C20_graceful_history_nonvacuous.
Print Assumptions C20_graceful_long_nonvacuous.
Print Assumptions C20_browse_only_after_wrap.
Print Assumptions C20_sizer_error_before_menu.
Print Assumptions C20_trailing_empty_row_nonvacuous.
Print Assumptions C20_graceful_nonvacuous.
Print Assumptions C20_graceful_inv_nonvacuous.
Print Assumptions C20_restart_nonvacuous.
Print Assumptions C20_abnormal_nonvacuous.
Print Assumptions C20_exit_overflow_nonvacuous.
