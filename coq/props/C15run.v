(* C15run — Malformed bytecode is rejected with an error, never a crash or a silent accept:
   the VM's OWN decoding path (vm/runner.go: Vm.Run, the run* handlers and their Parse* calls), as
   modelled by VmModel.run (op_split, parse_args, exec_instr).  props/C15.v covers the decoder and the
   disassembler; this file covers what Run does with bytes that do or do not decode.
   Quantification: ALL resources rs, menu separators sep, context languages lang, machines v, byte
   strings code, fuel.  Differential driver: go/cmd/vh/vmrun.go with corr/VmRunCorr.v.

   Vocabulary (definitions in proofs/VmDecodeProofs.v, SymbolProofs.v):
     run_prelude v      the loop's preamble, executed BEFORE the opcode is parsed (runner.go order:
                        TERMINATE test; ResetFlag LANG; ResetFlag WAIT and, if it was set, ResetFlag INMATCH
                        + page reset; SetFlag DIRTY; opSplit)
     only_prelude v v'  v' differs from v by that preamble only (and the page's error/taint):
                        v_log, v_w, v_ca, s_path, s_idx, s_input, s_lang, s_code equal; every flag other than
                        LANG, WAIT, INMATCH, DIRTY equal; LANG = WAIT = false; INMATCH = (if WAIT was set then
                        false else as before); DIRTY = true when index 4 is inside the flag field
     diverts v          getf LOADFAIL && not at _catch: the condition under which runErrCheck replaces an
                        error by "MOVE _catch" and status OK
     decode_error_surfaces v code   (decidable guard)  op_split code fails, or diverts v = false
     run_step / reaches the loop as an iterated step; reaches c c' = the run passes from c to c'
     next_decodes v b   exists i r, decode_one b = Ok (i, r) /\ strict_one b = Some (i, r)
                        /\ (i = INoop -> diverts v = true)
     malformed_diverted the step dropped an instruction whose arguments do not parse (class K-C15-loadfail)
     loadfail_free rs v (guard) no function of rs can fail and LOADFAIL is clear in v; decidable for
                        applications (loadfail_free_b) and trivially true for function-less resources
     panic_cause rs st i n   (n = 20 /\ CATCH/CROAK flag of i outside the flag field of st)
                        \/ ((n = 21 \/ n = 22) /\ some function result of rs names a writeable flag outside it)
     code_total rs      the code getter never panics;  funcs_flags_ok rs st: all function-result flags in range
     decoded_flags_ok   every instruction that decodes at a configuration the run reaches has its
                        CATCH/CROAK flag inside the flag field (per-instruction decidable guard instr_flags_okb;
                        executable check for a concrete case: traj_flags_okb)

   (a) FULL STRENGTH (false of the model and of the code):  TERMINATE clear /\ decode_one code = Err e
         ->  run (S fuel) … code v  ends with status SErr.
       Refuted by C15_run_rejects_malformed_next_refuted_loadfail: with LOADFAIL set (and not at _catch) a
       truncated INCMP is dropped, the VM moves to _catch and Run returns nil (confirmed on the real Vm.Run).
       Proved instead:
       C15_run_rejects_malformed_next_partial: under decode_error_surfaces, the run ends at once with
         SErr EGen None (never SOk, never SPanic), the machine satisfies only_prelude (no event, no function
         call, cache and position unchanged, flags as listed), and the code handed back is the whole code
         (opcode does not split) or the code minus its two opcode bytes (arguments do not parse; the page
         error is set to the unmodelled parse message: taint).
       C15_run_rejects_nonstrict_next: the same for every code the STRICT grammar rejects.
       C15_run_malformed_diverted: outside the guard the exact behaviour: the run continues with
         MOVE _catch on set_page_err (run_prelude v) None.
   (b) FULL STRENGTH (false: same class): run … = (v', rest, SOk) -> every configuration passed through
       has a strictly decodable next instruction.  Proved:
       C15_every_step_decodes_or_diverted (no guard, no fuel): one iteration hands over to the next only after
         an instruction that decodes (decoder and strict grammar) or by a malformed_diverted step.
       C15_run_ok_steps_decodable_or_diverted (no guard): every configuration of a successful run either has
         TERMINATE set (then it is the last one, v' = it, rest = []: pending code dropped unread), or its next
         instruction decodes by decoder AND strict grammar, or its step is a malformed_diverted one.
       C15_run_ok_only_on_decodable_partial: under loadfail_free, every configuration has TERMINATE set (last)
         or a strictly decodable next instruction that is not NOOP.
   (c) C15_run_panic_cause: (cache has a frame, code getter total) a panic of ANY run on ANY bytes is raised
         by EXECUTING an instruction that decoded (decoder and strict grammar) at a reached configuration, with
         panic_cause;  C15_run_panics_only_flag_range: hence n is 20, 21 or 22 — never a decoder site (1, 2, 3);
       C15_run_never_panics_any_bytes: under funcs_flags_ok and decoded_flags_ok no run on any byte string
         panics.  (A failed decode is an error — (a) — not a panic.) *)
From Vise Require Import Bytes Errors Consts EngConsts Codec CacheModel StateModel NavModel RenderModel VmModel
  EngineModel CorrBase EngineCorr VmRunCorr SymbolProofs VmDecodeProofs.
From Vise Require FlagProofs.
Local Open Scope N_scope.

(* ---- the model's decoding IS Codec.decode_one ------------------------------------------------- *)
Theorem C15_run_decodes_with_decode_one : forall b i r,
  decode_one b = Ok (i, r) <-> exists op b1, op_split b = Ok (op, b1) /\ parse_args op b1 = Ok (i, r).
Proof. exact decode_one_ok_split. Qed.

Theorem C15_run_decode_error_split : forall b e,
  decode_one b = Err e ->
  op_split b = Err e \/ exists op b1, op_split b = Ok (op, b1) /\ parse_args op b1 = Err e.
Proof. exact decode_one_err_split. Qed.

Theorem C15_strict_reject_is_decode_error : forall b, strict_one b = None -> exists e, decode_one b = Err e.
Proof. exact strict_none_decode_err. Qed.

(* ---- (a) ---------------------------------------------------------------------------------------- *)
Theorem C15_run_rejects_malformed_next_partial : forall fuel rs sep lang code v e,
  getf (v_st v) FLAG_TERMINATE = false ->
  decode_one code = Err e ->
  decode_error_surfaces v code = true ->
  exists v' rest,
    run (S fuel) rs sep lang code v = (v', rest, SErr EGen None)
    /\ only_prelude v v'
    /\ ((op_split code = Err EGen /\ rest = code /\ v' = run_prelude v)
        \/ (exists op, op_split code = Ok (op, rest) /\ parse_args op rest = Err EGen
            /\ v' = set_page_err (run_prelude v) None)).
Proof. exact run_rejects_malformed_next. Qed.

Theorem C15_run_rejects_nonstrict_next : forall fuel rs sep lang code v,
  getf (v_st v) FLAG_TERMINATE = false ->
  strict_one code = None ->
  decode_error_surfaces v code = true ->
  exists v' rest, run (S fuel) rs sep lang code v = (v', rest, SErr EGen None) /\ only_prelude v v'.
Proof. exact run_rejects_nonstrict_next. Qed.

Theorem C15_run_malformed_diverted : forall fuel rs sep lang code v op b1 e,
  getf (v_st v) FLAG_TERMINATE = false ->
  op_split code = Ok (op, b1) -> parse_args op b1 = Err e ->
  diverts v = true ->
  run (S fuel) rs sep lang code v
  = run fuel rs sep (eff_lang lang (v_st v)) move_catch_code (set_page_err (run_prelude v) None).
Proof. exact run_malformed_diverted. Qed.

(* refutation of the full-strength (a) and (b): LOADFAIL set, position root, truncated INCMP 00 08 01 —
   the bytes neither decode nor are accepted by the strict grammar, the guard is false, and the run
   reports success from _catch *)
Example C15_run_rejects_malformed_next_refuted_loadfail :
  getf (v_st (vr_init loadfail_case)) FLAG_TERMINATE = false
  /\ decode_one (vr_code loadfail_case) = Err EGen
  /\ strict_one (vr_code loadfail_case) = None
  /\ decode_error_surfaces (vr_init loadfail_case) (vr_code loadfail_case) = false
  /\ (let '(v, b, s) := vr_model loadfail_case in (s, b, s_path (v_st v), v_taint v))
     = (SOk, [], [s2b "root"; s2b "_catch"], true).
Proof. vm_compute. auto 6. Qed.

(* ---- (b) ---------------------------------------------------------------------------------------- *)
(* step level, no fuel involved: the loop never hands over to a next iteration after bytes that do not
   decode, except by the diversion *)
Theorem C15_every_step_decodes_or_diverted : forall rs sep lang b v l1 b1 v1,
  run_step rs sep lang b v = Next l1 b1 v1 ->
  next_decodes v b \/ malformed_diverted lang b v l1 b1 v1.
Proof. exact step_next_decodes. Qed.

Theorem C15_run_ok_steps_decodable_or_diverted : forall rs sep fuel lang code v v' rest,
  run fuel rs sep lang code v = (v', rest, SOk) ->
  forall l1 b1 v1, reaches rs sep (lang, code, v) (l1, b1, v1) ->
    (getf (v_st v1) FLAG_TERMINATE = true /\ v' = v1 /\ rest = [])
    \/ next_decodes v1 b1
    \/ (exists l2 b2 v2, run_step rs sep l1 b1 v1 = Next l2 b2 v2 /\ malformed_diverted l1 b1 v1 l2 b2 v2).
Proof. exact run_ok_steps_decodable. Qed.

Theorem C15_run_ok_only_on_decodable_partial : forall rs sep fuel lang code v v' rest,
  loadfail_free rs v ->
  run fuel rs sep lang code v = (v', rest, SOk) ->
  forall l1 b1 v1, reaches rs sep (lang, code, v) (l1, b1, v1) ->
    (getf (v_st v1) FLAG_TERMINATE = true /\ v' = v1 /\ rest = [])
    \/ (exists i r, decode_one b1 = Ok (i, r) /\ strict_one b1 = Some (i, r) /\ i <> INoop).
Proof. exact run_ok_only_on_decodable_partial. Qed.

(* the guard is decidable for applications, and holds for function-less resources *)
Theorem C15_loadfail_free_decidable : forall a v, loadfail_free_b a v = true -> loadfail_free (app_rsrc a) v.
Proof. exact loadfail_free_b_sound. Qed.
Theorem C15_loadfail_free_surfaces : forall rs v code, loadfail_free rs v -> decode_error_surfaces v code = true.
Proof. exact loadfail_free_surfaces. Qed.
Theorem C15_loadfail_free_driver : forall v, getf (v_st v) FLAG_LOADFAIL = false -> loadfail_free empty_rsrc v.
Proof. exact empty_rsrc_loadfail_free. Qed.

(* the resource the vmrun driver uses since the follow-up (one entry function "lds" that cannot fail) *)
Theorem C15_loadfail_free_driver_lds : forall v, getf (v_st v) FLAG_LOADFAIL = false -> loadfail_free vr_rsrc v.
Proof. exact vr_rsrc_loadfail_free. Qed.
Theorem C15_driver_lds_guards : code_total vr_rsrc /\ forall st, funcs_flags_ok vr_rsrc st.
Proof. exact (conj vr_rsrc_total vr_rsrc_funcs_flags_ok). Qed.

(* ---- (c) ---------------------------------------------------------------------------------------- *)
Theorem C15_run_panic_cause : forall rs sep fuel lang code v v' rest n,
  c_frames (v_ca v) <> [] -> code_total rs ->
  run fuel rs sep lang code v = (v', rest, SPanic n) ->
  exists l1 b1 v1 i r,
    reaches rs sep (lang, code, v) (l1, b1, v1)
    /\ decode_one b1 = Ok (i, r) /\ strict_one b1 = Some (i, r)
    /\ panic_cause rs (v_st v) i n.
Proof. exact run_panic_cause. Qed.

Theorem C15_run_panics_only_flag_range : forall rs sep fuel lang code v v' rest n,
  c_frames (v_ca v) <> [] -> code_total rs ->
  run fuel rs sep lang code v = (v', rest, SPanic n) -> n = 20 \/ n = 21 \/ n = 22.
Proof. exact run_panics_only_flag_range. Qed.

Theorem C15_run_never_panics_any_bytes : forall rs sep fuel lang code v,
  c_frames (v_ca v) <> [] -> code_total rs -> funcs_flags_ok rs (v_st v) ->
  decoded_flags_ok rs sep lang code v ->
  forall n, snd (run fuel rs sep lang code v) <> SPanic n.
Proof. exact run_never_panics_any_bytes. Qed.

(* the guards are decidable: per instruction (instr_flags_okb), along a concrete run (traj_flags_okb),
   and for applications (code getter total, function flags by funcs_flags_okb) *)
Theorem C15_decoded_flags_ok_checkable : forall m rs sep lang code v,
  traj_flags_okb m rs sep (v_st v) lang code v = true -> decoded_flags_ok rs sep lang code v.
Proof. exact traj_decoded_flags_ok. Qed.
Theorem C15_code_total_app : forall a, code_total (app_rsrc a).
Proof. exact code_total_app. Qed.
Theorem C15_funcs_flags_ok_decidable : forall a st, funcs_flags_okb a st = true -> funcs_flags_ok (app_rsrc a) st.
Proof. exact funcs_flags_okb_sound. Qed.

(* ---- (d) non-vacuity and regression ------------------------------------------------------------- *)
(* the seeded change C15-m3: INMATCH and READIN set (flags [0;1]), input "1", at root, truncated INCMP
   00 08 01.  The hypotheses of (a) hold; the model answers an error, position and log unchanged, flags
   READIN|INMATCH|DIRTY (0x13), the code after the opcode handed back *)
Example C15_m3_scenario :
  getf (v_st (vr_init m3_case)) FLAG_TERMINATE = false
  /\ decode_one (vr_code m3_case) = Err EGen
  /\ decode_error_surfaces (vr_init m3_case) (vr_code m3_case) = true
  /\ (let '(v, b, s) := vr_model m3_case in
      (s, b, s_path (v_st v), s_idx (v_st v), v_log v, flag_bytes (s_flags (v_st v))))
     = (SErr EGen None, [1], [s2b "root"], 0, [], [19; 0]).
Proof. vm_compute. auto 6. Qed.

(* (a) applied to it, for every fuel *)
Theorem C15_m3_rejected_all_fuel : forall fuel,
  exists v' rest,
    run (S fuel) empty_rsrc [] None (vr_code m3_case) (vr_init m3_case) = (v', rest, SErr EGen None)
    /\ only_prelude (vr_init m3_case) v'.
Proof. exact m3_rejected_all_fuel. Qed.

(* a valid program MOVE foo / HALT runs to success; both configurations it passes through have a
   strictly decodable next instruction; all guards of (b) and (c) hold *)
Example C15_valid_run :
  (let '(v, b, s) := vr_model valid_case in (s, b, s_path (v_st v), v_log v))
  = (SOk, [], [s2b "root"; s2b "foo"], [EvInstr op_HALT; EvMove 0 (s2b "foo") (s2b "foo"); EvInstr op_MOVE])
  /\ strict_one (vr_code valid_case) = Some (IMove (s2b "foo"), encode IHalt)
  /\ option_map (fun '(_, b, _) => strict_one b) (iter_step 1 empty_rsrc [] (None, vr_code valid_case, vr_init valid_case))
     = Some (Some (IHalt, []))
  /\ getf (v_st (vr_init valid_case)) FLAG_LOADFAIL = false
  /\ traj_flags_okb 10 empty_rsrc [] (v_st (vr_init valid_case)) None (vr_code valid_case) (vr_init valid_case) = true.
Proof. vm_compute. auto 6. Qed.

Theorem C15_valid_never_panics : forall fuel n,
  snd (run fuel empty_rsrc [] None (vr_code valid_case) (vr_init valid_case)) <> SPanic n.
Proof. exact valid_never_panics. Qed.

(* the panic of (c) exists: a COMPLETE "CATCH foo 200 1" on a 16-bit flag field panics at site 20
   (State.GetFlag) while executing; its per-instruction guard is false *)
Example C15_flag_range_panic :
  (let '(v, b, s) := vr_model flag_case in (s, v_log v)) = (SPanic 20, [EvInstr op_CATCH])
  /\ decode_one (vr_code flag_case) = Ok (ICatch (s2b "foo") 200 true, encode IHalt)
  /\ instr_flags_okb (v_st (vr_init flag_case)) (ICatch (s2b "foo") 200 true) = false
  /\ traj_flags_okb 10 empty_rsrc [] (v_st (vr_init flag_case)) None (vr_code flag_case) (vr_init flag_case) = false.
Proof. vm_compute. auto 6. Qed.

Print Assumptions C15_run_decodes_with_decode_one.
Print Assumptions C15_run_decode_error_split.
Print Assumptions C15_strict_reject_is_decode_error.
Print Assumptions C15_run_rejects_malformed_next_partial.
Print Assumptions C15_run_rejects_nonstrict_next.
Print Assumptions C15_run_malformed_diverted.
Print Assumptions C15_run_rejects_malformed_next_refuted_loadfail.
Print Assumptions C15_every_step_decodes_or_diverted.
Print Assumptions C15_run_ok_steps_decodable_or_diverted.
Print Assumptions C15_run_ok_only_on_decodable_partial.
Print Assumptions C15_loadfail_free_decidable.
Print Assumptions C15_loadfail_free_surfaces.
Print Assumptions C15_loadfail_free_driver.
Print Assumptions C15_loadfail_free_driver_lds.
Print Assumptions C15_driver_lds_guards.
Print Assumptions C15_run_panic_cause.
Print Assumptions C15_run_panics_only_flag_range.
Print Assumptions C15_run_never_panics_any_bytes.
Print Assumptions C15_decoded_flags_ok_checkable.
Print Assumptions C15_code_total_app.
Print Assumptions C15_funcs_flags_ok_decidable.
Print Assumptions C15_m3_scenario.
Print Assumptions C15_m3_rejected_all_fuel.
Print Assumptions C15_valid_run.
Print Assumptions C15_valid_never_panics.
Print Assumptions C15_flag_range_panic.
